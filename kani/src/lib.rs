//! K: plain Kani harnesses on the real compiled code, each over a FULL finite domain (every byte, every char,
//! every variant), so a pass is a complete proof for that domain. No contracts attributes (measured: unusable here).

#[cfg(kani)]
mod harnesses {
    use percent_encoding::percent_encode;
    use purl::qualifiers::verif_qualifiers as vq;
    use purl::{verif_format, verif_lib, PackageType, PurlShape};

    /// C03's escaping table, written from the statement
    fn escaped(set: usize, b: u8) -> bool {
        if b < 0x20 || b == 0x7f || b == b' ' || b >= 0x80 {
            return true;
        }
        if matches!(b, b'"' | b'<' | b'>' | b'%' | b'@' | b'?' | b'#') {
            return true;
        }
        match set {
            0 => matches!(b, b'`' | b'{' | b'}'),            // namespace, version
            1 => matches!(b, b'`' | b'{' | b'}' | b'/'),     // name
            2 => matches!(b, b'+' | b'&'),                   // qualifier keys and values
            _ => b == b'`',                                  // subpath
        }
    }

    fn hex_upper(n: u8) -> u8 {
        if n < 10 { b'0' + n } else { b'A' + (n - 10) }
    }

    fn check_set(set: usize) {
        let b: u8 = kani::any();
        let input = [b];
        let mut out = [0u8; 4];
        let mut n = 0usize;
        for chunk in percent_encode(&input, verif_format::escape_set(set)) {
            for &c in chunk.as_bytes() {
                assert!(n < 4);
                out[n] = c;
                n += 1;
            }
        }
        if escaped(set, b) {
            assert!(n == 3 && out[0] == b'%' && out[1] == hex_upper(b >> 4) && out[2] == hex_upper(b & 15));
        } else {
            assert!(n == 1 && out[0] == b);
        }
    }

    #[kani::proof]
    #[kani::unwind(5)]
    fn escape_set_path() { check_set(0) }
    #[kani::proof]
    #[kani::unwind(5)]
    fn escape_set_segment() { check_set(1) }
    #[kani::proof]
    #[kani::unwind(5)]
    fn escape_set_query() { check_set(2) }
    #[kani::proof]
    #[kani::unwind(5)]
    fn escape_set_fragment() { check_set(3) }

    /// every char, as a one-char string
    #[kani::proof]
    #[kani::unwind(6)]
    fn type_char() {
        let c: char = kani::any();
        let mut buf = [0u8; 4];
        let s: &str = c.encode_utf8(&mut buf);
        let want = c.is_ascii_alphanumeric() || c == '.' || c == '+' || c == '-';
        assert!(verif_lib::is_valid_package_type(s) == want);
    }

    #[kani::proof]
    #[kani::unwind(6)]
    fn key_char() {
        let c: char = kani::any();
        let mut buf = [0u8; 4];
        let s: &str = c.encode_utf8(&mut buf);
        let want = c.is_ascii_alphanumeric() || c == '.' || c == '-' || c == '_';
        assert!(vq::is_valid_qualifier_name(s) == want);
    }

    #[kani::proof]
    #[kani::unwind(8)]
    fn empty_is_invalid() {
        assert!(!verif_lib::is_valid_package_type(""));
        assert!(!vq::is_valid_qualifier_name(""));
    }

    fn variant(i: u8) -> PackageType {
        match i {
            0 => PackageType::Cargo,
            1 => PackageType::Gem,
            2 => PackageType::Golang,
            3 => PackageType::Maven,
            4 => PackageType::Npm,
            5 => PackageType::NuGet,
            _ => PackageType::PyPI,
        }
    }

    const NAMES: [&str; 7] = ["cargo", "gem", "golang", "maven", "npm", "nuget", "pypi"];

    fn same(a: &[u8], b: &[u8]) -> bool {
        if a.len() != b.len() {
            return false;
        }
        let mut i = 0;
        while i < a.len() {
            if a[i] != b[i] {
                return false;
            }
            i += 1;
        }
        true
    }

    /// all seven variants: name(), AsRef, From agree with the table; names are valid lower-case types
    #[kani::proof]
    #[kani::unwind(8)]
    fn package_type_names() {
        let i: u8 = kani::any();
        kani::assume(i < 7);
        let t = variant(i);
        let n = t.name().as_bytes();
        assert!(same(n, NAMES[i as usize].as_bytes()));
        let r: &str = t.as_ref();
        assert!(same(r.as_bytes(), n));
        let f: &'static str = t.into();
        assert!(same(f.as_bytes(), n));
        let mut k = 0;
        while k < n.len() {
            assert!(n[k].is_ascii_lowercase());
            k += 1;
        }
        let _ = <PackageType as PurlShape>::package_type;
    }
}
