#!/bin/sh
# Build the framework from files on disk only (offline). Warms the cargo / kani / verus caches; the checks rebuild from
# /repo's current working tree on every run anyway.
set -e
cd "$(dirname "$0")"
export CARGO_NET_OFFLINE=true
mkdir -p evidence/extracted replay .build
sed "s#@REPO@#/repo#" bounded/Cargo.toml.in > bounded/Cargo.toml
cp /repo/Cargo.lock bounded/Cargo.lock
(cd bounded && cargo build --release --offline --target-dir ../.build/bounded >/dev/null 2>&1) || echo "setup: bounded crate build failed (checks will report it)"
sed "s#@REPO@#/repo#" kani/Cargo.toml.in > kani/Cargo.toml
cp /repo/Cargo.lock kani/Cargo.lock
(cd kani && cargo kani --target-dir ../.build/kani --output-format terse --harness empty_is_invalid >/dev/null 2>&1) || echo "setup: kani warm-up failed (checks will report it)"
verus --version >/dev/null
echo "setup done"
