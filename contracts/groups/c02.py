# Lemmas only: C02 -- every permitted spelling of a component tuple parses to the tuple (contracts/theory/c02a.rs .. c02c.rs)
import importlib.util, os
_spec = importlib.util.spec_from_file_location('_common', os.path.join(os.path.dirname(__file__), '_common.py'))
_c = importlib.util.module_from_spec(_spec); _spec.loader.exec_module(_c)

_c01 = _c.sibling('c01').GROUP
# everything group c01 declares, with ITS theorems imported by contract (they are proved there)
_IMPORT = {'theory.c01': 'c01.rs', 'theory.c01_typed': 'c01_typed.rs', 'theory.c09': 'c09.rs', 'theory.c08': 'c08.rs',
           'theory.c16': 'c16.rs', 'theory.pypi_idem': 'pypi_idem.rs', 'theory.segs_lemmas': 'segs_lemmas.rs'}
_units = []
for _u in _c01['units']:
    if _u['id'] in _IMPORT:
        _units.append(dict(_u, text=_c.lemmas_contract_only(_c.theory_text(_IMPORT[_u['id']]), 'c01' if _u['id'] != 'theory.segs_lemmas' else 'parse_seg')))
    elif _u['id'] == 'theory.c07':
        _units.append(dict(_u, text=_c.lemmas_contract_only(_u['text'], 'parse')))
    else:
        _units.append(_u)

GROUP = dict(
    name='c02',
    theory=['base.rs', 'split.rs'],
    rlimit=100,
    uses=_c01['uses'],
    canary=_c01['canary'],
    # vacuity guards: the hypotheses of the theorems with `ensures false` -- must be REJECTED (and lemma_c02_witness PROVES that
    # spelling_ok holds of a concrete spelling using every freedom at once)
    vacuity='''
pub proof fn verif_vacuity_c02_plain_must_fail<T: FromStr + PurlShape>(sp: Spelling, r: Result<GenericPurl<T>, <T as PurlShape>::Error>)
    where <T as PurlShape>::Error: From<<T as FromStr>::Err>
    requires plain_shape::<T>(), spelling_ok(sp), parse_post::<T>(spelled(sp), r),
    ensures false
{ }
pub proof fn verif_vacuity_c02_typed_must_fail(sp: Spelling, t: PackageType, r: Result<GenericPurl<PackageType>, PackageError>)
    requires spelling_ok(sp), sp_type(sp) == type_name(t), t == PackageType::Maven ==> sp_ns(sp).len() > 0, parse_post::<PackageType>(spelled(sp), r),
    ensures false
{ }
pub proof fn verif_vacuity_c02_same_must_fail<T: FromStr + PurlShape>(s1: Spelling, s2: Spelling, r1: Result<GenericPurl<T>, <T as PurlShape>::Error>, r2: Result<GenericPurl<T>, <T as PurlShape>::Error>)
    where <T as PurlShape>::Error: From<<T as FromStr>::Err>
    requires plain_shape::<T>(), spelling_ok(s1), spelling_ok(s2), same_components(s1, s2), parse_post::<T>(spelled(s1), r1), parse_post::<T>(spelled(s2), r2),
    ensures false
{ }
pub proof fn verif_vacuity_c02_raw_must_fail(w: Raw)
    requires raw_ok(w)
    ensures false
{ }
''',
    units=_units + [
        dict(id='theory.qualuniq', kind='raw', text=_c.lemmas_contract_only(_c.theory_text('qualuniq.rs'), 'qual')),
        dict(id='theory.c02a', kind='raw', text=_c.theory_text('c02a.rs')),
        dict(id='theory.c02b', kind='raw', text=_c.theory_text('c02b.rs')),
        dict(id='theory.c02c', kind='raw', text=_c.theory_text('c02c.rs')),
        dict(id='theory.c02w', kind='raw', text=_c.theory_text('c02w.rs')),
    ],
)
