# Lemmas only: C02 -- every permitted spelling of a component tuple parses to the tuple (contracts/theory/c02a.rs .. c02c.rs)
import importlib.util, os
_spec = importlib.util.spec_from_file_location('_common', os.path.join(os.path.dirname(__file__), '_common.py'))
_c = importlib.util.module_from_spec(_spec); _spec.loader.exec_module(_c)

_c01 = _c.sibling('c01').GROUP
# everything group c01 declares, with ITS theorems imported by contract (they are proved there)
_IMPORT = {'theory.c01': 'c01.rs', 'theory.c01_typed': 'c01_typed.rs', 'theory.c09': 'c09.rs', 'theory.c08': 'c08.rs',
           'theory.c16': 'c16.rs', 'theory.pypi_idem': 'pypi_idem.rs', 'theory.segs_lemmas': 'segs_lemmas.rs'}
_units = []
for _u in _c01['units']:
    if _u['id'] in _IMPORT:
        _units.append(dict(_u, text=_c.lemmas_contract_only(_c.theory_text(_IMPORT[_u['id']]), 'c01' if _u['id'] != 'theory.segs_lemmas' else 'parse_seg')))
    elif _u['id'] == 'theory.c07':
        _units.append(dict(_u, text=_c.lemmas_contract_only(_u['text'], 'parse')))
    else:
        _units.append(_u)

GROUP = dict(
    name='c02',
    theory=['base.rs', 'split.rs'],
    rlimit=100,
    uses=_c01['uses'],
    canary=_c01['canary'],
    units=_units + [
        dict(id='theory.c02a', kind='raw', text=_c.theory_text('c02a.rs')),
        dict(id='theory.c02b', kind='raw', text=_c.theory_text('c02b.rs')),
    ],
)
