# U-dq, U-parse: decode_qualifiers, FromStr::from_str (purl/src/parse.rs) -- C02, C05, C07, C14, C04, C08
import importlib.util, os
_spec = importlib.util.spec_from_file_location('_common', os.path.join(os.path.dirname(__file__), '_common.py'))
_c = importlib.util.module_from_spec(_spec); _spec.loader.exec_module(_c)

F = 'purl/src/parse.rs'

GROUP = dict(
    name='parse',
    theory=['base.rs', 'split.rs'],
    rlimit=100,
    uses='use core::cmp::Ordering;\nuse core::marker::PhantomData;',
    canary='    axiom_string_from(); broadcast use axiom_ascii_to_lower; broadcast use axiom_view_of_str;',
    post=_c.theory_text('segs_lemmas.rs') + '''
/// C07, as stated, for every string the two phases accept: the reported namespace and subpath are '/'-joins of clean segments
/// (none empty, none containing '/', subpath segments not '.' or '..'), or absent
pub proof fn lemma_c07_of_phases(s: Seq<char>)
    requires phase_a(s) is Ok, phase_b(phase_a(s)->Ok_0.rest) is Ok
    ensures ({
        let a = phase_a(s)->Ok_0;
        let b = phase_b(a.rest)->Ok_0;
        (b.ns.len() == 0 || exists|segs: Seq<Seq<char>>| #![auto] segs.len() > 0 && b.ns == join_segs(segs) && split_spec(b.ns, '/') == segs
            && forall|i: int| 0 <= i < segs.len() ==> clean_ns_seg(#[trigger] segs[i]))
        && (a.sub.len() == 0 || exists|segs: Seq<Seq<char>>| #![auto] segs.len() > 0 && a.sub == join_segs(segs) && split_spec(a.sub, '/') == segs
            && forall|i: int| 0 <= i < segs.len() ==> clean_sub_seg(#[trigger] segs[i]))
    })
{
    let a = phase_a(s)->Ok_0;
    let b = phase_b(a.rest)->Ok_0;
    // subpath
    let s1 = trim_start_spec(s.subrange("pkg:"@.len() as int, s.len() as int), '/');
    match rsplit_at(s1, '#').1 {
        None => { assert(a.sub.len() == 0); },
        Some(x) => {
            let ps = split_spec(trim_spec(x, '/'), '/');
            lemma_c07_subpath(ps);
            lemma_sub_fold_shape(ps);
            if sub_segs(ps).len() > 0 { assert(a.sub == join_segs(sub_segs(ps))); }
        },
    }
    // namespace
    let r1 = rsplit_at(a.rest, '@').0;
    if last_index_of(r1, '/') >= 0 {
        let x = r1.subrange(0, last_index_of(r1, '/'));
        let ps = split_spec(trim_spec(x, '/'), '/');
        lemma_c07_namespace(ps);
        lemma_ns_fold_shape(ps);
        if ns_segs(ps).len() > 0 { assert(b.ns == join_segs(ns_segs(ps))); }
    } else { assert(b.ns.len() == 0); }
}
''',
    units=[_c.PURL_FIELD, _c.PARSE_ERROR, _c.QUALIFIER_KEY, _c.QUALIFIERS, _c.PURL_PARTS,
           _c.unit_of('qual', 'T.MixedQualifierKey'), _c.unit_of('qual', 'theory.qual'),
           _c.unit_of('qual', 'spec.Qualifiers'),
           _c.unit_of('qual', 'T.OccupiedEntry'), _c.unit_of('qual', 'T.VacantEntry'), _c.unit_of('qual', 'T.Entry'),
           _c.unit_of('qual', 'spec.entries'),
           dict(id='theory.types', kind='raw', text=_c.theory_text('types.rs')),
           dict(id='theory.segs', kind='raw', text=_c.theory_text('segs.rs')),
           dict(id='theory.dq', kind='raw', text=_c.theory_text('dq.rs')),
           dict(id='theory.cksum', kind='raw', text=_c.theory_text('cksum.rs')),
           _c.unit_of('cksum', 'T.Checksum'), _c.unit_of('cksum', 'spec.Checksum'),
           _c.unit_of('qual', 'T.KnownQualifierKey'),
           dict(id='T.GenericPurlBuilder', kind='struct', name='GenericPurlBuilder', file='purl/src/builder.rs'),
           dict(id='T.GenericPurl', kind='struct', name='GenericPurl', file='purl/src/lib.rs'),
           _c.unit_of('builder', 'stub.builder'),
           _c.PURL_SHAPE,
           dict(id='theory.build', kind='raw', text=_c.theory_text('build.rs')),
           dict(id='theory.parse_phase', kind='raw', text=_c.theory_text('parse_phase.rs')),
           dict(id='theory.parse', kind='raw', text=_c.theory_text('parse.rs')),
           _c.unit_of('parse_seg', 'U-dec.decode'),
           _c.contract_only('parse_seg', 'U-sub.decode_subpath'),
           _c.contract_only('parse_seg', 'U-ns.decode_namespace'),
           _c.contract_only('lib_shape', 'U-vtype.is_valid_package_type'),
           _c.contract_only('builder', 'U-build.build'),
           _c.contract_only('qual', 'U-qmap.entry'),
           _c.contract_only('qual', 'U-qmap.VacantEntry.insert'),
           dict(id='U-dq.decode_qualifiers', file=F, fn='decode_qualifiers', properties=['C02', 'C05', 'C06', 'C04', 'C01', 'C09'],
                attrs='#[verifier::loop_isolation(false)]',
                contract='''    requires old(parts).qualifiers.wf()
    ensures
        final(parts).qualifiers.wf(),
        // frame: only the qualifiers are touched
        final(parts).namespace == old(parts).namespace, final(parts).name == old(parts).name,
        final(parts).version == old(parts).version, final(parts).subpath == old(parts).subpath,
        match r {
            Ok(_) => dq_fold(split_spec(s@, '&'), kvs(old(parts).qualifiers.qualifiers@)) == Ok::<KV, DqErr>(kvs(final(parts).qualifiers.qualifiers@)),
            Err(e) => dq_fold(split_spec(s@, '&'), kvs(old(parts).qualifiers.qualifiers@)) is Err
                && dq_err(e, dq_fold(split_spec(s@, '&'), kvs(old(parts).qualifiers.qualifiers@))->Err_0),
        }''',
                begin='''    broadcast use axiom_view_of_str;
    broadcast use axiom_string_of_cow;
    proof { axiom_string_from(); }
    let ghost acc0 = kvs(parts.qualifiers.qualifiers@);''',
                rw=[('R3', r"for qualifier in s\.split\(('.')\)", r"let pieces = x_split(s, \1);\n    let ghost ps = split_spec(s@, \1);\n    for qualifier in it: pieces", 1),
                    ('R3', r"qualifier\.split_once\(('.')\)", r"x_split_once(qualifier, \1)", '*'),
                    ('R3', r"qualifier\.rsplit_once\(('.')\)", r"x_rsplit_once(qualifier, \1)", '*'),
                    ],
                loops={0: '''
        invariant
            it.seq() == pieces@, pieces@.len() == ps.len(),
            forall|i: int| 0 <= i < pieces@.len() ==> (#[trigger] pieces@[i])@ == ps[i],
            parts.qualifiers.wf(),
            parts.namespace == old(parts).namespace, parts.name == old(parts).name,
            parts.version == old(parts).version, parts.subpath == old(parts).subpath,
            dq_fold(ps.take(it.index@ as int), acc0) == Ok::<KV, DqErr>(kvs(parts.qualifiers.qualifiers@)),
'''},
                hints=[(r"if let Some\(\(k, v\)\) = ", 'before', '''        let ghost cur = parts.qualifiers.qualifiers@;
        proof {
            assert(qualifier@ == ps[it.index@ as int]);
            assert(ps.take(it.index@ + 1).drop_last() == ps.take(it.index@ as int));
            assert(ps.take(it.index@ + 1).last() == qualifier@);
            if dq_fold(ps.take(it.index@ + 1), acc0) is Err { lemma_dq_fold_err(ps, acc0, it.index@ + 1); }
            lemma_kvs_pos_of(cur, lower_ascii_seq(qualifier@.subrange(0, first_index_of(qualifier@, '='))));
        }'''),
                       (r'Ok\(\(\)\)\s*\}\s*$', 'before', '    proof { assert(ps.take(ps.len() as int) == ps); }')],
                ),
           # R2: `impl<T> FromStr for GenericPurl<T> { fn from_str }` hoisted to a free function
           dict(id='U-parse.from_str', file=F, fn='from_str', ctx=r'impl<T> FromStr for GenericPurl<T>',
                properties=['C02', 'C05', 'C07', 'C14', 'C04', 'C08', 'C01', 'C06', 'C13', 'C09'],
                sig_rw=[('R2', r'fn from_str\(s: &str\) -> Result<Self, Self::Err>',
                         'fn purl_from_str<T>(s: &str) -> Result<GenericPurl<T>, <T as PurlShape>::Error> where T: FromStr + PurlShape, <T as PurlShape>::Error: From<<T as FromStr>::Err>', 1)],
                contract='    ensures parse_post::<T>(s@, r)',
                begin='''    broadcast use axiom_string_of_cow;
    proof { axiom_string_from(); }
    let ghost s0 = s@;''',
                rw=[('R3', r's\.strip_prefix\(("[^"]*")\)', r'x_strip_prefix(s, \1)', '*'),
                    ('R3', r"s\.trim_start_matches\(('.')\)", r"x_trim_start_matches(s, \1)", '*'),
                    ('R3', r"s\.rsplit_once\(('.')\)", r"x_rsplit_once(s, \1)", '*'),
                    ('R3', r"s\.split_once\(('.')\)", r"x_split_once(s, \1)", '*'),
                    ('R3', r"s\.rsplit_once\(('.')\)", r"x_rsplit_once(s, \1)", '*'),
                    # R8: `e?` written out where the error is converted with From (the converted value matters to the contract)
                    ('R8', r'(x_strip_prefix\(s, "[^"]*"\)\.ok_or\(ParseError::\w+\))\?', r'(match \1 { Ok(v_) => v_, Err(e_) => return Err(From::from(e_)) })', '*'),
                    ('R8', r'(decode_subpath\(subpath\))\?', r'(match \1 { Ok(v_) => v_, Err(e_) => return Err(From::from(e_)) })', '*'),
                    ('R8', r'(decode_qualifiers\(qualifiers, &mut parts\))\?', r'(match \1 { Ok(v_) => v_, Err(e_) => return Err(From::from(e_)) })', '*'),
                    ('R8', r"(x_r?split_once\(s, '.'\)\.ok_or\(ParseError::MissingRequiredField\(PurlField::\w+\)\))\?", r'(match \1 { Ok(v_) => v_, Err(e_) => return Err(From::from(e_)) })', '*'),
                    ('R8', r'(T::from_str\(package_type\))\?', r'(match \1 { Ok(v_) => v_, Err(e_) => return Err(From::from(e_)) })', '*'),
                    ('R8', r'(decode\(version\))\?', r'(match \1 { Ok(v_) => v_, Err(e_) => return Err(From::from(e_)) })', '*'),
                    ('R8', r'(decode_namespace\(namespace\))\?', r'(match \1 { Ok(v_) => v_, Err(e_) => return Err(From::from(e_)) })', '*'),
                    ('R8', r'(decode\(name\))\?', r'(match \1 { Ok(v_) => v_, Err(e_) => return Err(From::from(e_)) })', '*'),
                    ],
                hints=[
                    (r'let mut parts = PurlParts::default\(\);', 'after', '''        let ghost s1 = s@;
        proof {
            assert(kvs(parts.qualifiers.qualifiers@) =~= Seq::<(Seq<char>, Seq<char>)>::empty());
            assert(wf_seq(parts.qualifiers.qualifiers@));
        }'''),
                    (r"let s = match x_rsplit_once\(s, '\?'\)", 'before', '''        let ghost s2 = s@;
        proof { assert(s2 == rsplit_at(s1, '#').0); assert(kvs(parts.qualifiers.qualifiers@) =~= Seq::<(Seq<char>, Seq<char>)>::empty()); }'''),
                    (r'if s\.is_empty\(\) \{', 'before', '''        let ghost s3 = s@;
        proof { assert(s3 == rsplit_at(s2, '?').0); }'''),
                    (r'let package_type = \(match T::from_str', 'before', '''        let ghost pa = phase_a(s0)->Ok_0;
        proof {
            assert(phase_a(s0) is Ok);
            assert(pa.ty == package_type@ && pa.rest == s@ && pa.sub == parts.subpath@ && pa.kv == kvs(parts.qualifiers.qualifiers@));
        }'''),
                    (r"let s = match x_rsplit_once\(s, '@'\)", 'before', '''        let ghost t0 = package_type;
        let ghost rest = s@;'''),
                    (r'GenericPurlBuilder \{ package_type, parts \}\.build\(\)', 'before', '''        proof {
            assert(phase_b(rest) is Ok);
            let b = phase_b(rest)->Ok_0;
            assert(parts.version@ =~= b.version);
            assert(parts.namespace@ =~= b.ns);
            assert(parts.name@ =~= b.name);
            assert(parts_are(parts, pa, b));
        }'''),
                ],
                ),
    ],
)
