# U-fmt: Display::fmt for GenericPurl<T> (purl/src/format.rs) -- C03 (shape), C01, C06 (documented panic)
import importlib.util, os
_spec = importlib.util.spec_from_file_location('_common', os.path.join(os.path.dirname(__file__), '_common.py'))
_c = importlib.util.module_from_spec(_spec); _spec.loader.exec_module(_c)

F = 'purl/src/format.rs'

GROUP = dict(
    name='fmt',
    theory=['base.rs'],
    rlimit=300,
    uses='use core::cmp::Ordering;\nuse core::slice;',
    canary='    axiom_string_from(); broadcast use axiom_ascii_to_lower;',
    units=[_c.PURL_FIELD, _c.PARSE_ERROR, _c.QUALIFIER_KEY, _c.QUALIFIERS, _c.PURL_PARTS,
           dict(id='theory.qualkeys', kind='raw', text=_c.theory_text('qualkeys.rs')),
           dict(id='theory.types', kind='raw', text=_c.theory_text('types.rs')),
           _c.PURL_SHAPE,
           dict(id='T.GenericPurl', kind='struct', name='GenericPurl', file='purl/src/lib.rs'),
           dict(id='theory.split_wrappers', kind='raw', text=_c.theory_text('split.rs')[_c.theory_text('split.rs').index('/// `Some(s).filter'):_c.theory_text('split.rs').index('/// `format!("{}<sep>{}"')]),
           dict(id='T.QualifierKey.Deref', kind='block', file='purl/src/qualifiers.rs', header=r'impl Deref for QualifierKey',
                rw=[('R0', r'impl Deref for', 'impl core::ops::Deref for', 1),
                    ('R10', r'fn deref\(&self\) -> &Self::Target \{', 'fn deref(&self) -> (r: &str)\n        ensures r@ == self.0@\n    {', 1)]),
           dict(id='theory.enc', kind='raw', text=_c.theory_text('enc.rs')),
           dict(id='theory.fmt', kind='raw', text=_c.theory_text('fmt.rs')),
           dict(id='theory.canon', kind='raw', text=_c.theory_text('canon.rs')),
           _c.contract_only('lib_shape', 'U-vtype.is_valid_package_type'),
           _c.contract_only('qual', 'U-qmap.is_empty'),
           _c.unit_of('qual', 'T.Iter'), _c.unit_of('qual', 'spec.Iter'),
           _c.contract_only('qual', 'U-qmap.into_iter'),
           _c.contract_only('qual', 'U-qmap.Iter.next'),
           _c.contract_only('purl', 'U-acc.package_type'),
           _c.contract_only('purl', 'U-acc.namespace'),
           _c.contract_only('purl', 'U-acc.name'),
           _c.contract_only('purl', 'U-acc.version'),
           _c.contract_only('purl', 'U-acc.subpath'),
           # R2: `impl<T> fmt::Display for GenericPurl<T> { fn fmt }` hoisted to a free function
           dict(id='U-fmt.fmt', file=F, fn='fmt', ctx=r'impl<T> fmt::Display for GenericPurl<T>',
                properties=['C03', 'C01', 'C06', 'C09'],
                attrs='#[verifier::loop_isolation(false)]',
                sig_rw=[('R2', r"fn fmt\(&self, f: &mut fmt::Formatter<'_>\) -> fmt::Result",
                         'fn purl_fmt<T: PurlShape>(this: &GenericPurl<T>, f: &mut Formatter) -> FmtResult', 1)],
                contract='''    requires valid_type(this.package_type.type_text())      // documented panic: a user type reporting an invalid type string
    ensures r is Ok ==> final(f).out() == old(f).out() + canon_spec(this.package_type.type_text(), this.parts)''',
                rw=[('R2', r'\bself\b', 'this', '+'),
                    ('R4', r'panic!\("Invalid package type \{:\?\}", &\*package_type\);', 'x_panic();', '*'),
                    ('R4', '@write', ''),
                    # R5: `for` over purl's own iterator written out as its definition, so that Iter::next is a verified callee
                    ('R5', '@for_next', r'for \(k, v\) in &this\.parts\.qualifiers'),
                    ],
                begin='''        let ghost start = f.out();
        let ghost ty = this.package_type.type_text();
        let ghost p = this.parts;
        proof { reveal_strlit("="); assert("="@ =~= seq!['=']); }''',
                loops={0: '''
                invariant
                    qs == this.parts.qualifiers.qualifiers@,
                    0 <= gi <= qs.len(), iter_.rem().len() == qs.len() - gi,
                    forall|j: int| 0 <= j < iter_.rem().len() ==> *(#[trigger] iter_.rem()[j]) == qs[gi + j],
                    prefix == (if gi == 0 { '?' } else { '&' }),
                    f.out() == base + quals_text(qs.take(gi)),
                    gi == qs.len() ==> f.out() == base + quals_text(qs),
                decreases qs.len() - gi,
'''},
                hints=[(r'let mut iter_ = \(&this\.parts\.qualifiers\)\.into_iter\(\);', 'after', '''            let ghost qs = this.parts.qualifiers.qualifiers@;
            let ghost base = f.out();
            let ghost mut gi: int = 0;
            proof { assert(qs.take(0) =~= Seq::<(QualifierKey, SmallString)>::empty()); assert(base + quals_text(qs.take(0)) =~= base); }'''),
                       (r"prefix = '&';", 'after', '''                proof {
                    assert(qs.take(gi + 1).drop_last() == qs.take(gi));
                    assert(qs.take(gi + 1).last() == qs[gi]);
                    let kv = qs[gi];
                    assert(k.0@ == kv.0.0@ && v@ == kv.1@);
                    assert(f.out() =~= pre_out + seq![pfx] + enc(SetId::Query, kv.0.0@) + seq!['='] + enc(SetId::Query, kv.1@));
                    assert(f.out() =~= base + quals_text(qs.take(gi + 1)));
                    if gi + 1 == qs.len() { assert(qs.take(gi + 1) =~= qs); }
                    gi = gi + 1;
                }'''),
                       (r'\{ x_write_display\(f, &prefix\)\?;', 'before', '                let ghost pre_out = f.out();\n                let ghost pfx = prefix;'),
                       (r'if let Some\(namespace\) = this\.namespace\(\)', 'before', '        proof { assert(f.out() =~= start + cs1(ty)); }'),
                       (r'\{ x_write_encoded\(f, this\.name\(\), PURL_PATH_SEGMENT\)\?; \};', 'before', '        proof { assert(f.out() =~= start + cs2(ty, p)); }'),
                       (r'if let Some\(version\) = this\.version\(\)', 'before', '        proof { assert(f.out() =~= start + cs3(ty, p)); }'),
                       (r'if !this\.parts\.qualifiers\.is_empty\(\)', 'before', '        proof { assert(f.out() =~= start + cs4(ty, p)); }'),
                       (r'if let Some\(subpath\) = this\.subpath\(\)', 'before', '''        proof {
            if p.qualifiers.qualifiers@.len() == 0 { assert(quals_text(p.qualifiers.qualifiers@) =~= Seq::<char>::empty()); }
            assert(f.out() =~= start + cs5(ty, p));
        }'''),
                       (r'Ok\(\(\)\)\s*\}\s*$', 'before', '        proof { lemma_canon_stages(ty, p); assert(f.out() =~= start + canon_spec(ty, p)); }'),
                       ],
                ),
    ],
)
