# U-vtype, U-shape: is_valid_package_type, str_preview_mut, PurlShape::finish for String / Cow<str> / SmartString
# (purl/src/lib.rs). C04, C05, C13: every built-in string-like type parameter validates the type and ASCII-lower-cases it.
import importlib.util, os
_spec = importlib.util.spec_from_file_location('_common', os.path.join(os.path.dirname(__file__), '_common.py'))
_common = importlib.util.module_from_spec(_spec); _spec.loader.exec_module(_common)

_IMPL_SPEC = '''    open spec fn type_text(&self) -> Seq<char> { self@ }
    open spec fn finish_rel(t0: Self, p0: PurlParts, t1: Self, p1: PurlParts, r: Result<(), ParseError>) -> bool {
        shape_rel(t0@, p0, t1@, p1, r)
    }'''

GROUP = dict(
    name='lib_shape',
    theory=['base.rs'],
    uses='use core::cmp::Ordering;',
    canary='    axiom_string_from(); broadcast use axiom_ascii_to_lower;',
    units=_common.TYPES + [
        dict(id='theory.qualkeys', kind='raw', text=_common.theory_text('qualkeys.rs')),
        dict(id='theory.types', kind='raw', text=open(os.path.join(os.path.dirname(__file__), '..', 'theory', 'types.rs')).read()),
        _common.PURL_SHAPE,
        dict(id='U-vtype.is_valid_package_type', file='purl/src/lib.rs', fn='is_valid_package_type',
             properties=['C02', 'C04', 'C05', 'C13', 'C03', 'C14'],
             contract='    ensures r == valid_type(package_type@)',
             hoist=[('R6', r'const (\w+): &\[char\] = &\[([^\]]*)\];',
                     r"exec const \1: &'static [char] ensures \1@ =~= seq![\2] { &[\2] }")],
             rw=[('R5', '@all_any', ''),
                 ('R3', r'ALLOWED_SPECIAL_CHARS\.contains\(&c\)', 'x_slice_contains(ALLOWED_SPECIAL_CHARS, &c)', 1)],
             loops={0: '''
    invariant_except_break
        all_ok0,
        forall|i: int| 0 <= i < it.index@ ==> type_char(#[trigger] package_type@[i]),
    invariant
        it.seq() == package_type@,
    ensures
        all_ok0 ==> forall|i: int| 0 <= i < package_type@.len() ==> type_char(#[trigger] package_type@[i]),
        !all_ok0 ==> exists|i: int| 0 <= i < package_type@.len() && !type_char(#[trigger] package_type@[i]),
'''},
             ),
        dict(id='U-shape.str_preview_mut', file='purl/src/lib.rs', fn='str_preview_mut',
             properties=['C04', 'C05', 'C13', 'C02', 'C03', 'C09', 'C10', 'C06'],
             contract='''    ensures
        valid_type(old(s)@) ==> r is Ok && final(s)@ == lower_ascii_seq(old(s)@),
        !valid_type(old(s)@) ==> r == Err::<(), ParseError>(ParseError::InvalidPackageType),''',
             rw=[('R3', r's\.make_ascii_lowercase\(\);', 'x_make_ascii_lowercase(s);', 1)],
             ),
        dict(id='spec.String', kind='raw', wrap='impl PurlShape for String', text='    type Error = ParseError;\n' + _IMPL_SPEC),
        dict(id='U-shape.String.package_type', file='purl/src/lib.rs', fn='package_type', ctx=r'impl PurlShape for String\b',
             wrap='impl PurlShape for String', vis='', properties=['C13', 'C03']),
        dict(id='U-shape.String.finish', file='purl/src/lib.rs', fn='finish', ctx=r'impl PurlShape for String\b',
             wrap='impl PurlShape for String', vis='', properties=['C04', 'C05', 'C13', 'C02', 'C03', 'C09', 'C10', 'C06']),
        dict(id='spec.Cow', kind='raw', wrap="impl PurlShape for Cow<'_, str>", text='    type Error = ParseError;\n' + _IMPL_SPEC),
        dict(id='U-shape.Cow.package_type', file='purl/src/lib.rs', fn='package_type', ctx=r"impl PurlShape for Cow<'_, str>",
             wrap="impl PurlShape for Cow<'_, str>", vis='', properties=['C13', 'C03']),
        dict(id='U-shape.Cow.finish', file='purl/src/lib.rs', fn='finish', ctx=r"impl PurlShape for Cow<'_, str>",
             wrap="impl PurlShape for Cow<'_, str>", vis='', properties=['C04', 'C05', 'C13', 'C02', 'C03', 'C09', 'C10', 'C06'],
             rw=[('R5', '@all_any', ''),
                 ('R3', r'v\.to_ascii_lowercase\(\)', 'x_to_ascii_lowercase(v)', 1)],
             loops={0: '''
    invariant_except_break
        all_ok0,
        forall|i: int| 0 <= i < it.index@ ==> ascii_lower_c(#[trigger] v@[i]),
    invariant
        it.seq() == v@,
    ensures
        all_ok0 ==> all_ascii_lower(v@),
'''},
             hints=[(r'Ok\(\(\)\)\s*\}\s*$', 'before', '    proof { if all_ascii_lower(old(self)@) { lemma_lower_ascii_fixed(old(self)@); } }')],
             ),
        # R2: the SmartString<M> impl (cfg(feature = "smartstring")) is hoisted to free functions over SmallString = String
        dict(id='U-shape.SmartString.package_type', file='purl/src/lib.rs', fn='package_type', ctx=r'impl<M> PurlShape for SmartString<M>',
             properties=['C13', 'C03'],
             sig_rw=[('R2', r'fn package_type\(&self\)', 'fn smartstring_package_type(this: &SmallString)', 1)],
             rw=[('R2', r'\bself\b', 'this', '+')],
             contract='    ensures r@ == this@'),
        dict(id='U-shape.SmartString.finish', file='purl/src/lib.rs', fn='finish', ctx=r'impl<M> PurlShape for SmartString<M>',
             properties=['C04', 'C05', 'C13', 'C02', 'C03', 'C09', 'C10', 'C06'],
             sig_rw=[('R2', r'fn finish\(&mut self, _parts: &mut PurlParts\) -> Result<\(\), Self::Error>',
                      'fn smartstring_finish(this: &mut SmallString, _parts: &mut PurlParts) -> Result<(), ParseError>', 1)],
             rw=[('R2', r'\bself\b', 'this', '+')],
             contract='    ensures shape_rel(old(this)@, *old(_parts), final(this)@, *final(_parts), r)'),
    ],
)
