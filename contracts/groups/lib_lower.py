# U-lower: lowercase_in_place, copy_as_lowercase  (purl/src/lib.rs)
# contract from C08 / C12 wording: "each character replaced by its Unicode lower-case mapping, nothing else changed"

_LOOP = '''
    invariant_except_break !(state is MixedUnicode),
    invariant
        it.seq() == %(S)s,
        state is Lower ==> (forall|i: int| 0 <= i < it.index@ ==> u_to_lower(#[trigger] %(S)s[i]) == seq![%(S)s[i]]),
        state is MixedAscii ==> (forall|i: int| 0 <= i < it.index@ ==>
            (u_to_lower(#[trigger] %(S)s[i]) != seq![%(S)s[i]] ==> is_ascii_c(%(S)s[i]))),
    ensures !(state is MixedUnicode) ==> it.index@ == %(S)s.len(),
'''

_COMMON_RW = [
    ('R10', r'for c in s\.chars\(\)', 'for c in it: s.chars()', 1),
    ('R3', r'c\.to_lowercase\(\)\.ne\(\[c\]\)', 'x_lower_changes(c)', 1),
]

GROUP = dict(
    name='lib_lower',
    theory=['base.rs'],
    canary='    axiom_string_from(); broadcast use axiom_ascii_to_lower;',
    units=[
        dict(id='U-lower.lowercase_in_place', file='purl/src/lib.rs', fn='lowercase_in_place',
             properties=['C08', 'C10', 'C12', 'C01', 'C02', 'C09', 'C18'],
             ret=None,
             contract='    ensures final(s)@ == lower_seq(old(s)@)',
             hoist=[('R6', r'enum State \{[^}]*\}', r'pub \g<0>')],
             rw=_COMMON_RW + [
                 ('R3', r's\.make_ascii_lowercase\(\);', 'x_make_ascii_lowercase(s);', 1),
                 ('R5', r'\*s = s\.chars\(\)\.flat_map\(\|c\| c\.to_lowercase\(\)\)\.collect\(\);', '*s = x_lower_collect(s.as_str());', 1),
             ],
             loops={0: '''
    invariant_except_break !(state is MixedUnicode),
    invariant
        s@ == old(s)@, it.seq() == s@,
        state is Lower ==> (forall|i: int| 0 <= i < it.index@ ==> u_to_lower(#[trigger] s@[i]) == seq![s@[i]]),
        state is MixedAscii ==> (forall|i: int| 0 <= i < it.index@ ==>
            (u_to_lower(#[trigger] s@[i]) != seq![s@[i]] ==> is_ascii_c(s@[i]))),
    ensures !(state is MixedUnicode) ==> it.index@ == s@.len(),
'''},
             hints=[(r'match state \{', 'before',
                     '''    proof {
        if state is Lower { lemma_lower_seq_identity(s@); }
        if state is MixedAscii { lemma_lower_seq_ascii(s@); }
    }''')],
             ),
        dict(id='U-lower.copy_as_lowercase', file='purl/src/lib.rs', fn='copy_as_lowercase',
             properties=['C12', 'C10', 'C05', 'C01', 'C02', 'C04'],
             contract='    ensures r@ == lower_seq(s@)',
             begin='    proof { axiom_string_from(); }',
             hoist=[('R6', r'enum State \{[^}]*\}', r'pub enum State2 {Lower, MixedAscii, MixedUnicode}')],
             rw=_COMMON_RW + [
                 ('R6', r'\bState::', 'State2::', '+'),
                 ('R3', r'v\.make_ascii_lowercase\(\);', 'x_make_ascii_lowercase(&mut v);', 1),
                 ('R5', r's\.chars\(\)\.flat_map\(\|c\| c\.to_lowercase\(\)\)\.collect\(\)', 'x_lower_collect(s)', 1),
             ],
             loops={0: '''
    invariant_except_break !(state is MixedUnicode),
    invariant
        it.seq() == s@,
        state is Lower ==> (forall|i: int| 0 <= i < it.index@ ==> u_to_lower(#[trigger] s@[i]) == seq![s@[i]]),
        state is MixedAscii ==> (forall|i: int| 0 <= i < it.index@ ==>
            (u_to_lower(#[trigger] s@[i]) != seq![s@[i]] ==> is_ascii_c(s@[i]))),
    ensures !(state is MixedUnicode) ==> it.index@ == s@.len(),
'''},
             hints=[(r'match state \{', 'before',
                     '''    proof {
        if state is Lower { lemma_lower_seq_identity(s@); }
        if state is MixedAscii { lemma_lower_seq_ascii(s@); }
    }''')],
             ),
    ],
)
