# U-dec (assumed), U-sub, U-ns: decode, decode_subpath, decode_namespace (purl/src/parse.rs) -- C07, C02, C05
import importlib.util, os
_spec = importlib.util.spec_from_file_location('_common', os.path.join(os.path.dirname(__file__), '_common.py'))
_c = importlib.util.module_from_spec(_spec); _spec.loader.exec_module(_c)

F = 'purl/src/parse.rs'

DECODE = dict(id='U-dec.decode', file=F, fn='decode', mode='assumed', properties=['C02', 'C05', 'C07'],
              contract='''    ensures match dec(input@) {
        None => r is Err && r->Err_0 == ParseError::InvalidEscape,
        Some(t) => r is Ok && r->Ok_0@ == t,
    }''')


def seg_unit(uid, fn, var, fold, skip_rw, bad_hint):
    return dict(id=uid, file=F, fn=fn, properties=['C07', 'C02', 'C05', 'C06', 'C01', 'C09'],
        attrs='#[verifier::loop_isolation(false)]',
        contract='''    ensures match r {
        Ok(out) => %(fold)s(split_spec(trim_spec(%(var)s@, '/'), '/')) == Some(out@),
        Err(e) => %(fold)s(split_spec(trim_spec(%(var)s@, '/'), '/')) is None && e == ParseError::InvalidEscape,
    }''' % dict(fold=fold, var=var),
        begin='''    proof { reveal_strlit(""); reveal_strlit("."); reveal_strlit("..");
        assert(""@ =~= Seq::<char>::empty()); assert("."@ =~= seq!['.']); assert(".."@ =~= seq!['.', '.']); }
    let ghost orig = %s@;''' % var,
        rw=[('R3', r"%s\.trim_matches\(('.')\)" % var, r"x_trim_matches(%s, \1)" % var, '*'),
            ('R3', r"%s\.trim_start_matches\(('.')\)" % var, r"x_trim_start_matches(%s, \1)" % var, '*'),
            ('R3', r"for segment in %s\.split\(('.')\)" % var, r"let pieces = x_split(%s, \1);\n    let ghost ps = split_spec(%s@, \1);\n    for segment in it: pieces" % (var, var), 1),
            ] + skip_rw + [
            ('R7', '@continue', ''),
            ('R3', r"decoded\.contains\(('.')\)", r"x_str_contains_char(&decoded, \1)", '*'),
            ('R3', r'\[(".*?"), (".*?")\]\.contains\(&&\*decoded\)', r'x_is_one_of2(&decoded, \1, \2)', '*'),
            ('R4', r'write!\(rebuilt, "\{\}", decoded\)\.unwrap\(\);', 'x_push_display(&mut rebuilt, &decoded);', '*'),
        ],
        loops={0: '''
        invariant
            it.seq() == pieces@, pieces@.len() == ps.len(),
            forall|i: int| 0 <= i < pieces@.len() ==> (#[trigger] pieces@[i])@ == ps[i],
            %(fold)s(ps.take(it.index@ as int)) == Some(rebuilt@),
''' % dict(fold=fold)},
        hints=[(r'if !\(', 'before', '''        proof {
            assert(ps.take(it.index@ + 1).drop_last() == ps.take(it.index@ as int));
            assert(segment@ == ps[it.index@ as int]);
            assert(ps.take(it.index@ + 1).last() == segment@);
            if segment@.len() == 0 { assert(segment@ =~= ""@); }
            %s
        }''' % bad_hint),
               (r'Ok\(rebuilt\)', 'before', '    proof { assert(ps.take(ps.len() as int) == ps); }')],
    )


GROUP = dict(
    name='parse_seg',
    theory=['base.rs', 'split.rs'],
    uses='use core::cmp::Ordering;',
    canary='    axiom_string_from(); broadcast use axiom_ascii_to_lower;',
    post=_c.theory_text('segs_lemmas.rs'),
    units=[_c.PURL_FIELD, _c.PARSE_ERROR,
           dict(id='theory.cow', kind='raw', text=_c.theory_text('types.rs').split('// ---- vocabulary for package types')[0]),
           dict(id='theory.segs', kind='raw', text=_c.theory_text('segs.rs')),
           DECODE,
           seg_unit('U-sub.decode_subpath', 'decode_subpath', 'subpath', 'sub_fold',
                    [('R3', r'\[("[^"]*"), ("[^"]*"), ("[^"]*")\]\.contains\(&segment\)', r'x_is_one_of3(segment, \1, \2, \3)', '*')],
                    'if sub_fold(ps.take(it.index@ + 1)) is None { lemma_sub_fold_none(ps, it.index@ + 1); }'),
           seg_unit('U-ns.decode_namespace', 'decode_namespace', 'namespace', 'ns_fold', [],
                    'if ns_fold(ps.take(it.index@ + 1)) is None { lemma_ns_fold_none(ps, it.index@ + 1); }'),
    ],
)
