# The string-valued well-known qualifiers (`RepositoryUrl`, `DownloadUrl`, `VcsUrl`, `FileName`, gem `Platform`, maven `Classifier`, `Type`): every function the macro
# `str_ref_qualifier!` generates. The functions are taken from the macro DEFINITION in /repo (the text between
# `macro_rules! str_ref_qualifier {` and its closing brace) and instantiated once per invocation:
#   R12: macro metavariables replaced by the arguments of the invocation (`$type_name` -> the identifier, `$qualifier_key` -> the
#        literal, `$crate` -> `crate`), which is what macro_rules expansion does; the invocation list itself is read from the source
#        on every run (unit `U-wk.invocations`), so an added or changed invocation is seen.
import importlib.util, os, re
_spec = importlib.util.spec_from_file_location('_common', os.path.join(os.path.dirname(__file__), '_common.py'))
_c = importlib.util.module_from_spec(_spec); _spec.loader.exec_module(_c)

W = 'purl/src/qualifiers/well_known.rs'
PINNED = [('RepositoryUrl', 'repository_url'), ('DownloadUrl', 'download_url'), ('VcsUrl', 'vcs_url'), ('FileName', 'file_name'),
          ('Platform', 'platform'), ('Classifier', 'classifier'), ('Type', 'type')]


def invocations():
    """(type name, key) of every `str_ref_qualifier!(..)` invocation in the current source tree of purl/src"""
    repo = os.environ.get('PURL_REPO', '/repo')
    out = []
    try:
        for root, _d, files in os.walk(os.path.join(repo, 'purl/src')):
            for f in sorted(files):
                if f.endswith('.rs'):
                    s = open(os.path.join(root, f)).read()
                    out += re.findall(r'(?m)^\s*(?:\w+::)*str_ref_qualifier!\(\s*(\w+)\s*,\s*"([^"\\]*)"\s*,\s*"[^"\\]*"\s*\)\s*;', s)
    except OSError:
        pass
    return out or PINNED


def _units(name, key):
    ident = name.lower()          # identifier of the hoisted functions (the key literal need not be one)
    inst = [('R12', r'\$type_name\b', name, '+')]
    inst0 = [('R12', r'\$type_name\b', name, '*'), ('R12', r'\$qualifier_key\b', '"%s"' % key, '*'), ('R12', r'\$crate\b', 'crate', '*')]
    u = [
        dict(id='T.wk.%s' % name, kind='struct', name='$type_name', file=W, rw=inst),
        dict(id='U-wk.%s.as_ref' % name, file=W, fn='as_ref', ctx=r"impl<'a> AsRef<str> for \$type_name<'a>", properties=['C06', 'C11'],
             sig_rw=[('R2', r'fn as_ref\(&self\) -> &str', "fn wk_%s_as_ref<'a>(this: &%s<'a>) -> &'a str" % (ident, name), 1)],
             rw=[('R2', r'\bself\b', 'this', '+')] + inst0,
             contract='    ensures r@ == this.0@'),
        dict(id='U-wk.%s.into_str' % name, file=W, fn='from', ctx=r"impl<'a> From<\$type_name<'a>> for &'a str", properties=['C06', 'C11'],
             sig_rw=[('R2', r"fn from\(value: \$type_name<'a>\) -> Self", "fn wk_%s_into_str<'a>(value: %s<'a>) -> &'a str" % (ident, name), 1)],
             rw=inst0,
             contract='    ensures r@ == value.0@'),
        dict(id='U-wk.%s.from_str' % name, file=W, fn='from', ctx=r"impl<'a> From<&'a str> for \$type_name<'a>", properties=['C06', 'C11'],
             sig_rw=[('R2', r"fn from\(value: &'a str\) -> Self", "fn wk_%s_from_str<'a>(value: &'a str) -> %s<'a>" % (ident, name), 1)],
             rw=inst,
             contract='    ensures r.0@ == value@'),
        # `Self::from(<&'a str>::from(value))`: the inner call is the unit above (R2 name), the outer one `SmallString::from(&str)`
        dict(id='U-wk.%s.into_string' % name, file=W, fn='from', ctx=r"impl<'a> From<\$type_name<'a>> for \$crate::SmallString", properties=['C06', 'C11'],
             sig_rw=[('R2', r"fn from\(value: \$type_name<'a>\) -> Self", "fn wk_%s_into_string<'a>(value: %s<'a>) -> SmallString" % (ident, name), 1)],
             rw=[('R2', r"Self::from\(<&'a str>::from\(value\)\)", 'SmallString::from(wk_%s_into_str(value))' % ident, 1)] + inst0,
             begin='    proof { axiom_string_from(); }',
             contract='    ensures r@ == value.0@'),
        dict(id='U-wk.%s.deref' % name, file=W, fn='deref', ctx=r"impl<'a> ::std::ops::Deref for \$type_name<'a>", properties=['C06', 'C11'],
             sig_rw=[('R2', r'fn deref\(&self\) -> &str', "fn wk_%s_deref<'a>(this: &%s<'a>) -> &'a str" % (ident, name), 1)],
             rw=[('R2', r'\bself\b', 'this', '+')] + inst0,
             contract='    ensures r@ == this.0@'),
    ]
    return u


# The KEY constants are not given a contract: no property demands that a well-known key be valid or lower-case (an invalid KEY only
# makes the typed accessors report `absent` / refuse, which C11 allows), so an obligation about them could only raise false alarms.

_INV = invocations()

GROUP = dict(
    name='wk',
    theory=['base.rs'],
    uses='',
    canary='    axiom_string_from();',
    units=[u for (n, k) in _INV for u in _units(n, k)],
)
