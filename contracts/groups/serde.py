# U-serde: Serialize / Deserialize / Visitor impls for GenericPurl<T> (purl/src/format.rs mod ser, purl/src/parse.rs mod de) -- C16
# The three impl blocks are extracted whole (every member), against stubs of the serde traits (contracts/theory/serde.rs).
import importlib.util, os
_spec = importlib.util.spec_from_file_location('_common', os.path.join(os.path.dirname(__file__), '_common.py'))
_c = importlib.util.module_from_spec(_spec); _spec.loader.exec_module(_c)

_parse = _c.sibling('parse').GROUP
# everything the parse group declares before its first verified body (types, theories up to parse_post)
_prelude = []
for _u in _parse['units']:
    if _u['id'] == 'U-dec.decode':
        break
    _prelude.append(_u)

_fmt_text = _c.theory_text('fmt.rs')

GROUP = dict(
    name='serde',
    theory=['base.rs', 'split.rs'],
    rlimit=60,
    uses='use core::cmp::Ordering;\nuse core::marker::PhantomData;',
    canary='    axiom_string_from(); broadcast use axiom_ascii_to_lower; broadcast use axiom_view_of_str;',
    units=_prelude + [
        dict(id='theory.enc', kind='raw', text=_c.theory_text('enc.rs')),
        dict(id='theory.fmt', kind='raw', text=_fmt_text),
        dict(id='theory.canon', kind='raw', text=_c.theory_text('canon.rs')),
        dict(id='theory.serde', kind='raw', text=_c.theory_text('serde.rs')),
        dict(id='theory.serde_post', kind='raw', text=_c.theory_text('serde_post.rs')),
        _c.contract_only('parse', 'U-parse.from_str'),
        dict(id='T.PurlVisitor', kind='struct', name='PurlVisitor', file='purl/src/parse.rs'),
        # impl Serialize: body verbatim `serializer.collect_str(self)`
        dict(id='U-serde.serialize', kind='block', file='purl/src/format.rs', header=r'impl<T> Serialize for GenericPurl<T>',
             properties=['C16', 'C06'], fns=['serialize'],
             rw=[('R9', r'S: serde::Serializer,', 'S: Serializer,', 1),
                 ('R10', r'\{\s*fn serialize<S>\(&self, serializer: S\) -> Result<S::Ok, S::Error>',
                  '''{
    // C16: the single string value handed to the serializer is the canonical string
    open spec fn ser_pre(&self) -> bool { valid_type(self.package_type.type_text()) }
    open spec fn ser_text(&self) -> Seq<char> { canon_spec(self.package_type.type_text(), self.parts) }
    fn serialize<S>(&self, serializer: S) -> (r: Result<S::Ok, S::Error>)''', 1)]),
        # impl Deserialize: body verbatim `deserializer.deserialize_str(PurlVisitor(PhantomData))`
        dict(id='U-serde.deserialize', kind='block', file='purl/src/parse.rs', header=r"impl<'de, T> Deserialize<'de> for GenericPurl<T>",
             properties=['C16'], fns=['deserialize'],
             rw=[('R9', r"impl<'de, T> Deserialize<'de> for", 'impl<T> Deserialize for', 1),
                 ('R9', r'fmt::Display \+ ', '', 1),
                 ('R9', r"D: ::serde::Deserializer<'de>,", 'D: Deserializer,', 1),
                 ('R10', r'\{\s*fn deserialize<D>\(deserializer: D\) -> Result<Self, D::Error>',
                  '''{
    // C16: a string value is accepted exactly when the parser accepts it (same value, the parser's error handed on);
    // a value that is not a string is refused
    open spec fn de_rel<D: Deserializer>(d: D, r: Result<Self, D::Error>) -> bool {
        match d.next_str() { Some(s) => de_post::<T, D::Error>(s, r), None => r is Err }
    }
    fn deserialize<D>(deserializer: D) -> (r: Result<Self, D::Error>)''', 1)]),
        # impl Visitor: every member; `visit_str` body verbatim up to R2c / R8
        dict(id='U-serde.visitor', kind='block', file='purl/src/parse.rs', header=r"impl<T> Visitor<'_> for PurlVisitor<T>",
             properties=['C16', 'C06'], fns=['visit_str', 'expecting'],
             rw=[('R9', r"impl<T> Visitor<'_> for", 'impl<T> Visitor for', 1),
                 ('R9', r'fmt::Display \+ ', '', 1),
                 ('R9', r'formatter: &mut fmt::Formatter\) -> fmt::Result', 'formatter: &mut Formatter) -> (r: FmtResult)', 1),
                 ('R4', r'formatter\.write_str\(("[^"]*")\)', r'x_write_str(formatter, \1)', 1),
                 ('R10', r'type Value = GenericPurl<T>;',
                  '''type Value = GenericPurl<T>;
    open spec fn visit_str_rel<E: Error>(self, v: Seq<char>, r: Result<GenericPurl<T>, E>) -> bool { de_post::<T, E>(v, r) }''', 1),
                 ('R10', r'fn visit_str<E>\(self, v: &str\) -> Result<Self::Value, E>', 'fn visit_str<E>(self, v: &str) -> (r: Result<Self::Value, E>)', 1),
                 # R2c: the call of the hoisted from_str
                 ('R2', r'GenericPurl::<T>::from_str\(v\)', 'purl_from_str::<T>(v)', 1),
                 # R8: `.map_err(f)` written out (definition of Result::map_err)
                 ('R8', r'(purl_from_str::<T>\(v\))\.map_err\(Error::custom\)', r'(match \1 { Ok(v_) => Ok(v_), Err(e_) => Err(Error::custom(e_)) })', 1),
                 ]),
    ],
)
