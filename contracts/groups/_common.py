# Type definitions extracted from /repo (R0: attributes and docs dropped) and shared by several groups.

PARSE_ERROR = dict(id='T.ParseError', kind='enum', name='ParseError', file='purl/src/parse.rs', attrs='#[derive(Debug)]')
PURL_FIELD = dict(id='T.PurlField', kind='enum', name='PurlField', file='purl/src/parse.rs', attrs='#[derive(Debug, Clone, Copy)]')
PURL_PARTS = dict(id='T.PurlParts', kind='struct', name='PurlParts', file='purl/src/lib.rs')
QUALIFIERS = dict(id='T.Qualifiers', kind='struct', name='Qualifiers', file='purl/src/qualifiers.rs')
QUALIFIER_KEY = dict(id='T.QualifierKey', kind='struct', name='QualifierKey', file='purl/src/qualifiers.rs')

TYPES = [PURL_FIELD, PARSE_ERROR, QUALIFIER_KEY, QUALIFIERS, PURL_PARTS]

# The PurlShape trait, extracted; R10 splices the contract: a per-implementation relation `finish_rel`
# (what finish may do) and `type_text` (what package_type() returns).
PURL_SHAPE = dict(
    id='T.PurlShape', kind='trait', name='PurlShape', file='purl/src/lib.rs',
    rw=[
        ('R9', r'pub trait PurlShape \{', 'pub trait PurlShape: Sized {', 1),
        ('R10', r'fn package_type\(&self\) -> Cow<str>;',
         '''spec fn type_text(&self) -> Seq<char>;
    fn package_type(&self) -> (r: Cow<str>)
        ensures r@ == self.type_text();''', 1),
        ('R10', r'fn finish\(&mut self, parts: &mut PurlParts\) -> Result<\(\), Self::Error>;',
         '''spec fn finish_rel(t0: Self, p0: PurlParts, t1: Self, p1: PurlParts, r: Result<(), Self::Error>) -> bool;
    fn finish(&mut self, parts: &mut PurlParts) -> (r: Result<(), Self::Error>)
        ensures Self::finish_rel(*old(self), *old(parts), *final(self), *final(parts), r),
            // the hook can only reach the qualifier list through its public API, every mutator of which is
            // proved to preserve the representation invariant (group `qual`); assumed for user-written hooks
            wf_seq(old(parts).qualifiers.qualifiers@) ==> wf_seq(final(parts).qualifiers.qualifiers@);''', 1),
    ])


# GenericPurl::builder: verified in group purl, used (contract only) by group builder for GenericPurl::new
GP_BUILDER = dict(id='U-acc.builder', file='purl/src/lib.rs', fn='builder', ctx=r'impl<T> GenericPurl<T>', wrap='impl<T> GenericPurl<T>', properties=['C09'],
                contract='''        ensures r.package_type == package_type,
            r.parts.namespace@.len() == 0, r.parts.version@.len() == 0, r.parts.subpath@.len() == 0, r.parts.qualifiers.qualifiers@.len() == 0,
            <SmallString as vstd::std_specs::convert::FromSpec<S>>::obeys_from_spec() ==> r.parts.name == <SmallString as vstd::std_specs::convert::FromSpec<S>>::from_spec(name)''')


def sibling(name):
    """Import a sibling group file (to reuse its unit definitions: one contract text, several groups)."""
    import importlib.util, os
    spec = importlib.util.spec_from_file_location('g_' + name, os.path.join(os.path.dirname(__file__), name + '.py'))
    mod = importlib.util.module_from_spec(spec)
    spec.loader.exec_module(mod)
    return mod


def unit_of(group_name, unit_id, **over):
    g = sibling(group_name).GROUP
    for u in g['units']:
        if u['id'] == unit_id:
            u = dict(u)
            u.update(over)
            return u
    raise KeyError(unit_id)


def contract_only(group_name, unit_id):
    """The callee is verified in `group_name`; here only its contract is visible (modular verification)."""
    return unit_of(group_name, unit_id, mode='contract_only', proved_in=group_name)


def theory_text(name):
    import os
    return open(os.path.join(os.path.dirname(__file__), '..', 'theory', name)).read()


def lemmas_contract_only(text, proved_in):
    """A theory file whose lemmas are PROVED in group `proved_in`, imported into another group with the lemma bodies dropped
    (`external_body`): modular verification for lemmas. Specification functions keep their definitions."""
    import importlib.util, os, re
    spec = importlib.util.spec_from_file_location('rsparse_', os.path.join(os.path.dirname(__file__), '..', '..', 'vlib', 'rsparse.py'))
    rs = importlib.util.module_from_spec(spec); spec.loader.exec_module(rs)
    masked = rs.mask(text)
    out, pos = [], 0
    for m in re.finditer(r'(?m)^(pub (?:broadcast )?proof fn \w+)', masked):
        # already external_body?
        before = text[max(0, m.start() - 40):m.start()]
        o = masked.index('{', m.end())
        # the body is the first `{` at nesting depth 0 after the signature / requires / ensures clauses
        depth, i = 0, m.end()
        while True:
            ch = masked[i]
            if ch in '([':
                depth += 1
            elif ch in ')]':
                depth -= 1
            elif ch == '{' and depth == 0:
                # a `{` that opens a block expression inside a clause (e.g. `ensures ({ let … })`) is at depth > 0 thanks to the paren;
                # a `match x {` inside a clause is skipped as a whole (the body's brace opens a line in the theory files)
                if masked[i - 1] != '\n' and re.search(r'\bmatch\b[^{};]*$', masked[m.end():i]):
                    i = rs.match_brace(masked, i)
                else:
                    o = i
                    break
            i += 1
        c = rs.match_brace(masked, o)
        if 'external_body' in before:
            continue
        out.append(text[pos:m.start()])
        out.append('#[verifier::external_body] /* proved in group %s */\n' % proved_in)
        out.append(text[m.start():o] + '{ }')
        pos = c + 1
    out.append(text[pos:])
    return ''.join(out)
