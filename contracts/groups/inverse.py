# Lemmas only: parsing the canonical string gives the parts back (C01, C09, C19) -- a theorem about the specification
# functions canon_spec (proved equal to Display::fmt in group fmt) and phase_a / phase_b (proved equal to from_str in group parse).
import importlib.util, os
_spec = importlib.util.spec_from_file_location('_common', os.path.join(os.path.dirname(__file__), '_common.py'))
_c = importlib.util.module_from_spec(_spec); _spec.loader.exec_module(_c)

GROUP = dict(
    name='inverse',
    theory=['base.rs', 'split.rs'],
    rlimit=60,
    uses='use core::cmp::Ordering;',
    canary="    axiom_string_from(); broadcast use axiom_ascii_to_lower; axiom_pct('a'); axiom_dec_enc(SetId::Path, seq!['a']);",
    units=[_c.PURL_FIELD, _c.PARSE_ERROR, _c.QUALIFIER_KEY, _c.QUALIFIERS, _c.PURL_PARTS,
           dict(id='theory.qualkeys', kind='raw', text=_c.theory_text('qualkeys.rs')),
           dict(id='theory.types', kind='raw', text=_c.theory_text('types.rs')),
           dict(id='theory.segs', kind='raw', text=_c.theory_text('segs.rs')),
           dict(id='theory.segs_lemmas', kind='raw', text=_c.theory_text('segs_lemmas.rs')),
           dict(id='theory.dq', kind='raw', text=_c.theory_text('dq.rs')),
           dict(id='theory.enc', kind='raw', text=_c.theory_text('enc.rs')),
           dict(id='theory.canon', kind='raw', text=_c.theory_text('canon.rs')),
           dict(id='theory.parse_phase', kind='raw', text=_c.theory_text('parse_phase.rs')),
           dict(id='theory.inverse1', kind='raw', text=_c.theory_text('inverse1.rs')),
           dict(id='theory.inverse2', kind='raw', text=_c.theory_text('inverse2.rs')),
           dict(id='theory.inverse3', kind='raw', text=_c.theory_text('inverse3.rs')),
           dict(id='theory.inverse4', kind='raw', text=_c.theory_text('inverse4.rs')),
           dict(id='theory.inverse5', kind='raw', text=_c.theory_text('inverse5.rs')),
           dict(id='theory.inverse6', kind='raw', text=_c.theory_text('inverse6.rs')),
           dict(id='theory.c03', kind='raw', text=_c.theory_text('c03.rs')),
    ],
)
