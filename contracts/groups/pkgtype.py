# U-pypi, U-ptfin, U-ptname: fix_pypi_name, PackageType::finish / name / package_type  (purl/src/package_type.rs)  -- C08
import importlib.util, os
_spec = importlib.util.spec_from_file_location('_common', os.path.join(os.path.dirname(__file__), '_common.py'))
_c = importlib.util.module_from_spec(_spec); _spec.loader.exec_module(_c)

GROUP = dict(
    name='pkgtype',
    theory=['base.rs'],
    uses='use core::cmp::Ordering;',
    canary='    axiom_string_from(); broadcast use axiom_ascii_to_lower; axiom_lower_nonempty(\'a\'); axiom_lower_no_dash(\'a\'); axiom_lower_idem_char(\'a\');',
    post=_c.theory_text('pypi_idem.rs'),
    units=_c.TYPES + [
        dict(id='T.PackageType', kind='enum', name='PackageType', file='purl/src/package_type.rs',
             attrs='#[derive(Clone, Copy)]'),
        dict(id='T.PackageError', kind='enum', name='PackageError', file='purl/src/package_type.rs'),
        dict(id='theory.qualkeys', kind='raw', text=_c.theory_text('qualkeys.rs')),
        dict(id='theory.types', kind='raw', text=_c.theory_text('types.rs')),
        dict(id='theory.pkgtype', kind='raw', text=_c.theory_text('pkgtype.rs')),
        _c.PURL_SHAPE,
        _c.contract_only('lib_lower', 'U-lower.lowercase_in_place'),
        dict(id='U-pypi.fix_pypi_name', file='purl/src/package_type.rs', fn='fix_pypi_name',
             properties=['C08', 'C10', 'C09', 'C01', 'C02', 'C18'], ret=None,
             contract='    ensures final(name)@ == pypi_norm(old(name)@)',
             hoist=[('R6', r'const (\w+): &\[char\] = &\[([^\]]*)\];',
                     r"exec const \1: &'static [char] ensures \1@ =~= seq![\2] { &[\2] }")],
             rw=[('R3', r'name\.contains\(DASH_CHARACTERS\)', 'x_str_contains_any(name.as_str(), DASH_CHARACTERS)', 1),
                 ('R3', r'DASH_CHARACTERS\.contains\(&c\)', 'x_slice_contains(DASH_CHARACTERS, &c)', 1),
                 ('R10', r'for c in name\.chars\(\)', 'for c in it: name.chars()', 1),
                 ('R3', r'result\.extend\(c\.to_lowercase\(\)\);', 'x_extend_lower(&mut result, c);', 1)],
             loops={0: '''
    invariant
        name@ == old(name)@, it.seq() == name@,
        result@ == pypi_norm(name@.take(it.index@ as int)),
        in_dash == (it.index@ > 0 && dash(name@[it.index@ - 1])),
'''},
             hints=[(r'if x_slice_contains\(DASH_CHARACTERS, &c\) \{', 'before',
                     '''            proof {
                let nxt = name@.take(it.index@ + 1);
                assert(nxt.drop_last() == name@.take(it.index@ as int));
                assert(nxt.last() == c);
                if it.index@ > 0 { assert(nxt[nxt.len() - 2] == name@[it.index@ - 1]); }
            }'''),
                    (r'\*name = result;', 'before', '        proof { assert(name@.take(name@.len() as int) == name@); }'),
                    (r'lowercase_in_place\(name\)', 'before', '        proof { lemma_pypi_no_dash(name@); }')],
             ),
        dict(id='U-ptname.name', file='purl/src/package_type.rs', fn='name', ctx=r'impl PackageType\b',
             wrap='impl PackageType', properties=['C15', 'C08', 'C03'],
             contract='        ensures r@ == type_name(*self)',
             begin='''        proof { reveal_strlit("cargo"); reveal_strlit("gem"); reveal_strlit("golang"); reveal_strlit("maven");
                reveal_strlit("npm"); reveal_strlit("nuget"); reveal_strlit("pypi"); }''',
             hints=[(r'\}\s*\}\s*$', 'before', '''        ;proof { }''')] if False else [],
             ),
        # R9: the phf table, entry by entry: every key is the name of its variant and every variant has an entry (C15).
        # The lookup itself (perfect hash + UniCase comparison) is the dependency's business.
        dict(id='U-ptname.table', kind='block', file='purl/src/package_type.rs', header=r'static PACKAGE_TYPES: phf::Map',
             properties=['C15', 'C08'],
             rw=[('R9', r"static PACKAGE_TYPES: phf::Map<UniCase<&'static str>, PackageType> = phf_map! \{",
                  'pub proof fn package_types_table()\n    ensures forall|t: PackageType| #[trigger] table_has(t)\n{\n    let mut seen: Set<PackageType> = Set::empty();', 1),
                 ('R9', r'UniCase::ascii\(("[^"]*")\) => (PackageType::\w+),',
                  r'    reveal_strlit(\1); assert(\1@ =~= type_name(\2)); assert(table_entry(\1@, \2)); seen = seen.insert(\2);', '+'),
                 ('R9', r'\}\s*$', '''    assert forall|t: PackageType| #[trigger] table_has(t) by {
        match t {
            PackageType::Cargo => { assert(seen.contains(PackageType::Cargo)); },
            PackageType::Gem => { assert(seen.contains(PackageType::Gem)); },
            PackageType::Golang => { assert(seen.contains(PackageType::Golang)); },
            PackageType::Maven => { assert(seen.contains(PackageType::Maven)); },
            PackageType::Npm => { assert(seen.contains(PackageType::Npm)); },
            PackageType::NuGet => { assert(seen.contains(PackageType::NuGet)); },
            PackageType::PyPI => { assert(seen.contains(PackageType::PyPI)); },
        }
    }
}''', 1)]),
        # the other conversions to text: one call of name() each
        dict(id='theory.formatter', kind='raw', text=_c.theory_text('fmt.rs')[:_c.theory_text('fmt.rs').index('/// `{}` of a `Display` value')]),
        dict(id='U-ptname.into_str', file='purl/src/package_type.rs', fn='from', ctx=r"impl From<PackageType> for &'static str",
             properties=['C15'],
             sig_rw=[('R2', r'fn from\(value: PackageType\) -> Self', "fn package_type_into_str(value: PackageType) -> &'static str", 1)],
             contract='    ensures r@ == type_name(value)'),
        dict(id='U-ptname.as_ref', file='purl/src/package_type.rs', fn='as_ref', ctx=r'impl AsRef<str> for PackageType',
             properties=['C15'],
             sig_rw=[('R2', r'fn as_ref\(&self\) -> &str', 'fn package_type_as_ref(this: &PackageType) -> &str', 1)],
             rw=[('R2', r'\bself\b', 'this', '+')],
             contract='    ensures r@ == type_name(*this)'),
        dict(id='U-ptname.display', file='purl/src/package_type.rs', fn='fmt', ctx=r'impl fmt::Display for PackageType',
             properties=['C15', 'C06'],
             sig_rw=[('R2', r"fn fmt\(&self, f: &mut fmt::Formatter<'_>\) -> fmt::Result", 'fn package_type_fmt(this: &PackageType, f: &mut Formatter) -> FmtResult', 1)],
             rw=[('R2', r'\bself\b', 'this', '+'),
                 ('R4', r'f\.write_str\((this\.name\(\))\)', r'x_write_str(f, \1)', 1)],
             contract='    ensures r is Ok ==> final(f).out() == old(f).out() + type_name(*this)'),
        dict(id='T.UnsupportedPackageType', kind='struct', name='UnsupportedPackageType', file='purl/src/package_type.rs'),
        # R2: `impl FromStr for PackageType { fn from_str }` hoisted; the lookup is an assumed dependency contract
        dict(id='U-ptname.from_str', file='purl/src/package_type.rs', fn='from_str', ctx=r'impl FromStr for PackageType',
             properties=['C15', 'C08', 'C05'],
             sig_rw=[('R2', r'fn from_str\(s: &str\) -> Result<Self, Self::Err>', 'fn package_type_from_str(s: &str) -> Result<PackageType, UnsupportedPackageType>', 1)],
             contract='''    ensures
        r is Ok ==> lower_ascii_seq(s@) == type_name(r->Ok_0),
        (exists|t: PackageType| lower_ascii_seq(s@) == type_name(t)) ==> r is Ok''',
             rw=[('R3', r'PACKAGE_TYPES\.get\(&UniCase::new\(s\)\)\.copied\(\)', 'x_table_lookup(s)', '*')]),
        dict(id='spec.PackageType', kind='raw', wrap='impl PurlShape for PackageType',
             text='''    type Error = PackageError;
    open spec fn type_text(&self) -> Seq<char> { type_name(*self) }
    open spec fn finish_rel(t0: Self, p0: PurlParts, t1: Self, p1: PurlParts, r: Result<(), PackageError>) -> bool {
        pkg_finish_rel(t0, p0, t1, p1, r)
    }'''),
        dict(id='U-ptname.package_type', file='purl/src/package_type.rs', fn='package_type', ctx=r'impl PurlShape for PackageType',
             wrap='impl PurlShape for PackageType', vis='', properties=['C15', 'C03', 'C08'],
             rw=[('R3', r'self\.name\(\)\.into\(\)', 'x_cow_from_str(self.name())', 1)]),
        dict(id='U-ptfin.finish', file='purl/src/package_type.rs', fn='finish', ctx=r'impl PurlShape for PackageType',
             wrap='impl PurlShape for PackageType', vis='', properties=['C08', 'C05', 'C09', 'C10', 'C18', 'C01'],
             sig_rw=[('R0', r'crate::PurlParts', 'PurlParts', 1)],
             rw=[('R3', r"parts\.namespace\.trim_matches\('/'\)", "x_trim_matches(parts.namespace.as_str(), '/')", '*')],
             begin='        proof { lemma_trim_empty_iff_all(parts.namespace@, \'/\'); }',
             ),
    ],
)
