# Lemmas only: C05 -- invalid input is refused with the matching error, as theorems over parse_post (contracts/theory/c05a.rs, c05b.rs)
import importlib.util, os
_spec = importlib.util.spec_from_file_location('_common', os.path.join(os.path.dirname(__file__), '_common.py'))
_c = importlib.util.module_from_spec(_spec); _spec.loader.exec_module(_c)

_c02 = _c.sibling('c02').GROUP
_units = []
for _u in _c02['units']:
    if _u['id'] in ('theory.c02a', 'theory.c02b', 'theory.c02c'):
        _units.append(dict(_u, text=_c.lemmas_contract_only(_u['text'], 'c02')))
    elif _u['id'] == 'theory.c02w':
        continue
    else:
        _units.append(_u)

GROUP = dict(
    name='c05',
    theory=_c02['theory'],
    rlimit=100,
    uses=_c02['uses'],
    canary=_c02['canary'],
    vacuity='''
pub proof fn verif_vacuity_c05_raw_must_fail<T: FromStr + PurlShape>(w: Raw, r: Result<GenericPurl<T>, <T as PurlShape>::Error>)
    where <T as PurlShape>::Error: From<<T as FromStr>::Err>
    requires plain_shape::<T>(), raw_ok_gen(w), raw_error(w) is Some, parse_post::<T>(text_raw(w), r),
    ensures false
{ }
pub proof fn verif_vacuity_c05_typed_must_fail(w: Raw, t: PackageType, r: Result<GenericPurl<PackageType>, PackageError>)
    requires raw_ok_gen(w), lower_ascii_seq(w.ty) == type_name(t), raw_error_typed(w, t) is Some, parse_post::<PackageType>(text_raw(w), r),
    ensures false
{ }
pub proof fn verif_vacuity_c05_no_type_must_fail<T: FromStr + PurlShape>(lead: nat, q: Option<Seq<char>>, sub: Option<Seq<char>>, r: Result<GenericPurl<T>, <T as PurlShape>::Error>)
    where <T as PurlShape>::Error: From<<T as FromStr>::Err>
    requires
        (match sub { Some(x) => !has_char(x, '#') && sub_fold(split_spec(trim_spec(x, '/'), '/')) is Some, None => !has_char(opt_pre('?', q), '#') }),
        (match q { Some(x) => !has_char(x, '?') && dq_fold(split_spec(x, '&'), Seq::<(Seq<char>, Seq<char>)>::empty()) is Ok, None => true }),
        parse_post::<T>(text_no_type(lead, q, sub), r),
    ensures false
{ }
pub proof fn verif_vacuity_c05_components_must_fail(w: Raw)
    requires raw_ok_gen(w), valid_type(w.ty), sub_fine(w), q_fine(w), ver_fine(w), ns_fine(w), dec(w.name) is Some, dec(w.name)->Some_0.len() > 0,
        ck_defect(phase_a_raw_gen(w)->Ok_0.kv)
    ensures false
{ }
pub proof fn verif_vacuity_c05_unknown_must_fail(w: Raw, r: Result<GenericPurl<PackageType>, PackageError>)
    requires raw_ok_gen(w), valid_type(w.ty), sub_fine(w), q_fine(w),
        forall|t: PackageType| lower_ascii_seq(w.ty) != #[trigger] type_name(t),
        parse_post::<PackageType>(text_raw(w), r),
    ensures false
{ }
''',
    units=_units + [
        dict(id='theory.ckspell', kind='raw', text=_c.lemmas_contract_only(_c.theory_text('ckspell.rs'), 'ckfix')),
        dict(id='theory.c05a', kind='raw', text=_c.theory_text('c05a.rs')),
        dict(id='theory.c05b', kind='raw', text=_c.theory_text('c05b.rs')),
    ],
)
