# Lemmas only: C01 for the type-agnostic PURL as a theorem over parse_post / canon_spec (contracts/theory/c01.rs)
import importlib.util, os
_spec = importlib.util.spec_from_file_location('_common', os.path.join(os.path.dirname(__file__), '_common.py'))
_c = importlib.util.module_from_spec(_spec); _spec.loader.exec_module(_c)

_parse = _c.sibling('parse').GROUP
_prelude = []
for _u in _parse['units']:
    if _u['id'] == 'U-dec.decode':
        break
    _prelude.append(_u)

GROUP = dict(
    name='c01',
    theory=['base.rs', 'split.rs'],
    rlimit=100,
    uses='use core::cmp::Ordering;\nuse core::marker::PhantomData;',
    canary="    axiom_string_from(); broadcast use axiom_ascii_to_lower; axiom_pct('a'); axiom_dec_enc(SetId::Path, seq!['a']); axiom_lower_no_comma('a');",
    # vacuity guard: the hypotheses of the theorem, with `ensures false` -- must be REJECTED
    vacuity='''
pub proof fn verif_vacuity_c01_must_fail<T: FromStr + PurlShape>(s: Seq<char>, g: GenericPurl<T>, r2: Result<GenericPurl<T>, <T as PurlShape>::Error>)
    where <T as PurlShape>::Error: From<<T as FromStr>::Err>
    requires
        plain_shape::<T>(),
        parse_post::<T>(s, Ok::<GenericPurl<T>, <T as PurlShape>::Error>(g)),
        parse_post::<T>(canon_spec(g.package_type.type_text(), g.parts), r2),
    ensures false
{ }
pub proof fn verif_vacuity_c01_typed_must_fail(s: Seq<char>, g: GenericPurl<PackageType>, r2: Result<GenericPurl<PackageType>, PackageError>)
    requires
        parse_post::<PackageType>(s, Ok::<GenericPurl<PackageType>, PackageError>(g)),
        parse_post::<PackageType>(canon_spec(g.package_type.type_text(), g.parts), r2),
    ensures false
{ }
pub proof fn verif_vacuity_c10_typed_must_fail(g: GenericPurl<PackageType>, t1: PackageType, p1: PurlParts, fr: Result<(), PackageError>, r: Result<GenericPurl<PackageType>, PackageError>)
    requires
        handed_out_typed(g),
        PackageType::finish_rel(g.package_type, g.parts, t1, p1, fr), build_post::<PackageType>(t1, p1, fr, r),
    ensures false
{ }
pub proof fn verif_vacuity_c08_agree_must_fail<T: FromStr + PurlShape>(s: Seq<char>, gt: GenericPurl<PackageType>, r: Result<GenericPurl<T>, <T as PurlShape>::Error>)
    where <T as PurlShape>::Error: From<<T as FromStr>::Err>
    requires plain_shape::<T>(), parse_post::<PackageType>(s, Ok::<GenericPurl<PackageType>, PackageError>(gt)), parse_post::<T>(s, r),
    ensures false
{ }
pub proof fn verif_vacuity_c08_unknown_must_fail(s: Seq<char>, rt: Result<GenericPurl<PackageType>, PackageError>)
    requires phase_a(s) is Ok, forall|t: PackageType| lower_ascii_seq(phase_a(s)->Ok_0.ty) != #[trigger] type_name(t),
        parse_post::<PackageType>(s, rt),
    ensures false
{ }
pub proof fn verif_vacuity_c16_must_fail<E: Error>(s: Seq<char>, g: GenericPurl<PackageType>, r: Result<GenericPurl<PackageType>, E>)
    requires
        parse_post::<PackageType>(s, Ok::<GenericPurl<PackageType>, PackageError>(g)),
        de_post::<PackageType, E>(canon_spec(g.package_type.type_text(), g.parts), r),
    ensures false
{ }
pub proof fn verif_vacuity_c09_typed_must_fail(t0: PackageType, p0: PurlParts, t1: PackageType, p1: PurlParts, fr: Result<(), PackageError>,
                               g: GenericPurl<PackageType>, r2: Result<GenericPurl<PackageType>, PackageError>)
    requires
        wf_seq(p0.qualifiers.qualifiers@),
        PackageType::finish_rel(t0, p0, t1, p1, fr), build_post::<PackageType>(t1, p1, fr, Ok::<GenericPurl<PackageType>, PackageError>(g)),
        parse_post::<PackageType>(canon_spec(g.package_type.type_text(), g.parts), r2),
    ensures false
{ }
''',
    units=_prelude + [
        dict(id='theory.segs_lemmas', kind='raw', text=_c.theory_text('segs_lemmas.rs')),
        dict(id='theory.c07', kind='raw', text=_parse['post'][len(_c.theory_text('segs_lemmas.rs')):]),
        dict(id='theory.enc', kind='raw', text=_c.theory_text('enc.rs')),
        dict(id='theory.canon', kind='raw', text=_c.theory_text('canon.rs')),
        dict(id='theory.inverse1', kind='raw', text=_c.lemmas_contract_only(_c.theory_text('inverse1.rs'), 'inverse')),
        dict(id='theory.inverse2', kind='raw', text=_c.lemmas_contract_only(_c.theory_text('inverse2.rs'), 'inverse')),
        dict(id='theory.inverse3', kind='raw', text=_c.lemmas_contract_only(_c.theory_text('inverse3.rs'), 'inverse')),
        dict(id='theory.inverse4', kind='raw', text=_c.lemmas_contract_only(_c.theory_text('inverse4.rs'), 'inverse')),
        dict(id='theory.inverse5', kind='raw', text=_c.lemmas_contract_only(_c.theory_text('inverse5.rs'), 'inverse')),
        dict(id='theory.inverse6', kind='raw', text=_c.lemmas_contract_only(_c.theory_text('inverse6.rs'), 'inverse')),
        dict(id='theory.ckfix', kind='raw', text=_c.lemmas_contract_only(_c.theory_text('ckfix.rs'), 'ckfix')),
        dict(id='theory.c01', kind='raw', text=_c.theory_text('c01.rs')),
        # the PackageType instance: the enum, its error, the rule vocabulary and idempotence lemmas, the impl of PurlShape (contracts proved in group pkgtype)
        _c.unit_of('pkgtype', 'T.PackageType'), _c.unit_of('pkgtype', 'T.PackageError'), _c.unit_of('pkgtype', 'T.UnsupportedPackageType'),
        dict(id='theory.pkgtype', kind='raw', text=_c.theory_text('pkgtype.rs')[:_c.theory_text('pkgtype.rs').index('// ---- the static name table (C15) ----')]),
        dict(id='spec.From.UnsupportedPackageType', kind='raw', text='''
// the specification side of `impl From<UnsupportedPackageType> for PackageError` (the real body below is checked against it)
impl vstd::std_specs::convert::FromSpecImpl<UnsupportedPackageType> for PackageError {
    open spec fn obeys_from_spec() -> bool { true }
    open spec fn from_spec(e: UnsupportedPackageType) -> Self { PackageError::UnsupportedType }
}
'''),
        dict(id='T.From.UnsupportedPackageType', kind='block', file='purl/src/package_type.rs', header=r'impl From<UnsupportedPackageType> for PackageError',
             rw=[('R0', r'fn from\(_: UnsupportedPackageType\)', 'fn from(_e: UnsupportedPackageType)', 1)]),
        _c.unit_of('pkgtype', 'spec.PackageType'),
        _c.contract_only('pkgtype', 'U-ptname.package_type'),
        _c.contract_only('pkgtype', 'U-ptfin.finish'),
        dict(id='theory.pypi_idem', kind='raw', text=_c.theory_text('pypi_idem.rs')),
        dict(id='theory.c01_typed', kind='raw', text=_c.theory_text('c01_typed.rs')),
        dict(id='theory.c09', kind='raw', text=_c.theory_text('c09.rs')),
        dict(id='theory.c08', kind='raw', text=_c.theory_text('c08.rs')),
        dict(id='theory.serde_post', kind='raw', text=_c.theory_text('serde_post.rs')),
        dict(id='theory.c16', kind='raw', text=_c.theory_text('c16.rs')),
    ],
)
