# Lemmas only: C01 for the type-agnostic PURL as a theorem over parse_post / canon_spec (contracts/theory/c01.rs)
import importlib.util, os
_spec = importlib.util.spec_from_file_location('_common', os.path.join(os.path.dirname(__file__), '_common.py'))
_c = importlib.util.module_from_spec(_spec); _spec.loader.exec_module(_c)

_parse = _c.sibling('parse').GROUP
_prelude = []
for _u in _parse['units']:
    if _u['id'] == 'U-dec.decode':
        break
    _prelude.append(_u)

GROUP = dict(
    name='c01',
    theory=['base.rs', 'split.rs'],
    rlimit=100,
    uses='use core::cmp::Ordering;\nuse core::marker::PhantomData;',
    canary="    axiom_string_from(); broadcast use axiom_ascii_to_lower; axiom_pct('a'); axiom_dec_enc(SetId::Path, seq!['a']);",
    # vacuity guard: the hypotheses of the theorem, with `ensures false` -- must be REJECTED
    vacuity='''
pub proof fn verif_vacuity_c01_must_fail<T: FromStr + PurlShape>(s: Seq<char>, g: GenericPurl<T>, r2: Result<GenericPurl<T>, <T as PurlShape>::Error>)
    where <T as PurlShape>::Error: From<<T as FromStr>::Err>
    requires
        plain_shape::<T>(),
        parse_post::<T>(s, Ok::<GenericPurl<T>, <T as PurlShape>::Error>(g)),
        !has_key(g.parts.qualifiers.qualifiers@, checksum_key()),
        parse_post::<T>(canon_spec(g.package_type.type_text(), g.parts), r2),
    ensures false
{ }
''',
    units=_prelude + [
        dict(id='theory.segs_lemmas', kind='raw', text=_c.theory_text('segs_lemmas.rs')),
        dict(id='theory.c07', kind='raw', text=_parse['post'][len(_c.theory_text('segs_lemmas.rs')):]),
        dict(id='theory.enc', kind='raw', text=_c.theory_text('enc.rs')),
        dict(id='theory.canon', kind='raw', text=_c.theory_text('canon.rs')),
        dict(id='theory.inverse1', kind='raw', text=_c.theory_text('inverse1.rs')),
        dict(id='theory.inverse2', kind='raw', text=_c.theory_text('inverse2.rs')),
        dict(id='theory.inverse3', kind='raw', text=_c.theory_text('inverse3.rs')),
        dict(id='theory.inverse4', kind='raw', text=_c.theory_text('inverse4.rs')),
        dict(id='theory.c01', kind='raw', text=_c.theory_text('c01.rs')),
    ],
)
