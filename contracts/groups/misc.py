# Small conversions that only C06 speaks about ("every operation returns"): PurlField -> text, QualifierKey -> text
import importlib.util, os
_spec = importlib.util.spec_from_file_location('_common', os.path.join(os.path.dirname(__file__), '_common.py'))
_c = importlib.util.module_from_spec(_spec); _spec.loader.exec_module(_c)

P = 'purl/src/parse.rs'
Q = 'purl/src/qualifiers.rs'

GROUP = dict(
    name='misc',
    theory=['base.rs'],
    uses='use core::cmp::Ordering;',
    canary='    axiom_string_from(); broadcast use axiom_ascii_to_lower;',
    units=[
        _c.PURL_FIELD, _c.QUALIFIER_KEY,
        dict(id='theory.formatter', kind='raw', text=_c.theory_text('fmt.rs')[:_c.theory_text('fmt.rs').index('/// `{}` of a `Display` value')]),
        dict(id='spec.field_name', kind='raw', text='''
/// the documented names of the fields
pub open spec fn field_name(f: PurlField) -> Seq<char> {
    match f {
        PurlField::PackageType => "package type"@, PurlField::Namespace => "namespace"@, PurlField::Name => "name"@,
        PurlField::Version => "version"@, PurlField::Subpath => "subpath"@,
    }
}
'''),
        dict(id='U-field.name', file=P, fn='name', ctx=r'impl PurlField \{', wrap='impl PurlField', properties=['C06'],
             sig_rw=[('R0', r'pub const fn name', 'pub fn name', 1)],
             contract='        ensures r@ == field_name(*self)'),
        dict(id='U-field.into_str', file=P, fn='from', ctx=r"impl From<PurlField> for &'static str", properties=['C06'],
             sig_rw=[('R2', r'fn from\(value: PurlField\) -> Self', "fn purl_field_into_str(value: PurlField) -> &'static str", 1)],
             contract='    ensures r@ == field_name(value)'),
        dict(id='U-field.display', file=P, fn='fmt', ctx=r'impl fmt::Display for PurlField', properties=['C06'],
             sig_rw=[('R2', r"fn fmt\(&self, f: &mut fmt::Formatter<'_>\) -> fmt::Result", 'fn purl_field_fmt(this: &PurlField, f: &mut Formatter) -> FmtResult', 1)],
             rw=[('R2', r'\bself\b', 'this', '+'),
                 # R4: `{}` of a &str writes the text
                 ('R4', r'write!\(f, "\{\}", (this\.name\(\))\)', r'x_write_str(f, \1)', 1)],
             contract='    ensures r is Ok ==> final(f).out() == old(f).out() + field_name(*this)'),
        _c.unit_of('qual', 'U-qkey.as_str'),
        # R2: impls of std conversion traits for QualifierKey hoisted to free functions, bodies verbatim
        dict(id='U-qkey.as_ref_str', file=Q, fn='as_ref', ctx=r'impl AsRef<str> for QualifierKey', properties=['C06', 'C11'],
             sig_rw=[('R2', r'fn as_ref\(&self\) -> &str', 'fn qualifier_key_as_ref(this: &QualifierKey) -> &str', 1)],
             rw=[('R2', r'\bself\b', 'this', '+')],
             contract='    ensures r@ == this.0@'),
        dict(id='U-qkey.into_string', file=Q, fn='from', ctx=r'impl From<QualifierKey> for SmallString', properties=['C06', 'C11'],
             sig_rw=[('R2', r'fn from\(value: QualifierKey\) -> Self', 'fn qualifier_key_into_string(value: QualifierKey) -> SmallString', 1)],
             begin='    proof { axiom_string_from(); }',
             contract='    ensures r@ == value.0@'),
        dict(id='U-qkey.ref_into_string', file=Q, fn='from', ctx=r'impl From<&QualifierKey> for SmallString', properties=['C06', 'C11'],
             sig_rw=[('R2', r'fn from\(value: &QualifierKey\) -> Self', 'fn qualifier_key_ref_into_string(value: &QualifierKey) -> SmallString', 1)],
             begin='    proof { axiom_string_from(); }',
             contract='    ensures r@ == value.0@'),
        _c.unit_of('cksum', 'T.ChecksumValue'),
        dict(id='U-ckval.deref', file='purl/src/qualifiers/well_known.rs', fn='deref', ctx=r"impl Deref for ChecksumValue<'_>", properties=['C06', 'C12'],
             sig_rw=[('R2', r'fn deref\(&self\) -> &Self::Target', "fn checksum_value_deref<'a>(this: &ChecksumValue<'a>) -> &'a str", 1)],
             rw=[('R2', r'\bself\b', 'this', '+')],
             contract='    ensures r@ == this.0@'),
    ],
)
