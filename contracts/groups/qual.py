# U-qkey, U-qcmp, U-qmap: purl/src/qualifiers.rs  -- C04, C05, C11 (and the ascending-order clause of C03)
import importlib.util, os
_spec = importlib.util.spec_from_file_location('_common', os.path.join(os.path.dirname(__file__), '_common.py'))
_c = importlib.util.module_from_spec(_spec); _spec.loader.exec_module(_c)

F = 'purl/src/qualifiers.rs'
_CONST = [('R6', r'const (\w+): &\[char\] = &\[([^\]]*)\];',
           r"exec const \1: &'static [char] ensures \1@ =~= seq![\2] { &[\2] }")]

KEY_UNITS = [
    dict(id='T.MixedQualifierKey', kind='enum', name='MixedQualifierKey', file=F),
    dict(id='theory.qual', kind='raw', text=_c.theory_text('qualkeys.rs') + _c.theory_text('qual.rs') + '''
impl<S: AsRef<str>> MixedQualifierKey<S> {
    pub open spec fn text(&self) -> Seq<char> {
        match self { MixedQualifierKey::Lower(s) => s.text(), MixedQualifierKey::Mixed(s) => s.text() }
    }
    /// valid key; the `Lower` tag promises there is nothing to lower-case
    pub open spec fn wf(&self) -> bool {
        valid_key(self.text()) && (self is Lower ==> all_ascii_lower(self.text()))
    }
    pub open spec fn canon(&self) -> Seq<char> { lower_ascii_seq(self.text()) }
}
pub proof fn lemma_canon_of_valid(s: Seq<char>)
    requires valid_key(s)
    ensures canon_key(lower_ascii_seq(s)), lower_seq(s) == lower_ascii_seq(s)
{
    let l = lower_ascii_seq(s);
    assert forall|i: int| 0 <= i < l.len() implies key_char(#[trigger] l[i]) && !ascii_upper_c(l[i]) by {
        assert(key_char(s[i]));
    }
    assert forall|i: int| 0 <= i < s.len() implies (u_to_lower(#[trigger] s[i]) != seq![s[i]] ==> is_ascii_c(s[i])) by {
        assert(key_char(s[i]));
    }
    lemma_lower_seq_ascii(s);
}
'''),
    dict(id='U-qkey.is_valid_qualifier_name', file=F, fn='is_valid_qualifier_name',
         properties=['C04', 'C05', 'C11', 'C02', 'C09'],
         contract='    ensures r == valid_key(k@)',
         hoist=_CONST,
         rw=[('R5', '@all_any', ''),
             ('R3', r'ALLOWED_SPECIAL_CHARS\.contains\(&c\)', 'x_slice_contains(ALLOWED_SPECIAL_CHARS, &c)', '*')],
         loops={0: '''
    invariant_except_break
        all_ok0,
        forall|i: int| 0 <= i < it.index@ ==> key_char(#[trigger] k@[i]),
    invariant
        it.seq() == k@,
    ensures
        all_ok0 ==> forall|i: int| 0 <= i < k@.len() ==> key_char(#[trigger] k@[i]),
        !all_ok0 ==> exists|i: int| 0 <= i < k@.len() && !key_char(#[trigger] k@[i]),
'''}),
    dict(id='U-qkey.check_qualifier_key', file=F, fn='check_qualifier_key',
         properties=['C04', 'C05', 'C11', 'C02', 'C09'],
         contract='''    ensures
        !valid_key(k.text()) ==> r is Err && r->Err_0 is InvalidQualifier,
        valid_key(k.text()) ==> r is Ok && r->Ok_0.wf() && r->Ok_0.text() == k.text(),''',
         begin='    broadcast use axiom_view_of_str;',
         rw=[('R5', '@all_any', '')],
         loops={0: '''
    invariant_except_break
        all_ok0,
        forall|i: int| 0 <= i < it.index@ ==> ascii_lower_c(#[trigger] ks@[i]),
    invariant
        it.seq() == ks@,
    ensures
        all_ok0 ==> all_ascii_lower(ks@),
'''}),
    dict(id='U-qkey.into_key', file=F, fn='into_key', ctx=r'impl<S> MixedQualifierKey<S>\s*\{',
         wrap='impl<S: AsRef<str>> MixedQualifierKey<S>',
         properties=['C04', 'C11', 'C09'],
         contract='''        requires self.wf()
        ensures r.0@ == self.canon(), canon_key(r.0@)''',
         begin='''        proof {
            axiom_from_keeps_text::<S>();
            lemma_canon_of_valid(self.text());
            if self is Lower { lemma_lower_ascii_fixed(self.text()); }
        }''',
         rw=[('R3', r's\.make_ascii_lowercase\(\);', 'x_make_ascii_lowercase(&mut s);', '*')]),
    dict(id='U-qkey.as_ref', file=F, fn='as_ref', ctx=r'impl<S> AsRef<str> for MixedQualifierKey<S>',
         wrap='impl<S: AsRef<str>> AsRef<str> for MixedQualifierKey<S>', vis='',
         properties=['C11'], pre_text='''    open spec fn text(&self) -> Seq<char> {
        match self { MixedQualifierKey::Lower(s) => s.text(), MixedQualifierKey::Mixed(s) => s.text() }
    }'''),
]

CMP_UNITS = [
    # R2: impl<S> PartialOrd<S> for QualifierKey / PartialEq<S> hoisted to inherent methods (same names, same bodies)
    dict(id='U-qcmp.partial_cmp', file=F, fn='partial_cmp', ctx=r'impl<S> PartialOrd<S> for QualifierKey',
         wrap='impl QualifierKey', properties=['C11', 'C19', 'C06'],
         sig_rw=[('R2', r'fn partial_cmp\(&self, other: &S\)', 'fn partial_cmp<S: AsRef<str> + ?Sized>(&self, other: &S)', 1)],
         contract='        ensures r == Some(lex_cmp(self.0@, lower_seq(other.text())))',
         begin='        broadcast use axiom_view_of_str;',
         rw=[('R5', r'let other = other\.as_ref\(\)\.chars\(\)\.flat_map\(\|c\| c\.to_lowercase\(\)\);\s*Some\(self\.0\.chars\(\)\.cmp\(other\)\)',
              'Some(x_cmp_chars_lower(self.0.as_str(), other.as_ref()))', 1)]),
    dict(id='U-qcmp.eq', file=F, fn='eq', ctx=r'impl<S> PartialEq<S> for QualifierKey',
         wrap='impl QualifierKey', properties=['C11', 'C19'],
         sig_rw=[('R2', r'fn eq\(&self, other: &S\)', 'fn eq<S: AsRef<str> + ?Sized>(&self, other: &S)', 1)],
         contract='        ensures r == (self.0@ == lower_seq(other.text()))',
         begin='        proof { lemma_lex_eq(self.0@, lower_seq(other.text())); }',
         rw=[('R10', r'\|o\| o\.is_eq\(\)', '|o: Ordering| -> (b: bool) ensures b == (o is Equal) { o.is_eq() }', '*')]),
]

MAP_UNITS = [
    dict(id='spec.Qualifiers', kind='raw', wrap='impl Qualifiers', text='''    /// representation invariant (C04, C11): keys valid, lower-case, strictly ascending
    pub open spec fn wf(&self) -> bool { wf_seq(self.qualifiers@) }'''),
    dict(id='U-qmap.search', file=F, fn='search', ctx=r'impl Qualifiers\s*\{', wrap='impl Qualifiers',
         properties=['C11', 'C04', 'C06', 'C03'],
         contract='''        requires self.wf(), key.wf()
        ensures match r {
            Ok(i) => i < self.qualifiers@.len() && self.qualifiers@[i as int].0.0@ == key.canon()
                && i == pos_of(self.qualifiers@, key.canon()),
            Err(i) => i <= self.qualifiers@.len() && i == pos_of(self.qualifiers@, key.canon())
                && (forall|j: int| 0 <= j < i ==> str_lt(#[trigger] self.qualifiers@[j].0.0@, key.canon()))
                && (forall|j: int| i <= j < self.qualifiers@.len() ==> str_lt(key.canon(), #[trigger] self.qualifiers@[j].0.0@))
                && !has_key(self.qualifiers@, key.canon()),
        }''',
         # R5: the comparator closure is lifted to a named function (body verbatim) so that its unwrap() is an obligation
         hoist=[('R5', r'self\.qualifiers\.binary_search_by\(\|\(qk, _qv\)\| (.*)\)(?=\s*\}\s*$)',
                 '''pub fn search_cmp<K: AsRef<str>>(qk: &QualifierKey, key: &MixedQualifierKey<K>) -> (r: Ordering)
    ensures r == lex_cmp(qk.0@, lower_seq(key.text()))
{ \\1 }
/// `v.binary_search_by(|(qk, _qv)| search_cmp(qk, key))` -- std's documented contract for a partitioned slice
#[verifier::external_body]
pub fn x_binary_search_keys<K: AsRef<str>>(v: &Vec<(QualifierKey, SmallString)>, key: &MixedQualifierKey<K>) -> (r: Result<usize, usize>)
    requires
        forall|i: int, j: int| 0 <= i < j < v.len() ==>
            ord_rank(key_cmp(#[trigger] v[i], lower_seq(key.text()))) <= ord_rank(key_cmp(#[trigger] v[j], lower_seq(key.text()))),
    ensures
        match r {
            Ok(i) => i < v.len() && key_cmp(v[i as int], lower_seq(key.text())) is Equal,
            Err(i) => i <= v.len()
                && (forall|j: int| 0 <= j < i ==> key_cmp(#[trigger] v[j], lower_seq(key.text())) is Less)
                && (forall|j: int| i <= j < v.len() ==> key_cmp(#[trigger] v[j], lower_seq(key.text())) is Greater),
        },
{ v.binary_search_by(|(qk, _qv)| search_cmp(qk, key)) }
''', 'x_binary_search_keys(&self.qualifiers, key)')],
         # R10: the tail expression is bound to a name so that a proof block can follow it
         hints=[(r'x_binary_search_keys\(&self\.qualifiers, key\)', 'before', '        let res ='),
                (r'x_binary_search_keys\(&self\.qualifiers, key\)', 'after', '''        ;
        proof {
            let v = self.qualifiers@;
            let k = key.canon();
            let i: int = match res { Ok(i) => i as int, Err(i) => i as int };
            assert forall|j: int| 0 <= j < i implies str_lt(#[trigger] v[j].0.0@, k) by {
                if res is Ok { assert(str_lt(v[j].0.0@, v[i].0.0@)); }
            }
            assert forall|j: int| i <= j < v.len() implies !str_lt(#[trigger] v[j].0.0@, k) by {
                if res is Ok {
                    if j == i { lemma_lt_irrefl(k); } else { assert(str_lt(v[i].0.0@, v[j].0.0@)); lemma_lt_asym(k, v[j].0.0@); }
                } else { lemma_lt_asym(k, v[j].0.0@); }
            }
            lemma_pos_of(v, k, i);
        }
        res''')],
         begin='''        proof {
            lemma_canon_of_valid(key.text());
            lemma_lt_irrefl(key.canon());
            lemma_sorted_partition(self.qualifiers@, lower_seq(key.text()));
            assert forall|j: int| 0 <= j < self.qualifiers@.len() implies
                ((key_cmp(#[trigger] self.qualifiers@[j], key.canon()) is Greater) == str_lt(key.canon(), self.qualifiers@[j].0.0@)) by {
                lemma_lex_flip(self.qualifiers@[j].0.0@, key.canon());
            }
            assert forall|j: int| 0 <= j < self.qualifiers@.len() implies
                ((key_cmp(#[trigger] self.qualifiers@[j], key.canon()) is Equal) == (self.qualifiers@[j].0.0@ == key.canon())) by {
                lemma_lex_eq(self.qualifiers@[j].0.0@, key.canon());
            }
        }'''),
]


_Q = r'impl Qualifiers\s*\{'
_KT = 'lower_ascii_seq(key.text())'

MAP_UNITS2 = [
    dict(id='T.OccupiedEntry', kind='struct', name='OccupiedEntry', file=F),
    dict(id='T.VacantEntry', kind='struct', name='VacantEntry', file=F),
    dict(id='T.Entry', kind='enum', name='Entry', file=F),
    dict(id='spec.entries', kind='raw', text="""
impl<'a, K> OccupiedEntry<'a, K> {
    pub open spec fn wf(&self) -> bool { wf_seq(self.qualifiers@) && self.index < self.qualifiers@.len() }
}
impl<'a, K: AsRef<str>> VacantEntry<'a, K> {
    /// `index` is the one position where `key` can be inserted keeping the list strictly ascending
    pub open spec fn wf(&self) -> bool {
        wf_seq(self.qualifiers@) && self.key.wf() && self.index <= self.qualifiers@.len()
        && (forall|j: int| 0 <= j < self.index ==> str_lt(#[trigger] self.qualifiers@[j].0.0@, self.key.canon()))
        && (forall|j: int| self.index <= j < self.qualifiers@.len() ==> str_lt(self.key.canon(), #[trigger] self.qualifiers@[j].0.0@))
    }
}
pub proof fn lemma_insert_keeps_wf(v: Seq<(QualifierKey, SmallString)>, i: int, kv: (QualifierKey, SmallString))
    requires wf_seq(v), 0 <= i <= v.len(), canon_key(kv.0.0@),
        forall|j: int| 0 <= j < i ==> str_lt(#[trigger] v[j].0.0@, kv.0.0@),
        forall|j: int| i <= j < v.len() ==> str_lt(kv.0.0@, #[trigger] v[j].0.0@),
    ensures wf_seq(v.insert(i, kv))
{
    let w = v.insert(i, kv);
    assert forall|a: int, b: int| 0 <= a < b < w.len() implies str_lt(#[trigger] w[a].0.0@, #[trigger] w[b].0.0@) by {
        if a < i && b == i { assert(w[a] == v[a]); }
        else if a < i && b > i { assert(w[a] == v[a]); assert(w[b] == v[b - 1]); }
        else if a == i { assert(w[b] == v[b - 1]); }
        else if a > i { assert(w[a] == v[a - 1]); assert(w[b] == v[b - 1]); }
        else { assert(w[a] == v[a]); assert(w[b] == v[b]); }
    }
    assert forall|a: int| 0 <= a < w.len() implies canon_key(#[trigger] w[a].0.0@) by {
        if a < i { assert(w[a] == v[a]); } else if a > i { assert(w[a] == v[a - 1]); }
    }
}
pub proof fn lemma_remove_keeps_wf(v: Seq<(QualifierKey, SmallString)>, i: int)
    requires wf_seq(v), 0 <= i < v.len()
    ensures wf_seq(v.remove(i))
{
    let w = v.remove(i);
    assert forall|a: int, b: int| 0 <= a < b < w.len() implies str_lt(#[trigger] w[a].0.0@, #[trigger] w[b].0.0@) by {
        let a0 = if a < i { a } else { a + 1 };
        let b0 = if b < i { b } else { b + 1 };
        assert(w[a] == v[a0]); assert(w[b] == v[b0]);
    }
    assert forall|a: int| 0 <= a < w.len() implies canon_key(#[trigger] w[a].0.0@) by {
        let a0 = if a < i { a } else { a + 1 };
        assert(w[a] == v[a0]);
    }
}
pub proof fn lemma_update_value_keeps_wf(v: Seq<(QualifierKey, SmallString)>, i: int, val: SmallString)
    requires wf_seq(v), 0 <= i < v.len()
    ensures wf_seq(v.update(i, (v[i].0, val)))
{
    let w = v.update(i, (v[i].0, val));
    assert forall|a: int, b: int| 0 <= a < b < w.len() implies str_lt(#[trigger] w[a].0.0@, #[trigger] w[b].0.0@) by {
        assert(w[a].0 == v[a].0); assert(w[b].0 == v[b].0);
    }
    assert forall|a: int| 0 <= a < w.len() implies canon_key(#[trigger] w[a].0.0@) by { assert(w[a].0 == v[a].0); }
}
/// a key that sorts strictly between its neighbours is not in the list
pub proof fn lemma_gap_not_present(v: Seq<(QualifierKey, SmallString)>, i: int, k: Seq<char>)
    requires 0 <= i <= v.len(),
        forall|j: int| 0 <= j < i ==> str_lt(#[trigger] v[j].0.0@, k),
        forall|j: int| i <= j < v.len() ==> str_lt(k, #[trigger] v[j].0.0@),
    ensures !has_key(v, k)
{
    lemma_lt_irrefl(k);
}
"""),
    dict(id='U-qmap.len', file=F, fn='len', ctx=_Q, wrap='impl Qualifiers', properties=['C11'],
         contract='        ensures r == self.qualifiers@.len()'),
    dict(id='U-qmap.is_empty', file=F, fn='is_empty', ctx=_Q, wrap='impl Qualifiers', properties=['C11', 'C03'],
         contract='        ensures r == (self.qualifiers@.len() == 0)'),
    dict(id='U-qmap.clear', file=F, fn='clear', ctx=_Q, wrap='impl Qualifiers', properties=['C11', 'C09'], ret=None,
         contract='        ensures final(self).qualifiers@.len() == 0, final(self).wf()'),
    dict(id='U-qmap.get_index', file=F, fn='get_index', ctx=_Q, wrap='impl Qualifiers', properties=['C11', 'C04'],
         contract="""        requires self.wf()
        ensures match r {
            Some(i) => valid_key(key.text()) && i < self.qualifiers@.len() && self.qualifiers@[i as int].0.0@ == lower_ascii_seq(key.text())
                && i == pos_of(self.qualifiers@, lower_ascii_seq(key.text())),
            None => !valid_key(key.text()) || !has_key(self.qualifiers@, lower_ascii_seq(key.text())),
        }""",
         hints=[(r'self\.search\(&key\)\.ok\(\)', 'before', """        let ghost kt = key.text();
        proof {
            if self.search(&key) is Err {
            }
        }""")] if False else [],
         ),
]


MAP_UNITS3 = [
    dict(id='U-qmap.get', file=F, fn='get', ctx=_Q, wrap='impl Qualifiers', properties=['C11', 'C04'],
         contract="""        requires self.wf()
        ensures
            r is Some == (valid_key(key.text()) && has_key(self.qualifiers@, lower_ascii_seq(key.text()))),
            r is Some ==> has_pair(self.qualifiers@, lower_ascii_seq(key.text()), r->Some_0@),""",
         rw=[('R10', r'\|i\| self\.qualifiers\[i\]\.1\.as_str\(\)',
              '|i: usize| -> (s: &str) requires i < self.qualifiers@.len() ensures s@ == self.qualifiers@[i as int].1@ { self.qualifiers[i].1.as_str() }', 1)]),
    dict(id='U-qmap.contains_key', file=F, fn='contains_key', ctx=_Q, wrap='impl Qualifiers', properties=['C11'],
         contract="""        requires self.wf()
        ensures r == (valid_key(key.text()) && has_key(self.qualifiers@, lower_ascii_seq(key.text())))"""),
    dict(id='U-qmap.insert', file=F, fn='insert', ctx=_Q, wrap='impl Qualifiers', properties=['C11', 'C04', 'C09', 'C12'],
         contract="""        requires old(self).wf()
        ensures
            final(self).wf(),
            !valid_key(key.text()) ==> r is Err && r->Err_0 is InvalidQualifier && final(self).qualifiers@ == old(self).qualifiers@,
            valid_key(key.text()) ==> r is Ok
                && (<SmallString as vstd::std_specs::convert::FromSpec<V>>::obeys_from_spec() ==>
                        *(r->Ok_0) == <SmallString as vstd::std_specs::convert::FromSpec<V>>::from_spec(v)),
            // whole-content postcondition (p names the position of the key = number of smaller keys):
            // an existing key keeps its position and only its value changes ...
            valid_key(key.text()) && has_key(old(self).qualifiers@, lower_ascii_seq(key.text())) ==> ({
                let p = pos_of(old(self).qualifiers@, lower_ascii_seq(key.text()));
                0 <= p < old(self).qualifiers@.len() && old(self).qualifiers@[p].0.0@ == lower_ascii_seq(key.text())
                && final(self).qualifiers@ == old(self).qualifiers@.update(p, (old(self).qualifiers@[p].0, *final(r->Ok_0)))
            }),
            // ... a new key is spliced in at p, every other pair untouched and in the same order
            valid_key(key.text()) && !has_key(old(self).qualifiers@, lower_ascii_seq(key.text())) ==> ({
                let p = pos_of(old(self).qualifiers@, lower_ascii_seq(key.text()));
                0 <= p <= old(self).qualifiers@.len()
                && final(self).qualifiers@.len() == old(self).qualifiers@.len() + 1
                && final(self).qualifiers@[p].0.0@ == lower_ascii_seq(key.text())
                && final(self).qualifiers@ == old(self).qualifiers@.insert(p, (final(self).qualifiers@[p].0, *final(r->Ok_0)))
            }),""",
         hints=[
             (r'let key = check_qualifier_key\(key\)\?;', 'after', '        let ghost kt = key.canon();\n        let ghost old_v = self.qualifiers@;'),
             (r'self\.qualifiers\[i\]\.1 = SmallString::from\(v\);', 'after',
              '                proof { lemma_update_value_keeps_wf(old_v, i as int, self.qualifiers@[i as int].1); assert(old_v[i as int].0.0@ == kt); assert(has_key(old_v, kt)); }'),
             (r'self\.qualifiers\.insert\(i, \(key\.into_key\(\), SmallString::from\(v\)\)\);', 'after',
              '                proof { lemma_insert_keeps_wf(old_v, i as int, self.qualifiers@[i as int]); assert(!has_key(old_v, kt)); assert(self.qualifiers@[i as int].0.0@ == kt); }'),
             (r'Ok\(&mut self\.qualifiers\[index\]\.1\)', 'before', """        proof {
            let mid = self.qualifiers@;
            let ix = index as int;
            assert forall|x: SmallString| wf_seq(#[trigger] mid.update(ix, (mid[ix].0, x))) by {
                lemma_update_value_keeps_wf(mid, ix, x);
            }
            if has_key(old_v, kt) {
                assert forall|x: SmallString| #[trigger] mid.update(ix, (mid[ix].0, x)) == old_v.update(ix, (old_v[ix].0, x)) by {
                    assert(mid.update(ix, (mid[ix].0, x)) =~= old_v.update(ix, (old_v[ix].0, x)));
                }
            } else {
                assert(mid.len() == old_v.len() + 1);
                assert(mid[ix].0.0@ == kt);
                assert forall|x: SmallString| {
                    let w = #[trigger] mid.update(ix, (mid[ix].0, x));
                    w == old_v.insert(ix, (w[ix].0, x)) && w[ix].0.0@ == kt && w.len() == old_v.len() + 1
                } by {
                    assert(mid.update(ix, (mid[ix].0, x)) =~= old_v.insert(ix, (mid[ix].0, x)));
                }
            }
        }"""),
         ]),
    dict(id='U-qmap.remove', file=F, fn='remove', ctx=_Q, wrap='impl Qualifiers', properties=['C11', 'C09'],
         contract="""        requires old(self).wf()
        ensures
            final(self).wf(),
            r is Some == (valid_key(key.text()) && has_key(old(self).qualifiers@, lower_ascii_seq(key.text()))),
            r is None ==> final(self).qualifiers@ == old(self).qualifiers@,
            r is Some ==> ({
                let p = pos_of(old(self).qualifiers@, lower_ascii_seq(key.text()));
                0 <= p < old(self).qualifiers@.len() && old(self).qualifiers@[p].0.0@ == lower_ascii_seq(key.text())
                && r->Some_0 == old(self).qualifiers@[p].1
                && final(self).qualifiers@ == old(self).qualifiers@.remove(p)
            }),""",
         ),
]


_OE = r"impl<'a, K> OccupiedEntry<'a, K>\s*\{"
_VE = r"impl<'a, K> VacantEntry<'a, K>\s*\{"
MAP_UNITS4 = [
    dict(id='U-qmap.entry', file=F, fn='entry', ctx=_Q, wrap='impl Qualifiers', properties=['C11', 'C05', 'C02'],
         contract="""        requires old(self).wf()
        ensures
            !valid_key(key.text()) ==> r is Err && r->Err_0 is InvalidQualifier && final(self).qualifiers@ == old(self).qualifiers@,
            valid_key(key.text()) ==> r is Ok && match r->Ok_0 {
                Entry::Occupied(o) => o.wf() && *o.qualifiers == old(self).qualifiers && *final(o.qualifiers) == final(self).qualifiers
                    && o.index == pos_of(old(self).qualifiers@, lower_ascii_seq(key.text()))
                    && old(self).qualifiers@[o.index as int].0.0@ == lower_ascii_seq(key.text()),
                Entry::Vacant(v) => v.wf() && *v.qualifiers == old(self).qualifiers && *final(v.qualifiers) == final(self).qualifiers
                    && v.index == pos_of(old(self).qualifiers@, lower_ascii_seq(key.text()))
                    && v.key.text() == key.text()
                    && !has_key(old(self).qualifiers@, lower_ascii_seq(key.text())),
            },""",
         ),
    dict(id='U-qmap.VacantEntry.insert', file=F, fn='insert', ctx=_VE, wrap="impl<'a, K: AsRef<str>> VacantEntry<'a, K>",
         properties=['C11', 'C04', 'C02'],
         contract="""        requires self.wf()
        ensures
            <SmallString as vstd::std_specs::convert::FromSpec<V>>::obeys_from_spec() ==>
                *r == <SmallString as vstd::std_specs::convert::FromSpec<V>>::from_spec(value),
            wf_seq(final(self.qualifiers)@),
            final(self.qualifiers)@.len() == old(self.qualifiers)@.len() + 1,
            final(self.qualifiers)@[self.index as int].0.0@ == self.key.canon(),
            final(self.qualifiers)@ == old(self.qualifiers)@.insert(self.index as int, (final(self.qualifiers)@[self.index as int].0, *final(r))),""",
         hints=[(r'self\.qualifiers\.insert\(self\.index, \(self\.key\.into_key\(\), SmallString::from\(value\)\)\);', 'before',
                 '        let ghost old_v = self.qualifiers@;\n        let ghost ix = self.index as int;\n        let ghost kt = self.key.canon();'),
                (r'self\.qualifiers\.insert\(self\.index, \(self\.key\.into_key\(\), SmallString::from\(value\)\)\);', 'after',
                 """        proof {
            lemma_insert_keeps_wf(old_v, ix, self.qualifiers@[ix]);
            let mid = self.qualifiers@;
            assert forall|x: SmallString| wf_seq(#[trigger] mid.update(ix, (mid[ix].0, x))) by { lemma_update_value_keeps_wf(mid, ix, x); }
            assert forall|x: SmallString| {
                let w = #[trigger] mid.update(ix, (mid[ix].0, x));
                w == old_v.insert(ix, (w[ix].0, x))
            } by { assert(mid.update(ix, (mid[ix].0, x)) =~= old_v.insert(ix, (mid[ix].0, x))); }
        }""")]),
    dict(id='U-qmap.OccupiedEntry.remove_entry', file=F, fn='remove_entry', ctx=_OE, wrap="impl<'a, K> OccupiedEntry<'a, K>",
         properties=['C11'],
         contract="""        requires self.wf()
        ensures wf_seq(final(self.qualifiers)@), final(self.qualifiers)@ == old(self.qualifiers)@.remove(self.index as int),
            r.0 == old(self.qualifiers)@[self.index as int].0.0, r.1 == old(self.qualifiers)@[self.index as int].1""",
         begin='        proof { lemma_remove_keeps_wf(self.qualifiers@, self.index as int); }'),
    dict(id='U-qmap.OccupiedEntry.get', file=F, fn='get', ctx=_OE, wrap="impl<'a, K> OccupiedEntry<'a, K>", properties=['C11'],
         contract="""        requires self.wf()
        ensures r@ == old(self.qualifiers)@[self.index as int].1@"""),
    dict(id='U-qmap.OccupiedEntry.get_mut', file=F, fn='get_mut', ctx=_OE, wrap="impl<'a, K> OccupiedEntry<'a, K>", properties=['C11'],
         contract="""        requires old(self).wf()
        ensures *r == old(self).qualifiers@[old(self).index as int].1, final(self).index == old(self).index,
            final(self).qualifiers@ == old(self).qualifiers@.update(old(self).index as int, (old(self).qualifiers@[old(self).index as int].0, *final(r))),
            // the entry still refers to the same list
            final(final(self).qualifiers)@ == final(old(self).qualifiers)@,
            final(self).wf()""",
         begin="""        proof { let v = self.qualifiers@; let ix = self.index as int;
            assert forall|x: SmallString| wf_seq(#[trigger] v.update(ix, (v[ix].0, x))) by { lemma_update_value_keeps_wf(v, ix, x); } }"""),
    dict(id='U-qmap.OccupiedEntry.into_mut', file=F, fn='into_mut', ctx=_OE, wrap="impl<'a, K> OccupiedEntry<'a, K>", properties=['C11'],
         contract="""        requires self.wf()
        ensures *r == old(self.qualifiers)@[self.index as int].1,
            final(self.qualifiers)@ == old(self.qualifiers)@.update(self.index as int, (old(self.qualifiers)@[self.index as int].0, *final(r))),
            wf_seq(final(self.qualifiers)@)""",
         begin="""        proof { let v = self.qualifiers@; let ix = self.index as int;
            assert forall|x: SmallString| wf_seq(#[trigger] v.update(ix, (v[ix].0, x))) by { lemma_update_value_keeps_wf(v, ix, x); } }"""),
    dict(id='U-qmap.OccupiedEntry.insert', file=F, fn='insert', ctx=_OE, wrap="impl<'a, K> OccupiedEntry<'a, K>", properties=['C11'],
         contract="""        requires old(self).wf()
        ensures final(self).wf(), final(self).index == old(self).index,
            r == old(self).qualifiers@[old(self).index as int].1,
            <SmallString as vstd::std_specs::convert::FromSpec<V>>::obeys_from_spec() ==>
                final(self).qualifiers@ == old(self).qualifiers@.update(old(self).index as int,
                    (old(self).qualifiers@[old(self).index as int].0, <SmallString as vstd::std_specs::convert::FromSpec<V>>::from_spec(value))),""",
         hints=[(r'mem::swap\(&mut v, &mut self\.qualifiers\[self\.index\]\.1\);', 'after',
                 '        proof { lemma_update_value_keeps_wf(old(self).qualifiers@, self.index as int, self.qualifiers@[self.index as int].1);\n'
                 '            assert(self.qualifiers@ =~= old(self).qualifiers@.update(self.index as int, (old(self).qualifiers@[self.index as int].0, self.qualifiers@[self.index as int].1))); }')]),
    dict(id='U-qmap.OccupiedEntry.remove', file=F, fn='remove', ctx=_OE, wrap="impl<'a, K> OccupiedEntry<'a, K>", properties=['C11'],
         contract="""        requires self.wf()
        ensures wf_seq(final(self.qualifiers)@), final(self.qualifiers)@ == old(self.qualifiers)@.remove(self.index as int),
            r == old(self.qualifiers)@[self.index as int].1""",
         begin='        proof { lemma_remove_keeps_wf(self.qualifiers@, self.index as int); }'),
    dict(id='U-qmap.get_mut', file=F, fn='get_mut', ctx=_Q, wrap='impl Qualifiers', properties=['C11'],
         contract="""        requires old(self).wf()
        ensures
            final(self).wf(),
            r is Some == (valid_key(key.text()) && has_key(old(self).qualifiers@, lower_ascii_seq(key.text()))),
            r is None ==> final(self).qualifiers@ == old(self).qualifiers@,
            r is Some ==> ({
                let p = pos_of(old(self).qualifiers@, lower_ascii_seq(key.text()));
                0 <= p < old(self).qualifiers@.len() && *(r->Some_0) == old(self).qualifiers@[p].1
                && final(self).qualifiers@ == old(self).qualifiers@.update(p, (old(self).qualifiers@[p].0, *final(r->Some_0)))
            }),"""),
]


TYPED_UNITS = [
    dict(id='T.KnownQualifierKey', kind='trait', name='KnownQualifierKey', file='purl/src/qualifiers/well_known.rs'),
    dict(id='theory.tryfrom', kind='raw', text=_c.theory_text('tryfrom.rs')),
    dict(id='U-qmap.try_get_typed', file=F, fn='try_get_typed', ctx=_Q, wrap='impl Qualifiers', properties=['C12', 'C04', 'C05', 'C14'],
         contract="""        requires self.wf()
        ensures
            // absent (or undeclarable) key: nothing to convert
            !(valid_key(Q::KEY@) && has_key(self.qualifiers@, lower_ascii_seq(Q::KEY@))) ==> r is Ok && r->Ok_0 is None,
            // present: exactly one conversion of the stored text, its outcome passed through
            valid_key(Q::KEY@) && has_key(self.qualifiers@, lower_ascii_seq(Q::KEY@)) ==>
                exists|s: &'a str, x: Result<Q, Q::Error>|
                    s@ == self.qualifiers@[pos_of(self.qualifiers@, lower_ascii_seq(Q::KEY@))].1@ && #[trigger] Q::try_from_rel(s, x)
                    && match x { Ok(q) => r == Ok::<Option<Q>, Q::Error>(Some(q)), Err(e) => r == Err::<Option<Q>, Q::Error>(e) },""",
         hints=[(r'self\.get\(Q::KEY\)', 'before', """        proof { lemma_has_pair_pos(self.qualifiers@, lower_ascii_seq(Q::KEY@)); }""")],
         ),
    dict(id='U-qmap.insert_typed', file=F, fn='insert_typed', ctx=_Q, wrap='impl Qualifiers', properties=['C11', 'C06', 'C09'], ret=None,
         # documented panic: KEY must be a valid key  => precondition
         contract="""        requires old(self).wf(), valid_key(Q::KEY@)
        ensures final(self).wf(),
            <SmallString as vstd::std_specs::convert::FromSpec<Q>>::obeys_from_spec() ==> ({
                let k = lower_ascii_seq(Q::KEY@);
                let p = pos_of(old(self).qualifiers@, k);
                let val = <SmallString as vstd::std_specs::convert::FromSpec<Q>>::from_spec(value);
                if has_key(old(self).qualifiers@, k) {
                    final(self).qualifiers@ == old(self).qualifiers@.update(p, (old(self).qualifiers@[p].0, val))
                } else {
                    final(self).qualifiers@.len() == old(self).qualifiers@.len() + 1 && final(self).qualifiers@[p].0.0@ == k
                    && final(self).qualifiers@ == old(self).qualifiers@.insert(p, (final(self).qualifiers@[p].0, val))
                }
            })""",
         ),
    dict(id='U-qmap.remove_typed', file=F, fn='remove_typed', ctx=_Q, wrap='impl Qualifiers', properties=['C11', 'C09'], ret=None,
         contract="""        requires old(self).wf()
        ensures final(self).wf(),
            !(valid_key(Q::KEY@) && has_key(old(self).qualifiers@, lower_ascii_seq(Q::KEY@))) ==> final(self).qualifiers@ == old(self).qualifiers@,
            valid_key(Q::KEY@) && has_key(old(self).qualifiers@, lower_ascii_seq(Q::KEY@)) ==>
                final(self).qualifiers@ == old(self).qualifiers@.remove(pos_of(old(self).qualifiers@, lower_ascii_seq(Q::KEY@)))"""),
]


ITER_UNITS = [
    dict(id='T.Iter', kind='struct', name='Iter', file=F),
    dict(id='spec.Iter', kind='raw', text="""
impl<'a> Iter<'a> {
    /// the pairs still to be yielded
    #[verifier::prophetic]
    pub open spec fn rem(&self) -> Seq<&'a (QualifierKey, SmallString)> { vstd::std_specs::iter::IteratorSpec::remaining(&self.0) }
}
"""),
    dict(id='U-qmap.iter', file=F, fn='iter', ctx=_Q, wrap='impl Qualifiers', properties=['C11', 'C03'],
         contract="""        ensures r.rem().len() == self.qualifiers@.len(),
            forall|i: int| 0 <= i < self.qualifiers@.len() ==> *(#[trigger] r.rem()[i]) == self.qualifiers@[i]"""),
    # R2: `impl<'a> IntoIterator for &'a Qualifiers { fn into_iter }` and `impl<'a> Iterator for Iter<'a> { fn next }` hoisted to inherent methods
    dict(id='U-qmap.into_iter', file=F, fn='into_iter', ctx=r"impl<'a> IntoIterator for &'a Qualifiers", wrap='impl Qualifiers',
         properties=['C11', 'C03'],
         sig_rw=[('R2', r'fn into_iter\(self\) -> Self::IntoIter', "fn into_iter(&self) -> Iter<'_>", 1)],
         contract="""        ensures r.rem().len() == self.qualifiers@.len(),
            forall|i: int| 0 <= i < self.qualifiers@.len() ==> *(#[trigger] r.rem()[i]) == self.qualifiers@[i]"""),
    dict(id='U-qmap.Iter.next', file=F, fn='next', ctx=r"impl<'a> Iterator for Iter<'a>", wrap="impl<'a> Iter<'a>",
         properties=['C11', 'C03'],
         sig_rw=[('R2', r'fn next\(&mut self\) -> Option<Self::Item>', "fn next(&mut self) -> Option<(&'a QualifierKey, &'a str)>", 1)],
         contract="""        ensures
            old(self).rem().len() == 0 ==> r is None,
            old(self).rem().len() > 0 ==> r is Some
                && r->Some_0.0.0@ == old(self).rem()[0].0.0@ && r->Some_0.1@ == old(self).rem()[0].1@
                && final(self).rem() == old(self).rem().skip(1),"""),
]


_E = r"impl<'a, K> Entry<'a, K>\s*\{"
_FSQ = '<SmallString as vstd::std_specs::convert::FromSpec<Q>>'
MORE_UNITS = [
    dict(id='U-qmap.contains_typed', file=F, fn='contains_typed', ctx=_Q, wrap='impl Qualifiers', properties=['C11', 'C12'],
         contract="""        requires self.wf()
        ensures r == (valid_key(Q::KEY@) && has_key(self.qualifiers@, lower_ascii_seq(Q::KEY@)))"""),
    dict(id='U-qmap.get_typed', file=F, fn='get_typed', ctx=_Q, wrap='impl Qualifiers', properties=['C11', 'C12'],
         contract="""        requires self.wf()
        ensures r is Some == (valid_key(Q::KEY@) && has_key(self.qualifiers@, lower_ascii_seq(Q::KEY@)))"""),
    dict(id='U-qmap.try_insert_typed', file=F, fn='try_insert_typed', ctx=_Q, wrap='impl Qualifiers', properties=['C11', 'C12', 'C06', 'C09'],
         # documented panic: KEY must be a valid key  => precondition
         contract="""        requires old(self).wf(), valid_key(Q::KEY@)
        ensures final(self).wf(),
            exists|x: Result<SmallString, <SmallString as TryFrom<Q>>::Error>| #[trigger] <SmallString as TryFrom<Q>>::try_from_rel(value, x) && match x {
                Err(e) => r == Err::<(), <SmallString as TryFrom<Q>>::Error>(e) && final(self).qualifiers@ == old(self).qualifiers@,
                Ok(val) => r is Ok && ({
                    let k = lower_ascii_seq(Q::KEY@);
                    let p = pos_of(old(self).qualifiers@, k);
                    if has_key(old(self).qualifiers@, k) {
                        final(self).qualifiers@ == old(self).qualifiers@.update(p, (old(self).qualifiers@[p].0, val))
                    } else {
                        final(self).qualifiers@.len() == old(self).qualifiers@.len() + 1 && final(self).qualifiers@[p].0.0@ == k
                        && final(self).qualifiers@ == old(self).qualifiers@.insert(p, (final(self).qualifiers@[p].0, val))
                    }
                }),
            }""",
         begin='        proof { axiom_string_from(); }',
         rw=[('R9', r'SmallString::try_from\(value\)', '<SmallString as TryFrom<Q>>::try_from(value)', '*')]),
    dict(id='U-qmap.Entry.or_insert', file=F, fn='or_insert', ctx=_E, wrap="impl<'a, K: AsRef<str>> Entry<'a, K>", properties=['C11'],
         contract="""        requires match self { Entry::Occupied(o) => o.wf(), Entry::Vacant(v) => v.wf() }
        ensures
            self is Occupied ==> ({
                let ix = self->Occupied_0.index as int;
                *r == old(self->Occupied_0.qualifiers)@[ix].1
                && final(self->Occupied_0.qualifiers)@ == old(self->Occupied_0.qualifiers)@.update(ix, (old(self->Occupied_0.qualifiers)@[ix].0, *final(r)))
                && wf_seq(final(self->Occupied_0.qualifiers)@)
            }),
            self is Vacant ==> ({
                let ix = self->Vacant_0.index as int;
                wf_seq(final(self->Vacant_0.qualifiers)@)
                && final(self->Vacant_0.qualifiers)@.len() == old(self->Vacant_0.qualifiers)@.len() + 1
                && final(self->Vacant_0.qualifiers)@[ix].0.0@ == self->Vacant_0.key.canon()
                && final(self->Vacant_0.qualifiers)@ == old(self->Vacant_0.qualifiers)@.insert(ix, (final(self->Vacant_0.qualifiers)@[ix].0, *final(r)))
                && (<SmallString as vstd::std_specs::convert::FromSpec<V>>::obeys_from_spec() ==>
                        *r == <SmallString as vstd::std_specs::convert::FromSpec<V>>::from_spec(default))
            }),"""),
    dict(id='U-qmap.Entry.or_insert_with', file=F, fn='or_insert_with', ctx=_E, wrap="impl<'a, K: AsRef<str>> Entry<'a, K>", properties=['C11'],
         contract="""        requires match self { Entry::Occupied(o) => o.wf(), Entry::Vacant(v) => v.wf() }, default.requires(())
        ensures
            self is Occupied ==> ({
                let ix = self->Occupied_0.index as int;
                *r == old(self->Occupied_0.qualifiers)@[ix].1
                && final(self->Occupied_0.qualifiers)@ == old(self->Occupied_0.qualifiers)@.update(ix, (old(self->Occupied_0.qualifiers)@[ix].0, *final(r)))
                && wf_seq(final(self->Occupied_0.qualifiers)@)
            }),
            self is Vacant ==> ({
                let ix = self->Vacant_0.index as int;
                wf_seq(final(self->Vacant_0.qualifiers)@)
                && final(self->Vacant_0.qualifiers)@.len() == old(self->Vacant_0.qualifiers)@.len() + 1
                && final(self->Vacant_0.qualifiers)@[ix].0.0@ == self->Vacant_0.key.canon()
                && final(self->Vacant_0.qualifiers)@ == old(self->Vacant_0.qualifiers)@.insert(ix, (final(self->Vacant_0.qualifiers)@[ix].0, *final(r)))
                // the closure is called exactly here, and what it returns is what is stored
                && exists|dv: V| #[trigger] default.ensures((), dv) && (<SmallString as vstd::std_specs::convert::FromSpec<V>>::obeys_from_spec() ==>
                        *r == <SmallString as vstd::std_specs::convert::FromSpec<V>>::from_spec(dv))
            }),"""),
    dict(id='U-qmap.Entry.and_modify', file=F, fn='and_modify', ctx=_E, wrap="impl<'a, K: AsRef<str>> Entry<'a, K>", properties=['C11'],
         contract="""        requires match self { Entry::Occupied(o) => o.wf(), Entry::Vacant(v) => v.wf() },
            forall|y: &mut SmallString| f.requires((y,))
        ensures
            // absent: nothing happens, the closure is not called
            self is Vacant ==> r == self,
            // present: the closure is applied to exactly the value of that key; keys, order and the other values are untouched
            self is Occupied ==> r is Occupied && r->Occupied_0.index == self->Occupied_0.index,
            self is Occupied ==> r->Occupied_0.wf(),
            self is Occupied ==> final(r->Occupied_0.qualifiers)@ == final(self->Occupied_0.qualifiers)@,
            self is Occupied ==> exists|y: &mut SmallString| #[trigger] f.ensures((y,), ())
                    && *y == self->Occupied_0.qualifiers@[self->Occupied_0.index as int].1
                    && r->Occupied_0.qualifiers@ == self->Occupied_0.qualifiers@.update(self->Occupied_0.index as int,
                            (self->Occupied_0.qualifiers@[self->Occupied_0.index as int].0, *final(y)))"""),
    # R2: `impl<K> Index<K> for Qualifiers { fn index }` hoisted to an inherent method; documented panic => precondition
    dict(id='U-qmap.index', file=F, fn='index', ctx=r'impl<K> Index<K> for Qualifiers', wrap='impl Qualifiers', properties=['C11', 'C06'],
         sig_rw=[('R2', r'fn index\(&self, index: K\) -> &Self::Output', 'fn index<K: AsRef<str>>(&self, index: K) -> &SmallString', 1)],
         contract="""        requires self.wf(), valid_key(index.text()) && has_key(self.qualifiers@, lower_ascii_seq(index.text()))
        ensures has_pair(self.qualifiers@, lower_ascii_seq(index.text()), r@)""",
         begin='        broadcast use axiom_view_of_str;',
         rw=[('R10', r'\|i\| &self\.qualifiers\[i\]\.1', '|i: usize| -> (s: &SmallString) requires i < self.qualifiers@.len() ensures *s == self.qualifiers@[i as int].1 { &self.qualifiers[i].1 }', '*'),
             ('R4', r'panic!\("Qualifier \{index:\?\} not found"\);', 'x_panic_absent();', '*')]),
    # R2: `impl<K> IndexMut<K> for Qualifiers { fn index_mut }` hoisted; documented panic => precondition;
    # R8: `opt.map(|i| e)` written out (definition of Option::map) because the closure would capture `&mut self`
    dict(id='U-qmap.index_mut', file=F, fn='index_mut', ctx=r'impl<K> IndexMut<K> for Qualifiers', wrap='impl Qualifiers', properties=['C11', 'C06'],
         sig_rw=[('R2', r'fn index_mut\(&mut self, index: K\) -> &mut Self::Output', 'fn index_mut<K: AsRef<str>>(&mut self, index: K) -> &mut SmallString', 1)],
         contract="""        requires old(self).wf(), valid_key(index.text()) && has_key(old(self).qualifiers@, lower_ascii_seq(index.text()))
        ensures ({
                let p = pos_of(old(self).qualifiers@, lower_ascii_seq(index.text()));
                0 <= p < old(self).qualifiers@.len() && *r == old(self).qualifiers@[p].1
                && final(self).qualifiers@ == old(self).qualifiers@.update(p, (old(self).qualifiers@[p].0, *final(r)))
            }),
            final(self).wf()""",
         begin="""        broadcast use axiom_view_of_str;
        proof { let v = self.qualifiers@;
            assert forall|ix: int, x: SmallString| 0 <= ix < v.len() implies wf_seq(#[trigger] v.update(ix, (v[ix].0, x))) by { lemma_update_value_keeps_wf(v, ix, x); } }""",
         rw=[('R8', r'(self\.get_index\(index\))\.map\(\|i\| (&mut self\.qualifiers\[i\]\.1)\)', r'(match \1 { Some(i) => Some(\2), None => None })', 1),
             ('R4', r'panic!\("Qualifier \{index:\?\} not found"\);', 'x_panic_absent();', '*')]),
]

# capacity management and the remaining iterator / key conversions: one dependency call each; what matters is the frame
CAP_UNITS = [
    dict(id='stub.vec_capacity', kind='raw', text="""
// std contracts (assumed): capacity management never touches the content
pub assume_specification<T, A: core::alloc::Allocator>[Vec::<T, A>::reserve_exact](v: &mut Vec<T, A>, additional: usize)
    ensures final(v)@ == old(v)@;
pub assume_specification<T, A: core::alloc::Allocator>[Vec::<T, A>::capacity](v: &Vec<T, A>) -> (r: usize)
    ensures r >= v@.len();
// R9: derive(Default) on Qualifiers (derive semantics, assumed): the empty list
impl Default for Qualifiers {
    fn default() -> (r: Self) ensures r.qualifiers@.len() == 0
    { Qualifiers { qualifiers: Vec::new() } }
}
"""),
    dict(id='U-qmap.reserve', file=F, fn='reserve', ctx=_Q, wrap='impl Qualifiers', properties=['C11', 'C06'],
         contract='        ensures final(self).qualifiers@ == old(self).qualifiers@'),
    dict(id='U-qmap.reserve_exact', file=F, fn='reserve_exact', ctx=_Q, wrap='impl Qualifiers', properties=['C11', 'C06'],
         contract='        ensures final(self).qualifiers@ == old(self).qualifiers@'),
    dict(id='U-qmap.capacity', file=F, fn='capacity', ctx=_Q, wrap='impl Qualifiers', properties=['C11'],
         contract='        ensures r >= self.qualifiers@.len()'),
    dict(id='U-qmap.with_capacity', file=F, fn='with_capacity', ctx=_Q, wrap='impl Qualifiers', properties=['C11', 'C06'],
         contract='        ensures r.qualifiers@.len() == 0, r.wf()'),
    dict(id='U-qkey.as_str', file=F, fn='as_str', ctx=r'impl QualifierKey \{', wrap='impl QualifierKey', properties=['C11', 'C03'],
         contract='        ensures r@ == self.0@'),
    # R2: `impl DoubleEndedIterator for Iter<'_> { fn next_back }`, `Iterator::size_hint` hoisted to inherent methods
    dict(id='U-qmap.Iter.next_back', file=F, fn='next_back', ctx=r"impl DoubleEndedIterator for Iter<'_>", wrap="impl<'a> Iter<'a>",
         properties=['C11'],
         sig_rw=[('R2', r'fn next_back\(&mut self\) -> Option<Self::Item>', "fn next_back(&mut self) -> Option<(&'a QualifierKey, &'a str)>", 1)],
         contract="""        ensures
            old(self).rem().len() == 0 ==> r is None,
            old(self).rem().len() > 0 ==> r is Some
                && r->Some_0.0.0@ == old(self).rem().last().0.0@ && r->Some_0.1@ == old(self).rem().last().1@
                && final(self).rem() == old(self).rem().drop_last(),"""),
    dict(id='U-qmap.Iter.size_hint', file=F, fn='size_hint', ctx=r"impl<'a> Iterator for Iter<'a>", wrap="impl<'a> Iter<'a>",
         properties=['C11'],
         contract="""        ensures r.0 == self.rem().len(), r.1 == Some(r.0)"""),
]

# construction from pairs: the loop is purl's, the iterator is the caller's (R5: `for` written out as into_iter / next)
TFI_UNITS = [
    dict(id='theory.tfi', kind='raw', text=_c.theory_text('tfi.rs')),
    dict(id='U-qmap.try_from_iter', file=F, fn='try_from_iter', ctx=_Q, wrap='impl Qualifiers', properties=['C11', 'C05', 'C06'],
         contract="""        ensures match r {
            // accepted: exactly the given pairs, each under its lower-cased key, strictly ascending; the keys were all valid and pairwise different in any letter case
            Ok(q) => q.wf() && tfi_inv(yielded(items), yielded(items).len() as int, q.qualifiers@) && tfi_distinct(yielded(items), yielded(items).len() as int),
            // refused: some key is not a valid key, or two keys are the same up to ASCII case
            Err(e) => e is InvalidQualifier && ((exists|i: int| 0 <= i < yielded(items).len() && !valid_key(#[trigger] yielded(items)[i].0.text()))
                || (exists|i: int, j: int| 0 <= i < j < yielded(items).len() && #[trigger] item_key(yielded(items), i) == #[trigger] item_key(yielded(items), j))),
        }""",
         begin='        let ghost all = yielded(items);\n        let ghost mut gi: int = 0;',
         # the shadowing `let items = items.into_iter()` gets its own name so that the contract can still name the argument
         rw=[('R5', r'let items = items\.into_iter\(\);', 'let items_ = x_into_iter(items);', 1),
             ('R5', r'items\.size_hint\(\)\.0', 'x_size_hint_lower(&items_)', 1),
             ('R5', '@for_next', r'for \(key, value\) in items'),
             ('R5', r'let mut iter_ = \(items\)\.into_iter\(\);', 'let mut iter_ = items_;', 1),
             # R8: `e?` on the same error type, written out (the early return carries the postcondition)
             ('R8', r'match this\.entry\(key\)\? \{', 'match (match this.entry(key) { Ok(v_) => v_, Err(e_) => { proof { assert(!valid_key(all[gi].0.text())); } return Err(e_) } }) {', 1),
             ],
         loops={0: """
            invariant
                0 <= gi <= all.len(), all == yielded(items),
                vstd::std_specs::iter::IteratorSpec::obeys_prophetic_iter_laws(&iter_),
                vstd::std_specs::iter::IteratorSpec::decrease(&iter_) is Some,
                vstd::std_specs::iter::IteratorSpec::remaining(&iter_) == all.skip(gi),
                this.wf(), tfi_inv(all, gi, this.qualifiers@), tfi_distinct(all, gi),
            ensures gi == all.len(),
            decreases vstd::std_specs::iter::IteratorSpec::decrease(&iter_)->Some_0,
"""},
         hints=[(r'let mut iter_ = items_;', 'before', '        proof { assert(all.skip(0) =~= all); }'),
                (r'match \(match this\.entry\(key\)', 'before', '            let ghost qv = this.qualifiers@;'),
                (r'Entry::Occupied\(_\) => ', 'after', """{ proof {
                        let p = pos_of(qv, item_key(all, gi));
                        let i = choose|i: int| 0 <= i < gi && qv[p].0.0@ == #[trigger] item_key(all, i);
                        assert(item_key(all, i) == item_key(all, gi));
                    } """),
                (r'return Err\(ParseError::InvalidQualifier\)', 'after', ' }'),
                (r'entry\.insert\(value\);', 'before', """                        let ghost ix = entry.index as int;"""),
                (r'entry\.insert\(value\);', 'after', """                        proof {
                            lemma_tfi_step(all, gi, qv, ix, this.qualifiers@[ix]);
                            assert(all.skip(gi).skip(1) =~= all.skip(gi + 1));
                            gi = gi + 1;
                        }"""),
                (r'Ok\(this\)\s*\}\s*$', 'before', '        proof { assert(gi == all.len()); }'),
                ]),
]

# retain / retain_mut: purl functions whose body is ONE dependency call (Vec::retain / Vec::retain_mut with a forwarding closure);
# FnMut closures are outside Verus, so the contract is ASSUMED (std: "removes exactly the elements the predicate rejects, keeps the
# order of the others") and exercised by the qualmap suite
RETAIN_UNITS = [
    dict(id='U-qmap.retain', file=F, fn='retain', ctx=_Q, wrap='impl Qualifiers', mode='assumed', properties=['C11', 'C04', 'C03'],
         ret=None,
         contract="""        requires old(self).wf()
        ensures final(self).wf(), final(self).qualifiers@.len() <= old(self).qualifiers@.len(),
            forall|i: int| 0 <= i < final(self).qualifiers@.len() ==> exists|j: int| 0 <= j < old(self).qualifiers@.len() && old(self).qualifiers@[j] == #[trigger] final(self).qualifiers@[i]"""),
    dict(id='U-qmap.retain_mut', file=F, fn='retain_mut', ctx=_Q, wrap='impl Qualifiers', mode='assumed', properties=['C11', 'C04', 'C03'],
         ret=None,
         contract="""        requires old(self).wf()
        ensures final(self).wf(), final(self).qualifiers@.len() <= old(self).qualifiers@.len(),
            forall|i: int| 0 <= i < final(self).qualifiers@.len() ==> exists|j: int| 0 <= j < old(self).qualifiers@.len() && old(self).qualifiers@[j].0 == #[trigger] final(self).qualifiers@[i].0"""),
]

# every unit of the collection carries the representation invariant (lower-case keys, strictly ascending) that C03 (ascending keys in
# the string), C04 (every PURL handed out is normalised -- whatever mutators ran on the builder's public `parts` before build())
# and C19 (derived equality / order on the stored sequence) rest on
for _u in KEY_UNITS + CMP_UNITS + MAP_UNITS + MAP_UNITS2 + MAP_UNITS3 + MAP_UNITS4 + TYPED_UNITS + ITER_UNITS + MORE_UNITS + CAP_UNITS + TFI_UNITS:
    if _u.get('properties') is not None and _u['id'].startswith(('U-qmap.', 'U-qkey.', 'U-qcmp.')):
        for _p in ('C03', 'C04', 'C19'):
            if _p not in _u['properties']:
                _u['properties'].append(_p)

GROUP = dict(
    name='qual',
    theory=['base.rs'],
    uses='use core::cmp::Ordering;\nuse core::marker::PhantomData;\nuse core::mem;\nuse core::slice;',
    canary='    axiom_string_from(); broadcast use axiom_ascii_to_lower; broadcast use axiom_view_of_str; axiom_from_keeps_text::<&str>();',
    units=[_c.PURL_FIELD, _c.PARSE_ERROR, _c.QUALIFIER_KEY, _c.QUALIFIERS] + KEY_UNITS + CMP_UNITS + MAP_UNITS + MAP_UNITS2 + MAP_UNITS3 + MAP_UNITS4 + TYPED_UNITS + ITER_UNITS + MORE_UNITS + CAP_UNITS + TFI_UNITS + RETAIN_UNITS + [dict(id='theory.qualuniq', kind='raw', text=_c.theory_text('qualuniq.rs'))],
)
