# C14, call protocol: from_str and build() re-extracted with a ghost call log (contracts/theory/calllog.rs) -- R11
import importlib.util, os
_spec = importlib.util.spec_from_file_location('_common', os.path.join(os.path.dirname(__file__), '_common.py'))
_c = importlib.util.module_from_spec(_spec); _spec.loader.exec_module(_c)

_parse = _c.sibling('parse').GROUP
_LOG = 'Tracked(log): Tracked<&mut CallLog>'


def _shape_with_log():
    u = dict(_c.PURL_SHAPE)
    rw = []
    for r in u['rw']:
        if 'fn finish(' in r[2]:
            t = r[2].replace('fn finish(&mut self, parts: &mut PurlParts) -> (r:', 'fn finish(&mut self, parts: &mut PurlParts, %s) -> (r:' % _LOG)
            t = t.replace('        ensures Self::finish_rel(', '        ensures final(log).calls == old(log).calls.push(Call::Hook),\n            Self::finish_rel(')
            assert t != r[2] and 'Call::Hook' in t
            r = (r[0], r[1], t, r[3])
        rw.append(r)
    u['rw'] = rw
    return u


def _parse_theory_with_log():
    t = _c.theory_text('parse.rs')
    old = '''    fn from_str(s: &str) -> (r: Result<Self, Self::Err>)
        ensures Self::from_str_rel(s@, r);'''
    new = '''    fn from_str(s: &str, %s) -> (r: Result<Self, Self::Err>)
        ensures Self::from_str_rel(s@, r), final(log).calls == old(log).calls.push(Call::Conv { text: s@, ok: r is Ok });''' % _LOG
    assert old in t
    return t.replace(old, new, 1)


# R11: the ghost parameter is added to every call of user code, however many there are and whatever they are given
_R11_CALLS = [('R11', r'T::from_str\(([^()]*)\)', r'T::from_str(\1, Tracked(log))', '*'),
              ('R11', r'\.finish\(([^()]*)\)', r'.finish(\1, Tracked(log))', '*'),
              ('R11', r'\.build\(\)', r'.build(Tracked(log))', '*')]

def _logged(anchor):
    """a hint anchor (a regex over the rewritten body) after R11"""
    return (anchor.replace(r'\.build\(\)', r'\.build\(Tracked\(log\)\)')
                  .replace(r'\.finish\(&mut self\.parts\)', r'\.finish\(&mut self\.parts, Tracked\(log\)\)'))


_units = []
for _u in _parse['units']:
    if _u['id'] == 'T.PurlShape':
        _units.append(dict(id='theory.calllog_types', kind='raw', text=_c.theory_text('calllog.rs').split('/// the calls one parse')[0]))
        _units.append(_shape_with_log())
    elif _u['id'] == 'theory.parse':
        _units.append(dict(_u, text=_parse_theory_with_log()))
        _units.append(dict(id='theory.calllog', kind='raw', text='/// the calls one parse' + _c.theory_text('calllog.rs').split('/// the calls one parse')[1]))
    elif _u['id'] == 'U-build.build':
        # what build() calls (as in group builder), then build() itself with its body
        _units += [dict(id='theory.tryfrom', kind='raw', text=_c.theory_text('tryfrom.rs')),
                   _c.unit_of('cksum', 'spec.cktext'), _c.contract_only('cksum', 'U-cktext.checksum_to_text'),
                   _c.unit_of('cksum', 'spec.ckparse'), _c.contract_only('cksum', 'U-ckparse.checksum_from_text'),
                   _c.unit_of('builder', 'T.ChecksumKey'),
                   _c.contract_only('qual', 'U-qmap.insert'),
                   _c.contract_only('qual', 'U-qmap.try_get_typed')]
        b = _c.unit_of('builder', 'U-build.build')
        b = dict(b, id='U-proto.build', properties=['C14'],
                 sig_rw=list(b.get('sig_rw', [])) + [('R11', r'fn build\((mut )?self\)', r'fn build(\1self, %s)' % _LOG, 1)],
                 contract=b['contract'].replace('        ensures\n', '        ensures\n            // C14: the finishing hook is invoked exactly once per build(), whatever the outcome\n'
                                                '            final(log).calls == old(log).calls.push(Call::Hook),\n', 1),
                 rw=list(b['rw']) + _R11_CALLS,
                 hints=[(_logged(h[0]),) + tuple(h[1:]) for h in b['hints']])
        assert 'Call::Hook' in b['contract']
        _units.append(b)
    elif _u['id'] == 'U-dq.decode_qualifiers':
        _units.append(dict(_u, mode='contract_only', proved_in='parse'))
    elif _u['id'] == 'U-parse.from_str':
        f = dict(_u, id='U-proto.from_str', properties=['C14'],
                 sig_rw=[(r[0], r[1], r[2].replace('(s: &str)', '(s: &str, %s)' % _LOG), r[3]) for r in _u['sig_rw']],
                 contract=_u['contract'] + ''',
        // C14: the conversion is invoked at most once, only with the valid type substring as written, the hook at most once and
        // never before the conversion succeeded
        proto_ok(old(log).calls, final(log).calls, s@)''',
                 rw=list(_u['rw'][:0]) + [r for r in _u['rw'] if 'T::from_str' not in r[1]] + _R11_CALLS
                    + [('R8', r'(T::from_str\(package_type, Tracked\(log\)\))\?', r'(match \1 { Ok(v_) => v_, Err(e_) => return Err(From::from(e_)) })', '*')],
                 hints=[(_logged(h[0]),) + tuple(h[1:]) for h in _u['hints']])
        assert 'CallLog' in f['sig_rw'][0][2]
        _units.append(f)
    else:
        _units.append(_u)

GROUP = dict(
    name='c14',
    theory=_parse['theory'],
    rlimit=_parse['rlimit'],
    uses=_parse['uses'],
    canary=_parse['canary'],
    post='''
/// C14: the text the conversion is given is a syntactically valid type
pub proof fn lemma_conv_arg_valid(s: Seq<char>)
    requires phase_a(s) is Ok
    ensures valid_type(phase_a(s)->Ok_0.ty)
{ }
''',
    units=_units,
)
