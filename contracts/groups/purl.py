# U-acc, U-comb: GenericPurl accessors, into_builder, builder_with_combined_name, combined_name (purl/src/lib.rs) -- C18, C03, C04, C10
import importlib.util, os
_spec = importlib.util.spec_from_file_location('_common', os.path.join(os.path.dirname(__file__), '_common.py'))
_c = importlib.util.module_from_spec(_spec); _spec.loader.exec_module(_c)

F = 'purl/src/lib.rs'
_G = r'impl<T> GenericPurl<T>\s*\{'
_GW = 'impl<T> GenericPurl<T>'
_P = r'impl Purl\s*\{'
_PW = 'impl GenericPurl<PackageType>'


def opt_acc(fn, field):
    return dict(id='U-acc.' + fn, file=F, fn=fn, ctx=_G, wrap=_GW, properties=['C04', 'C03', 'C09'],
                contract='''        ensures self.parts.%s@.len() == 0 ==> r is None,
            self.parts.%s@.len() > 0 ==> r is Some && r->Some_0@ == self.parts.%s@''' % (field, field, field),
                rw=[('R5', r'Some\(&\*self\.parts\.%s\)\.filter\(\|v\| !v\.is_empty\(\)\)' % field,
                     'x_some_nonempty(&*self.parts.%s)' % field, '*')])


GROUP = dict(
    name='purl',
    theory=['base.rs', 'split.rs'],
    uses='use core::cmp::Ordering;',
    canary='    axiom_string_from(); broadcast use axiom_ascii_to_lower; broadcast use axiom_view_of_str;',
    units=[_c.PURL_FIELD, _c.PARSE_ERROR, _c.QUALIFIER_KEY, _c.QUALIFIERS, _c.PURL_PARTS,
           _c.unit_of('qual', 'T.MixedQualifierKey'), _c.unit_of('qual', 'theory.qual'),
           dict(id='T.PackageType', kind='enum', name='PackageType', file='purl/src/package_type.rs', attrs='#[derive(Clone, Copy)]'),
           dict(id='T.PackageError', kind='enum', name='PackageError', file='purl/src/package_type.rs'),
           dict(id='theory.types', kind='raw', text=_c.theory_text('types.rs')),
           dict(id='theory.pkgtype', kind='raw', text=_c.theory_text('pkgtype.rs')),
           dict(id='T.GenericPurlBuilder', kind='struct', name='GenericPurlBuilder', file='purl/src/builder.rs'),
           dict(id='T.GenericPurl', kind='struct', name='GenericPurl', file=F),
           _c.unit_of('builder', 'stub.builder'),
           dict(id='alias', kind='raw', text='pub type Purl = GenericPurl<PackageType>;\npub type PurlBuilder = GenericPurlBuilder<PackageType>;'),
           _c.contract_only('builder', 'U-set.new'),
           _c.contract_only('builder', 'U-set.with_namespace'),
           _c.PURL_SHAPE,
           _c.unit_of('builder', 'theory.build') if False else dict(id='noop', kind='raw', text=''),
           _c.GP_BUILDER,
           dict(id='U-acc.package_type', file=F, fn='package_type', ctx=_G, wrap=_GW, properties=['C03', 'C09'],
                contract='        ensures *r == self.package_type'),
           opt_acc('namespace', 'namespace'),
           dict(id='U-acc.name', file=F, fn='name', ctx=_G, wrap=_GW, properties=['C03', 'C09'],
                contract='        ensures r@ == self.parts.name@'),
           opt_acc('version', 'version'),
           dict(id='U-acc.qualifiers', file=F, fn='qualifiers', ctx=_G, wrap=_GW, properties=['C03', 'C09'],
                contract='        ensures *r == self.parts.qualifiers'),
           opt_acc('subpath', 'subpath'),
           dict(id='U-acc.into_builder', file=F, fn='into_builder', ctx=_G, wrap=_GW, properties=['C10'],
                contract='        ensures r.package_type == self.package_type, r.parts == self.parts'),
           dict(id='spec.comb', kind='raw', text='''
/// C18: where a combined name is split, per ecosystem
pub open spec fn comb_split(t: PackageType, s: Seq<char>) -> (Seq<char>, Seq<char>) {
    match t {
        PackageType::Golang | PackageType::Npm =>
            if last_index_of(s, '/') >= 0 { (s.subrange(0, last_index_of(s, '/')), s.subrange(last_index_of(s, '/') + 1, s.len() as int)) }
            else { (Seq::<char>::empty(), s) },
        PackageType::Maven =>
            if first_index_of(s, ':') >= 0 { (s.subrange(0, first_index_of(s, ':')), s.subrange(first_index_of(s, ':') + 1, s.len() as int)) }
            else { (Seq::<char>::empty(), s) },
        _ => (Seq::<char>::empty(), s),
    }
}
pub open spec fn comb_join(t: PackageType, ns: Seq<char>, name: Seq<char>) -> Seq<char> {
    match t {
        PackageType::Golang | PackageType::Npm => if ns.len() > 0 { ns + seq!['/'] + name } else { name },
        PackageType::Maven => if ns.len() > 0 { ns + seq![':'] + name } else { name },
        _ => name,
    }
}
/// C18 round trip: under the stated side condition splitting the joined name gives namespace and name back
pub proof fn lemma_c18_roundtrip(t: PackageType, ns: Seq<char>, name: Seq<char>)
    requires match t {
        PackageType::Golang | PackageType::Npm => !has_char(name, '/'),
        // a maven PURL always has a namespace (C08: maven is refused unless a namespace is present)
        PackageType::Maven => !has_char(ns, ':') && ns.len() > 0,
        _ => ns.len() == 0,
    }
    ensures comb_split(t, comb_join(t, ns, name)) == (ns, name)
{
    let s = comb_join(t, ns, name);
    match t {
        PackageType::Golang | PackageType::Npm => {
            if ns.len() > 0 {
                lemma_rsplit_join(ns, name, '/');
                assert(s.subrange(0, ns.len() as int) =~= ns);
                assert(s.subrange(ns.len() as int + 1, s.len() as int) =~= name);
            } else { lemma_last_index(name, '/'); }
        },
        PackageType::Maven => {
            lemma_split_join(ns, name, ':');
            assert(s.subrange(0, ns.len() as int) =~= ns);
            assert(s.subrange(ns.len() as int + 1, s.len() as int) =~= name);
        },
        _ => { assert(ns =~= Seq::<char>::empty()); },
    }
}
'''),
           dict(id='U-comb.builder_with_combined_name', file=F, fn='builder_with_combined_name', ctx=_P, wrap=_PW,
                # a builder entry point: the type's name rule applies to what it stores exactly as through Purl::builder (C08), the fields are as split (C09)
                properties=['C18', 'C08', 'C09'],
                contract='''        ensures r.package_type == package_type,
            r.parts.namespace@ == comb_split(package_type, namespaced_name.text()).0,
            r.parts.name@ == comb_split(package_type, namespaced_name.text()).1,
            r.parts.version@.len() == 0, r.parts.subpath@.len() == 0, r.parts.qualifiers.qualifiers@.len() == 0''',
                begin='        proof { axiom_string_from(); } broadcast use axiom_view_of_str;',
                rw=[('R3', r"namespaced_name\.rsplit_once\(('.')\)", r"x_rsplit_once(namespaced_name, \1)", '*'),
                    ('R3', r"namespaced_name\.split_once\(('.')\)", r"x_split_once(namespaced_name, \1)", '*')]),
           dict(id='U-comb.combined_name', file=F, fn='combined_name', ctx=_P, wrap=_PW, properties=['C18'],
                contract='        ensures r@ == comb_join(self.package_type, self.parts.namespace@, self.parts.name@)',
                rw=[('R3', r'self\.name\(\)\.into\(\)', 'x_cow_from_str(self.name())', '*'),
                    # R4 (generic in the two arguments): format!("{}<c>{}", a, b) is a, the character, b
                    ('R4', r'format!\("\{\}/\{\}", ([\w.]+(?:\(\))?), ([\w.]+(?:\(\))?)\)', r"x_concat3(\1, '/', \2)", '*'),
                    ('R4', r'format!\("\{\}:\{\}", ([\w.]+(?:\(\))?), ([\w.]+(?:\(\))?)\)', r"x_concat3(\1, ':', \2)", '*')]),
    ],
)
