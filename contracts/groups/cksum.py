# U-cktext, U-ckparse: Checksum <-> text (purl/src/qualifiers/well_known.rs) -- C04, C12, C06
import importlib.util, os
_spec = importlib.util.spec_from_file_location('_common', os.path.join(os.path.dirname(__file__), '_common.py'))
_c = importlib.util.module_from_spec(_spec); _spec.loader.exec_module(_c)

F = 'purl/src/qualifiers/well_known.rs'

GROUP = dict(
    name='cksum',
    theory=['base.rs', 'split.rs'],
    rlimit=30,
    uses='use core::cmp::Ordering;',
    canary='    axiom_string_from(); broadcast use axiom_ascii_to_lower; axiom_utf8_len_ascii(seq![\'a\']);',
    units=[_c.PURL_FIELD, _c.PARSE_ERROR, _c.QUALIFIER_KEY,
           dict(id='theory.qualkeys', kind='raw', text=_c.theory_text('qualkeys.rs')),
           dict(id='theory.cow', kind='raw', text=_c.theory_text('types.rs').split('// ---- vocabulary for package types')[0]),
           dict(id='theory.cksum', kind='raw', text=_c.theory_text('cksum.rs')),
           dict(id='T.Checksum', kind='struct', name='Checksum', file=F),
           _c.contract_only('lib_lower', 'U-lower.copy_as_lowercase'),
           dict(id='spec.Checksum', kind='raw', text='''
impl<'a> Checksum<'a> {
    /// the entries: lower-cased algorithm -> hex text as written
    pub open spec fn entries(&self) -> Map<Seq<char>, Seq<char>> { hm_view(self.algorithms) }
}
'''),
           dict(id='theory.tryfrom', kind='raw', text=_c.theory_text('tryfrom.rs')),
           # the impl of (the stub of) TryFrom, body verbatim; the contract is the relation try_from_rel of this impl
           dict(id='spec.cktext', kind='raw', wrap="impl<'a> TryFrom<Checksum<'a>> for SmallString", text='''    type Error = ParseError;
    open spec fn try_from_rel(value: Checksum<'a>, r: Result<SmallString, ParseError>) -> bool { match r {
        // refused exactly when some entry is not an even number of hex digits
        Err(e) => e == ParseError::InvalidQualifier && !all_values_hex(value.entries()),
        // otherwise: the entries in strictly ascending algorithm order, lower-case hex -- one text, for EVERY order in which the map yields them
        Ok(t) => all_values_hex(value.entries()) && t@ == canon_text(value.entries())
            // the text of a non-empty entry set is non-empty
            && ((exists|k: Seq<char>| #[trigger] value.entries().contains_key(k)) ==> t@.len() > 0),
    } }'''),
           dict(id='U-cktext.checksum_to_text', file=F, fn='try_from', ctx=r"impl<'a> TryFrom<Checksum<'a>> for SmallString",
                wrap="impl<'a> TryFrom<Checksum<'a>> for SmallString", vis='',
                # build() canonicalises or refuses through this conversion: every property that speaks about what build() accepts and stores
                properties=['C04', 'C12', 'C06', 'C05', 'C10', 'C09', 'C14', 'C01', 'C02'],
                begin='    proof { axiom_string_from(); }\n    let ghost m = value.entries();',
                rw=[('R5', r'value\.algorithms\.into_iter\(\)\.collect\(\)', 'x_hm_into_vec(value.algorithms)', 1),
                    ('R5', r'algorithms\.sort_unstable_by\(\|a, b\| a\.0\.cmp\(&b\.0\)\);', 'x_sort_by_key0(&mut algorithms);', 1),
                    ('R5', r'algorithms\.iter\(\)\.map\(\|\(k, v\)\| k\.len\(\) \+ 1 \+ v\.len\(\)\)\.sum::<usize>\(\)', 'x_sum_entry_lens(&algorithms)', '*'),
                    ('R10', r'for \(algorithm, bytes\) in algorithms', 'let ghost xs = algorithms@;\n    let ghost es = ev(xs);\n    for (algorithm, bytes) in it: algorithms', 1),
                    ('R5', '@all_any', ''),
                    ('R3', r'bytes\.len\(\)', 'x_str_len(&bytes)', '*'),
                    ('R3', r'v\.extend\(bytes\.chars\(\)\.map\(\|c\| c\.to_ascii_lowercase\(\)\)\);', 'x_extend_ascii_lower(&mut v, &bytes);', '*'),
                    ],
                hints=[(r'let mut algorithms: Vec<_> = x_hm_into_vec\(value\.algorithms\);', 'after', '    let ghost before = algorithms@;'),
                       (r'x_sort_by_key0\(&mut algorithms\);', 'after', '''    proof {
        lemma_sorted_listing(ev(before), ev(algorithms@), m);
    }'''),
                       (r'return Err\(ParseError::InvalidQualifier\);', 'before', '''                proof {
                    if forall|i: int| 0 <= i < bytes@.len() ==> ascii_hex_c(#[trigger] bytes@[i]) { lemma_hex_is_ascii(bytes@); }
                    assert(bytes@ == es[it.index@ as int].1 && algorithm@ == es[it.index@ as int].0);
                    lemma_bad_entry(es, m, it.index@ as int);
                }'''),
                       (r'if !v\.is_empty\(\) \{', 'before', '''            proof {
                lemma_hex_is_ascii(bytes@);
                assert(bytes@ == es[it.index@ as int].1 && algorithm@ == es[it.index@ as int].0);
                lemma_listing_text_step(es, it.index@ as int);
                lemma_listing_text_nonempty_iff(es.take(it.index@ as int));
                if it.index@ > 0 { lemma_listing_text_step(es, it.index@ - 1); }
            }'''),
                       (r'Ok\(SmallString::from\(v\)\)', 'before', '''    proof { lemma_all_ok(es, m); assert(es.take(es.len() as int) == es); lemma_canon_listing(es, m);
        if exists|k: Seq<char>| #[trigger] m.contains_key(k) {
            let k = choose|k: Seq<char>| #[trigger] m.contains_key(k);
            lemma_listing_covers(es, m, k); lemma_listing_text_nonempty(es);
        } }'''),
                       ],
                loops={0: '''
        invariant
            it.seq() == xs, es == ev(xs), m == value.entries(), is_listing(es, m), sorted_by_key(es),
            v@ == listing_text(es.take(it.index@ as int)),
            forall|i: int| 0 <= i < it.index@ ==> hex_ok(#[trigger] es[i].1),
''', 1: '''
        invariant_except_break !any_hit0,
            forall|i: int| 0 <= i < it.index@ ==> ascii_hex_c(#[trigger] bytes@[i]),
        invariant it.seq() == bytes@,
        ensures
            any_hit0 ==> exists|i: int| 0 <= i < bytes@.len() && !ascii_hex_c(#[trigger] bytes@[i]),
            !any_hit0 ==> forall|i: int| 0 <= i < bytes@.len() ==> ascii_hex_c(#[trigger] bytes@[i]),
'''},
                ),
           dict(id='spec.ckparse', kind='raw', wrap="impl<'a> TryFrom<&'a str> for Checksum<'a>", text='''    type Error = ParseError;
    open spec fn try_from_rel(value: &'a str, r: Result<Checksum<'a>, ParseError>) -> bool { match r {
        Ok(c) => ck_parse(value@) == Some(c.entries()) && keys_lower(c.entries()),
        Err(e) => e == ParseError::InvalidQualifier && ck_parse(value@) is None,
    } }'''),
           dict(id='U-ckparse.checksum_from_text', file=F, fn='try_from', ctx=r"impl<'a> TryFrom<&'a str> for Checksum<'a>",
                wrap="impl<'a> TryFrom<&'a str> for Checksum<'a>", vis='',
                properties=['C12', 'C05', 'C06'],
                attrs='#[verifier::loop_isolation(false)]',
                rw=[('R3', r"HashMap::with_capacity\(value\.chars\(\)\.filter\(\|c\| \*c == ','\)\.count\(\) \+ 1\)", "x_hm_with_capacity(x_count_char(value, ',') + 1)", '*'),
                    ('R3', r"for hash in value\.split\(('.')\)", r"let pieces = x_split(value, \1);\n    let ghost ps = split_spec(value@, \1);\n    for hash in it: pieces", 1),
                    ('R3', r"hash\.rsplit_once\(('.')\)", r"x_rsplit_once(hash, \1)", '*'),
                    ('R3', r"hash\.split_once\(('.')\)", r"x_split_once(hash, \1)", '*'),
                    ('R3', r'algorithms\.insert\(algorithm, Cow::Borrowed\(bytes\)\)', 'x_hm_insert(&mut algorithms, algorithm, Cow::Borrowed(bytes))', '*'),
                    ],
                loops={0: '''
        invariant
            it.seq() == pieces@, pieces@.len() == ps.len(),
            forall|i: int| 0 <= i < pieces@.len() ==> (#[trigger] pieces@[i])@ == ps[i],
            ck_fold(ps.take(it.index@ as int)) == Some(hm_view(algorithms)),
'''},
                hints=[(r'let Some\(\(algorithm, bytes\)\)', 'before', '''        proof {
            assert(hash@ == ps[it.index@ as int]);
            assert(ps.take(it.index@ + 1).drop_last() == ps.take(it.index@ as int));
            assert(ps.take(it.index@ + 1).last() == hash@);
            if ck_fold(ps.take(it.index@ + 1)) is None { lemma_ck_fold_none(ps, it.index@ + 1); }
        }'''),
                       (r'Ok\(Self \{ algorithms \}\)', 'before', '    proof { assert(ps.take(ps.len() as int) == ps); lemma_ck_fold_keys_lower(ps); }')],
                ),
           dict(id='T.ChecksumValue', kind='struct', name='ChecksumValue', file=F),
           dict(id='U-ckacc.insert_raw', file=F, fn='insert_raw', ctx=r"impl Checksum<'_>\s*\{", wrap="impl Checksum<'_>",
                properties=['C12'], ret=None,
                contract='''        requires keys_lower(old(self).entries())
        // C12: the entry is stored under the lower-cased algorithm, replacing an earlier entry spelled in any letter case
        ensures final(self).entries() == old(self).entries().insert(lower_seq(algorithm@), value@), keys_lower(final(self).entries())''',
                begin='        proof { lemma_lower_seq_idem(algorithm@); }',
                rw=[('R3', r'self\.algorithms\.get_mut\(algorithm\)', 'x_hm_get_mut(&mut self.algorithms, algorithm)', '*'),
                    ('R3', r'self\.algorithms\.insert\(copy_as_lowercase\(algorithm\), Cow::Owned\(value\)\);', 'x_hm_insert(&mut self.algorithms, copy_as_lowercase(algorithm), Cow::Owned(value));', '*')]),
           dict(id='U-ckacc.remove', file=F, fn='remove', ctx=r"impl Checksum<'_>\s*\{", wrap="impl Checksum<'_>",
                properties=['C12'], ret=None,
                contract='''        requires keys_lower(old(self).entries())
        ensures final(self).entries() == old(self).entries().remove(algorithm@), keys_lower(final(self).entries())''',
                rw=[('R3', r'self\.algorithms\.remove\(algorithm\);', 'x_hm_remove(&mut self.algorithms, algorithm);', '*')]),
           dict(id='U-ckacc.get_value', file=F, fn='get_value', ctx=r"impl Checksum<'_>\s*\{", wrap="impl Checksum<'_>",
                properties=['C12'],
                contract='''        ensures match r {
            Some(v) => self.entries().contains_key(algorithm@) && v.0@ == self.entries()[algorithm@],
            None => !self.entries().contains_key(algorithm@),
        }''',
                rw=[('R3', r'self\.algorithms\.get\(algorithm\)', 'x_hm_get(&self.algorithms, algorithm)', '*'),
                    ('R10', r'\|v\| ChecksumValue\(v\)', "|v: &'b Cow<'_, str>| -> (cv: ChecksumValue<'b>) ensures cv.0@ == v@ { ChecksumValue(v) }", '*')]),
           # ---- the remaining accessors; `hex`'s FromHex / ToHex are dependency traits, stubbed with a relation (R9) ----
           dict(id='stub.hex', kind='raw', text="""
// R9: stubs of hex::FromHex / hex::ToHex (dependency contracts, assumed; the round trip decode(encode(b)) == b is exercised by B)
pub trait FromHex: Sized {
    type Error;
    spec fn from_hex_rel(text: Seq<char>, r: Result<Self, Self::Error>) -> bool;
    fn from_hex(hex: &str) -> (r: Result<Self, Self::Error>)
        ensures Self::from_hex_rel(hex@, r);
}
pub trait ToHex {
    spec fn hex_text(&self) -> Seq<char>;
    fn encode_hex(&self) -> (r: String)
        ensures r@ == self.hex_text();
}
"""),
           dict(id='U-ckval.raw', file=F, fn='raw', ctx=r"impl<'a> ChecksumValue<'a>", wrap="impl<'a> ChecksumValue<'a>", properties=['C12'],
                contract='        ensures r@ == self.0@'),
           dict(id='U-ckval.decode', file=F, fn='decode', ctx=r"impl<'a> ChecksumValue<'a>", wrap="impl<'a> ChecksumValue<'a>", properties=['C12'],
                contract='        ensures T::from_hex_rel(self.0@, r)'),
           dict(id='U-ckacc.get_raw', file=F, fn='get_raw', ctx=r"impl Checksum<'_>\s*\{", wrap="impl Checksum<'_>", properties=['C12'],
                contract="""        ensures match r {
            Some(v) => self.entries().contains_key(algorithm@) && v@ == self.entries()[algorithm@],
            None => !self.entries().contains_key(algorithm@),
        }""",
                rw=[('R10', r'\|v\| v\.raw\(\)', "|v: ChecksumValue<'b>| -> (s: &'b str) ensures s@ == v.0@ { v.raw() }", '*')]),
           dict(id='U-ckacc.get', file=F, fn='get', ctx=r"impl Checksum<'_>\s*\{", wrap="impl Checksum<'_>", properties=['C12'],
                contract="""        ensures
            // absent: nothing to decode
            !self.entries().contains_key(algorithm@) ==> r is Ok && r->Ok_0 is None,
            // present: exactly one decoding of the stored text, its outcome passed through
            self.entries().contains_key(algorithm@) ==> exists|x: Result<T, T::Error>| #[trigger] T::from_hex_rel(self.entries()[algorithm@], x)
                && match x { Ok(t) => r == Ok::<Option<T>, T::Error>(Some(t)), Err(e) => r == Err::<Option<T>, T::Error>(e) }""",
                rw=[('R10', r'\|v\| v\.decode\(\)', "|v: ChecksumValue<'_>| -> (x: Result<T, T::Error>) ensures T::from_hex_rel(v.0@, x) { v.decode() }", '*')]),
           dict(id='U-ckacc.insert', file=F, fn='insert', ctx=r"impl Checksum<'_>\s*\{", wrap="impl Checksum<'_>", properties=['C12'], ret=None,
                contract="""        requires keys_lower(old(self).entries())
        // C12: stored under the lower-cased algorithm as the hex text of the value
        ensures final(self).entries() == old(self).entries().insert(lower_seq(algorithm@), value.hex_text()), keys_lower(final(self).entries())"""),
    ],
)
