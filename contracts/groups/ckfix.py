# Lemmas only: the canonical checksum text is a fixpoint of ck_parse / ck_text (contracts/theory/ckfix.rs) -- C12, C01, C10
import importlib.util, os
_spec = importlib.util.spec_from_file_location('_common', os.path.join(os.path.dirname(__file__), '_common.py'))
_c = importlib.util.module_from_spec(_spec); _spec.loader.exec_module(_c)

GROUP = dict(
    name='ckfix',
    theory=['base.rs', 'split.rs'],
    rlimit=60,
    uses='use core::cmp::Ordering;',
    canary="    axiom_string_from(); broadcast use axiom_ascii_to_lower; axiom_utf8_len_ascii(seq!['a']); axiom_lower_no_comma('a');",
    units=[_c.PURL_FIELD, _c.PARSE_ERROR, _c.QUALIFIER_KEY,
           dict(id='theory.qualkeys', kind='raw', text=_c.theory_text('qualkeys.rs')),
           dict(id='theory.cow', kind='raw', text=_c.theory_text('types.rs').split('// ---- vocabulary for package types')[0]),
           dict(id='theory.cksum', kind='raw', text=_c.lemmas_contract_only(_c.theory_text('cksum.rs'), 'cksum')),
           dict(id='theory.segs', kind='raw', text=_c.theory_text('segs.rs')),
           dict(id='theory.segs_lemmas', kind='raw', text=_c.lemmas_contract_only(_c.theory_text('segs_lemmas.rs'), 'parse_seg')),
           dict(id='theory.ckfix', kind='raw', text=_c.theory_text('ckfix.rs')),
           dict(id='theory.ckspell', kind='raw', text=_c.theory_text('ckspell.rs')),
    ],
)
