# U-set, U-build: GenericPurlBuilder setters and build()  (purl/src/builder.rs)  -- C04, C09, C10, C14
import importlib.util, os
_spec = importlib.util.spec_from_file_location('_common', os.path.join(os.path.dirname(__file__), '_common.py'))
_c = importlib.util.module_from_spec(_spec); _spec.loader.exec_module(_c)

F = 'purl/src/builder.rs'
_B = r'impl<T> GenericPurlBuilder<T>\s*\{'
_W = 'impl<T> GenericPurlBuilder<T>'
_FS = '<SmallString as vstd::std_specs::convert::FromSpec<S>>'
_FIELDS = ['namespace', 'name', 'version', 'qualifiers', 'subpath']


def frame(except_field, res='r', src='self', sep=', '):
    cl = ['%s.package_type == %s.package_type' % (res, src)] if except_field != 'package_type' else []
    cl += ['%s.parts.%s == %s.parts.%s' % (res, f, src, f) for f in _FIELDS if f != except_field]
    return sep.join(cl)


def setter(fn, field, props=('C09',)):
    return dict(id='U-set.' + fn, file=F, fn=fn, ctx=_B, wrap=_W, properties=list(props),
                contract='        ensures %s,\n            %s::obeys_from_spec() ==> r.parts.%s == %s::from_spec(new)'
                         % (frame(field), _FS, field, _FS))


def unsetter(fn, field, props=('C09',)):
    return dict(id='U-set.' + fn, file=F, fn=fn, ctx=_B, wrap=_W, properties=list(props),
                contract='        ensures %s, r.parts.%s@.len() == 0' % (frame(field), field))


GROUP = dict(
    name='builder',
    theory=['base.rs', 'split.rs'],
    uses='use core::cmp::Ordering;\nuse core::marker::PhantomData;',
    canary='    axiom_string_from(); broadcast use axiom_ascii_to_lower; broadcast use axiom_view_of_str;',
    units=[_c.PURL_FIELD, _c.PARSE_ERROR, _c.QUALIFIER_KEY, _c.QUALIFIERS, _c.PURL_PARTS,
           _c.unit_of('qual', 'T.MixedQualifierKey'), _c.unit_of('qual', 'theory.qual'),
           _c.unit_of('qual', 'spec.Qualifiers'),
           dict(id='theory.types', kind='raw', text=_c.theory_text('types.rs')),
           dict(id='theory.cksum', kind='raw', text=_c.theory_text('cksum.rs')),
           _c.unit_of('cksum', 'T.Checksum'), _c.unit_of('cksum', 'spec.Checksum'),
           dict(id='theory.tryfrom', kind='raw', text=_c.theory_text('tryfrom.rs')),
           _c.unit_of('cksum', 'spec.cktext'), _c.contract_only('cksum', 'U-cktext.checksum_to_text'),
           _c.unit_of('cksum', 'spec.ckparse'), _c.contract_only('cksum', 'U-ckparse.checksum_from_text'),
           _c.unit_of('qual', 'T.KnownQualifierKey'),
           dict(id='T.GenericPurlBuilder', kind='struct', name='GenericPurlBuilder', file=F),
           dict(id='T.GenericPurl', kind='struct', name='GenericPurl', file='purl/src/lib.rs'),
           dict(id='stub.builder', kind='raw', text='''
// R9: derive(Default) on PurlParts / Qualifiers (derive semantics, assumed): all fields empty
impl Default for PurlParts {
    fn default() -> (r: Self)
        ensures r.namespace@.len() == 0, r.name@.len() == 0, r.version@.len() == 0, r.subpath@.len() == 0, r.qualifiers.qualifiers@.len() == 0
    { PurlParts { namespace: String::new(), name: String::new(), version: String::new(),
                  qualifiers: Qualifiers { qualifiers: Vec::new() }, subpath: String::new() } }
}
'''),
           _c.PURL_SHAPE,
           dict(id='theory.build', kind='raw', text=_c.theory_text('build.rs')),
           dict(id='T.ChecksumKey', kind='block', file='purl/src/qualifiers/well_known.rs',
                header=r"impl KnownQualifierKey for Checksum<'_>"),
           _c.contract_only('qual', 'U-qmap.insert'),
           _c.contract_only('qual', 'U-qmap.remove'),
           _c.contract_only('qual', 'U-qmap.clear'),
           _c.contract_only('qual', 'U-qmap.insert_typed'),
           _c.contract_only('qual', 'U-qmap.remove_typed'),
           _c.contract_only('qual', 'U-qmap.try_get_typed'),
           _c.contract_only('qual', 'U-qmap.try_insert_typed'),
           dict(id='U-set.new', file=F, fn='new', ctx=_B, wrap=_W, properties=['C09'],
                contract='''        ensures r.package_type == package_type,
            r.parts.namespace@.len() == 0, r.parts.version@.len() == 0, r.parts.subpath@.len() == 0,
            r.parts.qualifiers.qualifiers@.len() == 0,
            %s::obeys_from_spec() ==> r.parts.name == %s::from_spec(name)''' % (_FS, _FS)),
           dict(id='U-set.with_package_type', file=F, fn='with_package_type', ctx=_B, wrap=_W, properties=['C09'],
                contract='        ensures r.package_type == new, r.parts == self.parts'),
           setter('with_namespace', 'namespace'),
           unsetter('without_namespace', 'namespace'),
           setter('with_name', 'name'),
           setter('with_version', 'version'),
           unsetter('without_version', 'version'),
           setter('with_subpath', 'subpath'),
           unsetter('without_subpath', 'subpath'),
           dict(id='U-set.with_qualifier', file=F, fn='with_qualifier', ctx=_B, wrap=_W, properties=['C09', 'C11'],
                contract='''        requires self.parts.qualifiers.wf()
        ensures
            !valid_key(k.text()) ==> r is Err && r->Err_0 is InvalidQualifier,
            valid_key(k.text()) ==> r is Ok && %s && r->Ok_0.parts.qualifiers.wf()
                && (<SmallString as vstd::std_specs::convert::FromSpec<V>>::obeys_from_spec() ==> ({
                    let kt = lower_ascii_seq(k.text());
                    let old_v = self.parts.qualifiers.qualifiers@;
                    let new_v = r->Ok_0.parts.qualifiers.qualifiers@;
                    let p = pos_of(old_v, kt);
                    let val = <SmallString as vstd::std_specs::convert::FromSpec<V>>::from_spec(v);
                    if has_key(old_v, kt) { new_v == old_v.update(p, (old_v[p].0, val)) }
                    else { new_v.len() == old_v.len() + 1 && new_v[p].0.0@ == kt && new_v == old_v.insert(p, (new_v[p].0, val)) }
                })),''' % frame('qualifiers', 'r->Ok_0', sep=' && ')),
           dict(id='U-set.without_qualifier', file=F, fn='without_qualifier', ctx=_B, wrap=_W, properties=['C09', 'C11'],
                contract='''        requires self.parts.qualifiers.wf()
        ensures %s, r.parts.qualifiers.wf(),
            !(valid_key(k.text()) && has_key(self.parts.qualifiers.qualifiers@, lower_ascii_seq(k.text()))) ==>
                r.parts.qualifiers.qualifiers@ == self.parts.qualifiers.qualifiers@,
            valid_key(k.text()) && has_key(self.parts.qualifiers.qualifiers@, lower_ascii_seq(k.text())) ==>
                r.parts.qualifiers.qualifiers@ == self.parts.qualifiers.qualifiers@.remove(pos_of(self.parts.qualifiers.qualifiers@, lower_ascii_seq(k.text()))),''' % frame('qualifiers')),
           dict(id='U-set.without_qualifiers', file=F, fn='without_qualifiers', ctx=_B, wrap=_W, properties=['C09', 'C11'],
                contract='        ensures %s, r.parts.qualifiers.qualifiers@.len() == 0, r.parts.qualifiers.wf()' % frame('qualifiers')),
           dict(id='U-set.with_typed_qualifier', file=F, fn='with_typed_qualifier', ctx=_B, wrap=_W, properties=['C09', 'C06'],
                contract='''        requires self.parts.qualifiers.wf(), v is Some ==> valid_key(Q::KEY@)
        ensures %s, r.parts.qualifiers.wf()''' % frame('qualifiers')),
           dict(id='U-set.try_with_typed_qualifier', file=F, fn='try_with_typed_qualifier', ctx=_B, wrap=_W, properties=['C09', 'C06', 'C12'],
                contract='''        requires self.parts.qualifiers.wf(), v is Some ==> valid_key(Q::KEY@)
        ensures r is Ok ==> %s && r->Ok_0.parts.qualifiers.wf()''' % frame('qualifiers', 'r->Ok_0', sep=' && ')),
           dict(id='U-build.build', file=F, fn='build', ctx=_B, wrap=_W, properties=['C04', 'C09', 'C10', 'C14', 'C08', 'C12', 'C05'],
                contract='''        requires self.parts.qualifiers.wf()
        ensures
            // exactly one application of the hook to the initial state, then the generic checks (C14)
            exists|t1: T, p1: PurlParts, fr: Result<(), T::Error>|
                #[trigger] T::finish_rel(self.package_type, self.parts, t1, p1, fr) && build_post::<T>(t1, p1, fr, r),
            r is Ok ==> r->Ok_0.parts.qualifiers.wf() && r->Ok_0.parts.name@.len() > 0
                && forall|i: int| 0 <= i < r->Ok_0.parts.qualifiers.qualifiers@.len() ==> (#[trigger] r->Ok_0.parts.qualifiers.qualifiers@[i]).1@.len() > 0,''',
                sig_rw=[('R0', r'<T as PurlShape>::Error', 'T::Error', '*')],
                rw=[('R0', r'crate::PurlField::Name', 'PurlField::Name', '*'),
                    ('R5', r'self\.parts\.qualifiers\.retain\(\|_, v\| !v\.is_empty\(\)\);', 'x_retain_nonempty(&mut self.parts.qualifiers);', '*'),
                    # R9: the call names the stub TryFrom explicitly (the std prelude also has a TryFrom in scope)
                    ('R9', r'SmallString::try_from\(checksum\)', '<SmallString as TryFrom<Checksum>>::try_from(checksum)', '*'),
                    # R8: `e?` written out as its definition where the converted error value matters to the contract
                    ('R8', r'(self\.parts\.qualifiers\.try_get_typed::<Checksum>\(\))\?',
                     r'(match \1 { Ok(v_) => v_, Err(e_) => return Err(From::from(e_)) })', '*'),
                    ('R8', r'(<SmallString as TryFrom<Checksum>>::try_from\(checksum\))\?',
                     r'(match \1 { Ok(v_) => v_, Err(e_) => return Err(From::from(e_)) })', '*')],
                hints=[(r'self\.package_type\.finish\(&mut self\.parts\)\?;', 'before',
                        '        let ghost t0 = self.package_type;\n        let ghost p0 = self.parts;'),
                       (r'if self\.parts\.name\.is_empty\(\) \{', 'before',
                        '        let ghost t1 = self.package_type;\n        let ghost p1 = self.parts;\n'
                        '        proof { lemma_nonempty_subset(p1.qualifiers.qualifiers@); lemma_nonempty_wf(p1.qualifiers.qualifiers@); lemma_checksum_key(); axiom_string_from(); }'),
                       (r'if let Some\(checksum\) =', 'before', '''        proof {
            let q2 = self.parts.qualifiers.qualifiers@;
            if has_key(q2, checksum_key()) {
                let tx = q2[pos_of(q2, checksum_key())].1@;
                if ck_parse(tx) is Some { lemma_ck_parse_nonempty(tx); }
            }
        }'''),
                       ]),
           # GenericPurl::new == builder(type, name).build(): one hook application to the initial state, then the generic checks
           dict(_c.GP_BUILDER, mode='contract_only', proved_in='purl'),
           dict(id='U-acc.new', file='purl/src/lib.rs', fn='new', ctx=r'impl<T> GenericPurl<T>', wrap='impl<T> GenericPurl<T>',
                properties=['C09', 'C04', 'C14'],
                sig_rw=[('R0', r'T: PurlShape,', 'T: PurlShape', 1)] if False else [],
                contract="""        ensures
            exists|b: GenericPurlBuilder<T>, t1: T, p1: PurlParts, fr: Result<(), T::Error>|
                b.package_type == package_type && b.parts.namespace@.len() == 0 && b.parts.version@.len() == 0 && b.parts.subpath@.len() == 0
                && b.parts.qualifiers.qualifiers@.len() == 0
                && (<SmallString as vstd::std_specs::convert::FromSpec<S>>::obeys_from_spec() ==> b.parts.name == <SmallString as vstd::std_specs::convert::FromSpec<S>>::from_spec(name))
                && #[trigger] T::finish_rel(b.package_type, b.parts, t1, p1, fr) && build_post::<T>(t1, p1, fr, r),
            r is Ok ==> r->Ok_0.parts.qualifiers.wf() && r->Ok_0.parts.name@.len() > 0""",
                hints=[(r'Self::builder\(package_type, name\)\.build\(\)', 'before', '        proof { assert(wf_seq(Seq::<(QualifierKey, SmallString)>::empty())); }')]),
    ],
)

# "building from field values" is an entry point of C04, C08, C10, C13 and C14 as much as of C09: a setter that stores something else
# than it was given breaks "identically from the parser and from the builder" (C08), "the same outcome whichever built-in type
# parameter" only through the shared generic code (C13) etc.
for _u in GROUP['units']:
    if _u.get('properties') is not None and _u['id'].startswith(('U-set.', 'U-build.', 'U-acc.new')) and _u.get('mode') != 'contract_only':
        for _p in ('C04', 'C08', 'C10', 'C14'):
            if _p not in _u['properties']:
                _u['properties'].append(_p)
