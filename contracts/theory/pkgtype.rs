// ---- vocabulary for the package-type rules, written from C08's wording ----
pub open spec fn dash(c: char) -> bool { c == '-' || c == '_' || c == '.' }

/// "lower-cased with every maximal run of '-', '_' and '.' replaced by a single '-'"
pub open spec fn pypi_norm(s: Seq<char>) -> Seq<char> decreases s.len() {
    if s.len() == 0 { seq![] }
    else if dash(s.last()) {
        if s.len() >= 2 && dash(s[s.len() - 2]) { pypi_norm(s.drop_last()) } else { pypi_norm(s.drop_last()).push('-') }
    } else { pypi_norm(s.drop_last()) + u_to_lower(s.last()) }
}

pub proof fn lemma_pypi_no_dash(s: Seq<char>)
    requires forall|i: int| 0 <= i < s.len() ==> !dash(#[trigger] s[i])
    ensures pypi_norm(s) == lower_seq(s)
    decreases s.len()
{
    if s.len() > 0 { lemma_pypi_no_dash(s.drop_last()); }
}

pub open spec fn type_name(t: PackageType) -> Seq<char> {
    match t {
        PackageType::Cargo => seq!['c', 'a', 'r', 'g', 'o'],
        PackageType::Gem => seq!['g', 'e', 'm'],
        PackageType::Golang => seq!['g', 'o', 'l', 'a', 'n', 'g'],
        PackageType::Maven => seq!['m', 'a', 'v', 'e', 'n'],
        PackageType::Npm => seq!['n', 'p', 'm'],
        PackageType::NuGet => seq!['n', 'u', 'g', 'e', 't'],
        PackageType::PyPI => seq!['p', 'y', 'p', 'i'],
    }
}

/// What PackageType::finish may do (C08): the per-type name rule, the maven namespace rule, nothing else touched.
pub open spec fn pkg_finish_rel(t0: PackageType, p0: PurlParts, t1: PackageType, p1: PurlParts, r: Result<(), PackageError>) -> bool {
    t1 == t0
    && p1.namespace == p0.namespace && p1.version == p0.version && p1.qualifiers == p0.qualifiers && p1.subpath == p0.subpath
    && match t0 {
        PackageType::Maven =>
            if all_char(p0.namespace@, '/') { r == Err::<(), PackageError>(PackageError::MissingRequiredField(PurlField::Namespace)) }
            else { r is Ok && p1.name == p0.name },
        PackageType::NuGet => r is Ok && p1.name@ == lower_seq(p0.name@),
        PackageType::PyPI => r is Ok && p1.name@ == pypi_norm(p0.name@),
        _ => r is Ok && p1.name == p0.name,
    }
}

/// `Cow::from(&'static str)` (std: `Cow::Borrowed(s)`), for the stub Cow
pub fn x_cow_from_str<'a>(s: &'a str) -> (r: Cow<'a, str>)
    ensures r@ == s@
{ Cow::Borrowed(s) }

// R9: what thiserror's `#[from]` on `PackageError::Parse` generates (derive semantics, assumed)
impl vstd::std_specs::convert::FromSpecImpl<ParseError> for PackageError {
    open spec fn obeys_from_spec() -> bool { true }
    open spec fn from_spec(e: ParseError) -> Self { PackageError::Parse(e) }
}
impl From<ParseError> for PackageError {
    fn from(e: ParseError) -> (r: Self)
    { PackageError::Parse(e) }
}

// ---- the static name table (C15) ----
/// a table entry: a key text mapped to a variant; the entries are exactly the (name, variant) pairs
pub open spec fn table_entry(k: Seq<char>, t: PackageType) -> bool { k == type_name(t) }
pub open spec fn table_has(t: PackageType) -> bool { table_entry(type_name(t), t) }

/// `PACKAGE_TYPES.get(&UniCase::new(s)).copied()`: ASSUMED contract of phf + unicase for a table whose keys are the variant
/// names (proved entry by entry in package_types_table): a hit means the probe equals that key ignoring ASCII case, and every
/// probe that equals a key ignoring ASCII case hits. (B: all 192 case variants, look-alikes and one-edit neighbours.)
#[verifier::external_body]
pub fn x_table_lookup(s: &str) -> (r: Option<PackageType>)
    ensures
        r is Some ==> lower_ascii_seq(s@) == type_name(r->Some_0),
        (exists|t: PackageType| lower_ascii_seq(s@) == type_name(t)) ==> r is Some,
{ unimplemented!() }
