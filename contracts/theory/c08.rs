// ---- C08 as theorems relating the typed and the type-agnostic parser on the SAME string ----
pub proof fn lemma_nonempty_part_congr(a: Seq<(QualifierKey, SmallString)>, b: Seq<(QualifierKey, SmallString)>)
    requires kvs(a) == kvs(b)
    ensures kvs(nonempty_part(a)) == kvs(nonempty_part(b))
    decreases a.len()
{
    assert(kvs(a).len() == a.len() && kvs(b).len() == b.len());
    if a.len() > 0 {
        assert(kvs(a.drop_last()) =~= kvs(a).drop_last());
        assert(kvs(b.drop_last()) =~= kvs(b).drop_last());
        lemma_nonempty_part_congr(a.drop_last(), b.drop_last());
        assert(kvs(a).last() == (a.last().0.0@, a.last().1@));
        assert(kvs(b).last() == (b.last().0.0@, b.last().1@));
        let na = nonempty_part(a.drop_last());
        let nb = nonempty_part(b.drop_last());
        if a.last().1@.len() > 0 {
            assert(kvs(na.push(a.last())) =~= kvs(na).push((a.last().0.0@, a.last().1@)));
            assert(kvs(nb.push(b.last())) =~= kvs(nb).push((b.last().0.0@, b.last().1@)));
        }
    } else {
        assert(kvs(nonempty_part(a)) =~= kvs(nonempty_part(b)));
    }
}

/// two builds of parts with the same name text and the same qualifier texts (whatever the type parameters): if the first is
/// accepted so is the second, and the qualifier texts of the results agree
pub proof fn lemma_build_agree<T1: PurlShape, T2: PurlShape>(t1: T1, p1: PurlParts, f1: Result<(), T1::Error>, g1: GenericPurl<T1>,
                                                              t2: T2, p2: PurlParts, f2: Result<(), T2::Error>, r2: Result<GenericPurl<T2>, T2::Error>)
    requires
        f1 is Ok, f2 is Ok, wf_seq(p1.qualifiers.qualifiers@), wf_seq(p2.qualifiers.qualifiers@),
        kvs(p1.qualifiers.qualifiers@) == kvs(p2.qualifiers.qualifiers@), p2.name@.len() > 0,
        build_post::<T1>(t1, p1, f1, Ok::<GenericPurl<T1>, T1::Error>(g1)), build_post::<T2>(t2, p2, f2, r2),
    ensures
        r2 is Ok, kvs(r2->Ok_0.parts.qualifiers.qualifiers@) == kvs(g1.parts.qualifiers.qualifiers@),
        r2->Ok_0.package_type == t2, r2->Ok_0.parts.namespace == p2.namespace, r2->Ok_0.parts.name == p2.name,
        r2->Ok_0.parts.version == p2.version, r2->Ok_0.parts.subpath == p2.subpath,
{
    let a = nonempty_part(p1.qualifiers.qualifiers@);
    let b = nonempty_part(p2.qualifiers.qualifiers@);
    lemma_nonempty_part_congr(p1.qualifiers.qualifiers@, p2.qualifiers.qualifiers@);
    lemma_nonempty_wf(p1.qualifiers.qualifiers@);
    lemma_nonempty_wf(p2.qualifiers.qualifiers@);
    lemma_checksum_key();
    lemma_kvs_pos_of(a, checksum_key());
    lemma_kvs_pos_of(b, checksum_key());
    assert(has_key(a, checksum_key()) == has_key(b, checksum_key()));
    assert(kvs(a).len() == a.len() && kvs(b).len() == b.len());
    let g1q = g1.parts.qualifiers.qualifiers@;
    if has_key(a, checksum_key()) {
        let p = pos_of(a, checksum_key());
        lemma_has_pair_pos_key(a, checksum_key());
        lemma_has_pair_pos_key(b, checksum_key());
        assert(pos_of(b, checksum_key()) == p);
        assert(kvs(a)[p] == (a[p].0.0@, a[p].1@));
        assert(kvs(b)[p] == (b[p].0.0@, b[p].1@));
        assert(a[p].1@ == b[p].1@);
        assert(r2 is Ok);
        let r2q = r2->Ok_0.parts.qualifiers.qualifiers@;
        assert(kvs(r2q) =~= kvs(g1q)) by {
            assert(kvs(r2q).len() == r2q.len() && kvs(g1q).len() == g1q.len());
            assert forall|i: int| 0 <= i < g1q.len() implies kvs(r2q)[i] == kvs(g1q)[i] by {
                assert(kvs(a)[i] == (a[i].0.0@, a[i].1@));
                assert(kvs(b)[i] == (b[i].0.0@, b[i].1@));
                if i != p { assert(g1q[i] == a[i]); assert(r2q[i] == b[i]); }
            }
        }
    } else {
        assert(r2 is Ok);
    }
}

/// C08: on the same string the typed PURL and a type-agnostic PURL agree on namespace, version, qualifiers and subpath; the
/// typed name is the type's rule applied to the type-agnostic name; whenever the typed PURL accepts, so does the type-agnostic one
pub proof fn theorem_c08_agree<T: FromStr + PurlShape>(s: Seq<char>, gt: GenericPurl<PackageType>, r: Result<GenericPurl<T>, <T as PurlShape>::Error>)
    where <T as PurlShape>::Error: From<<T as FromStr>::Err>
    requires plain_shape::<T>(), parse_post::<PackageType>(s, Ok::<GenericPurl<PackageType>, PackageError>(gt)), parse_post::<T>(s, r),
    ensures
        r is Ok,
        r->Ok_0.package_type.type_text() == type_name(gt.package_type),
        gt.parts.namespace@ == r->Ok_0.parts.namespace@, gt.parts.version@ == r->Ok_0.parts.version@, gt.parts.subpath@ == r->Ok_0.parts.subpath@,
        kvs(gt.parts.qualifiers.qualifiers@) == kvs(r->Ok_0.parts.qualifiers.qualifiers@),
        match gt.package_type {
            PackageType::NuGet => gt.parts.name@ == lower_seq(r->Ok_0.parts.name@),
            PackageType::PyPI => gt.parts.name@ == pypi_norm(r->Ok_0.parts.name@),
            _ => gt.parts.name@ == r->Ok_0.parts.name@,
        },
        gt.package_type == PackageType::Maven ==> !all_char(gt.parts.namespace@, '/'),
{
    let rt = Ok::<GenericPurl<PackageType>, PackageError>(gt);
    let a = phase_a(s)->Ok_0;
    // ---- the typed parse ----
    let crt = choose|cr: Result<PackageType, UnsupportedPackageType>| #[trigger] PackageType::from_str_rel(a.ty, cr) && match cr {
        Err(ce) => rt is Err,
        Ok(t0) => match phase_b(a.rest) {
            Err(e) => rt is Err,
            Ok(b) => exists|p0: PurlParts, t1: PackageType, p1: PurlParts, fr: Result<(), PackageError>|
                parts_are(p0, a, b) && #[trigger] PackageType::finish_rel(t0, p0, t1, p1, fr) && build_post::<PackageType>(t1, p1, fr, rt),
        },
    };
    let t0 = crt->Ok_0;
    let b = phase_b(a.rest)->Ok_0;
    let (p0, t1, p1, fr) = choose|p0: PurlParts, t1: PackageType, p1: PurlParts, fr: Result<(), PackageError>|
        parts_are(p0, a, b) && #[trigger] PackageType::finish_rel(t0, p0, t1, p1, fr) && build_post::<PackageType>(t1, p1, fr, rt);
    assert(pkg_finish_rel(t0, p0, t1, p1, fr));
    assert(fr is Ok && p1.qualifiers == p0.qualifiers);
    lemma_first_build::<PackageType>(t1, p1, fr, gt);
    // the name was non-empty before the rule (the rule maps the empty name to the empty name)
    assert(p0.name@.len() > 0) by {
        if p0.name@.len() == 0 { assert(pypi_norm(p0.name@) =~= Seq::<char>::empty()); assert(lower_seq(p0.name@) =~= Seq::<char>::empty()); }
    }
    // ---- the type-agnostic parse of the same string ----
    let cr = choose|cr: Result<T, <T as FromStr>::Err>| #[trigger] T::from_str_rel(a.ty, cr) && match cr {
        Err(ce) => r is Err,
        Ok(t0) => match phase_b(a.rest) {
            Err(e) => r is Err,
            Ok(b) => exists|p0: PurlParts, t1: T, p1: PurlParts, fr: Result<(), <T as PurlShape>::Error>|
                parts_are(p0, a, b) && #[trigger] T::finish_rel(t0, p0, t1, p1, fr) && build_post::<T>(t1, p1, fr, r),
        },
    };
    let u0 = cr->Ok_0;
    let (q0, u1, q1, fr2) = choose|q0: PurlParts, u1: T, q1: PurlParts, fr2: Result<(), <T as PurlShape>::Error>|
        parts_are(q0, a, b) && #[trigger] T::finish_rel(u0, q0, u1, q1, fr2) && build_post::<T>(u1, q1, fr2, r);
    assert(q1 == q0 && fr2 is Ok && u1.type_text() == lower_ascii_seq(a.ty));
    lemma_build_agree::<PackageType, T>(t1, p1, fr, gt, u1, q1, fr2, r);
    assert(lower_ascii_seq(a.ty) == type_name(t0));
}

/// C08: a well-formed type other than the seven known ones is refused by the typed PURL with UnsupportedType
pub proof fn theorem_c08_unknown(s: Seq<char>, rt: Result<GenericPurl<PackageType>, PackageError>)
    requires phase_a(s) is Ok, forall|t: PackageType| lower_ascii_seq(phase_a(s)->Ok_0.ty) != #[trigger] type_name(t),
        parse_post::<PackageType>(s, rt),
    ensures rt == Err::<GenericPurl<PackageType>, PackageError>(PackageError::UnsupportedType)
{
    let a = phase_a(s)->Ok_0;
    let cr = choose|cr: Result<PackageType, UnsupportedPackageType>| #[trigger] PackageType::from_str_rel(a.ty, cr) && match cr {
        Err(ce) => rt is Err && rt->Err_0 == <PackageError as vstd::std_specs::convert::FromSpec<UnsupportedPackageType>>::from_spec(ce),
        Ok(t0) => true,
    };
    if cr is Ok { assert(lower_ascii_seq(a.ty) == type_name(cr->Ok_0)); }
}
