// ---- the canonical string as a specification function, written from C03 ----
pub open spec fn opt_part(present: bool, s: Seq<char>) -> Seq<char> { if present { s } else { Seq::<char>::empty() } }

/// [`?` + key=value pairs joined by `&`, in storage order]
pub open spec fn quals_text(v: Seq<(QualifierKey, SmallString)>) -> Seq<char> decreases v.len() {
    if v.len() == 0 { Seq::<char>::empty() }
    else {
        quals_text(v.drop_last()) + seq![if v.len() == 1 { '?' } else { '&' }]
            + enc(SetId::Query, v.last().0.0@) + seq!['='] + enc(SetId::Query, v.last().1@)
    }
}

/// C03: `pkg:` + type + `/` + [namespace + `/`] + name + [`@` + version] + [`?` + pairs] + [`#` + subpath], absent parts omitted
pub open spec fn canon_spec(ty: Seq<char>, p: PurlParts) -> Seq<char> {
    "pkg:"@ + ty + "/"@
    + opt_part(p.namespace@.len() > 0, enc(SetId::Path, p.namespace@) + "/"@)
    + enc(SetId::Segment, p.name@)
    + opt_part(p.version@.len() > 0, "@"@ + enc(SetId::Path, p.version@))
    + quals_text(p.qualifiers.qualifiers@)
    + opt_part(p.subpath@.len() > 0, "#"@ + enc(SetId::Fragment, p.subpath@))
}

// staged prefixes of canon_spec (one per write group), so that each stage closes with one extensional equality
pub open spec fn cs1(ty: Seq<char>) -> Seq<char> { "pkg:"@ + ty + "/"@ }
pub open spec fn cs2(ty: Seq<char>, p: PurlParts) -> Seq<char> { cs1(ty) + opt_part(p.namespace@.len() > 0, enc(SetId::Path, p.namespace@) + "/"@) }
pub open spec fn cs3(ty: Seq<char>, p: PurlParts) -> Seq<char> { cs2(ty, p) + enc(SetId::Segment, p.name@) }
pub open spec fn cs4(ty: Seq<char>, p: PurlParts) -> Seq<char> { cs3(ty, p) + opt_part(p.version@.len() > 0, "@"@ + enc(SetId::Path, p.version@)) }
pub open spec fn cs5(ty: Seq<char>, p: PurlParts) -> Seq<char> { cs4(ty, p) + quals_text(p.qualifiers.qualifiers@) }
pub proof fn lemma_canon_stages(ty: Seq<char>, p: PurlParts)
    ensures canon_spec(ty, p) == cs5(ty, p) + opt_part(p.subpath@.len() > 0, "#"@ + enc(SetId::Fragment, p.subpath@))
{ }
