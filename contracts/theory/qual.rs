// ---- R9: stub of std's AsRef, with a specification of the text it exposes ----
pub uninterp spec fn view_of<T: ?Sized>(t: &T) -> Seq<char>;
#[verifier::external_body]
pub broadcast proof fn axiom_view_of_str(s: &str)
    ensures #[trigger] view_of::<str>(s) == s@
{ }

pub trait AsRef<T: ?Sized> {
    spec fn text(&self) -> Seq<char>;
    fn as_ref(&self) -> (r: &T)
        ensures view_of(r) == self.text();
}
impl AsRef<str> for str {
    open spec fn text(&self) -> Seq<char> { self@ }
    fn as_ref(&self) -> (r: &str) { broadcast use axiom_view_of_str; self }
}
impl<T: ?Sized + AsRef<str>> AsRef<str> for &T {
    open spec fn text(&self) -> Seq<char> { (**self).text() }
    fn as_ref(&self) -> (r: &str) { (**self).as_ref() }
}
impl AsRef<str> for String {
    open spec fn text(&self) -> Seq<char> { self@ }
    fn as_ref(&self) -> (r: &str) { broadcast use axiom_view_of_str; self.as_str() }
}

/// ASSUMED coherence of std conversions: for every K that is both `AsRef<str>` and convertible into SmallString,
/// `SmallString::from(k)` has the text `k.as_ref()` (true for &str, String, SmallString, Cow<str>, Box<str>, ...).
#[verifier::external_body]
pub proof fn axiom_from_keeps_text<K: AsRef<str>>()
    where String: From<K>
    ensures
        <String as vstd::std_specs::convert::FromSpec<K>>::obeys_from_spec(),
        forall|k: K| (#[trigger] <String as vstd::std_specs::convert::FromSpec<K>>::from_spec(k))@ == k.text(),
{ }

pub assume_specification [std::cmp::Ordering::is_eq] (o: Ordering) -> (r: bool) ensures r == (o is Equal);

/// `a.chars().cmp(b.chars().flat_map(|c| c.to_lowercase()))`: Iterator::cmp is lexicographic by scalar value
#[verifier::external_body]
pub fn x_cmp_chars_lower(a: &str, b: &str) -> (r: Ordering)
    ensures r == lex_cmp(a@, lower_seq(b@))
{ a.chars().cmp(b.chars().flat_map(|c| c.to_lowercase())) }

pub open spec fn ord_rank(o: Ordering) -> int { match o { Ordering::Less => 0, Ordering::Equal => 1, Ordering::Greater => 2 } }

pub open spec fn key_cmp(kv: (QualifierKey, SmallString), t: Seq<char>) -> Ordering { lex_cmp(kv.0.0@, t) }

/// a strictly ascending key list is partitioned Less* Equal? Greater* by comparison with any target
pub proof fn lemma_sorted_partition(v: Seq<(QualifierKey, SmallString)>, t: Seq<char>)
    requires keys_sorted(v)
    ensures forall|i: int, j: int| 0 <= i < j < v.len() ==> ord_rank(key_cmp(#[trigger] v[i], t)) <= ord_rank(key_cmp(#[trigger] v[j], t))
{
    assert forall|i: int, j: int| 0 <= i < j < v.len() implies ord_rank(key_cmp(#[trigger] v[i], t)) <= ord_rank(key_cmp(#[trigger] v[j], t)) by {
        let a = v[i].0.0@;
        let b = v[j].0.0@;
        assert(str_lt(a, b));
        if lex_cmp(a, t) is Greater {
            lemma_lex_flip(a, t);
            lemma_lex_trans(t, a, b);
            lemma_lex_flip(t, b);
        } else if lex_cmp(a, t) is Equal {
            lemma_lex_eq(a, t);
            lemma_lex_flip(t, b);
        }
    }
}



/// documented panic: indexing a qualifier that is absent
#[verifier::external_body]
pub fn x_panic_absent() -> !
    requires false
{ panic!() }
