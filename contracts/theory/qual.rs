// ---- R9: stub of std's AsRef, with a specification of the text it exposes ----
pub uninterp spec fn view_of<T: ?Sized>(t: &T) -> Seq<char>;
#[verifier::external_body]
pub broadcast proof fn axiom_view_of_str(s: &str)
    ensures #[trigger] view_of::<str>(s) == s@
{ }

pub trait AsRef<T: ?Sized> {
    spec fn text(&self) -> Seq<char>;
    fn as_ref(&self) -> (r: &T)
        ensures view_of(r) == self.text();
}
impl AsRef<str> for str {
    open spec fn text(&self) -> Seq<char> { self@ }
    fn as_ref(&self) -> (r: &str) { broadcast use axiom_view_of_str; self }
}
impl<T: ?Sized + AsRef<str>> AsRef<str> for &T {
    open spec fn text(&self) -> Seq<char> { (**self).text() }
    fn as_ref(&self) -> (r: &str) { (**self).as_ref() }
}
impl AsRef<str> for String {
    open spec fn text(&self) -> Seq<char> { self@ }
    fn as_ref(&self) -> (r: &str) { broadcast use axiom_view_of_str; self.as_str() }
}

/// ASSUMED coherence of std conversions: for every K that is both `AsRef<str>` and convertible into SmallString,
/// `SmallString::from(k)` has the text `k.as_ref()` (true for &str, String, SmallString, Cow<str>, Box<str>, ...).
#[verifier::external_body]
pub proof fn axiom_from_keeps_text<K: AsRef<str>>()
    where String: From<K>
    ensures
        <String as vstd::std_specs::convert::FromSpec<K>>::obeys_from_spec(),
        forall|k: K| (#[trigger] <String as vstd::std_specs::convert::FromSpec<K>>::from_spec(k))@ == k.text(),
{ }

// ---- qualifier keys (C04, C05, C11: ASCII letters, digits, '.', '-', '_'; non-empty) ----
pub open spec fn key_char(c: char) -> bool { ascii_alnum_c(c) || c == '.' || c == '-' || c == '_' }
pub open spec fn valid_key(s: Seq<char>) -> bool { s.len() > 0 && forall|i: int| 0 <= i < s.len() ==> key_char(#[trigger] s[i]) }
/// canonical stored form: valid and free of ASCII upper-case
pub open spec fn canon_key(s: Seq<char>) -> bool { valid_key(s) && forall|i: int| 0 <= i < s.len() ==> !ascii_upper_c(#[trigger] s[i]) }

// ---- lexicographic order on Seq<char> by scalar value (= byte-wise order of the UTF-8 text, = str::cmp) ----
pub open spec fn lex_cmp(a: Seq<char>, b: Seq<char>) -> Ordering decreases a.len()
{
    if a.len() == 0 { if b.len() == 0 { Ordering::Equal } else { Ordering::Less } }
    else if b.len() == 0 { Ordering::Greater }
    else if (a[0] as u32) < (b[0] as u32) { Ordering::Less }
    else if (a[0] as u32) > (b[0] as u32) { Ordering::Greater }
    else { lex_cmp(a.subrange(1, a.len() as int), b.subrange(1, b.len() as int)) }
}
pub open spec fn str_lt(a: Seq<char>, b: Seq<char>) -> bool { lex_cmp(a, b) is Less }

pub proof fn lemma_lex_eq(a: Seq<char>, b: Seq<char>)
    ensures (lex_cmp(a, b) is Equal) == (a == b)
    decreases a.len()
{
    if a.len() > 0 && b.len() > 0 {
        if a[0] == b[0] {
            lemma_lex_eq(a.subrange(1, a.len() as int), b.subrange(1, b.len() as int));
            if a.subrange(1, a.len() as int) == b.subrange(1, b.len() as int) {
                assert(a =~= seq![a[0]] + a.subrange(1, a.len() as int));
                assert(b =~= seq![b[0]] + b.subrange(1, b.len() as int));
            }
        } else {
            assert((a[0] as u32) != (b[0] as u32));
        }
    } else {
        assert((a == b) == (a.len() == 0 && b.len() == 0)) by { if a.len() == 0 && b.len() == 0 { assert(a =~= b); } }
    }
}

pub proof fn lemma_lex_flip(a: Seq<char>, b: Seq<char>)
    ensures
        (lex_cmp(a, b) is Less) == (lex_cmp(b, a) is Greater),
        (lex_cmp(a, b) is Greater) == (lex_cmp(b, a) is Less),
    decreases a.len()
{
    if a.len() > 0 && b.len() > 0 && a[0] == b[0] {
        lemma_lex_flip(a.subrange(1, a.len() as int), b.subrange(1, b.len() as int));
    }
}

pub proof fn lemma_lex_trans(a: Seq<char>, b: Seq<char>, c: Seq<char>)
    requires str_lt(a, b), str_lt(b, c)
    ensures str_lt(a, c)
    decreases a.len()
{
    if a.len() > 0 && b.len() > 0 && c.len() > 0 && a[0] == b[0] && b[0] == c[0] {
        lemma_lex_trans(a.subrange(1, a.len() as int), b.subrange(1, b.len() as int), c.subrange(1, c.len() as int));
    }
}

pub proof fn lemma_lt_irrefl(a: Seq<char>)
    ensures !str_lt(a, a)
{
    lemma_lex_eq(a, a);
}

// ---- the representation invariant of Qualifiers (C04, C11): keys canonical, strictly ascending ----
pub open spec fn keys_sorted(v: Seq<(QualifierKey, SmallString)>) -> bool {
    forall|i: int, j: int| 0 <= i < j < v.len() ==> str_lt(#[trigger] v[i].0.0@, #[trigger] v[j].0.0@)
}
pub open spec fn keys_canon(v: Seq<(QualifierKey, SmallString)>) -> bool {
    forall|i: int| 0 <= i < v.len() ==> canon_key(#[trigger] v[i].0.0@)
}
pub open spec fn wf_seq(v: Seq<(QualifierKey, SmallString)>) -> bool { keys_sorted(v) && keys_canon(v) }

/// abstract content: key text -> value text (a function of the sequence; unique positions because keys are strictly ascending)
pub open spec fn has_key(v: Seq<(QualifierKey, SmallString)>, k: Seq<char>) -> bool {
    exists|i: int| 0 <= i < v.len() && #[trigger] v[i].0.0@ == k
}
pub open spec fn has_pair(v: Seq<(QualifierKey, SmallString)>, k: Seq<char>, val: Seq<char>) -> bool {
    exists|i: int| 0 <= i < v.len() && #[trigger] v[i].0.0@ == k && v[i].1@ == val
}

pub proof fn lemma_sorted_unique(v: Seq<(QualifierKey, SmallString)>, i: int, j: int)
    requires keys_sorted(v), 0 <= i < v.len(), 0 <= j < v.len(), v[i].0.0@ == v[j].0.0@
    ensures i == j
{
    lemma_lt_irrefl(v[i].0.0@);
    if i < j { assert(str_lt(v[i].0.0@, v[j].0.0@)); }
    if j < i { assert(str_lt(v[j].0.0@, v[i].0.0@)); }
}

pub assume_specification [std::cmp::Ordering::is_eq] (o: Ordering) -> (r: bool) ensures r == (o is Equal);

/// `a.chars().cmp(b.chars().flat_map(|c| c.to_lowercase()))`: Iterator::cmp is lexicographic by scalar value
#[verifier::external_body]
pub fn x_cmp_chars_lower(a: &str, b: &str) -> (r: Ordering)
    ensures r == lex_cmp(a@, lower_seq(b@))
{ a.chars().cmp(b.chars().flat_map(|c| c.to_lowercase())) }

pub open spec fn ord_rank(o: Ordering) -> int { match o { Ordering::Less => 0, Ordering::Equal => 1, Ordering::Greater => 2 } }

pub open spec fn key_cmp(kv: (QualifierKey, SmallString), t: Seq<char>) -> Ordering { lex_cmp(kv.0.0@, t) }

/// a strictly ascending key list is partitioned Less* Equal? Greater* by comparison with any target
pub proof fn lemma_sorted_partition(v: Seq<(QualifierKey, SmallString)>, t: Seq<char>)
    requires keys_sorted(v)
    ensures forall|i: int, j: int| 0 <= i < j < v.len() ==> ord_rank(key_cmp(#[trigger] v[i], t)) <= ord_rank(key_cmp(#[trigger] v[j], t))
{
    assert forall|i: int, j: int| 0 <= i < j < v.len() implies ord_rank(key_cmp(#[trigger] v[i], t)) <= ord_rank(key_cmp(#[trigger] v[j], t)) by {
        let a = v[i].0.0@;
        let b = v[j].0.0@;
        assert(str_lt(a, b));
        if lex_cmp(a, t) is Greater {
            lemma_lex_flip(a, t);
            lemma_lex_trans(t, a, b);
            lemma_lex_flip(t, b);
        } else if lex_cmp(a, t) is Equal {
            lemma_lex_eq(a, t);
            lemma_lex_flip(t, b);
        }
    }
}

/// `v.binary_search_by(|(qk, _qv)| search_cmp(qk, key))` -- std's documented contract for a partitioned slice
#[verifier::external_body]
pub fn x_binary_search_keys<K: AsRef<str>>(v: &Vec<(QualifierKey, SmallString)>, key: &MixedQualifierKey<K>) -> (r: Result<usize, usize>)
    requires
        forall|i: int, j: int| 0 <= i < j < v.len() ==>
            ord_rank(key_cmp(#[trigger] v[i], lower_seq(key.text()))) <= ord_rank(key_cmp(#[trigger] v[j], lower_seq(key.text()))),
    ensures
        match r {
            Ok(i) => i < v.len() && key_cmp(v[i as int], lower_seq(key.text())) is Equal,
            Err(i) => i <= v.len()
                && (forall|j: int| 0 <= j < i ==> key_cmp(#[trigger] v[j], lower_seq(key.text())) is Less)
                && (forall|j: int| i <= j < v.len() ==> key_cmp(#[trigger] v[j], lower_seq(key.text())) is Greater),
        },
{ v.binary_search_by(|(qk, _qv)| search_cmp(qk, key)) }

/// the position of key `k` in a strictly ascending list = number of keys smaller than `k` (names the witness, so
/// whole-content postconditions need no existential)
pub open spec fn pos_of(v: Seq<(QualifierKey, SmallString)>, k: Seq<char>) -> int decreases v.len()
{
    if v.len() == 0 { 0 } else { pos_of(v.drop_last(), k) + if str_lt(v.last().0.0@, k) { 1int } else { 0int } }
}

pub proof fn lemma_pos_of(v: Seq<(QualifierKey, SmallString)>, k: Seq<char>, i: int)
    requires 0 <= i <= v.len(),
        forall|j: int| 0 <= j < i ==> str_lt(#[trigger] v[j].0.0@, k),
        forall|j: int| i <= j < v.len() ==> !str_lt(#[trigger] v[j].0.0@, k),
    ensures pos_of(v, k) == i
    decreases v.len()
{
    if v.len() > 0 {
        let w = v.drop_last();
        if i == v.len() {
            assert forall|j: int| 0 <= j < i - 1 implies str_lt(#[trigger] w[j].0.0@, k) by { assert(w[j] == v[j]); }
            lemma_pos_of(w, k, i - 1);
            assert(str_lt(v[v.len() - 1].0.0@, k));
        } else {
            assert forall|j: int| 0 <= j < i implies str_lt(#[trigger] w[j].0.0@, k) by { assert(w[j] == v[j]); }
            assert forall|j: int| i <= j < w.len() implies !str_lt(#[trigger] w[j].0.0@, k) by { assert(w[j] == v[j]); }
            lemma_pos_of(w, k, i);
            assert(!str_lt(v[v.len() - 1].0.0@, k));
        }
    }
}

pub proof fn lemma_lt_asym(a: Seq<char>, b: Seq<char>)
    requires str_lt(a, b)
    ensures !str_lt(b, a)
{
    lemma_lex_flip(a, b);
}
