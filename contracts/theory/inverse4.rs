// ---- part 4: phase_a / phase_b applied to canon_spec ----
pub open spec fn rest_of(p: PurlParts) -> Seq<char> {
    opt_part(p.namespace@.len() > 0, enc(SetId::Path, p.namespace@) + "/"@)
    + enc(SetId::Segment, p.name@)
    + opt_part(p.version@.len() > 0, "@"@ + enc(SetId::Path, p.version@))
}

/// the parts of a PURL handed out by the library (C04 / C07): what build() and the decoders guarantee
pub open spec fn norm_parts(p: PurlParts, ns_segs: Seq<Seq<char>>, sub_segs: Seq<Seq<char>>) -> bool {
    p.name@.len() > 0
    && (if p.namespace@.len() == 0 { ns_segs.len() == 0 } else { ns_segs.len() > 0 && slash_free_nonempty(ns_segs) && p.namespace@ == join_segs(ns_segs) })
    && (if p.subpath@.len() == 0 { sub_segs.len() == 0 } else { sub_segs.len() > 0 && clean_sub_segs(sub_segs) && p.subpath@ == join_segs(sub_segs) })
    && wf_seq(p.qualifiers.qualifiers@)
    && (forall|i: int| 0 <= i < p.qualifiers.qualifiers@.len() ==> (#[trigger] p.qualifiers.qualifiers@[i]).1@.len() > 0)
}

pub proof fn lemma_lits()
    ensures "/"@ == seq!['/'], "@"@ == seq!['@'], "#"@ == seq!['#'], "pkg:"@.len() == 4
{
    reveal_strlit("/"); reveal_strlit("@"); reveal_strlit("#"); reveal_strlit("pkg:");
    assert("/"@ =~= seq!['/']); assert("@"@ =~= seq!['@']); assert("#"@ =~= seq!['#']);
}

pub proof fn lemma_type_excludes(ty: Seq<char>, x: char)
    requires valid_type(ty), x == '#' || x == '?' || x == '@' || x == '/'
    ensures !has_char(ty, x), ty.len() > 0, ty[0] != '/'
{
    if has_char(ty, x) { let i = choose|i: int| 0 <= i < ty.len() && ty[i] == x; assert(type_char(ty[i])); }
    assert(type_char(ty[0]));
}

/// the path part after the type contains neither '#' nor '?'
pub proof fn lemma_rest_excludes(p: PurlParts, x: char)
    requires x == '#' || x == '?'
    ensures !has_char(rest_of(p), x)
{
    lemma_lits();
    let a = opt_part(p.namespace@.len() > 0, enc(SetId::Path, p.namespace@) + "/"@);
    let b = enc(SetId::Segment, p.name@);
    let c = opt_part(p.version@.len() > 0, "@"@ + enc(SetId::Path, p.version@));
    lemma_enc_excludes(SetId::Path, p.namespace@, x);
    lemma_enc_excludes(SetId::Segment, p.name@, x);
    lemma_enc_excludes(SetId::Path, p.version@, x);
    lemma_single_excludes('/', x);
    lemma_single_excludes('@', x);
    lemma_has_char_concat(enc(SetId::Path, p.namespace@), seq!['/'], x);
    lemma_has_char_concat(seq!['@'], enc(SetId::Path, p.version@), x);
    lemma_has_char_concat(a, b, x);
    lemma_has_char_concat(a + b, c, x);
    assert(!has_char(Seq::<char>::empty(), x));
}

pub proof fn lemma_quals_text_excludes_hash(v: Seq<(QualifierKey, SmallString)>)
    requires keys_canon(v)
    ensures !has_char(quals_text(v), '#')
    decreases v.len()
{
    if v.len() > 0 {
        assert(keys_canon(v.drop_last())) by { assert forall|i: int| 0 <= i < v.drop_last().len() implies canon_key(#[trigger] v.drop_last()[i].0.0@) by { assert(v.drop_last()[i] == v[i]); } }
        lemma_quals_text_excludes_hash(v.drop_last());
        let kv = v.last();
        assert(canon_key(v[v.len() - 1].0.0@));
        lemma_key_chars(kv.0.0@);
        lemma_enc_excludes(SetId::Query, kv.1@, '#');
        let sep = seq![if v.len() == 1 { '?' } else { '&' }];
        lemma_single_excludes(if v.len() == 1 { '?' } else { '&' }, '#');
        lemma_single_excludes('=', '#');
        let t0 = quals_text(v.drop_last());
        lemma_has_char_concat(t0, sep, '#');
        lemma_has_char_concat(t0 + sep, enc(SetId::Query, kv.0.0@), '#');
        lemma_has_char_concat(t0 + sep + enc(SetId::Query, kv.0.0@), seq!['='], '#');
        lemma_has_char_concat(t0 + sep + enc(SetId::Query, kv.0.0@) + seq!['='], enc(SetId::Query, kv.1@), '#');
    }
}

/// phase B on the path part
pub proof fn lemma_phase_b_canon(p: PurlParts, ns_segs: Seq<Seq<char>>, sub_segs: Seq<Seq<char>>)
    requires norm_parts(p, ns_segs, sub_segs)
    ensures phase_b(rest_of(p)) == Ok::<PhaseB, ParseError>(PhaseB { ns: p.namespace@, name: p.name@, version: p.version@ })
{
    // the general statement (part 6) specialised: for clean segments nothing is dropped
    lemma_phase_b_canon_gen(p);
    if p.namespace@.len() > 0 { lemma_sig_ns_normal(ns_segs); assert(p.namespace@ == join_segs(ns_segs)); }
    else { lemma_sig_empty(); assert(p.namespace@ =~= Seq::<char>::empty()); }
}

pub open spec fn c_l2(ty: Seq<char>, p: PurlParts) -> Seq<char> { ty + seq!['/'] + rest_of(p) }
pub open spec fn c_l(ty: Seq<char>, p: PurlParts) -> Seq<char> { c_l2(ty, p) + quals_text(p.qualifiers.qualifiers@) }
pub open spec fn c_b(ty: Seq<char>, p: PurlParts) -> Seq<char> { c_l(ty, p) + opt_part(p.subpath@.len() > 0, seq!['#'] + enc(SetId::Fragment, p.subpath@)) }

/// stage 1: scheme and leading slashes
pub proof fn lemma_pa_scheme(ty: Seq<char>, p: PurlParts)
    requires valid_type(ty)
    ensures
        has_prefix(canon_spec(ty, p), "pkg:"@),
        trim_start_spec(canon_spec(ty, p).subrange("pkg:"@.len() as int, canon_spec(ty, p).len() as int), '/') == c_b(ty, p),
{
    lemma_lits();
    let s = canon_spec(ty, p);
    let b = c_b(ty, p);
    assert(s =~= "pkg:"@ + b);
    assert(s.subrange(0, "pkg:"@.len() as int) =~= "pkg:"@);
    assert(s.subrange("pkg:"@.len() as int, s.len() as int) =~= b);
    lemma_type_excludes(ty, '/');
    assert(b[0] == ty[0]);
    assert(trim_start_spec(b, '/') == b);
}

/// stage 2: the subpath is what follows the last '#'
pub proof fn lemma_pa_subpath(ty: Seq<char>, p: PurlParts, ns_segs: Seq<Seq<char>>, sub_segs: Seq<Seq<char>>)
    requires valid_type(ty), norm_parts(p, ns_segs, sub_segs)
    ensures
        rsplit_at(c_b(ty, p), '#').0 == c_l(ty, p),
        (match rsplit_at(c_b(ty, p), '#').1 { None => Some(Seq::<char>::empty()), Some(x) => sub_fold(split_spec(trim_spec(x, '/'), '/')) }) == Some(p.subpath@),
{
    lemma_lits();
    let q = p.qualifiers.qualifiers@;
    let r = rest_of(p);
    let l2 = c_l2(ty, p);
    let l = c_l(ty, p);
    let b = c_b(ty, p);
    let es = enc(SetId::Fragment, p.subpath@);
    lemma_type_excludes(ty, '#');
    lemma_rest_excludes(p, '#');
    lemma_quals_text_excludes_hash(q);
    lemma_single_excludes('/', '#');
    lemma_has_char_concat(ty, seq!['/'], '#');
    lemma_has_char_concat(ty + seq!['/'], r, '#');
    lemma_has_char_concat(l2, quals_text(q), '#');
    assert(!has_char(l, '#'));
    lemma_enc_excludes(SetId::Fragment, p.subpath@, '#');
    if p.subpath@.len() > 0 {
        assert(b =~= l + seq!['#'] + es);
        lemma_rsplit_join(l, es, '#');
        assert(b.subrange(0, l.len() as int) =~= l);
        assert(b.subrange(l.len() as int + 1, b.len() as int) =~= es);
        lemma_sub_roundtrip(sub_segs);
    } else {
        assert(b =~= l);
        lemma_last_index(l, '#');
        assert(p.subpath@ =~= Seq::<char>::empty());
    }
}

/// stage 3: the qualifiers are what follows the last '?'
pub proof fn lemma_pa_quals(ty: Seq<char>, p: PurlParts, ns_segs: Seq<Seq<char>>, sub_segs: Seq<Seq<char>>)
    requires valid_type(ty), norm_parts(p, ns_segs, sub_segs)
    ensures
        rsplit_at(c_l(ty, p), '?').0 == c_l2(ty, p),
        (match rsplit_at(c_l(ty, p), '?').1 {
            None => Ok::<KV, DqErr>(Seq::<(Seq<char>, Seq<char>)>::empty()),
            Some(x) => dq_fold(split_spec(x, '&'), Seq::<(Seq<char>, Seq<char>)>::empty()),
        }) == Ok::<KV, DqErr>(kvs(p.qualifiers.qualifiers@)),
{
    lemma_lits();
    let q = p.qualifiers.qualifiers@;
    let r = rest_of(p);
    let l2 = c_l2(ty, p);
    let l = c_l(ty, p);
    lemma_type_excludes(ty, '?');
    lemma_rest_excludes(p, '?');
    lemma_single_excludes('/', '?');
    lemma_has_char_concat(ty, seq!['/'], '?');
    lemma_has_char_concat(ty + seq!['/'], r, '?');
    assert(!has_char(l2, '?'));
    if q.len() > 0 {
        let items = q_items(q);
        let j = join_with(items, '&');
        lemma_quals_text_shape(q);
        assert forall|i: int| 0 <= i < items.len() implies !has_char(#[trigger] items[i], '?') && !has_char(items[i], '&') by {
            assert(canon_key(q[i].0.0@));
            lemma_q_item_chars(q[i]);
            assert(items[i] == q_item(q[i]));
        }
        lemma_join_with_excludes(items, '&', '?');
        assert(l =~= l2 + seq!['?'] + j);
        lemma_rsplit_join(l2, j, '?');
        assert(l.subrange(0, l2.len() as int) =~= l2);
        assert(l.subrange(l2.len() as int + 1, l.len() as int) =~= j);
        lemma_split_of_join_with(items, '&');
        lemma_dq_fold_items(q);
    } else {
        assert(quals_text(q) =~= Seq::<char>::empty());
        assert(l =~= l2);
        lemma_last_index(l2, '?');
        assert(kvs(q) =~= Seq::<(Seq<char>, Seq<char>)>::empty());
    }
}

/// stage 4: the type is what precedes the first '/'
pub proof fn lemma_pa_type(ty: Seq<char>, p: PurlParts)
    requires valid_type(ty)
    ensures
        c_l2(ty, p).len() > 0, first_index_of(c_l2(ty, p), '/') == ty.len(),
        c_l2(ty, p).subrange(0, ty.len() as int) == ty,
        c_l2(ty, p).subrange(ty.len() as int + 1, c_l2(ty, p).len() as int) == rest_of(p),
{
    let r = rest_of(p);
    let l2 = c_l2(ty, p);
    lemma_type_excludes(ty, '/');
    lemma_split_join(ty, r, '/');
    assert(l2.subrange(0, ty.len() as int) =~= ty);
    assert(l2.subrange(ty.len() as int + 1, l2.len() as int) =~= r);
}

/// C01 / C09: phase A on the canonical string
pub proof fn lemma_phase_a_canon(ty: Seq<char>, p: PurlParts, ns_segs: Seq<Seq<char>>, sub_segs: Seq<Seq<char>>)
    requires valid_type(ty), norm_parts(p, ns_segs, sub_segs)
    ensures phase_a(canon_spec(ty, p)) == Ok::<PhaseA, ParseError>(PhaseA { ty, rest: rest_of(p), sub: p.subpath@, kv: kvs(p.qualifiers.qualifiers@) })
{
    lemma_pa_scheme(ty, p);
    lemma_pa_subpath(ty, p, ns_segs, sub_segs);
    lemma_pa_quals(ty, p, ns_segs, sub_segs);
    lemma_pa_type(ty, p);
}

/// C01 / C09 / C19, the inverse direction: parsing the canonical string of normalised parts yields exactly those parts
pub proof fn lemma_parse_canon(ty: Seq<char>, p: PurlParts, ns_segs: Seq<Seq<char>>, sub_segs: Seq<Seq<char>>)
    requires valid_type(ty), norm_parts(p, ns_segs, sub_segs)
    ensures
        phase_a(canon_spec(ty, p)) == Ok::<PhaseA, ParseError>(PhaseA { ty, rest: rest_of(p), sub: p.subpath@, kv: kvs(p.qualifiers.qualifiers@) }),
        phase_b(rest_of(p)) == Ok::<PhaseB, ParseError>(PhaseB { ns: p.namespace@, name: p.name@, version: p.version@ }),
{
    lemma_phase_a_canon(ty, p, ns_segs, sub_segs);
    lemma_phase_b_canon(p, ns_segs, sub_segs);
}

/// C19 (one direction): two normalised values with the same canonical string have the same fields
pub proof fn lemma_canon_injective(ty1: Seq<char>, p1: PurlParts, n1: Seq<Seq<char>>, s1: Seq<Seq<char>>,
                                   ty2: Seq<char>, p2: PurlParts, n2: Seq<Seq<char>>, s2: Seq<Seq<char>>)
    requires valid_type(ty1), norm_parts(p1, n1, s1), valid_type(ty2), norm_parts(p2, n2, s2), canon_spec(ty1, p1) == canon_spec(ty2, p2)
    ensures ty1 == ty2, p1.namespace@ == p2.namespace@, p1.name@ == p2.name@, p1.version@ == p2.version@, p1.subpath@ == p2.subpath@,
        kvs(p1.qualifiers.qualifiers@) == kvs(p2.qualifiers.qualifiers@)
{
    lemma_parse_canon(ty1, p1, n1, s1);
    lemma_parse_canon(ty2, p2, n2, s2);
}
