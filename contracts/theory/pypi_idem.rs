// ---- C10: the pypi rule is a projection (pypi_norm(pypi_norm(s)) == pypi_norm(s)) ----
// A-validated per char (exhaustive over all scalar values):
// (axiom_lower_nonempty: see base.rs)
#[verifier::external_body]
pub proof fn axiom_lower_no_dash(c: char)
    requires !dash(c)
    ensures forall|i: int| 0 <= i < u_to_lower(c).len() ==> !dash(#[trigger] u_to_lower(c)[i])
{ }

/// forward formulation of the rule: `d` = "the previous input character was one of - _ ."
pub open spec fn pn(d: bool, s: Seq<char>) -> Seq<char> decreases s.len() {
    if s.len() == 0 { Seq::<char>::empty() }
    else if dash(s[0]) { (if d { Seq::<char>::empty() } else { seq!['-'] }) + pn(true, s.subrange(1, s.len() as int)) }
    else { u_to_lower(s[0]) + pn(false, s.subrange(1, s.len() as int)) }
}
pub open spec fn no_dash(s: Seq<char>) -> bool { forall|i: int| 0 <= i < s.len() ==> !dash(#[trigger] s[i]) }
pub open spec fn end_state(d: bool, s: Seq<char>) -> bool { if s.len() == 0 { d } else { dash(s.last()) } }

pub proof fn lemma_pn_snoc(d: bool, s: Seq<char>, c: char)
    ensures pn(d, s.push(c)) == pn(d, s) + (if dash(c) { if end_state(d, s) { Seq::<char>::empty() } else { seq!['-'] } } else { u_to_lower(c) })
    decreases s.len()
{
    let t = s.push(c);
    if s.len() == 0 {
        let e = t.subrange(1, t.len() as int);
        assert(e.len() == 0);
        assert(pn(true, e) =~= Seq::<char>::empty());
        assert(pn(false, e) =~= Seq::<char>::empty());
        assert(pn(d, s) =~= Seq::<char>::empty());
        assert(t[0] == c);
        assert(pn(d, t) =~= pn(d, s) + (if dash(c) { if d { Seq::<char>::empty() } else { seq!['-'] } } else { u_to_lower(c) }));
    } else {
        let s1 = s.subrange(1, s.len() as int);
        assert(t.subrange(1, t.len() as int) =~= s1.push(c));
        let d1 = dash(s[0]);
        lemma_pn_snoc(d1, s1, c);
        assert(end_state(d1, s1) == end_state(d, s)) by { if s1.len() > 0 { assert(s1.last() == s.last()); } }
        assert(t[0] == s[0]);
        assert(pn(d, t) =~= pn(d, s) + (if dash(c) { if end_state(d, s) { Seq::<char>::empty() } else { seq!['-'] } } else { u_to_lower(c) }));
    }
}

/// the statement-level definition (look-behind) and the forward one agree
pub proof fn lemma_pypi_norm_is_pn(s: Seq<char>)
    ensures pypi_norm(s) == pn(false, s)
    decreases s.len()
{
    if s.len() > 0 {
        let init = s.drop_last();
        lemma_pypi_norm_is_pn(init);
        lemma_pn_snoc(false, init, s.last());
        assert(init.push(s.last()) =~= s);
        if init.len() > 0 { assert(init.last() == s[s.len() - 2]); }
        if dash(s.last()) && !(s.len() >= 2 && dash(s[s.len() - 2])) {
            assert(pypi_norm(init).push('-') =~= pypi_norm(init) + seq!['-']);
        }
        assert(pypi_norm(init) + Seq::<char>::empty() =~= pypi_norm(init));
    }
}

pub proof fn lemma_pn_block(d: bool, l: Seq<char>, y: Seq<char>)
    requires no_dash(l), l.len() > 0
    ensures pn(d, l + y) == lower_seq(l) + pn(false, y)
    decreases l.len()
{
    let t = l + y;
    assert(t[0] == l[0]);
    let l1 = l.subrange(1, l.len() as int);
    assert(t.subrange(1, t.len() as int) =~= l1 + y);
    assert(l =~= seq![l[0]] + l1);
    lemma_lower_seq_concat(seq![l[0]], l1);
    assert(lower_seq(seq![l[0]]) =~= u_to_lower(l[0])) by {
        assert(seq![l[0]].drop_last() =~= Seq::<char>::empty());
        assert(lower_seq(Seq::<char>::empty()) =~= Seq::<char>::empty());
    }
    if l1.len() == 0 {
        assert(l1 + y =~= y);
        assert(lower_seq(l1) =~= Seq::<char>::empty());
        assert(pn(d, t) =~= lower_seq(l) + pn(false, y));
    } else {
        assert forall|i: int| 0 <= i < l1.len() implies !dash(#[trigger] l1[i]) by { assert(l1[i] == l[i + 1]); }
        lemma_pn_block(false, l1, y);
        assert(pn(d, t) =~= lower_seq(l) + pn(false, y));
    }
}

pub proof fn lemma_pn_idem(d: bool, s: Seq<char>)
    ensures pn(d, pn(d, s)) == pn(d, s)
    decreases s.len()
{
    if s.len() > 0 {
        let rest = s.subrange(1, s.len() as int);
        if dash(s[0]) {
            lemma_pn_idem(true, rest);
            if !d {
                let x = pn(true, rest);
                let o = seq!['-'] + x;
                assert(o[0] == '-');
                assert(o.subrange(1, o.len() as int) =~= x);
                assert(pn(false, o) =~= seq!['-'] + pn(true, x));
            } else {
                assert(Seq::<char>::empty() + pn(true, rest) =~= pn(true, rest));
            }
        } else {
            lemma_pn_idem(false, rest);
            let l = u_to_lower(s[0]);
            axiom_lower_nonempty(s[0]);
            axiom_lower_no_dash(s[0]);
            axiom_lower_idem_char(s[0]);
            lemma_pn_block(d, l, pn(false, rest));
        }
    }
}

/// C10: normalising a pypi name twice is normalising it once
pub proof fn lemma_pypi_norm_idem(s: Seq<char>)
    ensures pypi_norm(pypi_norm(s)) == pypi_norm(s)
{
    lemma_pypi_norm_is_pn(s);
    lemma_pypi_norm_is_pn(pypi_norm(s));
    lemma_pn_idem(false, s);
}

/// C10 (type rules): applying PackageType's hook to its own output succeeds and changes nothing observable
pub proof fn lemma_pkg_finish_idem(t0: PackageType, p0: PurlParts, t1: PackageType, p1: PurlParts, t2: PackageType, p2: PurlParts, r2: Result<(), PackageError>)
    requires pkg_finish_rel(t0, p0, t1, p1, Ok::<(), PackageError>(())), pkg_finish_rel(t1, p1, t2, p2, r2)
    ensures r2 is Ok, t2 == t1, p2.name@ == p1.name@, p2.namespace == p1.namespace, p2.version == p1.version,
        p2.qualifiers == p1.qualifiers, p2.subpath == p1.subpath
{
    match t0 {
        PackageType::NuGet => { lemma_lower_seq_idem(p0.name@); },
        PackageType::PyPI => { lemma_pypi_norm_idem(p0.name@); },
        _ => {},
    }
}
