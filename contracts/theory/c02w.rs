// ---- C02: the hypotheses are satisfiable -- a concrete permitted spelling using every freedom at once ----
// `pkg://N//o/n@1?B=x&a=#./s`  (extra slashes, upper-case type and key, an empty-valued item, a '.' piece)
pub proof fn lemma_dec_letter(c: char)
    requires ascii_alnum_c(c)
    ensures dec(seq![c]) == Some(seq![c]), dec(Seq::<char>::empty()) == Some(Seq::<char>::empty())
{
    let s = seq![c];
    assert forall|i: int| 0 <= i < s.len() implies !escaped_c(SetId::Path, #[trigger] s[i]) by { }
    lemma_enc_identity(SetId::Path, s);
    axiom_dec_enc(SetId::Path, s);
    let e = Seq::<char>::empty();
    assert(enc(SetId::Path, e) =~= e);
    axiom_dec_enc(SetId::Path, e);
}

pub open spec fn c02_witness() -> Spelling {
    Spelling {
        lead: 2, ty: seq!['N'],
        ns_pieces: seq![Seq::<char>::empty(), seq!['o']],
        name: seq!['n'], ver: Some(seq!['1']),
        items: Some(seq![(seq!['B'], seq!['x']), (seq!['a'], Seq::<char>::empty())]),
        sub_pieces: Some(seq![seq!['.'], seq!['s']]),
    }
}

pub proof fn lemma_c02_witness()
    ensures spelling_ok(c02_witness()),
        spelled(c02_witness()) == "pkg:"@ + seq!['/', '/', 'N', '/', '/', 'o', '/', 'n', '@', '1', '?', 'B', '=', 'x', '&', 'a', '=', '#', '.', '/', 's'],
{
    let sp = c02_witness();
    let w = raw_of(sp);
    let e = Seq::<char>::empty();
    lemma_dec_letter('o'); lemma_dec_letter('n'); lemma_dec_letter('1'); lemma_dec_letter('x'); lemma_dec_letter('s');
    // the joined texts
    let nsp = sp.ns_pieces;
    assert(nsp.drop_last() =~= seq![e]);
    assert(join_with(nsp.drop_last(), '/') == nsp.drop_last()[0]);
    assert(nsp.last() == seq!['o']);
    assert(join_with(nsp, '/') =~= seq!['/', 'o']);
    let it = sp.items->Some_0;
    let texts = item_texts(it);
    assert(texts.len() == 2);
    assert(texts[0] =~= seq!['B', '=', 'x']);
    assert(texts[1] =~= seq!['a', '=']);
    assert(texts.drop_last() =~= seq![texts[0]]);
    assert(join_with(texts.drop_last(), '&') == texts.drop_last()[0]);
    assert(texts.last() == texts[1]);
    assert(join_with(texts, '&') =~= seq!['B', '=', 'x', '&', 'a', '=']);
    let sps = sp.sub_pieces->Some_0;
    assert(sps.drop_last() =~= seq![seq!['.']]);
    assert(join_with(sps.drop_last(), '/') == sps.drop_last()[0]);
    assert(sps.last() == seq!['s']);
    assert(join_with(sps, '/') =~= seq!['.', '/', 's']);
    assert(w.ns == Some(seq!['/', 'o']));
    assert(w.q == Some(seq!['B', '=', 'x', '&', 'a', '=']));
    assert(w.sub == Some(seq!['.', '/', 's']));
    // the discipline
    assert(valid_type(sp.ty)) by { assert forall|i: int| 0 <= i < sp.ty.len() implies type_char(#[trigger] sp.ty[i]) by { } }
    assert(!has_char(sp.name, '/')) by { if has_char(sp.name, '/') { let i = choose|i: int| 0 <= i < sp.name.len() && sp.name[i] == '/'; } }
    assert(!has_char(seq!['1'], '@')) by { if has_char(seq!['1'], '@') { let i = choose|i: int| 0 <= i < seq!['1'].len() && seq!['1'][i] == '@'; } }
    let q = seq!['B', '=', 'x', '&', 'a', '='];
    assert(!has_char(q, '?')) by { if has_char(q, '?') { let i = choose|i: int| 0 <= i < q.len() && q[i] == '?'; } }
    let sb = seq!['.', '/', 's'];
    assert(!has_char(sb, '#')) by { if has_char(sb, '#') { let i = choose|i: int| 0 <= i < sb.len() && sb[i] == '#'; } }
    assert(raw_ok(w));
    // pieces
    assert(ns_pieces_ok(nsp)) by {
        assert forall|i: int| 0 <= i < nsp.len() implies !has_char(#[trigger] nsp[i], '/') && (!ns_skipped(nsp[i]) ==> !ns_bad(nsp[i])) by {
            if i == 1 { assert(nsp[1] == seq!['o']); if has_char(seq!['o'], '/') { let j = choose|j: int| 0 <= j < seq!['o'].len() && seq!['o'][j] == '/'; } }
            else { assert(nsp[0] == e); }
        }
    }
    assert(sub_pieces_ok(sps)) by {
        assert forall|i: int| 0 <= i < sps.len() implies !has_char(#[trigger] sps[i], '/') && (!sub_skipped(sps[i]) ==> !sub_bad(sps[i])) by {
            if i == 1 {
                assert(sps[1] == seq!['s']);
                if has_char(seq!['s'], '/') { let j = choose|j: int| 0 <= j < seq!['s'].len() && seq!['s'][j] == '/'; }
                assert(seq!['s'] != seq!['.']) by { assert(seq!['s'][0] != seq!['.'][0]); }
                assert(seq!['s'].len() != seq!['.', '.'].len());
            } else {
                assert(sps[0] == seq!['.']); assert(is_dot(sps[0]));
                if has_char(seq!['.'], '/') { let j = choose|j: int| 0 <= j < seq!['.'].len() && seq!['.'][j] == '/'; }
            }
        }
    }
    // items
    assert(items_ok(it)) by {
        assert forall|j: int| 0 <= j < it.len() implies valid_key((#[trigger] it[j]).0) && !has_char(it[j].1, '&') && dec(it[j].1) is Some by {
            if j == 0 {
                assert(it[0] == (seq!['B'], seq!['x']));
                assert forall|i: int| 0 <= i < it[0].0.len() implies key_char(#[trigger] it[0].0[i]) by { }
                if has_char(seq!['x'], '&') { let i = choose|i: int| 0 <= i < seq!['x'].len() && seq!['x'][i] == '&'; }
            } else {
                assert(it[1] == (seq!['a'], e));
                assert forall|i: int| 0 <= i < it[1].0.len() implies key_char(#[trigger] it[1].0[i]) by { }
            }
        }
        assert(lower_ascii_seq(seq!['B'])[0] == 'b');
        assert(lower_ascii_seq(seq!['a'])[0] == 'a');
    }
    // no checksum is written
    assert forall|x: Seq<char>| #[trigger] sp_pair(sp, checksum_key(), x) implies ck_canon(x) is Some by {
        let j = choose|j: int| 0 <= j < it.len() && lower_ascii_seq((#[trigger] it[j]).0) == checksum_key() && dec(it[j].1) == Some(x) && x.len() > 0;
        assert(lower_ascii_seq(it[j].0).len() == 1);
    }
    // the text
    lemma_lits();
    assert(slashes(2) =~= seq!['/', '/']);
    assert(spelled(sp) =~= "pkg:"@ + seq!['/', '/', 'N', '/', '/', 'o', '/', 'n', '@', '1', '?', 'B', '=', 'x', '&', 'a', '=', '#', '.', '/', 's']);
}
