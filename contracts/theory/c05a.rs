// ---- C05: invalid input is refused with the matching error -- as theorems over parse_post ----
// Part 1: the error as a function of the raw texts, by precedence (the order in which the parser examines the components):
// scheme; subpath; qualifiers; missing type / missing name separator / type syntax; [conversion]; version; namespace; name;
// then build(): empty name, malformed checksum. "When that defect is the only one" the precedence does not matter; the theorem
// is stronger: it gives the error for ANY combination.

/// the separator discipline without assuming the type is valid (a type substring is whatever stands before the first '/')
pub open spec fn raw_ok_gen(w: Raw) -> bool {
    w.ty.len() > 0 && !has_char(w.ty, '/')
    && !has_char(w.name, '/')
    && (match w.ver { Some(v) => !has_char(v, '@'), None => !has_char(r1_raw(w), '@') })
    && (match w.q { Some(q) => !has_char(q, '?'), None => !has_char(l2_raw(w), '?') })
    && (match w.sub { Some(s) => !has_char(s, '#'), None => !has_char(l_raw(w), '#') })
}
pub open spec fn phase_a_raw_gen(w: Raw) -> Result<PhaseA, ParseError> {
    let sub = match w.sub { None => Some(Seq::<char>::empty()), Some(x) => sub_fold(split_spec(trim_spec(x, '/'), '/')) };
    if sub is None { Err(ParseError::InvalidEscape) } else {
        let kv = match w.q { None => Ok::<KV, DqErr>(Seq::<(Seq<char>, Seq<char>)>::empty()), Some(x) => dq_fold(split_spec(x, '&'), Seq::<(Seq<char>, Seq<char>)>::empty()) };
        match kv {
            Err(d) => Err(dq_parse_err(d)),
            Ok(kvv) => if !valid_type(w.ty) { Err(ParseError::InvalidPackageType) }
                       else { Ok(PhaseA { ty: w.ty, rest: path_raw(w), sub: sub->Some_0, kv: kvv }) },
        }
    }
}

pub proof fn theorem_raw_phase_a_gen(w: Raw)
    requires raw_ok_gen(w)
    ensures phase_a(text_raw(w)) == phase_a_raw_gen(w)
{
    lemma_lits();
    let s = text_raw(w);
    let b = b_raw(w);
    let l = l_raw(w);
    let l2 = l2_raw(w);
    assert(s.subrange(0, "pkg:"@.len() as int) =~= "pkg:"@);
    assert(s.subrange("pkg:"@.len() as int, s.len() as int) =~= slashes(w.lead) + b);
    assert(b[0] == w.ty[0]);
    if w.ty[0] == '/' { assert(has_char(w.ty, '/')); }
    lemma_trim_slashes(w.lead, b);
    match w.sub {
        Some(x) => { assert(b =~= l + seq!['#'] + x); lemma_rsplit_some(l, x, '#'); },
        None => { assert(b =~= l); lemma_rsplit_none(l, '#'); },
    }
    match w.q {
        Some(x) => { assert(l =~= l2 + seq!['?'] + x); lemma_rsplit_some(l2, x, '?'); },
        None => { assert(l =~= l2); lemma_rsplit_none(l2, '?'); },
    }
    lemma_split_join(w.ty, path_raw(w), '/');
    assert(l2.subrange(0, w.ty.len() as int) =~= w.ty);
    assert(l2.subrange(w.ty.len() as int + 1, l2.len() as int) =~= path_raw(w));
    assert(l2.len() > 0);
}

/// a malformed checksum among the parsed pairs
pub open spec fn ck_defect(kv: KV) -> bool { exists|x: Seq<char>| #[trigger] kv_has_pair(kv, checksum_key(), x) && ck_canon(x) is None }

/// the error for the raw texts, by precedence; None: accepted
pub open spec fn raw_error(w: Raw) -> Option<ParseError> {
    match phase_a_raw_gen(w) {
        Err(e) => Some(e),
        Ok(a) => match phase_b_raw(w) {
            Err(e) => Some(e),
            Ok(b) =>
                if b.name.len() == 0 { Some(ParseError::MissingRequiredField(PurlField::Name)) }
                else if ck_defect(a.kv) { Some(ParseError::InvalidQualifier) }
                else { None },
        },
    }
}

pub open spec fn refused_with<T: PurlShape>(r: Result<GenericPurl<T>, T::Error>, e: ParseError) -> bool {
    r is Err && (<T::Error as vstd::std_specs::convert::FromSpec<ParseError>>::obeys_from_spec()
                 ==> r->Err_0 == <T::Error as vstd::std_specs::convert::FromSpec<ParseError>>::from_spec(e))
}

/// dq_fold keeps the list strictly ascending, with non-empty values
pub proof fn lemma_dq_fold_sorted(items: Seq<Seq<char>>)
    requires dq_fold(items, Seq::<(Seq<char>, Seq<char>)>::empty()) is Ok
    ensures kv_sorted(dq_fold(items, Seq::<(Seq<char>, Seq<char>)>::empty())->Ok_0),
        forall|i: int| 0 <= i < dq_fold(items, Seq::<(Seq<char>, Seq<char>)>::empty())->Ok_0.len() ==> (#[trigger] dq_fold(items, Seq::<(Seq<char>, Seq<char>)>::empty())->Ok_0[i]).1.len() > 0
    decreases items.len()
{
    let e = Seq::<(Seq<char>, Seq<char>)>::empty();
    if items.len() > 0 {
        let init = items.drop_last();
        lemma_dq_fold_sorted(init);
        let acc = dq_fold(init, e)->Ok_0;
        let item = items.last();
        let i = first_index_of(item, '=');
        let k = item.subrange(0, i);
        let v = item.subrange(i + 1, item.len() as int);
        let r = dq_fold(items, e)->Ok_0;
        if dec(v)->Some_0.len() > 0 {
            let lk = lower_ascii_seq(k);
            lemma_kv_insert(acc, lk, dec(v)->Some_0);
            lemma_kv_pos_partition(acc, lk);
            let p = kv_pos_of(acc, lk);
            assert forall|j: int| 0 <= j < r.len() implies (#[trigger] r[j]).1.len() > 0 by {
                if j < p { assert(r[j] == acc[j]); } else if j > p { assert(r[j] == acc[j - 1]); }
            }
        }
    }
}

/// C05 for the type-agnostic PURL, every combination of defects in the components: refused exactly when `raw_error` says so,
/// with that error (passed through From)
pub proof fn theorem_c05_raw<T: FromStr + PurlShape>(w: Raw, r: Result<GenericPurl<T>, <T as PurlShape>::Error>)
    where <T as PurlShape>::Error: From<<T as FromStr>::Err>
    requires plain_shape::<T>(), raw_ok_gen(w), parse_post::<T>(text_raw(w), r),
    ensures match raw_error(w) { Some(e) => refused_with::<T>(r, e), None => r is Ok }
{
    let s = text_raw(w);
    theorem_raw_phase_a_gen(w);
    if phase_a(s) is Ok {
        lemma_has_char_concat(w.ty + seq!['/'], path_raw(w), '?');
        assert(raw_ok(w));
        theorem_raw_phase_b(w);
        let a = phase_a(s)->Ok_0;
        let cr = choose|cr: Result<T, <T as FromStr>::Err>| #[trigger] T::from_str_rel(a.ty, cr) && match cr {
            Err(ce) => r is Err,
            Ok(t0) => match phase_b(a.rest) {
                Err(e) => refused_with::<T>(r, e),
                Ok(b) => exists|p0: PurlParts, t1: T, p1: PurlParts, fr: Result<(), <T as PurlShape>::Error>|
                    parts_are(p0, a, b) && #[trigger] T::finish_rel(t0, p0, t1, p1, fr) && build_post::<T>(t1, p1, fr, r),
            },
        };
        let t0 = cr->Ok_0;
        if phase_b(a.rest) is Ok {
            let b = phase_b(a.rest)->Ok_0;
            let (p0, t1, p1, fr) = choose|p0: PurlParts, t1: T, p1: PurlParts, fr: Result<(), <T as PurlShape>::Error>|
                parts_are(p0, a, b) && #[trigger] T::finish_rel(t0, p0, t1, p1, fr) && build_post::<T>(t1, p1, fr, r);
            assert(p1 == p0 && fr is Ok);
            if b.name.len() > 0 {
                let q = p1.qualifiers.qualifiers@;
                assert(kvs(q).len() == q.len());
                match w.q {
                    Some(x) => { lemma_dq_fold_sorted(split_spec(x, '&')); },
                    None => {},
                }
                assert forall|j: int| 0 <= j < q.len() implies (#[trigger] q[j]).1@.len() > 0 by { assert(kvs(q)[j] == (q[j].0.0@, q[j].1@)); }
                lemma_nonempty_id(q);
                lemma_checksum_key();
                let ck = checksum_key();
                if has_key(q, ck) {
                    let p = pos_of(q, ck);
                    lemma_has_pair_pos_key(q, ck);
                    let x = q[p].1@;
                    assert(has_pair(q, ck, x));
                    lemma_kvs_has_pair(q, ck, x);
                    if ck_canon(x) is None {
                        assert(ck_defect(a.kv));
                    } else {
                        if ck_defect(a.kv) {
                            let y = choose|y: Seq<char>| #[trigger] kv_has_pair(a.kv, ck, y) && ck_canon(y) is None;
                            lemma_kvs_has_pair(q, ck, y);
                            let i = choose|i: int| 0 <= i < q.len() && #[trigger] q[i].0.0@ == ck && q[i].1@ == y;
                            lemma_sorted_unique(q, i, p);
                        }
                    }
                } else {
                    if ck_defect(a.kv) {
                        let y = choose|y: Seq<char>| #[trigger] kv_has_pair(a.kv, ck, y) && ck_canon(y) is None;
                        lemma_kvs_has_pair(q, ck, y);
                        let i = choose|i: int| 0 <= i < q.len() && #[trigger] q[i].0.0@ == ck && q[i].1@ == y;
                    }
                }
            }
        }
    }
}
