// ---- R9: stubs of the serde traits the two impls are written against (dependency contracts, assumed) ----
// What serde promises and purl relies on:
//  * `Serializer::collect_str(v)` hands the serializer exactly the text `Display` produces for `v`, as ONE string value
//    (same as `serialize_str(&v.to_string())`);
//  * `Deserializer::deserialize_str(visitor)` calls `visitor.visit_str(s)` when the next value is the string `s`; for a value
//    that is not a string it calls another `visit_*` method -- all of which `PurlVisitor` leaves at serde's default, an
//    `invalid type` error (the extracted impl block has exactly the members of this stub: an added `visit_*` override is
//    outside the stub and is not accepted);
//  * `de::Error::custom(msg)` builds the format's error from a message.

/// The text `Display` produces (linked to the real `Display::fmt` in group `fmt`, where `fmt` is proved to append exactly
/// `canon_spec(type, parts)` under the precondition `valid_type(type)`).
pub trait DisplayText {
    spec fn display_pre(&self) -> bool;
    spec fn display_text(&self) -> Seq<char>;
}
impl<T: PurlShape> DisplayText for GenericPurl<T> {
    open spec fn display_pre(&self) -> bool { valid_type(self.package_type.type_text()) }
    open spec fn display_text(&self) -> Seq<char> { canon_spec(self.package_type.type_text(), self.parts) }
}

pub trait Serializer: Sized {
    type Ok;
    type Error;
    /// `r` is this serializer's answer to being given the single string value `text`
    spec fn str_rel(self, text: Seq<char>, r: Result<Self::Ok, Self::Error>) -> bool;
    fn collect_str<V: DisplayText>(self, value: &V) -> (r: Result<Self::Ok, Self::Error>)
        requires value.display_pre()
        ensures self.str_rel(value.display_text(), r);
    fn serialize_str(self, v: &str) -> (r: Result<Self::Ok, Self::Error>)
        ensures self.str_rel(v@, r);
}

pub trait Serialize {
    spec fn ser_pre(&self) -> bool;
    spec fn ser_text(&self) -> Seq<char>;
    fn serialize<S>(&self, serializer: S) -> (r: Result<S::Ok, S::Error>)
        where S: Serializer
        requires self.ser_pre()
        ensures serializer.str_rel(self.ser_text(), r);
}

pub trait Visitor: Sized {
    type Value;
    spec fn visit_str_rel<E: Error>(self, v: Seq<char>, r: Result<Self::Value, E>) -> bool;
    fn expecting(&self, formatter: &mut Formatter) -> (r: FmtResult);
    fn visit_str<E>(self, v: &str) -> (r: Result<Self::Value, E>)
        where E: Error
        ensures self.visit_str_rel(v@, r);
}

pub trait Deserializer: Sized {
    type Error: Error;
    /// the next value of the input, if it is a string
    spec fn next_str(self) -> Option<Seq<char>>;
    fn deserialize_str<V: Visitor>(self, visitor: V) -> (r: Result<V::Value, Self::Error>)
        ensures match self.next_str() {
            Some(s) => visitor.visit_str_rel(s, r),
            // not a string: some other visit_* is called; PurlVisitor overrides none of them, serde's default refuses
            None => r is Err,
        };
}

pub trait Deserialize: Sized {
    spec fn de_rel<D: Deserializer>(d: D, r: Result<Self, D::Error>) -> bool;
    fn deserialize<D>(deserializer: D) -> (r: Result<Self, D::Error>)
        where D: Deserializer
        ensures Self::de_rel(deserializer, r);
}
