// ---- C14: ghost record of the calls made to user code (the conversion and the finishing hook) ----
// Contracts speak about one call; "at most once per parse", "exactly once per build()", "never before the conversion succeeded"
// are statements about the HISTORY of calls. The history is made visible to the contracts as ghost state: group `c14` re-extracts
// `from_str` and `build()` with one extra GHOST parameter (erased at compile time; rewrite R11 adds it to the two signatures and to
// every call of `T::from_str`, `.finish(..)` and `.build()` found in the two bodies), and the two trait stubs append to it.
pub ghost enum Call {
    /// `T::from_str(text)` was called; `ok`: it returned `Ok`
    Conv { text: Seq<char>, ok: bool },
    /// `finish` was called
    Hook,
}
pub tracked struct CallLog { pub ghost calls: Seq<Call> }

/// the calls one parse of `s` makes, appended to the history `l0` (C14): none before the type substring is known to be valid
/// (`phase_a`: everything the parser does up to the conversion); then the conversion once, on the substring as written; then,
/// only if it succeeded and the rest of the string is well-formed (`phase_b`), the hook once
pub open spec fn proto_ok(l0: Seq<Call>, l1: Seq<Call>, s: Seq<char>) -> bool {
    match phase_a(s) {
        Err(_) => l1 == l0,
        Ok(a) => l1 == l0.push(Call::Conv { text: a.ty, ok: false })
            || match phase_b(a.rest) {
                Err(_) => l1 == l0.push(Call::Conv { text: a.ty, ok: true }),
                Ok(_) => l1 == l0.push(Call::Conv { text: a.ty, ok: true }).push(Call::Hook),
            },
    }
}
