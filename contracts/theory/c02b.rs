// ---- C02, part 2: what may stand between the separators ----
// Namespace and subpath texts are '/'-joins of pieces: an empty piece is an extra '/', a raw "." / ".." piece of the subpath is
// skipped, every other piece is ANY text that decodes (raw characters, raw UTF-8, escapes in either hex case -- `dec` is the
// percent-decoder) to a segment without '/'. The qualifier text is the '&'-join of `key=value` items in ANY order, keys in any
// letter case, values any text that decodes; an item whose value decodes to nothing is skipped.

pub open spec fn ns_pieces_ok(ps: Seq<Seq<char>>) -> bool {
    slash_free(ps) && forall|i: int| 0 <= i < ps.len() ==> (!ns_skipped(#[trigger] ps[i]) ==> !ns_bad(ps[i]))
}
pub open spec fn sub_pieces_ok(ps: Seq<Seq<char>>) -> bool {
    slash_free(ps) && forall|i: int| 0 <= i < ps.len() ==> (!sub_skipped(#[trigger] ps[i]) ==> !sub_bad(ps[i]))
}

pub proof fn lemma_ns_fold_ok(ps: Seq<Seq<char>>)
    requires forall|i: int| 0 <= i < ps.len() ==> (!ns_skipped(#[trigger] ps[i]) ==> !ns_bad(ps[i]))
    ensures ns_fold(ps) is Some
    decreases ps.len()
{
    if ps.len() > 0 {
        let init = ps.drop_last();
        assert forall|i: int| 0 <= i < init.len() implies (!ns_skipped(#[trigger] init[i]) ==> !ns_bad(init[i])) by { assert(init[i] == ps[i]); }
        lemma_ns_fold_ok(init);
        assert(ps.last() == ps[ps.len() - 1]);
    }
}
pub proof fn lemma_sub_fold_ok(ps: Seq<Seq<char>>)
    requires forall|i: int| 0 <= i < ps.len() ==> (!sub_skipped(#[trigger] ps[i]) ==> !sub_bad(ps[i]))
    ensures sub_fold(ps) is Some
    decreases ps.len()
{
    if ps.len() > 0 {
        let init = ps.drop_last();
        assert forall|i: int| 0 <= i < init.len() implies (!sub_skipped(#[trigger] init[i]) ==> !sub_bad(init[i])) by { assert(init[i] == ps[i]); }
        lemma_sub_fold_ok(init);
        assert(ps.last() == ps[ps.len() - 1]);
    }
}

/// extra '/' around namespace segments, any spelling of each segment: the decoder returns the '/'-join of the decoded segments
pub proof fn lemma_ns_spelled(ps: Seq<Seq<char>>)
    requires ps.len() > 0, ns_pieces_ok(ps)
    ensures
        ns_fold(split_spec(trim_spec(join_with(ps, '/'), '/'), '/')) == Some(join_segs(ns_segs(ps))),
        forall|i: int| 0 <= i < ns_segs(ps).len() ==> clean_ns_seg(#[trigger] ns_segs(ps)[i]),
{
    let x = join_with(ps, '/');
    lemma_split_of_join_with(ps, '/');
    lemma_fold_trim_end(trim_start_spec(x, '/'));
    lemma_fold_trim_start(x);
    lemma_ns_fold_ok(ps);
    lemma_ns_fold_shape(ps);
}
/// the same for the subpath, raw "." and ".." pieces skipped as well
pub proof fn lemma_sub_spelled(ps: Seq<Seq<char>>)
    requires ps.len() > 0, sub_pieces_ok(ps)
    ensures
        sub_fold(split_spec(trim_spec(join_with(ps, '/'), '/'), '/')) == Some(join_segs(sub_segs(ps))),
        forall|i: int| 0 <= i < sub_segs(ps).len() ==> clean_sub_seg(#[trigger] sub_segs(ps)[i]),
{
    let x = join_with(ps, '/');
    lemma_split_of_join_with(ps, '/');
    lemma_fold_trim_end(trim_start_spec(x, '/'));
    lemma_fold_trim_start(x);
    lemma_sub_fold_ok(ps);
    lemma_sub_fold_shape(ps);
}

// ---- qualifiers: any order, any key case, empty-valued items interleaved ----
pub open spec fn kv_sorted(v: KV) -> bool { forall|i: int, j: int| 0 <= i < j < v.len() ==> str_lt((#[trigger] v[i]).0, (#[trigger] v[j]).0) }
pub open spec fn kv_has_pair(v: KV, k: Seq<char>, val: Seq<char>) -> bool { exists|i: int| 0 <= i < v.len() && #[trigger] v[i] == (k, val) }

/// in a strictly ascending list the insertion position splits it into smaller keys and not-smaller keys
pub proof fn lemma_kv_pos_partition(acc: KV, k: Seq<char>)
    requires kv_sorted(acc)
    ensures
        0 <= kv_pos_of(acc, k) <= acc.len(),
        forall|j: int| 0 <= j < kv_pos_of(acc, k) ==> str_lt((#[trigger] acc[j]).0, k),
        forall|j: int| kv_pos_of(acc, k) <= j < acc.len() ==> !str_lt((#[trigger] acc[j]).0, k),
    decreases acc.len()
{
    if acc.len() > 0 {
        let w = acc.drop_last();
        assert(kv_sorted(w)) by { assert forall|i: int, j: int| 0 <= i < j < w.len() implies str_lt((#[trigger] w[i]).0, (#[trigger] w[j]).0) by { assert(w[i] == acc[i] && w[j] == acc[j]); } }
        lemma_kv_pos_partition(w, k);
        let p = kv_pos_of(w, k);
        let n = acc.len() - 1;
        assert(acc.last() == acc[n]);
        if str_lt(acc[n].0, k) {
            // then every earlier key is smaller as well, so nothing of w is at or after p
            if p < w.len() {
                assert(w[p] == acc[p]);
                assert(str_lt(acc[p].0, acc[n].0));
                lemma_lex_trans(acc[p].0, acc[n].0, k);
                assert(!str_lt(w[p].0, k));
            }
            assert forall|j: int| 0 <= j < p + 1 implies str_lt((#[trigger] acc[j]).0, k) by { if j < n { assert(w[j] == acc[j]); } }
        } else {
            assert forall|j: int| 0 <= j < p implies str_lt((#[trigger] acc[j]).0, k) by { assert(w[j] == acc[j]); }
            assert forall|j: int| p <= j < acc.len() implies !str_lt((#[trigger] acc[j]).0, k) by { if j < n { assert(w[j] == acc[j]); } }
        }
    }
}

/// the order is total: a key that is neither smaller nor equal is larger
pub proof fn lemma_lt_total(a: Seq<char>, b: Seq<char>)
    requires !str_lt(a, b), a != b
    ensures str_lt(b, a)
{
    lemma_lex_eq(a, b);
    lemma_lex_flip(a, b);
}

/// sorted insertion of a new key: still strictly ascending, content = old content plus the pair
pub proof fn lemma_kv_insert(acc: KV, k: Seq<char>, v: Seq<char>)
    requires kv_sorted(acc), !kv_has_key(acc, k)
    ensures ({
        let r = acc.insert(kv_pos_of(acc, k), (k, v));
        kv_sorted(r)
        && (forall|kk: Seq<char>, vv: Seq<char>| kv_has_pair(r, kk, vv) <==> (kv_has_pair(acc, kk, vv) || (kk == k && vv == v)))
        && (forall|kk: Seq<char>| kv_has_key(r, kk) <==> (kv_has_key(acc, kk) || kk == k))
    })
{
    lemma_kv_pos_partition(acc, k);
    let p = kv_pos_of(acc, k);
    let r = acc.insert(p, (k, v));
    assert forall|i: int, j: int| 0 <= i < j < r.len() implies str_lt((#[trigger] r[i]).0, (#[trigger] r[j]).0) by {
        if j < p { assert(r[i] == acc[i] && r[j] == acc[j]); }
        else if j == p { assert(r[i] == acc[i]); }
        else if i == p {
            assert(r[j] == acc[j - 1]);
            assert(!str_lt(acc[j - 1].0, k));
            assert(acc[j - 1].0 != k);
            lemma_lt_total(acc[j - 1].0, k);
        }
        else if i < p { assert(r[i] == acc[i] && r[j] == acc[j - 1]); }
        else { assert(r[i] == acc[i - 1] && r[j] == acc[j - 1]); }
    }
    assert forall|kk: Seq<char>, vv: Seq<char>| kv_has_pair(r, kk, vv) <==> (kv_has_pair(acc, kk, vv) || (kk == k && vv == v)) by {
        if kv_has_pair(r, kk, vv) {
            let i = choose|i: int| 0 <= i < r.len() && #[trigger] r[i] == (kk, vv);
            if i < p { assert(acc[i] == r[i]); } else if i > p { assert(acc[i - 1] == r[i]); }
        }
        if kv_has_pair(acc, kk, vv) {
            let i = choose|i: int| 0 <= i < acc.len() && #[trigger] acc[i] == (kk, vv);
            if i < p { assert(r[i] == acc[i]); } else { assert(r[i + 1] == acc[i]); }
        }
        if kk == k && vv == v { assert(r[p] == (k, v)); }
    }
    assert forall|kk: Seq<char>| kv_has_key(r, kk) <==> (kv_has_key(acc, kk) || kk == k) by {
        if kv_has_key(r, kk) {
            let i = choose|i: int| 0 <= i < r.len() && (#[trigger] r[i]).0 == kk;
            if i < p { assert(acc[i] == r[i]); } else if i > p { assert(acc[i - 1] == r[i]); }
        }
        if kv_has_key(acc, kk) {
            let i = choose|i: int| 0 <= i < acc.len() && (#[trigger] acc[i]).0 == kk;
            if i < p { assert(r[i] == acc[i]); } else { assert(r[i + 1] == acc[i]); }
        }
        if kk == k { assert(r[p].0 == k); }
    }
}

/// one written item `key=value`
pub open spec fn item_text(it: (Seq<char>, Seq<char>)) -> Seq<char> { it.0 + seq!['='] + it.1 }
pub open spec fn item_texts(items: Seq<(Seq<char>, Seq<char>)>) -> Seq<Seq<char>> { items.map_values(|it: (Seq<char>, Seq<char>)| item_text(it)) }

/// the written items: keys legal in any letter case and pairwise different ignoring case, values any text that decodes and
/// holds no raw '&'
pub open spec fn items_ok(items: Seq<(Seq<char>, Seq<char>)>) -> bool {
    (forall|j: int| 0 <= j < items.len() ==> valid_key((#[trigger] items[j]).0) && !has_char(items[j].1, '&') && dec(items[j].1) is Some)
    && (forall|i: int, j: int| 0 <= i < j < items.len() ==> lower_ascii_seq((#[trigger] items[i]).0) != lower_ascii_seq((#[trigger] items[j]).0))
}
/// the qualifier (k, v) of the component tuple is written by one of the items: key up to letter case, value decoded, not empty
pub open spec fn written_pair(items: Seq<(Seq<char>, Seq<char>)>, k: Seq<char>, v: Seq<char>) -> bool {
    exists|j: int| 0 <= j < items.len() && lower_ascii_seq((#[trigger] items[j]).0) == k && dec(items[j].1) == Some(v) && v.len() > 0
}
pub open spec fn written_key(items: Seq<(Seq<char>, Seq<char>)>, k: Seq<char>) -> bool {
    exists|j: int| 0 <= j < items.len() && lower_ascii_seq((#[trigger] items[j]).0) == k
}

pub proof fn lemma_valid_key_chars(k: Seq<char>)
    requires valid_key(k)
    ensures !has_char(k, '='), !has_char(k, '&'), !has_char(k, '?'), !has_char(k, '#'),
        canon_key(lower_ascii_seq(k)),
{
    assert forall|i: int| 0 <= i < k.len() implies k[i] != '=' && k[i] != '&' && k[i] != '?' && k[i] != '#' by { assert(key_char(k[i])); }
    let l = lower_ascii_seq(k);
    assert forall|i: int| 0 <= i < l.len() implies key_char(#[trigger] l[i]) && !ascii_upper_c(l[i]) by { assert(key_char(k[i])); }
}

/// items in ANY order: the fold accepts them and returns the strictly ascending list of exactly the written non-empty pairs,
/// keys lower-cased
pub proof fn lemma_dq_spelled(items: Seq<(Seq<char>, Seq<char>)>)
    requires items_ok(items)
    ensures ({
        let r = dq_fold(item_texts(items), Seq::<(Seq<char>, Seq<char>)>::empty());
        r is Ok && kv_sorted(r->Ok_0)
        && (forall|i: int| 0 <= i < r->Ok_0.len() ==> canon_key((#[trigger] r->Ok_0[i]).0) && r->Ok_0[i].1.len() > 0)
        && (forall|k: Seq<char>, v: Seq<char>| kv_has_pair(r->Ok_0, k, v) <==> written_pair(items, k, v))
        && (forall|k: Seq<char>| kv_has_key(r->Ok_0, k) ==> written_key(items, k))
    })
    decreases items.len()
{
    let e = Seq::<(Seq<char>, Seq<char>)>::empty();
    let texts = item_texts(items);
    if items.len() == 0 {
        assert(texts =~= Seq::<Seq<char>>::empty());
    } else {
        let init = items.drop_last();
        let n = items.len() - 1;
        let it = items[n];
        assert(items.last() == it);
        assert(items_ok(init)) by {
            assert forall|j: int| 0 <= j < init.len() implies valid_key((#[trigger] init[j]).0) && !has_char(init[j].1, '&') && dec(init[j].1) is Some by { assert(init[j] == items[j]); }
            assert forall|i: int, j: int| 0 <= i < j < init.len() implies lower_ascii_seq((#[trigger] init[i]).0) != lower_ascii_seq((#[trigger] init[j]).0) by { assert(init[i] == items[i] && init[j] == items[j]); }
        }
        lemma_dq_spelled(init);
        assert(texts.drop_last() =~= item_texts(init));
        assert(texts.last() == item_text(it));
        let acc = dq_fold(item_texts(init), e)->Ok_0;
        let k = it.0; let v = it.1;
        let lk = lower_ascii_seq(k);
        // the item is split at its first '=', which is the one written after the key
        lemma_valid_key_chars(k);
        lemma_split_join(k, v, '=');
        let t = item_text(it);
        assert(t.subrange(0, k.len() as int) =~= k);
        assert(t.subrange(k.len() as int + 1, t.len() as int) =~= v);
        // its key has not been seen (no earlier item has it, in any case)
        if kv_has_key(acc, lk) {
            assert(written_key(init, lk));
            let j = choose|j: int| 0 <= j < init.len() && lower_ascii_seq((#[trigger] init[j]).0) == lk;
            assert(init[j] == items[j]);
            assert(lower_ascii_seq(items[j].0) != lower_ascii_seq(items[n].0));
        }
        let dv = dec(v)->Some_0;
        let r = dq_step(acc, t)->Ok_0;
        assert(dq_step(acc, t) is Ok);
        if dv.len() == 0 {
            assert(r == acc);
        } else {
            lemma_kv_insert(acc, lk, dv);
            assert(r == acc.insert(kv_pos_of(acc, lk), (lk, dv)));
            assert forall|i: int| 0 <= i < r.len() implies canon_key((#[trigger] r[i]).0) && r[i].1.len() > 0 by {
                let p = kv_pos_of(acc, lk);
                lemma_kv_pos_partition(acc, lk);
                if i < p { assert(r[i] == acc[i]); } else if i > p { assert(r[i] == acc[i - 1]); }
            }
        }
        assert forall|kk: Seq<char>, vv: Seq<char>| kv_has_pair(r, kk, vv) <==> written_pair(items, kk, vv) by {
            if written_pair(init, kk, vv) {
                let j = choose|j: int| 0 <= j < init.len() && lower_ascii_seq((#[trigger] init[j]).0) == kk && dec(init[j].1) == Some(vv) && vv.len() > 0;
                assert(items[j] == init[j]);
            }
            if written_pair(items, kk, vv) {
                let j = choose|j: int| 0 <= j < items.len() && lower_ascii_seq((#[trigger] items[j]).0) == kk && dec(items[j].1) == Some(vv) && vv.len() > 0;
                if j < n { assert(init[j] == items[j]); assert(written_pair(init, kk, vv)); }
            }
            if kk == lk && vv == dv && dv.len() > 0 { assert(lower_ascii_seq(items[n].0) == kk); }
        }
        assert forall|kk: Seq<char>| kv_has_key(r, kk) implies written_key(items, kk) by {
            if kv_has_key(acc, kk) {
                assert(written_key(init, kk));
                let j = choose|j: int| 0 <= j < init.len() && lower_ascii_seq((#[trigger] init[j]).0) == kk;
                assert(items[j] == init[j]);
                assert(lower_ascii_seq(items[j].0) == kk);
            } else {
                assert(dv.len() > 0 && kk == lk);
                assert(lower_ascii_seq(items[n].0) == kk);
            }
        }
    }
}
