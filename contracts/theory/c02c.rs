// ---- C02, part 3: every permitted spelling of a component tuple parses to the tuple ----
/// one spelling, as the statement lists the freedoms:
///  * `lead` extra '/' after `pkg:`;
///  * the type in any letter case;
///  * the namespace as '/'-separated pieces: an empty piece is an extra '/', any other piece any text that decodes to a segment;
///  * name / version: any text that decodes (raw characters, raw UTF-8, escapes in either hex case: `dec`);
///  * the qualifier items in any order, keys in any letter case, empty-valued items interleaved;
///  * the subpath as pieces: "", "." and ".." are skipped, any other piece any text that decodes to a segment;
///  * raw '@', '?', '#' anywhere to the left of the designated separator (`raw_ok`).
pub struct Spelling {
    pub lead: nat,
    pub ty: Seq<char>,
    pub ns_pieces: Seq<Seq<char>>,
    pub name: Seq<char>,
    pub ver: Option<Seq<char>>,
    pub items: Option<Seq<(Seq<char>, Seq<char>)>>,
    pub sub_pieces: Option<Seq<Seq<char>>>,
}
pub open spec fn raw_of(sp: Spelling) -> Raw {
    Raw {
        lead: sp.lead, ty: sp.ty,
        ns: if sp.ns_pieces.len() == 0 { None } else { Some(join_with(sp.ns_pieces, '/')) },
        name: sp.name, ver: sp.ver,
        q: match sp.items { None => None, Some(it) => Some(join_with(item_texts(it), '&')) },
        sub: match sp.sub_pieces { None => None, Some(ps) => Some(join_with(ps, '/')) },
    }
}
pub open spec fn spelled(sp: Spelling) -> Seq<char> { text_raw(raw_of(sp)) }

/// the components a spelling denotes
pub open spec fn sp_type(sp: Spelling) -> Seq<char> { lower_ascii_seq(sp.ty) }
pub open spec fn sp_ns(sp: Spelling) -> Seq<Seq<char>> { ns_segs(sp.ns_pieces) }
pub open spec fn sp_name(sp: Spelling) -> Seq<char> { dec(sp.name)->Some_0 }
pub open spec fn sp_version(sp: Spelling) -> Seq<char> { match sp.ver { None => Seq::<char>::empty(), Some(v) => dec(v)->Some_0 } }
pub open spec fn sp_sub(sp: Spelling) -> Seq<Seq<char>> { match sp.sub_pieces { None => Seq::<Seq<char>>::empty(), Some(ps) => sub_segs(ps) } }
pub open spec fn sp_pair(sp: Spelling, k: Seq<char>, v: Seq<char>) -> bool { match sp.items { None => false, Some(it) => written_pair(it, k, v) } }

pub open spec fn ck_canon(x: Seq<char>) -> Option<Seq<char>> { match ck_parse(x) { None => None, Some(m) => ck_text(m) } }

/// a spelling the grammar permits
pub open spec fn spelling_ok(sp: Spelling) -> bool {
    raw_ok(raw_of(sp))
    && ns_pieces_ok(sp.ns_pieces)
    && dec(sp.name) is Some && dec(sp.name)->Some_0.len() > 0
    && (match sp.ver { None => true, Some(v) => dec(v) is Some })
    && (match sp.items { None => true, Some(it) => it.len() > 0 && items_ok(it) })
    && (match sp.sub_pieces { None => true, Some(ps) => ps.len() > 0 && sub_pieces_ok(ps) })
    // a checksum, if one is written, is well-formed (C05 is about the others)
    && (forall|x: Seq<char>| #[trigger] sp_pair(sp, checksum_key(), x) ==> ck_canon(x) is Some)
}

pub proof fn lemma_kvs_has_pair(q: Seq<(QualifierKey, SmallString)>, k: Seq<char>, v: Seq<char>)
    ensures has_pair(q, k, v) <==> kv_has_pair(kvs(q), k, v), has_key(q, k) <==> kv_has_key(kvs(q), k)
{
    assert(kvs(q).len() == q.len());
    if has_pair(q, k, v) { let i = choose|i: int| 0 <= i < q.len() && #[trigger] q[i].0.0@ == k && q[i].1@ == v; assert(kvs(q)[i] == (k, v)); }
    if kv_has_pair(kvs(q), k, v) { let i = choose|i: int| 0 <= i < kvs(q).len() && #[trigger] kvs(q)[i] == (k, v); assert(q[i].0.0@ == k && q[i].1@ == v); }
    if has_key(q, k) { let i = choose|i: int| 0 <= i < q.len() && #[trigger] q[i].0.0@ == k; assert(kvs(q)[i].0 == k); }
    if kv_has_key(kvs(q), k) { let i = choose|i: int| 0 <= i < kvs(q).len() && (#[trigger] kvs(q)[i]).0 == k; assert(q[i].0.0@ == k); }
}

/// the two phases on a permitted spelling: accepted, each component as the spelling denotes it
pub proof fn theorem_c02_phases(sp: Spelling)
    requires spelling_ok(sp)
    ensures
        phase_a(spelled(sp)) is Ok,
        phase_a(spelled(sp))->Ok_0.ty == sp.ty,
        phase_a(spelled(sp))->Ok_0.rest == path_raw(raw_of(sp)),
        phase_a(spelled(sp))->Ok_0.sub == join_segs(sp_sub(sp)),
        kv_sorted(phase_a(spelled(sp))->Ok_0.kv),
        forall|i: int| 0 <= i < phase_a(spelled(sp))->Ok_0.kv.len() ==> (#[trigger] phase_a(spelled(sp))->Ok_0.kv[i]).1.len() > 0,
        forall|k: Seq<char>, v: Seq<char>| kv_has_pair(phase_a(spelled(sp))->Ok_0.kv, k, v) <==> sp_pair(sp, k, v),
        phase_b(path_raw(raw_of(sp))) == Ok::<PhaseB, ParseError>(PhaseB { ns: join_segs(sp_ns(sp)), name: sp_name(sp), version: sp_version(sp) }),
        forall|i: int| 0 <= i < sp_ns(sp).len() ==> clean_ns_seg(#[trigger] sp_ns(sp)[i]),
        forall|i: int| 0 <= i < sp_sub(sp).len() ==> clean_sub_seg(#[trigger] sp_sub(sp)[i]),
{
    let w = raw_of(sp);
    theorem_raw_phase_a(w);
    theorem_raw_phase_b(w);
    // subpath
    match sp.sub_pieces {
        Some(ps) => { lemma_sub_spelled(ps); },
        None => { assert(join_segs(Seq::<Seq<char>>::empty()) =~= Seq::<char>::empty()); },
    }
    // qualifiers
    match sp.items {
        Some(it) => {
            let texts = item_texts(it);
            assert forall|i: int| 0 <= i < texts.len() implies !has_char(#[trigger] texts[i], '&') by {
                lemma_valid_key_chars(it[i].0);
                lemma_single_excludes('=', '&');
                lemma_has_char_concat(it[i].0, seq!['='], '&');
                lemma_has_char_concat(it[i].0 + seq!['='], it[i].1, '&');
            }
            lemma_split_of_join_with(texts, '&');
            lemma_dq_spelled(it);
        },
        None => {
            let e = Seq::<(Seq<char>, Seq<char>)>::empty();
            assert forall|k: Seq<char>, v: Seq<char>| !kv_has_pair(e, k, v) by { }
        },
    }
    // namespace
    if sp.ns_pieces.len() > 0 { lemma_ns_spelled(sp.ns_pieces); }
    else {
        assert(ns_segs(sp.ns_pieces) =~= Seq::<Seq<char>>::empty());
        assert(join_segs(Seq::<Seq<char>>::empty()) =~= Seq::<char>::empty());
    }
}

/// the qualifiers of the result are exactly the written non-empty pairs with lower-cased keys, each once, in ascending key order;
/// the checksum value in its canonical text
pub open spec fn quals_as_written(sp: Spelling, gq: Seq<(QualifierKey, SmallString)>) -> bool {
    wf_seq(gq)
    && (forall|k: Seq<char>, v: Seq<char>| k != checksum_key() ==> (has_pair(gq, k, v) <==> sp_pair(sp, k, v)))
    && (forall|c: Seq<char>| has_pair(gq, checksum_key(), c) <==> exists|x: Seq<char>| #[trigger] sp_pair(sp, checksum_key(), x) && ck_canon(x) == Some(c))
}

/// the tail of the parse: build() on the parsed parts (after a hook that succeeded and left qualifiers and a name)
pub proof fn lemma_c02_build<T: PurlShape>(sp: Spelling, t1: T, p1: PurlParts, fr: Result<(), T::Error>, r: Result<GenericPurl<T>, T::Error>)
    requires
        fr is Ok, p1.name@.len() > 0, wf_seq(p1.qualifiers.qualifiers@),
        forall|i: int| 0 <= i < kvs(p1.qualifiers.qualifiers@).len() ==> (#[trigger] kvs(p1.qualifiers.qualifiers@)[i]).1.len() > 0,
        forall|k: Seq<char>, v: Seq<char>| kv_has_pair(kvs(p1.qualifiers.qualifiers@), k, v) <==> sp_pair(sp, k, v),
        forall|x: Seq<char>| #[trigger] sp_pair(sp, checksum_key(), x) ==> ck_canon(x) is Some,
        build_post::<T>(t1, p1, fr, r),
    ensures
        r is Ok, same_but_qualifiers(r->Ok_0, t1, p1), quals_as_written(sp, r->Ok_0.parts.qualifiers.qualifiers@),
{
    let q = p1.qualifiers.qualifiers@;
    assert(kvs(q).len() == q.len());
    // every parsed value is non-empty: build() removes nothing
    assert forall|j: int| 0 <= j < q.len() implies (#[trigger] q[j]).1@.len() > 0 by { assert(kvs(q)[j] == (q[j].0.0@, q[j].1@)); }
    lemma_nonempty_id(q);
    lemma_checksum_key();
    assert forall|k: Seq<char>, v: Seq<char>| has_pair(q, k, v) <==> sp_pair(sp, k, v) by { lemma_kvs_has_pair(q, k, v); }
    let ck = checksum_key();
    if has_key(q, ck) {
        let p = pos_of(q, ck);
        lemma_has_pair_pos_key(q, ck);
        let x = q[p].1@;
        assert(has_pair(q, ck, x));
        assert(sp_pair(sp, ck, x));
        assert(ck_canon(x) is Some);
        assert(r is Ok);
        let gq = r->Ok_0.parts.qualifiers.qualifiers@;
        assert(gq == q.update(p, (q[p].0, gq[p].1)));
        lemma_update_value_keeps_wf(q, p, gq[p].1);
        assert forall|k: Seq<char>, v: Seq<char>| k != ck implies (has_pair(gq, k, v) <==> sp_pair(sp, k, v)) by {
            if has_pair(gq, k, v) { let i = choose|i: int| 0 <= i < gq.len() && #[trigger] gq[i].0.0@ == k && gq[i].1@ == v; assert(i != p); assert(q[i] == gq[i]); assert(has_pair(q, k, v)); }
            if has_pair(q, k, v) { let i = choose|i: int| 0 <= i < q.len() && #[trigger] q[i].0.0@ == k && q[i].1@ == v; assert(i != p); assert(gq[i] == q[i]); }
        }
        assert forall|c: Seq<char>| has_pair(gq, ck, c) <==> exists|x: Seq<char>| #[trigger] sp_pair(sp, ck, x) && ck_canon(x) == Some(c) by {
            if has_pair(gq, ck, c) {
                let i = choose|i: int| 0 <= i < gq.len() && #[trigger] gq[i].0.0@ == ck && gq[i].1@ == c;
                lemma_sorted_unique(gq, i, p);
                assert(sp_pair(sp, ck, x) && ck_canon(x) == Some(c));
            }
            if exists|y: Seq<char>| #[trigger] sp_pair(sp, ck, y) && ck_canon(y) == Some(c) {
                let y = choose|y: Seq<char>| #[trigger] sp_pair(sp, ck, y) && ck_canon(y) == Some(c);
                assert(has_pair(q, ck, y));
                let i = choose|i: int| 0 <= i < q.len() && #[trigger] q[i].0.0@ == ck && q[i].1@ == y;
                lemma_sorted_unique(q, i, p);
                assert(gq[p].0.0@ == ck && gq[p].1@ == c);
            }
        }
    } else {
        assert(r is Ok);
        let gq = r->Ok_0.parts.qualifiers.qualifiers@;
        assert(gq == q);
        assert forall|c: Seq<char>| has_pair(gq, ck, c) <==> exists|x: Seq<char>| #[trigger] sp_pair(sp, ck, x) && ck_canon(x) == Some(c) by {
            if has_pair(gq, ck, c) { let i = choose|i: int| 0 <= i < gq.len() && #[trigger] gq[i].0.0@ == ck && gq[i].1@ == c; }
            if exists|y: Seq<char>| #[trigger] sp_pair(sp, ck, y) && ck_canon(y) == Some(c) {
                let y = choose|y: Seq<char>| #[trigger] sp_pair(sp, ck, y) && ck_canon(y) == Some(c);
                assert(has_pair(q, ck, y));
                let i = choose|i: int| 0 <= i < q.len() && #[trigger] q[i].0.0@ == ck && q[i].1@ == y;
            }
        }
    }
}

/// C02 for the type-agnostic PURL: whatever `from_str` returns for a permitted spelling (parse_post) is `Ok` with exactly the
/// components the spelling denotes -- type lower-cased, namespace and subpath the '/'-joins of the decoded segments, name and version
/// decoded, the qualifiers as written
pub proof fn theorem_c02_plain<T: FromStr + PurlShape>(sp: Spelling, r: Result<GenericPurl<T>, <T as PurlShape>::Error>)
    where <T as PurlShape>::Error: From<<T as FromStr>::Err>
    requires plain_shape::<T>(), spelling_ok(sp), parse_post::<T>(spelled(sp), r),
    ensures
        r is Ok,
        r->Ok_0.package_type.type_text() == sp_type(sp),
        r->Ok_0.parts.namespace@ == join_segs(sp_ns(sp)),
        r->Ok_0.parts.name@ == sp_name(sp),
        r->Ok_0.parts.version@ == sp_version(sp),
        r->Ok_0.parts.subpath@ == join_segs(sp_sub(sp)),
        quals_as_written(sp, r->Ok_0.parts.qualifiers.qualifiers@),
{
    let s = spelled(sp);
    theorem_c02_phases(sp);
    let a = phase_a(s)->Ok_0;
    let cr = choose|cr: Result<T, <T as FromStr>::Err>| #[trigger] T::from_str_rel(a.ty, cr) && match cr {
        Err(ce) => r is Err,
        Ok(t0) => match phase_b(a.rest) {
            Err(e) => r is Err,
            Ok(b) => exists|p0: PurlParts, t1: T, p1: PurlParts, fr: Result<(), <T as PurlShape>::Error>|
                parts_are(p0, a, b) && #[trigger] T::finish_rel(t0, p0, t1, p1, fr) && build_post::<T>(t1, p1, fr, r),
        },
    };
    let t0 = cr->Ok_0;
    let b = phase_b(a.rest)->Ok_0;
    let (p0, t1, p1, fr) = choose|p0: PurlParts, t1: T, p1: PurlParts, fr: Result<(), <T as PurlShape>::Error>|
        parts_are(p0, a, b) && #[trigger] T::finish_rel(t0, p0, t1, p1, fr) && build_post::<T>(t1, p1, fr, r);
    assert(p1 == p0 && fr is Ok && t1.type_text() == lower_ascii_seq(a.ty));
    lemma_c02_build::<T>(sp, t1, p1, fr, r);
}

pub proof fn lemma_join_segs_first(segs: Seq<Seq<char>>)
    requires segs.len() > 0, forall|i: int| 0 <= i < segs.len() ==> clean_ns_seg(#[trigger] segs[i])
    ensures join_segs(segs).len() > 0, join_segs(segs)[0] == segs[0][0], segs[0][0] != '/'
    decreases segs.len()
{
    let init = segs.drop_last();
    assert(clean_ns_seg(segs[0]));
    if has_char(segs[0], '/') {} else { if segs[0][0] == '/' { assert(has_char(segs[0], '/')); } }
    if init.len() == 0 {
        assert(join_segs(init) =~= Seq::<char>::empty());
        assert(segs.last() == segs[0]);
    } else {
        assert forall|i: int| 0 <= i < init.len() implies clean_ns_seg(#[trigger] init[i]) by { assert(init[i] == segs[i]); }
        lemma_join_segs_first(init);
        assert(init[0] == segs[0]);
    }
}

/// the type's own name rule (C08 wording)
pub open spec fn name_rule(t: PackageType, n: Seq<char>) -> Seq<char> {
    match t { PackageType::NuGet => lower_seq(n), PackageType::PyPI => pypi_norm(n), _ => n }
}

pub proof fn lemma_lower_seq_nonempty(s: Seq<char>)
    requires s.len() > 0
    ensures lower_seq(s).len() > 0
{
    axiom_lower_nonempty(s.last());
}

/// C02 for the PURL with the built-in package types: a permitted spelling whose type is (in any letter case) the name of `t` --
/// with a namespace, if `t` is Maven -- is accepted with type `t` and exactly the components the spelling denotes, the name after
/// the type's own name rule
pub proof fn theorem_c02_typed(sp: Spelling, t: PackageType, r: Result<GenericPurl<PackageType>, PackageError>)
    requires
        spelling_ok(sp), sp_type(sp) == type_name(t),
        t == PackageType::Maven ==> sp_ns(sp).len() > 0,
        parse_post::<PackageType>(spelled(sp), r),
    ensures
        r is Ok,
        r->Ok_0.package_type == t,
        r->Ok_0.parts.namespace@ == join_segs(sp_ns(sp)),
        r->Ok_0.parts.name@ == name_rule(t, sp_name(sp)),
        r->Ok_0.parts.version@ == sp_version(sp),
        r->Ok_0.parts.subpath@ == join_segs(sp_sub(sp)),
        quals_as_written(sp, r->Ok_0.parts.qualifiers.qualifiers@),
{
    let s = spelled(sp);
    theorem_c02_phases(sp);
    let a = phase_a(s)->Ok_0;
    let cr = choose|cr: Result<PackageType, UnsupportedPackageType>| #[trigger] PackageType::from_str_rel(a.ty, cr) && match cr {
        Err(ce) => r is Err,
        Ok(t0) => match phase_b(a.rest) {
            Err(e) => r is Err,
            Ok(b) => exists|p0: PurlParts, t1: PackageType, p1: PurlParts, fr: Result<(), PackageError>|
                parts_are(p0, a, b) && #[trigger] PackageType::finish_rel(t0, p0, t1, p1, fr) && build_post::<PackageType>(t1, p1, fr, r),
        },
    };
    assert(cr is Ok);
    let t0 = cr->Ok_0;
    lemma_type_name_facts(t0, t);
    assert(t0 == t);
    let b = phase_b(a.rest)->Ok_0;
    let (p0, t1, p1, fr) = choose|p0: PurlParts, t1: PackageType, p1: PurlParts, fr: Result<(), PackageError>|
        parts_are(p0, a, b) && #[trigger] PackageType::finish_rel(t0, p0, t1, p1, fr) && build_post::<PackageType>(t1, p1, fr, r);
    assert(pkg_finish_rel(t0, p0, t1, p1, fr));
    match t {
        PackageType::Maven => {
            lemma_join_segs_first(sp_ns(sp));
            assert(p0.namespace@[0] != '/');
            assert(!all_char(p0.namespace@, '/'));
        },
        PackageType::NuGet => { lemma_lower_seq_nonempty(p0.name@); },
        PackageType::PyPI => { lemma_pypi_norm_nonempty(p0.name@); },
        _ => {},
    }
    assert(fr is Ok && p1.name@ == name_rule(t, p0.name@) && p1.name@.len() > 0);
    lemma_c02_build::<PackageType>(sp, t1, p1, fr, r);
}

/// "Consequently any two spellings of the same components give equal PURLs with identical canonical strings"
pub open spec fn same_components(s1: Spelling, s2: Spelling) -> bool {
    sp_type(s1) == sp_type(s2) && sp_ns(s1) == sp_ns(s2) && sp_name(s1) == sp_name(s2) && sp_version(s1) == sp_version(s2)
    && sp_sub(s1) == sp_sub(s2)
    && (forall|k: Seq<char>, v: Seq<char>| k != checksum_key() ==> (sp_pair(s1, k, v) <==> sp_pair(s2, k, v)))
    // the checksum: the same entries up to order, letter case of the algorithm names and of the hex digits, i.e. (by
    // theorem_checksum_spellings, group ckfix) the same canonical text
    && (forall|c: Seq<char>| ck_written(s1, c) <==> ck_written(s2, c))
}
pub open spec fn ck_written(sp: Spelling, c: Seq<char>) -> bool { exists|x: Seq<char>| #[trigger] sp_pair(sp, checksum_key(), x) && ck_canon(x) == Some(c) }

pub proof fn lemma_quals_as_written_unique(s1: Spelling, s2: Spelling, q1: Seq<(QualifierKey, SmallString)>, q2: Seq<(QualifierKey, SmallString)>)
    requires quals_as_written(s1, q1), quals_as_written(s2, q2), same_components(s1, s2)
    ensures kvs(q1) == kvs(q2)
{
    let ck = checksum_key();
    assert forall|k: Seq<char>, v: Seq<char>| has_pair(q1, k, v) <==> has_pair(q2, k, v) by {
        if k == ck {
            assert(has_pair(q1, ck, v) <==> ck_written(s1, v));
            assert(has_pair(q2, ck, v) <==> ck_written(s2, v));
        }
    }
    lemma_wf_content_unique(q1, q2);
    assert(kvs(q1) =~= kvs(q2));
}

pub proof fn theorem_c02_same_plain<T: FromStr + PurlShape>(s1: Spelling, s2: Spelling, r1: Result<GenericPurl<T>, <T as PurlShape>::Error>, r2: Result<GenericPurl<T>, <T as PurlShape>::Error>)
    where <T as PurlShape>::Error: From<<T as FromStr>::Err>
    requires plain_shape::<T>(), spelling_ok(s1), spelling_ok(s2), same_components(s1, s2),
        parse_post::<T>(spelled(s1), r1), parse_post::<T>(spelled(s2), r2),
    ensures
        r1 is Ok, r2 is Ok,
        r1->Ok_0.package_type.type_text() == r2->Ok_0.package_type.type_text(),
        same_texts(r1->Ok_0.parts, r2->Ok_0.parts),
        canon_spec(r1->Ok_0.package_type.type_text(), r1->Ok_0.parts) == canon_spec(r2->Ok_0.package_type.type_text(), r2->Ok_0.parts),
{
    theorem_c02_plain::<T>(s1, r1);
    theorem_c02_plain::<T>(s2, r2);
    lemma_quals_as_written_unique(s1, s2, r1->Ok_0.parts.qualifiers.qualifiers@, r2->Ok_0.parts.qualifiers.qualifiers@);
    lemma_canon_congr(r1->Ok_0.package_type.type_text(), r1->Ok_0.parts, r2->Ok_0.parts);
}

pub proof fn theorem_c02_same_typed(s1: Spelling, s2: Spelling, t: PackageType, r1: Result<GenericPurl<PackageType>, PackageError>, r2: Result<GenericPurl<PackageType>, PackageError>)
    requires spelling_ok(s1), spelling_ok(s2), same_components(s1, s2), sp_type(s1) == type_name(t),
        t == PackageType::Maven ==> sp_ns(s1).len() > 0,
        parse_post::<PackageType>(spelled(s1), r1), parse_post::<PackageType>(spelled(s2), r2),
    ensures
        r1 is Ok, r2 is Ok,
        r1->Ok_0.package_type == r2->Ok_0.package_type,
        same_texts(r1->Ok_0.parts, r2->Ok_0.parts),
        canon_spec(r1->Ok_0.package_type.type_text(), r1->Ok_0.parts) == canon_spec(r2->Ok_0.package_type.type_text(), r2->Ok_0.parts),
{
    theorem_c02_typed(s1, t, r1);
    theorem_c02_typed(s2, t, r2);
    lemma_quals_as_written_unique(s1, s2, r1->Ok_0.parts.qualifiers.qualifiers@, r2->Ok_0.parts.qualifiers.qualifiers@);
    lemma_canon_congr(r1->Ok_0.package_type.type_text(), r1->Ok_0.parts, r2->Ok_0.parts);
}
