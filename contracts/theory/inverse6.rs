// ---- part 6 (C09): phase_a / phase_b applied to canon_spec of ARBITRARY handed-out parts ----
// (derived from part 4 by replacing the two round-trip steps with their general versions; the raw splits are exposed as well,
// for the injectivity theorem of C19)
/// what build() guarantees of the parts whatever the builder was given: a name, the qualifier invariant, no empty value
pub open spec fn gen_parts(p: PurlParts) -> bool {
    p.name@.len() > 0 && wf_seq(p.qualifiers.qualifiers@)
    && (forall|i: int| 0 <= i < p.qualifiers.qualifiers@.len() ==> (#[trigger] p.qualifiers.qualifiers@[i]).1@.len() > 0)
}

pub proof fn lemma_sig_empty()
    ensures sig_ns(Seq::<char>::empty()) == Seq::<char>::empty(), sig_sub(Seq::<char>::empty()) == Seq::<char>::empty()
{
    let e = Seq::<char>::empty();
    lemma_first_index(e, '/');
    assert(split_spec(e, '/') =~= seq![e]);
    let one = seq![e];
    assert(one.drop_last() =~= Seq::<Seq<char>>::empty());
    assert(one.last() == e);
    assert(ns_skipped(e) && sub_skipped(e));
    assert(keep_ns(Seq::<Seq<char>>::empty()) =~= Seq::<Seq<char>>::empty());
    assert(keep_sub(Seq::<Seq<char>>::empty()) =~= Seq::<Seq<char>>::empty());
    assert(keep_ns(one) == keep_ns(one.drop_last()));
    assert(keep_sub(one) == keep_sub(one.drop_last()));
    assert(join_segs(Seq::<Seq<char>>::empty()) =~= Seq::<char>::empty());
}

pub open spec fn r1_of(p: PurlParts) -> Seq<char> {
    opt_part(p.namespace@.len() > 0, enc(SetId::Path, p.namespace@) + seq!['/']) + enc(SetId::Segment, p.name@)
}

/// the version is what follows the last '@' of the path part
pub proof fn lemma_pb_version_gen(p: PurlParts)
    ensures
        rsplit_at(rest_of(p), '@').0 == r1_of(p),
        (match rsplit_at(rest_of(p), '@').1 { None => Some(Seq::<char>::empty()), Some(x) => dec(x) }) == Some(p.version@),
        rsplit_at(rest_of(p), '@').1 == (if p.version@.len() > 0 { Some(enc(SetId::Path, p.version@)) } else { None::<Seq<char>> }),
{
    lemma_lits();
    let ens = enc(SetId::Path, p.namespace@);
    let en = enc(SetId::Segment, p.name@);
    let ev = enc(SetId::Path, p.version@);
    let nsp = opt_part(p.namespace@.len() > 0, ens + seq!['/']);
    let r1 = r1_of(p);
    let r = rest_of(p);
    lemma_enc_excludes(SetId::Path, p.namespace@, '@');
    lemma_enc_excludes(SetId::Segment, p.name@, '@');
    lemma_enc_excludes(SetId::Path, p.version@, '@');
    lemma_single_excludes('/', '@');
    lemma_has_char_concat(ens, seq!['/'], '@');
    lemma_has_char_concat(nsp, en, '@');
    assert(!has_char(Seq::<char>::empty(), '@'));
    assert(!has_char(r1, '@'));
    if p.version@.len() > 0 {
        assert(r =~= r1 + seq!['@'] + ev);
        lemma_rsplit_join(r1, ev, '@');
        assert(r.subrange(0, r1.len() as int) =~= r1);
        assert(r.subrange(r1.len() as int + 1, r.len() as int) =~= ev);
        axiom_dec_enc(SetId::Path, p.version@);
    } else {
        assert(r =~= r1);
        lemma_last_index(r1, '@');
        assert(p.version@ =~= Seq::<char>::empty());
    }
}

/// the name is what follows the last '/' of what precedes the version; the namespace is what precedes it
pub proof fn lemma_pb_ns_name_gen(p: PurlParts)
    ensures ({
        let r1 = r1_of(p);
        let ns_raw = if last_index_of(r1, '/') < 0 { None::<Seq<char>> } else { Some(r1.subrange(0, last_index_of(r1, '/'))) };
        let name_raw = if last_index_of(r1, '/') < 0 { r1 } else { r1.subrange(last_index_of(r1, '/') + 1, r1.len() as int) };
        (match ns_raw { None => Some(Seq::<char>::empty()), Some(x) => ns_fold(split_spec(trim_spec(x, '/'), '/')) }) == Some(sig_ns(p.namespace@))
        && dec(name_raw) == Some(p.name@)
        && ns_raw == (if p.namespace@.len() > 0 { Some(enc(SetId::Path, p.namespace@)) } else { None::<Seq<char>> })
        && name_raw == enc(SetId::Segment, p.name@)
    })
{
    lemma_lits();
    let ens = enc(SetId::Path, p.namespace@);
    let en = enc(SetId::Segment, p.name@);
    let r1 = r1_of(p);
    lemma_enc_excludes(SetId::Segment, p.name@, '/');
    axiom_dec_enc(SetId::Segment, p.name@);
    if p.namespace@.len() > 0 {
        assert(r1 =~= ens + seq!['/'] + en);
        lemma_rsplit_join(ens, en, '/');
        assert(r1.subrange(0, ens.len() as int) =~= ens);
        assert(r1.subrange(ens.len() as int + 1, r1.len() as int) =~= en);
        lemma_ns_roundtrip_gen(p.namespace@);
    } else {
        assert(r1 =~= en);
        lemma_last_index(en, '/');
        assert(p.namespace@ =~= Seq::<char>::empty());
        lemma_sig_empty();
    }
}

/// C09: phase B on the path part of the canonical string of arbitrary parts
pub proof fn lemma_phase_b_canon_gen(p: PurlParts)
    requires gen_parts(p)
    ensures phase_b(rest_of(p)) == Ok::<PhaseB, ParseError>(PhaseB { ns: sig_ns(p.namespace@), name: p.name@, version: p.version@ })
{
    lemma_pb_version_gen(p);
    lemma_pb_ns_name_gen(p);
}

/// stage 2: the subpath is what follows the last '#'
pub proof fn lemma_pa_subpath_gen(ty: Seq<char>, p: PurlParts)
    requires valid_type(ty), gen_parts(p)
    ensures
        rsplit_at(c_b(ty, p), '#').0 == c_l(ty, p),
        (match rsplit_at(c_b(ty, p), '#').1 { None => Some(Seq::<char>::empty()), Some(x) => sub_fold(split_spec(trim_spec(x, '/'), '/')) }) == Some(sig_sub(p.subpath@)),
        rsplit_at(c_b(ty, p), '#').1 == (if p.subpath@.len() > 0 { Some(enc(SetId::Fragment, p.subpath@)) } else { None::<Seq<char>> }),
{
    lemma_lits();
    let q = p.qualifiers.qualifiers@;
    let r = rest_of(p);
    let l2 = c_l2(ty, p);
    let l = c_l(ty, p);
    let b = c_b(ty, p);
    let es = enc(SetId::Fragment, p.subpath@);
    lemma_type_excludes(ty, '#');
    lemma_rest_excludes(p, '#');
    lemma_quals_text_excludes_hash(q);
    lemma_single_excludes('/', '#');
    lemma_has_char_concat(ty, seq!['/'], '#');
    lemma_has_char_concat(ty + seq!['/'], r, '#');
    lemma_has_char_concat(l2, quals_text(q), '#');
    assert(!has_char(l, '#'));
    lemma_enc_excludes(SetId::Fragment, p.subpath@, '#');
    if p.subpath@.len() > 0 {
        assert(b =~= l + seq!['#'] + es);
        lemma_rsplit_join(l, es, '#');
        assert(b.subrange(0, l.len() as int) =~= l);
        assert(b.subrange(l.len() as int + 1, b.len() as int) =~= es);
        lemma_sub_roundtrip_gen(p.subpath@);
    } else {
        assert(b =~= l);
        lemma_last_index(l, '#');
        assert(p.subpath@ =~= Seq::<char>::empty()); lemma_sig_empty();
    }
}

/// stage 3: the qualifiers are what follows the last '?'
pub proof fn lemma_pa_quals_gen(ty: Seq<char>, p: PurlParts)
    requires valid_type(ty), gen_parts(p)
    ensures
        rsplit_at(c_l(ty, p), '?').0 == c_l2(ty, p),
        (match rsplit_at(c_l(ty, p), '?').1 {
            None => Ok::<KV, DqErr>(Seq::<(Seq<char>, Seq<char>)>::empty()),
            Some(x) => dq_fold(split_spec(x, '&'), Seq::<(Seq<char>, Seq<char>)>::empty()),
        }) == Ok::<KV, DqErr>(kvs(p.qualifiers.qualifiers@)),
{
    lemma_lits();
    let q = p.qualifiers.qualifiers@;
    let r = rest_of(p);
    let l2 = c_l2(ty, p);
    let l = c_l(ty, p);
    lemma_type_excludes(ty, '?');
    lemma_rest_excludes(p, '?');
    lemma_single_excludes('/', '?');
    lemma_has_char_concat(ty, seq!['/'], '?');
    lemma_has_char_concat(ty + seq!['/'], r, '?');
    assert(!has_char(l2, '?'));
    if q.len() > 0 {
        let items = q_items(q);
        let j = join_with(items, '&');
        lemma_quals_text_shape(q);
        assert forall|i: int| 0 <= i < items.len() implies !has_char(#[trigger] items[i], '?') && !has_char(items[i], '&') by {
            assert(canon_key(q[i].0.0@));
            lemma_q_item_chars(q[i]);
            assert(items[i] == q_item(q[i]));
        }
        lemma_join_with_excludes(items, '&', '?');
        assert(l =~= l2 + seq!['?'] + j);
        lemma_rsplit_join(l2, j, '?');
        assert(l.subrange(0, l2.len() as int) =~= l2);
        assert(l.subrange(l2.len() as int + 1, l.len() as int) =~= j);
        lemma_split_of_join_with(items, '&');
        lemma_dq_fold_items(q);
    } else {
        assert(quals_text(q) =~= Seq::<char>::empty());
        assert(l =~= l2);
        lemma_last_index(l2, '?');
        assert(kvs(q) =~= Seq::<(Seq<char>, Seq<char>)>::empty());
    }
}

/// C01 / C09: phase A on the canonical string
pub proof fn lemma_phase_a_canon_gen(ty: Seq<char>, p: PurlParts)
    requires valid_type(ty), gen_parts(p)
    ensures phase_a(canon_spec(ty, p)) == Ok::<PhaseA, ParseError>(PhaseA { ty, rest: rest_of(p), sub: sig_sub(p.subpath@), kv: kvs(p.qualifiers.qualifiers@) })
{
    lemma_pa_scheme(ty, p);
    lemma_pa_subpath_gen(ty, p);
    lemma_pa_quals_gen(ty, p);
    lemma_pa_type(ty, p);
}

/// C01 / C09 / C19, the inverse direction: parsing the canonical string of normalised parts yields exactly those parts
pub proof fn lemma_parse_canon_gen(ty: Seq<char>, p: PurlParts)
    requires valid_type(ty), gen_parts(p)
    ensures
        phase_a(canon_spec(ty, p)) == Ok::<PhaseA, ParseError>(PhaseA { ty, rest: rest_of(p), sub: sig_sub(p.subpath@), kv: kvs(p.qualifiers.qualifiers@) }),
        phase_b(rest_of(p)) == Ok::<PhaseB, ParseError>(PhaseB { ns: sig_ns(p.namespace@), name: p.name@, version: p.version@ }),
{
    lemma_phase_a_canon_gen(ty, p);
    lemma_phase_b_canon_gen(p);
}

/// equal encodings come from equal texts (decoding inverts encoding)
pub proof fn lemma_enc_injective(set: SetId, a: Seq<char>, b: Seq<char>)
    requires enc(set, a) == enc(set, b)
    ensures a == b
{
    axiom_dec_enc(set, a);
    axiom_dec_enc(set, b);
}

/// C19 ("equal exactly when their canonical strings are equal", the hard direction): two handed-out values -- ANY namespace,
/// version and subpath texts, a name, the qualifier invariant -- with the same canonical string have the same type text and
/// the same field texts
pub proof fn theorem_c19_injective(ty1: Seq<char>, p1: PurlParts, ty2: Seq<char>, p2: PurlParts)
    requires valid_type(ty1), gen_parts(p1), valid_type(ty2), gen_parts(p2), canon_spec(ty1, p1) == canon_spec(ty2, p2)
    ensures ty1 == ty2, p1.namespace@ == p2.namespace@, p1.name@ == p2.name@, p1.version@ == p2.version@, p1.subpath@ == p2.subpath@,
        kvs(p1.qualifiers.qualifiers@) == kvs(p2.qualifiers.qualifiers@)
{
    // type, name, version, qualifier pairs: through the parser's phases (functions of the string)
    lemma_parse_canon_gen(ty1, p1);
    lemma_parse_canon_gen(ty2, p2);
    assert(rest_of(p1) == rest_of(p2));
    // subpath: the text after the last '#'
    lemma_pa_scheme(ty1, p1);
    lemma_pa_scheme(ty2, p2);
    assert(c_b(ty1, p1) == c_b(ty2, p2));
    lemma_pa_subpath_gen(ty1, p1);
    lemma_pa_subpath_gen(ty2, p2);
    if p1.subpath@.len() > 0 { lemma_enc_injective(SetId::Fragment, p1.subpath@, p2.subpath@); }
    else { assert(p1.subpath@ =~= p2.subpath@); }
    // namespace: the text before the last '/' of what precedes the version
    lemma_pb_version_gen(p1);
    lemma_pb_version_gen(p2);
    assert(r1_of(p1) == r1_of(p2));
    lemma_pb_ns_name_gen(p1);
    lemma_pb_ns_name_gen(p2);
    if p1.namespace@.len() > 0 { lemma_enc_injective(SetId::Path, p1.namespace@, p2.namespace@); }
    else { assert(p1.namespace@ =~= p2.namespace@); }
}
