// ---- the parser as a function of the text (C02, C05, C07, C14), written from the statements ----
// R9: stub of std::str::FromStr with a specification of what the (user-supplied) conversion may return
pub trait FromStr: Sized {
    type Err;
    /// what the conversion returns for a given text (any relation: user code)
    spec fn from_str_rel(s: Seq<char>, r: Result<Self, Self::Err>) -> bool;
    fn from_str(s: &str) -> (r: Result<Self, Self::Err>)
        ensures Self::from_str_rel(s@, r);
}

/// `s.strip_prefix(p)` for a string pattern
#[verifier::external_body]
pub fn x_strip_prefix<'a>(s: &'a str, p: &str) -> (r: Option<&'a str>)
    ensures match r {
        Some(t) => has_prefix(s@, p@) && t@ == s@.subrange(p@.len() as int, s@.len() as int),
        None => !has_prefix(s@, p@),
    }
{ s.strip_prefix(p) }

pub open spec fn parts_are(p: PurlParts, a: PhaseA, b: PhaseB) -> bool {
    p.namespace@ == b.ns && p.name@ == b.name && p.version@ == b.version && p.subpath@ == a.sub
    && kvs(p.qualifiers.qualifiers@) == a.kv && wf_seq(p.qualifiers.qualifiers@)
}

/// C02 / C05 / C14: the result of parsing as a function of the text, the conversion relation and the hook relation
pub open spec fn parse_post<T: FromStr + PurlShape>(s: Seq<char>, r: Result<GenericPurl<T>, <T as PurlShape>::Error>) -> bool
    where <T as PurlShape>::Error: From<<T as FromStr>::Err>
{
    let conv_p = <<T as PurlShape>::Error as vstd::std_specs::convert::FromSpec<ParseError>>::obeys_from_spec();
    let conv_e = <<T as PurlShape>::Error as vstd::std_specs::convert::FromSpec<<T as FromStr>::Err>>::obeys_from_spec();
    match phase_a(s) {
        // a defect before the conversion: the conversion is never consulted
        Err(e) => r is Err && (conv_p ==> r->Err_0 == <<T as PurlShape>::Error as vstd::std_specs::convert::FromSpec<ParseError>>::from_spec(e)),
        // the conversion sees exactly the (syntactically valid) type substring, once
        Ok(a) => exists|cr: Result<T, <T as FromStr>::Err>| #[trigger] T::from_str_rel(a.ty, cr) && match cr {
            Err(ce) => r is Err && (conv_e ==> r->Err_0 == <<T as PurlShape>::Error as vstd::std_specs::convert::FromSpec<<T as FromStr>::Err>>::from_spec(ce)),
            Ok(t0) => match phase_b(a.rest) {
                Err(e) => r is Err && (conv_p ==> r->Err_0 == <<T as PurlShape>::Error as vstd::std_specs::convert::FromSpec<ParseError>>::from_spec(e)),
                // ... and the tail is build(): one hook application, then the generic checks
                Ok(b) => exists|p0: PurlParts, t1: T, p1: PurlParts, fr: Result<(), <T as PurlShape>::Error>|
                    parts_are(p0, a, b) && #[trigger] T::finish_rel(t0, p0, t1, p1, fr) && build_post::<T>(t1, p1, fr, r),
            },
        },
    }
}
