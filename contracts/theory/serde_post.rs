// ---- R9 (continued): the error side of the serde stubs and the deserialising postcondition (shared by group `serde`, where the
// three impl blocks are verified against it, and group `c01`, where the round-trip theorems are stated over it) ----
pub trait Error: Sized {
    spec fn custom_spec<M>(msg: M) -> Self;
    fn custom<M>(msg: M) -> (r: Self)
        ensures r == Self::custom_spec(msg);
}

/// C16, deserialising side: a string value is accepted exactly when the parser accepts it, with the parser's value;
/// the parser's error is handed to the format unchanged; anything that is not a string is refused
pub open spec fn de_post<T, E: Error>(v: Seq<char>, r: Result<GenericPurl<T>, E>) -> bool
    where T: FromStr + PurlShape, <T as PurlShape>::Error: From<<T as FromStr>::Err>
{
    exists|pr: Result<GenericPurl<T>, <T as PurlShape>::Error>| #[trigger] parse_post::<T>(v, pr) && match pr {
        Ok(p) => r == Ok::<GenericPurl<T>, E>(p),
        Err(e) => r == Err::<GenericPurl<T>, E>(E::custom_spec(e)),
    }
}
