// ---- C11, last sentence: "Two collections with the same content are equal ... regardless of insertion order and key case" ----
// The representation is canonical: the invariant (lower-case keys, strictly ascending) leaves exactly one sequence per content.
pub open spec fn same_content(a: Seq<(QualifierKey, SmallString)>, b: Seq<(QualifierKey, SmallString)>) -> bool {
    forall|k: Seq<char>, v: Seq<char>| has_pair(a, k, v) <==> has_pair(b, k, v)
}

pub proof fn lemma_wf_content_unique(a: Seq<(QualifierKey, SmallString)>, b: Seq<(QualifierKey, SmallString)>)
    requires keys_sorted(a), keys_sorted(b), same_content(a, b)
    ensures a.len() == b.len(), forall|i: int| 0 <= i < a.len() ==> (#[trigger] a[i]).0.0@ == b[i].0.0@ && a[i].1@ == b[i].1@
    decreases a.len() + b.len()
{
    if a.len() == 0 {
        if b.len() > 0 { assert(has_pair(b, b[0].0.0@, b[0].1@)); let i = choose|i: int| 0 <= i < a.len() && #[trigger] a[i].0.0@ == b[0].0.0@ && a[i].1@ == b[0].1@; }
    } else if b.len() == 0 {
        assert(has_pair(a, a[0].0.0@, a[0].1@)); let i = choose|i: int| 0 <= i < b.len() && #[trigger] b[i].0.0@ == a[0].0.0@ && b[i].1@ == a[0].1@;
    } else {
        let la = a.last(); let lb = b.last();
        let na = a.len() - 1; let nb = b.len() - 1;
        // the last element of each is in the other
        assert(has_pair(a, la.0.0@, la.1@)) by { assert(a[na] == la); }
        assert(has_pair(b, lb.0.0@, lb.1@)) by { assert(b[nb] == lb); }
        let ib = choose|i: int| 0 <= i < b.len() && #[trigger] b[i].0.0@ == la.0.0@ && b[i].1@ == la.1@;
        let ia = choose|i: int| 0 <= i < a.len() && #[trigger] a[i].0.0@ == lb.0.0@ && a[i].1@ == lb.1@;
        // both are the largest key, hence the same element
        if ib < nb { assert(str_lt(b[ib].0.0@, b[nb].0.0@)); if ia < na { assert(str_lt(a[ia].0.0@, a[na].0.0@)); lemma_lt_asym(la.0.0@, lb.0.0@); } else { lemma_lt_irrefl(la.0.0@); } }
        if ia < na { assert(str_lt(a[ia].0.0@, a[na].0.0@)); if ib == nb { lemma_lt_irrefl(lb.0.0@); } }
        assert(ib == nb && ia == na);
        // the rest has the same content
        let wa = a.drop_last(); let wb = b.drop_last();
        assert(keys_sorted(wa)) by { assert forall|i: int, j: int| 0 <= i < j < wa.len() implies str_lt(#[trigger] wa[i].0.0@, #[trigger] wa[j].0.0@) by { assert(wa[i] == a[i] && wa[j] == a[j]); } }
        assert(keys_sorted(wb)) by { assert forall|i: int, j: int| 0 <= i < j < wb.len() implies str_lt(#[trigger] wb[i].0.0@, #[trigger] wb[j].0.0@) by { assert(wb[i] == b[i] && wb[j] == b[j]); } }
        assert(same_content(wa, wb)) by {
            assert forall|k: Seq<char>, v: Seq<char>| has_pair(wa, k, v) <==> has_pair(wb, k, v) by {
                if has_pair(wa, k, v) {
                    let i = choose|i: int| 0 <= i < wa.len() && #[trigger] wa[i].0.0@ == k && wa[i].1@ == v;
                    assert(a[i] == wa[i]); assert(has_pair(a, k, v));
                    let j = choose|j: int| 0 <= j < b.len() && #[trigger] b[j].0.0@ == k && b[j].1@ == v;
                    if j == nb { assert(str_lt(a[i].0.0@, a[na].0.0@)); lemma_lt_irrefl(k); }
                    assert(wb[j] == b[j]);
                }
                if has_pair(wb, k, v) {
                    let j = choose|j: int| 0 <= j < wb.len() && #[trigger] wb[j].0.0@ == k && wb[j].1@ == v;
                    assert(b[j] == wb[j]); assert(has_pair(b, k, v));
                    let i = choose|i: int| 0 <= i < a.len() && #[trigger] a[i].0.0@ == k && a[i].1@ == v;
                    if i == na { assert(str_lt(b[j].0.0@, b[nb].0.0@)); lemma_lt_irrefl(k); }
                    assert(wa[i] == a[i]);
                }
            }
        }
        lemma_wf_content_unique(wa, wb);
        assert forall|i: int| 0 <= i < a.len() implies (#[trigger] a[i]).0.0@ == b[i].0.0@ && a[i].1@ == b[i].1@ by {
            if i < na { assert(wa[i] == a[i] && wb[i] == b[i]); }
        }
    }
}
