// ---- what build() must do after the hook (C04, C09, C14), written from the property statements ----

/// the sub-list of pairs whose value is non-empty, order kept ("empty-valued qualifiers are removed")
pub open spec fn nonempty_part(v: Seq<(QualifierKey, SmallString)>) -> Seq<(QualifierKey, SmallString)> decreases v.len()
{
    if v.len() == 0 { seq![] }
    else if v.last().1@.len() > 0 { nonempty_part(v.drop_last()).push(v.last()) }
    else { nonempty_part(v.drop_last()) }
}

pub proof fn lemma_nonempty_subset(v: Seq<(QualifierKey, SmallString)>)
    ensures
        forall|i: int| 0 <= i < nonempty_part(v).len() ==>
            (#[trigger] nonempty_part(v)[i]).1@.len() > 0 && exists|j: int| 0 <= j < v.len() && v[j] == nonempty_part(v)[i],
    decreases v.len()
{
    if v.len() > 0 {
        let w0 = v.drop_last();
        lemma_nonempty_subset(w0);
        let w = nonempty_part(w0);
        let n = nonempty_part(v);
        assert forall|i: int| 0 <= i < n.len() implies
            (#[trigger] n[i]).1@.len() > 0 && exists|j: int| 0 <= j < v.len() && v[j] == n[i] by {
            if i < w.len() {
                assert(n[i] == w[i]);
                let j = choose|j: int| 0 <= j < w0.len() && w0[j] == w[i];
                assert(v[j] == n[i]);
            } else {
                assert(n[i] == v[v.len() - 1]);
            }
        }
    }
}

pub proof fn lemma_wf_drop_last(v: Seq<(QualifierKey, SmallString)>)
    requires wf_seq(v), v.len() > 0
    ensures wf_seq(v.drop_last())
{
    let w0 = v.drop_last();
    assert forall|a: int, b: int| 0 <= a < b < w0.len() implies str_lt(#[trigger] w0[a].0.0@, #[trigger] w0[b].0.0@) by {
        assert(w0[a] == v[a]); assert(w0[b] == v[b]);
    }
    assert forall|a: int| 0 <= a < w0.len() implies canon_key(#[trigger] w0[a].0.0@) by { assert(w0[a] == v[a]); }
}

pub proof fn lemma_nonempty_wf(v: Seq<(QualifierKey, SmallString)>)
    requires wf_seq(v)
    ensures wf_seq(nonempty_part(v))
    decreases v.len()
{
    if v.len() > 0 {
        let w0 = v.drop_last();
        lemma_wf_drop_last(v);
        lemma_nonempty_wf(w0);
        lemma_nonempty_subset(w0);
        lemma_nonempty_subset(v);
        let w = nonempty_part(w0);
        let n = nonempty_part(v);
        assert forall|a: int, b: int| 0 <= a < b < n.len() implies str_lt(#[trigger] n[a].0.0@, #[trigger] n[b].0.0@) by {
            if b < w.len() { assert(n[a] == w[a]); assert(n[b] == w[b]); }
            else {
                assert(n[a] == w[a]);
                let j = choose|j: int| 0 <= j < w0.len() && w0[j] == w[a];
                assert(v[j] == w0[j]);
                assert(str_lt(v[j].0.0@, v[v.len() - 1].0.0@));
            }
        }
        assert forall|a: int| 0 <= a < n.len() implies canon_key(#[trigger] n[a].0.0@) by {
            let j = choose|j: int| 0 <= j < v.len() && v[j] == n[a];
            assert(canon_key(v[j].0.0@));
        }
    }
}

pub proof fn lemma_nonempty_id(v: Seq<(QualifierKey, SmallString)>)
    requires forall|j: int| 0 <= j < v.len() ==> (#[trigger] v[j]).1@.len() > 0
    ensures nonempty_part(v) == v
    decreases v.len()
{
    if v.len() > 0 {
        let w0 = v.drop_last();
        assert forall|j: int| 0 <= j < w0.len() implies (#[trigger] w0[j]).1@.len() > 0 by { assert(w0[j] == v[j]); }
        lemma_nonempty_id(w0);
        assert(v[v.len() - 1].1@.len() > 0);
        assert(nonempty_part(v) =~= v);
    }
}

/// `q.retain(|_, v| !v.is_empty())`  (ASSUMED: Vec::retain keeps exactly the elements the predicate accepts, in order)
#[verifier::external_body]
pub fn x_retain_nonempty(q: &mut Qualifiers)
    ensures final(q).qualifiers@ == nonempty_part(old(q).qualifiers@)
{ unimplemented!() }

pub proof fn lemma_checksum_key()
    ensures "checksum"@ == checksum_key(), valid_key(checksum_key()), lower_ascii_seq(checksum_key()) == checksum_key()
{
    reveal_strlit("checksum");
    assert("checksum"@ =~= checksum_key());
    let k = checksum_key();
    assert forall|i: int| 0 <= i < k.len() implies key_char(#[trigger] k[i]) && !ascii_upper_c(k[i]) by {
        if i == 0 {} else if i == 1 {} else if i == 2 {} else if i == 3 {} else if i == 4 {} else if i == 5 {} else if i == 6 {} else {}
    }
    lemma_lower_ascii_fixed(k);
}

pub open spec fn same_but_qualifiers<T>(g: GenericPurl<T>, t1: T, p1: PurlParts) -> bool {
    g.package_type == t1 && g.parts.namespace == p1.namespace && g.parts.name == p1.name
    && g.parts.version == p1.version && g.parts.subpath == p1.subpath
}

/// C04 / C09 / C14: the result of build() as a function of what the hook left behind (t1, p1, fr)
pub open spec fn build_post<T: PurlShape>(t1: T, p1: PurlParts, fr: Result<(), T::Error>, r: Result<GenericPurl<T>, T::Error>) -> bool {
    let conv = <T::Error as vstd::std_specs::convert::FromSpec<ParseError>>::obeys_from_spec();
    match fr {
        Err(e) => r == Err::<GenericPurl<T>, T::Error>(e),                       // an error from the hook is returned unchanged
        Ok(_) =>
            if p1.name@.len() == 0 {                                              // an emptied name is refused
                r is Err && (conv ==> r->Err_0 == <T::Error as vstd::std_specs::convert::FromSpec<ParseError>>::from_spec(
                    ParseError::MissingRequiredField(PurlField::Name)))
            } else {
                let q2 = nonempty_part(p1.qualifiers.qualifiers@);               // empty-valued qualifiers are removed
                if !has_key(q2, checksum_key()) {
                    r is Ok && same_but_qualifiers(r->Ok_0, t1, p1) && r->Ok_0.parts.qualifiers.qualifiers@ == q2
                } else {
                    let p = pos_of(q2, checksum_key());
                    let canon = match ck_parse(q2[p].1@) { None => None, Some(m) => ck_text(m) };
                    match canon {                                                 // a checksum is canonicalised or refused
                        None => r is Err && (conv ==> r->Err_0 == <T::Error as vstd::std_specs::convert::FromSpec<ParseError>>::from_spec(
                            ParseError::InvalidQualifier)),
                        Some(t) => r is Ok && same_but_qualifiers(r->Ok_0, t1, p1)
                            && r->Ok_0.parts.qualifiers.qualifiers@.len() == q2.len()
                            && r->Ok_0.parts.qualifiers.qualifiers@[p].1@ == t && t.len() > 0
                            && r->Ok_0.parts.qualifiers.qualifiers@ == q2.update(p, (q2[p].0, r->Ok_0.parts.qualifiers.qualifiers@[p].1)),
                    }
                }
            },
    }
}
