// ---- splitting vocabulary (defined recursively, so the lemmas below are proved, not assumed) ----
pub open spec fn last_index_of(s: Seq<char>, c: char) -> int decreases s.len()
{ if s.len() == 0 { -1 } else if s.last() == c { s.len() - 1 } else { last_index_of(s.drop_last(), c) } }

pub open spec fn first_index_of(s: Seq<char>, c: char) -> int decreases s.len()
{ if s.len() == 0 { -1 } else if s[0] == c { 0 } else { let r = first_index_of(s.subrange(1, s.len() as int), c); if r < 0 { -1 } else { r + 1 } } }

pub proof fn lemma_last_index(s: Seq<char>, c: char)
    ensures
        has_char(s, c) <==> last_index_of(s, c) >= 0,
        last_index_of(s, c) >= 0 ==> last_index_of(s, c) < s.len() && s[last_index_of(s, c)] == c
            && forall|j: int| last_index_of(s, c) < j < s.len() ==> s[j] != c,
        last_index_of(s, c) >= -1,
    decreases s.len()
{
    if s.len() > 0 {
        let t = s.drop_last();
        lemma_last_index(t, c);
        if s.last() == c { assert(s[s.len() - 1] == c); }
        else {
            if has_char(s, c) { let i = choose|i: int| 0 <= i < s.len() && s[i] == c; assert(t[i] == c); }
            if has_char(t, c) { let i = choose|i: int| 0 <= i < t.len() && t[i] == c; assert(s[i] == c); }
            assert forall|j: int| last_index_of(s, c) < j < s.len() && last_index_of(s, c) >= 0 implies s[j] != c by {
                if j < t.len() { assert(t[j] == s[j]); }
            }
        }
    }
}

pub proof fn lemma_first_index(s: Seq<char>, c: char)
    ensures
        has_char(s, c) <==> first_index_of(s, c) >= 0,
        first_index_of(s, c) >= 0 ==> first_index_of(s, c) < s.len() && s[first_index_of(s, c)] == c
            && forall|j: int| 0 <= j < first_index_of(s, c) ==> s[j] != c,
        first_index_of(s, c) >= -1,
    decreases s.len()
{
    if s.len() > 0 {
        let t = s.subrange(1, s.len() as int);
        lemma_first_index(t, c);
        if s[0] == c { }
        else {
            if has_char(s, c) { let i = choose|i: int| 0 <= i < s.len() && s[i] == c; assert(t[i - 1] == c); }
            if has_char(t, c) { let i = choose|i: int| 0 <= i < t.len() && t[i] == c; assert(s[i + 1] == c); }
            if first_index_of(s, c) >= 0 {
                assert(s[first_index_of(t, c) + 1] == t[first_index_of(t, c)]);
                assert forall|j: int| 0 <= j < first_index_of(s, c) implies s[j] != c by {
                    if j > 0 { assert(t[j - 1] == s[j]); }
                }
            }
        }
    }
}

/// joining `ns`, separator, `name` and splitting at the LAST separator gives the pieces back when `name` has none
pub proof fn lemma_rsplit_join(ns: Seq<char>, name: Seq<char>, c: char)
    requires !has_char(name, c)
    ensures last_index_of(ns + seq![c] + name, c) == ns.len()
    decreases name.len()
{
    let s = ns + seq![c] + name;
    if name.len() == 0 {
        assert(s.last() == c);
    } else {
        assert(s.last() == name.last());
        assert(name[name.len() - 1] != c);
        assert(s.drop_last() =~= ns + seq![c] + name.drop_last());
        assert forall|i: int| 0 <= i < name.drop_last().len() implies name.drop_last()[i] != c by { assert(name[i] != c); }
        lemma_rsplit_join(ns, name.drop_last(), c);
    }
}

/// ... and at the FIRST separator when `ns` has none
pub proof fn lemma_split_join(ns: Seq<char>, name: Seq<char>, c: char)
    requires !has_char(ns, c)
    ensures first_index_of(ns + seq![c] + name, c) == ns.len()
    decreases ns.len()
{
    let s = ns + seq![c] + name;
    if ns.len() == 0 {
        assert(s[0] == c);
    } else {
        assert(s[0] == ns[0]);
        assert(ns[0] != c);
        let ns1 = ns.subrange(1, ns.len() as int);
        assert(s.subrange(1, s.len() as int) =~= ns1 + seq![c] + name);
        assert forall|i: int| 0 <= i < ns1.len() implies ns1[i] != c by { assert(ns[i + 1] != c); }
        lemma_split_join(ns1, name, c);
    }
}

/// `s.rsplit_once(c)` for a char pattern
#[verifier::external_body]
pub fn x_rsplit_once<'a>(s: &'a str, c: char) -> (r: Option<(&'a str, &'a str)>)
    ensures match r {
        None => last_index_of(s@, c) < 0,
        Some((a, b)) => last_index_of(s@, c) >= 0 && a@ == s@.subrange(0, last_index_of(s@, c))
            && b@ == s@.subrange(last_index_of(s@, c) + 1, s@.len() as int),
    }
{ s.rsplit_once(c) }

/// `s.split_once(c)` for a char pattern
#[verifier::external_body]
pub fn x_split_once<'a>(s: &'a str, c: char) -> (r: Option<(&'a str, &'a str)>)
    ensures match r {
        None => first_index_of(s@, c) < 0,
        Some((a, b)) => first_index_of(s@, c) >= 0 && a@ == s@.subrange(0, first_index_of(s@, c))
            && b@ == s@.subrange(first_index_of(s@, c) + 1, s@.len() as int),
    }
{ s.split_once(c) }

/// `Some(s).filter(|v| !v.is_empty())`
#[verifier::external_body]
pub fn x_some_nonempty<'a>(s: &'a str) -> (r: Option<&'a str>)
    ensures s@.len() == 0 ==> r is None, s@.len() > 0 ==> r is Some && r->Some_0@ == s@
{ Some(s).filter(|v| !v.is_empty()) }

/// `format!("{}<sep>{}", a, b)` for a one-character literal separator
#[verifier::external_body]
pub fn x_concat3(a: &str, sep: char, b: &str) -> (r: String)
    ensures r@ == a@ + seq![sep] + b@
{ let mut r = String::from(a); r.push(sep); r.push_str(b); r }

/// pieces between raw occurrences of `c`
pub open spec fn split_spec(s: Seq<char>, c: char) -> Seq<Seq<char>> decreases s.len()
{
    if first_index_of(s, c) < 0 || first_index_of(s, c) >= s.len() { seq![s] }
    else { seq![s.subrange(0, first_index_of(s, c))] + split_spec(s.subrange(first_index_of(s, c) + 1, s.len() as int), c) }
}


/// `s.split(c)` for a char pattern, collected (the loop below iterates over the collected pieces)
#[verifier::external_body]
pub fn x_split<'a>(s: &'a str, c: char) -> (r: Vec<&'a str>)
    ensures r@.len() == split_spec(s@, c).len(), forall|i: int| 0 <= i < r@.len() ==> (#[trigger] r@[i])@ == split_spec(s@, c)[i]
{ s.split(c).collect() }


// ---- generic facts about has_char (used by the inverse and checksum theories) ----
pub proof fn lemma_has_char_concat(a: Seq<char>, b: Seq<char>, c: char)
    ensures has_char(a + b, c) == (has_char(a, c) || has_char(b, c))
{
    if has_char(a, c) { let i = choose|i: int| 0 <= i < a.len() && a[i] == c; assert((a + b)[i] == c); }
    if has_char(b, c) { let i = choose|i: int| 0 <= i < b.len() && b[i] == c; assert((a + b)[a.len() + i] == c); }
    if has_char(a + b, c) {
        let i = choose|i: int| 0 <= i < (a + b).len() && (a + b)[i] == c;
        if i < a.len() { assert(a[i] == c); } else { assert(b[i - a.len()] == c); }
    }
}


pub proof fn lemma_single_excludes(c: char, x: char)
    requires c != x
    ensures !has_char(seq![c], x)
{
    if has_char(seq![c], x) { let i = choose|i: int| 0 <= i < seq![c].len() && seq![c][i] == x; }
}


pub proof fn lemma_split_pieces_no_sep(s: Seq<char>, c: char)
    ensures forall|i: int| 0 <= i < split_spec(s, c).len() ==> !has_char(#[trigger] split_spec(s, c)[i], c)
    decreases s.len()
{
    lemma_first_index(s, c);
    let f = first_index_of(s, c);
    if f < 0 || f >= s.len() {
        assert(split_spec(s, c) =~= seq![s]);
    } else {
        let head = s.subrange(0, f);
        let tail = s.subrange(f + 1, s.len() as int);
        lemma_split_pieces_no_sep(tail, c);
        if has_char(head, c) { let i = choose|i: int| 0 <= i < head.len() && head[i] == c; assert(s[i] == c); }
        let ps = split_spec(s, c);
        assert(ps =~= seq![head] + split_spec(tail, c));
        assert forall|i: int| 0 <= i < ps.len() implies !has_char(#[trigger] ps[i], c) by {
            if i == 0 { assert(ps[0] == head); } else { assert(ps[i] == split_spec(tail, c)[i - 1]); }
        }
    }
}

