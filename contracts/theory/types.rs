// ---- R9: stub of std::borrow::Cow for B = str (two variants, same names) ----
pub enum Cow<'a, B: ?Sized> { Borrowed(&'a B), Owned(String) }

impl<'a> View for Cow<'a, str> {
    type V = Seq<char>;
    open spec fn view(&self) -> Seq<char> {
        match self { Cow::Borrowed(b) => b@, Cow::Owned(o) => o@ }
    }
}

impl<'a> core::ops::Deref for Cow<'a, str> {
    type Target = str;
    fn deref(&self) -> (r: &str)
        ensures r@ == self@
    {
        match self { Cow::Borrowed(b) => b, Cow::Owned(o) => o.as_str() }
    }
}

// R9: `String: From<Cow<str>>` for the stub Cow (std: the owned text, or a copy of the borrowed text)
pub uninterp spec fn string_of_cow<'a>(c: Cow<'a, str>) -> String;
#[verifier::external_body]
pub broadcast proof fn axiom_string_of_cow<'a>(c: Cow<'a, str>)
    ensures (#[trigger] string_of_cow(c))@ == c@
{ }
impl<'a> vstd::std_specs::convert::FromSpecImpl<Cow<'a, str>> for String {
    open spec fn obeys_from_spec() -> bool { true }
    open spec fn from_spec(c: Cow<'a, str>) -> String { string_of_cow(c) }
}
impl<'a> From<Cow<'a, str>> for String {
    #[verifier::external_body]
    fn from(c: Cow<'a, str>) -> (r: String)
    { match c { Cow::Borrowed(b) => b.to_string(), Cow::Owned(o) => o } }
}

// ---- vocabulary for package types (written from C02/C04/C05: letters, digits, '.', '+', '-'; non-empty) ----
pub open spec fn type_char(c: char) -> bool { ascii_alnum_c(c) || c == '.' || c == '+' || c == '-' }
pub open spec fn valid_type(s: Seq<char>) -> bool { s.len() > 0 && forall|i: int| 0 <= i < s.len() ==> type_char(#[trigger] s[i]) }

/// What every built-in string-like shape must do in `finish` (C04, C13): validate, then ASCII-lower-case; parts untouched.
pub open spec fn shape_rel(t0: Seq<char>, p0: PurlParts, t1: Seq<char>, p1: PurlParts, r: Result<(), ParseError>) -> bool {
    p1 == p0
    && (valid_type(t0) ==> r is Ok && t1 == lower_ascii_seq(t0))
    && (!valid_type(t0) ==> r == Err::<(), ParseError>(ParseError::InvalidPackageType))
}


/// C10 / C13 (type string): validating and ASCII-lower-casing twice is doing it once
pub proof fn lemma_shape_idem(t0: Seq<char>, p0: PurlParts, t1: Seq<char>, p1: PurlParts, t2: Seq<char>, p2: PurlParts, r2: Result<(), ParseError>)
    requires shape_rel(t0, p0, t1, p1, Ok::<(), ParseError>(())), shape_rel(t1, p1, t2, p2, r2)
    ensures r2 is Ok, t2 == t1, p2 == p1
{
    assert(valid_type(t0));
    let l = lower_ascii_seq(t0);
    assert(t1 == l);
    assert forall|i: int| 0 <= i < l.len() implies type_char(#[trigger] l[i]) && !ascii_upper_c(l[i]) by { assert(type_char(t0[i])); }
    assert(valid_type(l));
    lemma_lower_ascii_fixed(l);
}
