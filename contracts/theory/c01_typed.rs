// ---- C01 / C10 for the PURL with the built-in package-type enum (values without a checksum qualifier) ----
// R2: `impl FromStr for PackageType { fn from_str }` is the hoisted `package_type_from_str` proved in group pkgtype; its contract is
// restated here as the relation of the (stub) trait impl. `impl PurlShape for PackageType` is imported with the contracts proved there.
impl FromStr for PackageType {
    type Err = UnsupportedPackageType;
    open spec fn from_str_rel(s: Seq<char>, r: Result<PackageType, UnsupportedPackageType>) -> bool {
        (r is Ok ==> lower_ascii_seq(s) == type_name(r->Ok_0))
        && ((exists|t: PackageType| lower_ascii_seq(s) == type_name(t)) ==> r is Ok)
    }
    #[verifier::external_body]
    fn from_str(s: &str) -> (r: Result<PackageType, UnsupportedPackageType>) { unimplemented!() }
}

pub proof fn lemma_type_name_facts(t: PackageType, u: PackageType)
    ensures
        valid_type(type_name(t)), lower_ascii_seq(type_name(t)) == type_name(t),
        type_name(t) == type_name(u) ==> t == u,
{
    let n = type_name(t);
    assert forall|i: int| 0 <= i < n.len() implies type_char(#[trigger] n[i]) && !ascii_upper_c(n[i]) by {
        match t {
            PackageType::Cargo => { if i == 0 {} else if i == 1 {} else if i == 2 {} else if i == 3 {} else {} },
            PackageType::Gem => { if i == 0 {} else if i == 1 {} else {} },
            PackageType::Golang => { if i == 0 {} else if i == 1 {} else if i == 2 {} else if i == 3 {} else if i == 4 {} else {} },
            PackageType::Maven => { if i == 0 {} else if i == 1 {} else if i == 2 {} else if i == 3 {} else {} },
            PackageType::Npm => { if i == 0 {} else if i == 1 {} else {} },
            PackageType::NuGet => { if i == 0 {} else if i == 1 {} else if i == 2 {} else if i == 3 {} else {} },
            PackageType::PyPI => { if i == 0 {} else if i == 1 {} else if i == 2 {} else {} },
        }
    }
    lemma_lower_ascii_fixed(n);
    if type_name(t) == type_name(u) {
        let m = type_name(u);
        assert(n.len() == m.len() && n[0] == m[0] && n[1] == m[1]);
    }
}

pub proof fn lemma_pypi_norm_nonempty(s: Seq<char>)
    requires s.len() > 0
    ensures pypi_norm(s).len() > 0
    decreases s.len()
{
    if dash(s.last()) {
        if s.len() >= 2 && dash(s[s.len() - 2]) { lemma_pypi_norm_nonempty(s.drop_last()); }
    } else {
        axiom_lower_nonempty(s.last());
    }
}

/// C01 (PackageType instance)
pub proof fn theorem_c01_typed(s: Seq<char>, g: GenericPurl<PackageType>, r2: Result<GenericPurl<PackageType>, PackageError>)
    requires
        parse_post::<PackageType>(s, Ok::<GenericPurl<PackageType>, PackageError>(g)),
        parse_post::<PackageType>(canon_spec(g.package_type.type_text(), g.parts), r2),
    ensures
        r2 is Ok,
        r2->Ok_0.package_type == g.package_type,
        same_texts(r2->Ok_0.parts, g.parts),
        canon_spec(r2->Ok_0.package_type.type_text(), r2->Ok_0.parts) == canon_spec(g.package_type.type_text(), g.parts),
{
    let r = Ok::<GenericPurl<PackageType>, PackageError>(g);
    let a = phase_a(s)->Ok_0;
    let cr = choose|cr: Result<PackageType, UnsupportedPackageType>| #[trigger] PackageType::from_str_rel(a.ty, cr) && match cr {
        Err(ce) => r is Err,
        Ok(t0) => match phase_b(a.rest) {
            Err(e) => r is Err,
            Ok(b) => exists|p0: PurlParts, t1: PackageType, p1: PurlParts, fr: Result<(), PackageError>|
                parts_are(p0, a, b) && #[trigger] PackageType::finish_rel(t0, p0, t1, p1, fr) && build_post::<PackageType>(t1, p1, fr, r),
        },
    };
    let t0 = cr->Ok_0;
    let b = phase_b(a.rest)->Ok_0;
    let (p0, t1, p1, fr) = choose|p0: PurlParts, t1: PackageType, p1: PurlParts, fr: Result<(), PackageError>|
        parts_are(p0, a, b) && #[trigger] PackageType::finish_rel(t0, p0, t1, p1, fr) && build_post::<PackageType>(t1, p1, fr, r);
    assert(pkg_finish_rel(t0, p0, t1, p1, fr));
    assert(fr is Ok);       // an error from the hook would have been returned
    assert(p1.qualifiers == p0.qualifiers);
    lemma_first_build::<PackageType>(t1, p1, fr, g);
    let ty1 = type_name(t1);
    lemma_type_name_facts(t1, t1);
    lemma_parsed_segments(s);
    let (ns_segs, sub_segs) = choose|ns_segs: Seq<Seq<char>>, sub_segs: Seq<Seq<char>>| #[trigger] seg_shape(b.ns, a.sub, ns_segs, sub_segs);
    assert(norm_parts(g.parts, ns_segs, sub_segs));
    lemma_parse_canon(ty1, g.parts, ns_segs, sub_segs);
    let c = canon_spec(ty1, g.parts);
    let a2 = phase_a(c)->Ok_0;
    let b2 = phase_b(a2.rest)->Ok_0;
    // ---- second parse: the type's own name converts to the type ----
    let cr2 = choose|cr2: Result<PackageType, UnsupportedPackageType>| #[trigger] PackageType::from_str_rel(a2.ty, cr2) && match cr2 {
        Err(ce) => r2 is Err,
        Ok(t0) => match phase_b(a2.rest) {
            Err(e) => r2 is Err,
            Ok(b) => exists|p0: PurlParts, t1: PackageType, p1: PurlParts, fr: Result<(), PackageError>|
                parts_are(p0, a2, b) && #[trigger] PackageType::finish_rel(t0, p0, t1, p1, fr) && build_post::<PackageType>(t1, p1, fr, r2),
        },
    };
    assert(lower_ascii_seq(ty1) == type_name(t1));
    assert(cr2 is Ok);
    let u0 = cr2->Ok_0;
    lemma_type_name_facts(u0, t1);
    assert(u0 == t1);
    let (q0, u1, q1, fr2) = choose|q0: PurlParts, u1: PackageType, q1: PurlParts, fr2: Result<(), PackageError>|
        parts_are(q0, a2, b2) && #[trigger] PackageType::finish_rel(u0, q0, u1, q1, fr2) && build_post::<PackageType>(u1, q1, fr2, r2);
    assert(pkg_finish_rel(u0, q0, u1, q1, fr2));
    // the hook applied to its own output: accepted, name unchanged
    match t0 {
        PackageType::NuGet => { lemma_lower_seq_idem(p0.name@); },
        PackageType::PyPI => { lemma_pypi_norm_idem(p0.name@); },
        PackageType::Maven => { assert(q0.namespace@ == p0.namespace@); },
        _ => {},
    }
    assert(fr2 is Ok && u1 == t1 && q1.name@ == g.parts.name@);
    assert(q1.qualifiers == q0.qualifiers);
    lemma_normal_quals_congr(g.parts.qualifiers.qualifiers@, q1.qualifiers.qualifiers@);
    lemma_rebuild::<PackageType>(u1, q1, fr2, r2);
    let g2 = r2->Ok_0;
    assert(same_texts(g2.parts, g.parts));
    lemma_canon_congr(ty1, g2.parts, g.parts);
}

/// what C04 / C08 say of every typed value handed out: the name already obeys the type's rule, maven has a namespace
pub open spec fn handed_out_typed(g: GenericPurl<PackageType>) -> bool {
    g.parts.name@.len() > 0 && normal_quals(g.parts.qualifiers.qualifiers@)
    && match g.package_type {
        PackageType::NuGet => lower_seq(g.parts.name@) == g.parts.name@,
        PackageType::PyPI => pypi_norm(g.parts.name@) == g.parts.name@,
        PackageType::Maven => !all_char(g.parts.namespace@, '/'),
        _ => true,
    }
}

/// every value build() returns after PackageType's hook is handed_out_typed (from build_post and pkg_finish_rel alone)
pub proof fn lemma_built_is_handed_out_typed(t0: PackageType, p0: PurlParts, t1: PackageType, p1: PurlParts, fr: Result<(), PackageError>, g: GenericPurl<PackageType>)
    requires wf_seq(p0.qualifiers.qualifiers@), pkg_finish_rel(t0, p0, t1, p1, fr),
        build_post::<PackageType>(t1, p1, fr, Ok::<GenericPurl<PackageType>, PackageError>(g)),
    ensures handed_out_typed(g)
{
    assert(p1.qualifiers == p0.qualifiers);
    lemma_first_build::<PackageType>(t1, p1, fr, g);
    match t0 {
        PackageType::NuGet => { lemma_lower_seq_idem(p0.name@); },
        PackageType::PyPI => { lemma_pypi_norm_idem(p0.name@); },
        _ => {},
    }
}

/// C10 (PackageType): build() applied to the value's own type and parts succeeds and returns the same type, the same texts
/// and the same canonical string
pub proof fn theorem_c10_typed(g: GenericPurl<PackageType>, t1: PackageType, p1: PurlParts, fr: Result<(), PackageError>, r: Result<GenericPurl<PackageType>, PackageError>)
    requires
        handed_out_typed(g),
        PackageType::finish_rel(g.package_type, g.parts, t1, p1, fr), build_post::<PackageType>(t1, p1, fr, r),
    ensures
        r is Ok, r->Ok_0.package_type == g.package_type, same_texts(r->Ok_0.parts, g.parts),
        canon_spec(r->Ok_0.package_type.type_text(), r->Ok_0.parts) == canon_spec(g.package_type.type_text(), g.parts),
{
    assert(pkg_finish_rel(g.package_type, g.parts, t1, p1, fr));
    assert(fr is Ok && t1 == g.package_type && p1.name@ == g.parts.name@);
    assert(p1.qualifiers == g.parts.qualifiers);
    lemma_rebuild::<PackageType>(t1, p1, fr, r);
    assert(same_texts(r->Ok_0.parts, g.parts));
    lemma_canon_congr(type_name(t1), r->Ok_0.parts, g.parts);
}
