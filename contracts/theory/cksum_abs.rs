// ---- abstract vocabulary for the checksum qualifier as seen from build() ----
// (defined concretely and proved against the real functions in the `cksum` group; here only the names are needed)
pub uninterp spec fn ck_parse(text: Seq<char>) -> Option<Seq<(Seq<char>, Seq<char>)>>;   // Checksum::try_from(&str): entries, or refused
pub uninterp spec fn ck_text(entries: Seq<(Seq<char>, Seq<char>)>) -> Option<Seq<char>>;  // SmallString::try_from(Checksum): canonical text, or refused
pub open spec fn checksum_key() -> Seq<char> { seq!['c', 'h', 'e', 'c', 'k', 's', 'u', 'm'] }
