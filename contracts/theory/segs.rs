// ---- percent-decoding (uninterpreted) and the segment folds, written from C02 / C05 / C07 ----
/// percent-decode + strict UTF-8 (the `percent-encoding` crate + `str::from_utf8`); None = refused
pub uninterp spec fn dec(s: Seq<char>) -> Option<Seq<char>>;

pub open spec fn is_dot(p: Seq<char>) -> bool { p == seq!['.'] }
pub open spec fn is_dotdot(p: Seq<char>) -> bool { p == seq!['.', '.'] }
pub open spec fn sub_skipped(p: Seq<char>) -> bool { p.len() == 0 || is_dot(p) || is_dotdot(p) }
pub open spec fn ns_skipped(p: Seq<char>) -> bool { p.len() == 0 }
pub open spec fn sub_bad(p: Seq<char>) -> bool {
    dec(p) is None || has_char(dec(p)->Some_0, '/') || is_dot(dec(p)->Some_0) || is_dotdot(dec(p)->Some_0)
}
pub open spec fn ns_bad(p: Seq<char>) -> bool { dec(p) is None || has_char(dec(p)->Some_0, '/') }
pub open spec fn join_push(acc: Seq<char>, seg: Seq<char>) -> Seq<char> { if acc.len() == 0 { seg } else { acc + seq!['/'] + seg } }

/// subpath: skip raw '', '.', '..'; refuse a piece that does not decode, or decodes to something containing '/' or to '.' / '..'
pub open spec fn sub_fold(pieces: Seq<Seq<char>>) -> Option<Seq<char>> decreases pieces.len() {
    if pieces.len() == 0 { Some(Seq::<char>::empty()) } else {
        match sub_fold(pieces.drop_last()) {
            None => None,
            Some(acc) => if sub_skipped(pieces.last()) { Some(acc) } else if sub_bad(pieces.last()) { None }
                         else { Some(join_push(acc, dec(pieces.last())->Some_0)) },
        }
    }
}
/// namespace: skip raw ''; refuse a piece that does not decode or decodes to something containing '/'
pub open spec fn ns_fold(pieces: Seq<Seq<char>>) -> Option<Seq<char>> decreases pieces.len() {
    if pieces.len() == 0 { Some(Seq::<char>::empty()) } else {
        match ns_fold(pieces.drop_last()) {
            None => None,
            Some(acc) => if ns_skipped(pieces.last()) { Some(acc) } else if ns_bad(pieces.last()) { None }
                         else { Some(join_push(acc, dec(pieces.last())->Some_0)) },
        }
    }
}

pub proof fn lemma_sub_fold_none(ps: Seq<Seq<char>>, k: int)
    requires 0 <= k <= ps.len(), sub_fold(ps.take(k)) is None
    ensures sub_fold(ps) is None
    decreases ps.len() - k
{
    if k < ps.len() {
        assert(ps.take(k + 1).drop_last() == ps.take(k));
        lemma_sub_fold_none(ps, k + 1);
    } else { assert(ps.take(k) == ps); }
}
pub proof fn lemma_ns_fold_none(ps: Seq<Seq<char>>, k: int)
    requires 0 <= k <= ps.len(), ns_fold(ps.take(k)) is None
    ensures ns_fold(ps) is None
    decreases ps.len() - k
{
    if k < ps.len() {
        assert(ps.take(k + 1).drop_last() == ps.take(k));
        lemma_ns_fold_none(ps, k + 1);
    } else { assert(ps.take(k) == ps); }
}

/// `[a, b, c].contains(&s)` on string slices
#[verifier::external_body]
pub fn x_is_one_of3(s: &str, a: &str, b: &str, c: &str) -> (r: bool)
    ensures r == (s@ == a@ || s@ == b@ || s@ == c@)
{ [a, b, c].contains(&s) }
#[verifier::external_body]
pub fn x_is_one_of2(s: &str, a: &str, b: &str) -> (r: bool)
    ensures r == (s@ == a@ || s@ == b@)
{ [a, b].contains(&s) }

/// `write!(w, "{}", d).unwrap()` on a String: appends the text (fmt::Write for String never fails)
#[verifier::external_body]
pub fn x_push_display(w: &mut String, d: &str)
    ensures final(w)@ == old(w)@ + d@
{ use std::fmt::Write; write!(w, "{}", d).unwrap() }
