// ---- part 5 (C09): the inverse direction for ARBITRARY namespace / subpath texts ----
// A builder may put any text into namespace and subpath. Printing and parsing then gives back the text "after dropping
// insignificant segments": the non-empty '/'-pieces of the namespace, the pieces of the subpath that are not "", "." or "..".
pub open spec fn keep_ns(ps: Seq<Seq<char>>) -> Seq<Seq<char>> decreases ps.len() {
    if ps.len() == 0 { Seq::<Seq<char>>::empty() } else if ns_skipped(ps.last()) { keep_ns(ps.drop_last()) } else { keep_ns(ps.drop_last()).push(ps.last()) }
}
pub open spec fn keep_sub(ps: Seq<Seq<char>>) -> Seq<Seq<char>> decreases ps.len() {
    if ps.len() == 0 { Seq::<Seq<char>>::empty() } else if sub_skipped(ps.last()) { keep_sub(ps.drop_last()) } else { keep_sub(ps.drop_last()).push(ps.last()) }
}
/// C09: "namespace and subpath compared after dropping insignificant segments (empty ones, and '.'/'..' in the subpath)"
pub open spec fn sig_ns(n: Seq<char>) -> Seq<char> { join_segs(keep_ns(split_spec(n, '/'))) }
pub open spec fn sig_sub(s: Seq<char>) -> Seq<char> { join_segs(keep_sub(split_spec(s, '/'))) }

pub open spec fn slash_free(ps: Seq<Seq<char>>) -> bool { forall|i: int| 0 <= i < ps.len() ==> !has_char(#[trigger] ps[i], '/') }

/// folding the encoded pieces with the namespace rule: the '/'-join of the non-empty pieces
pub proof fn lemma_ns_fold_of_enc_gen(set: SetId, ps: Seq<Seq<char>>)
    requires slash_free(ps)
    ensures ns_fold(enc_each(set, ps)) == Some(join_segs(keep_ns(ps)))
    decreases ps.len()
{
    let es = enc_each(set, ps);
    if ps.len() > 0 {
        let init = ps.drop_last();
        assert(slash_free(init)) by { assert forall|i: int| 0 <= i < init.len() implies !has_char(#[trigger] init[i], '/') by { assert(init[i] == ps[i]); } }
        lemma_ns_fold_of_enc_gen(set, init);
        assert(es.drop_last() =~= enc_each(set, init));
        assert(es.last() == enc(set, ps.last()));
        lemma_enc_len(set, ps.last());
        axiom_dec_enc(set, ps.last());
        assert(!has_char(ps[ps.len() - 1], '/'));
        assert(keep_ns(init).push(ps.last()).drop_last() =~= keep_ns(init));
    }
}

pub proof fn lemma_dotdot_is_all_dots(s: Seq<char>)
    ensures is_dot(s) ==> (s.len() == 1 && s[0] == '.'), is_dotdot(s) ==> (s.len() == 2 && s[0] == '.' && s[1] == '.'),
        (s.len() == 1 && s[0] == '.') ==> is_dot(s), (s.len() == 2 && s[0] == '.' && s[1] == '.') ==> is_dotdot(s)
{
    if s.len() == 1 && s[0] == '.' { assert(s =~= seq!['.']); }
    if s.len() == 2 && s[0] == '.' && s[1] == '.' { assert(s =~= seq!['.', '.']); }
}

/// an encoding is "", "." or ".." exactly when the text is (no escape set touches '.', escapes contain '%')
pub proof fn lemma_enc_skipped(set: SetId, s: Seq<char>)
    requires !escaped_c(set, '.')
    ensures sub_skipped(enc(set, s)) == sub_skipped(s)
{
    lemma_enc_len(set, s);
    lemma_enc_dot(set, s);
    if is_dot(s) || is_dotdot(s) {
        assert forall|i: int| 0 <= i < s.len() implies !escaped_c(set, #[trigger] s[i]) by { }
        lemma_enc_identity(set, s);
    }
}

/// folding the encoded pieces with the subpath rule: the '/'-join of the pieces that are not "", "." or ".."
pub proof fn lemma_sub_fold_of_enc_gen(set: SetId, ps: Seq<Seq<char>>)
    requires slash_free(ps), !escaped_c(set, '.')
    ensures sub_fold(enc_each(set, ps)) == Some(join_segs(keep_sub(ps)))
    decreases ps.len()
{
    let es = enc_each(set, ps);
    if ps.len() > 0 {
        let init = ps.drop_last();
        assert(slash_free(init)) by { assert forall|i: int| 0 <= i < init.len() implies !has_char(#[trigger] init[i], '/') by { assert(init[i] == ps[i]); } }
        lemma_sub_fold_of_enc_gen(set, init);
        assert(es.drop_last() =~= enc_each(set, init));
        assert(es.last() == enc(set, ps.last()));
        lemma_enc_skipped(set, ps.last());
        axiom_dec_enc(set, ps.last());
        assert(!has_char(ps[ps.len() - 1], '/'));
        assert(keep_sub(init).push(ps.last()).drop_last() =~= keep_sub(init));
    }
}

/// encoding with a set that leaves '/' alone commutes with splitting at '/'
pub proof fn lemma_split_of_enc(set: SetId, s: Seq<char>)
    requires !escaped_c(set, '/')
    ensures split_spec(enc(set, s), '/') == enc_each(set, split_spec(s, '/'))
    decreases s.len()
{
    lemma_slash_unescaped();
    lemma_first_index(s, '/');
    lemma_enc_preserves(set, s, '/');
    let f = first_index_of(s, '/');
    if f < 0 || f >= s.len() {
        lemma_split_no_sep(s, '/');
        lemma_split_no_sep(enc(set, s), '/');
        assert(enc_each(set, seq![s]) =~= seq![enc(set, s)]);
    } else {
        let a = s.subrange(0, f);
        let rest = s.subrange(f + 1, s.len() as int);
        assert(s =~= a + seq!['/'] + rest);
        if has_char(a, '/') { let i = choose|i: int| 0 <= i < a.len() && a[i] == '/'; assert(s[i] == '/'); }
        lemma_enc_concat(set, a + seq!['/'], rest);
        lemma_enc_concat(set, a, seq!['/']);
        lemma_enc_single(set, '/');
        let ea = enc(set, a);
        let er = enc(set, rest);
        assert(enc(set, s) =~= ea + seq!['/'] + er);
        lemma_enc_preserves(set, a, '/');
        lemma_split_join(ea, er, '/');
        let e = enc(set, s);
        assert(e.subrange(0, ea.len() as int) =~= ea);
        assert(e.subrange(ea.len() as int + 1, e.len() as int) =~= er);
        lemma_split_of_enc(set, rest);
        assert(split_spec(s, '/') =~= seq![a] + split_spec(rest, '/'));
        assert(split_spec(e, '/') =~= seq![ea] + split_spec(er, '/'));
        assert(enc_each(set, seq![a] + split_spec(rest, '/')) =~= seq![ea] + enc_each(set, split_spec(rest, '/')));
    }
}

/// a skipped first piece does not change the fold
pub proof fn lemma_ns_fold_prepend(e: Seq<char>, ps: Seq<Seq<char>>)
    requires ns_skipped(e)
    ensures ns_fold(seq![e] + ps) == ns_fold(ps)
    decreases ps.len()
{
    let all = seq![e] + ps;
    if ps.len() == 0 {
        assert(all =~= seq![e]);
        assert(all.drop_last() =~= Seq::<Seq<char>>::empty());
        assert(all.last() == e);
        assert(ns_fold(Seq::<Seq<char>>::empty()) == Some(Seq::<char>::empty()));
        assert(ps =~= Seq::<Seq<char>>::empty());
    } else {
        assert(all.drop_last() =~= seq![e] + ps.drop_last());
        assert(all.last() == ps.last());
        lemma_ns_fold_prepend(e, ps.drop_last());
    }
}
pub proof fn lemma_sub_fold_prepend(e: Seq<char>, ps: Seq<Seq<char>>)
    requires sub_skipped(e)
    ensures sub_fold(seq![e] + ps) == sub_fold(ps)
    decreases ps.len()
{
    let all = seq![e] + ps;
    if ps.len() == 0 {
        assert(all =~= seq![e]);
        assert(all.drop_last() =~= Seq::<Seq<char>>::empty());
        assert(all.last() == e);
        assert(sub_fold(Seq::<Seq<char>>::empty()) == Some(Seq::<char>::empty()));
        assert(ps =~= Seq::<Seq<char>>::empty());
    } else {
        assert(all.drop_last() =~= seq![e] + ps.drop_last());
        assert(all.last() == ps.last());
        lemma_sub_fold_prepend(e, ps.drop_last());
    }
}

/// trimming '/' at both ends only removes empty pieces, which both folds skip
pub proof fn lemma_fold_trim_start(x: Seq<char>)
    ensures ns_fold(split_spec(trim_start_spec(x, '/'), '/')) == ns_fold(split_spec(x, '/')),
        sub_fold(split_spec(trim_start_spec(x, '/'), '/')) == sub_fold(split_spec(x, '/')),
    decreases x.len()
{
    if x.len() > 0 && x[0] == '/' {
        let y = x.subrange(1, x.len() as int);
        lemma_fold_trim_start(y);
        lemma_first_index(x, '/');
        assert(first_index_of(x, '/') == 0);
        assert(x.subrange(0, 0) =~= Seq::<char>::empty());
        assert(split_spec(x, '/') =~= seq![Seq::<char>::empty()] + split_spec(y, '/'));
        lemma_ns_fold_prepend(Seq::<char>::empty(), split_spec(y, '/'));
        lemma_sub_fold_prepend(Seq::<char>::empty(), split_spec(y, '/'));
    }
}
pub proof fn lemma_fold_trim_end(x: Seq<char>)
    ensures ns_fold(split_spec(trim_end_spec(x, '/'), '/')) == ns_fold(split_spec(x, '/')),
        sub_fold(split_spec(trim_end_spec(x, '/'), '/')) == sub_fold(split_spec(x, '/')),
    decreases x.len()
{
    if x.len() > 0 && x.last() == '/' {
        let y = x.drop_last();
        lemma_fold_trim_end(y);
        let e = Seq::<char>::empty();
        assert(!has_char(e, '/'));
        lemma_split_append(y, e, '/');
        assert(y + seq!['/'] + e =~= x);
        let ps = split_spec(y, '/');
        assert(ps.push(e).drop_last() =~= ps);
    }
}

/// C09 (namespace): print -> split -> decode gives the text after dropping empty segments
pub proof fn lemma_ns_roundtrip_gen(n: Seq<char>)
    ensures ns_fold(split_spec(trim_spec(enc(SetId::Path, n), '/'), '/')) == Some(sig_ns(n))
{
    lemma_slash_unescaped();
    let e = enc(SetId::Path, n);
    lemma_fold_trim_end(trim_start_spec(e, '/'));
    lemma_fold_trim_start(e);
    lemma_split_of_enc(SetId::Path, n);
    lemma_split_pieces_no_sep(n, '/');
    lemma_ns_fold_of_enc_gen(SetId::Path, split_spec(n, '/'));
}
/// C09 (subpath): ... after dropping "", "." and ".." segments
pub proof fn lemma_sub_roundtrip_gen(s: Seq<char>)
    ensures sub_fold(split_spec(trim_spec(enc(SetId::Fragment, s), '/'), '/')) == Some(sig_sub(s))
{
    lemma_slash_unescaped();
    let e = enc(SetId::Fragment, s);
    lemma_fold_trim_end(trim_start_spec(e, '/'));
    lemma_fold_trim_start(e);
    lemma_split_of_enc(SetId::Fragment, s);
    lemma_split_pieces_no_sep(s, '/');
    lemma_sub_fold_of_enc_gen(SetId::Fragment, split_spec(s, '/'));
}

// ---- a namespace with a significant segment keeps one (C08: the maven rule is stable under print -> parse) ----
pub proof fn lemma_split_has_nonempty(n: Seq<char>)
    requires !all_char(n, '/')
    ensures exists|j: int| 0 <= j < split_spec(n, '/').len() && (#[trigger] split_spec(n, '/')[j]).len() > 0
    decreases n.len()
{
    lemma_first_index(n, '/');
    let f = first_index_of(n, '/');
    let k = choose|k: int| 0 <= k < n.len() && n[k] != '/';
    if f < 0 || f >= n.len() {
        assert(split_spec(n, '/') =~= seq![n]);
        assert(split_spec(n, '/')[0].len() > 0);
    } else {
        let head = n.subrange(0, f);
        let rest = n.subrange(f + 1, n.len() as int);
        let ps = split_spec(n, '/');
        assert(ps =~= seq![head] + split_spec(rest, '/'));
        if head.len() > 0 { assert(ps[0] == head); }
        else {
            assert(f == 0);
            assert(rest[k - 1] == n[k]);
            assert(!all_char(rest, '/'));
            lemma_split_has_nonempty(rest);
            let j = choose|j: int| 0 <= j < split_spec(rest, '/').len() && (#[trigger] split_spec(rest, '/')[j]).len() > 0;
            assert(ps[j + 1] == split_spec(rest, '/')[j]);
        }
    }
}

pub proof fn lemma_keep_ns_props(ps: Seq<Seq<char>>)
    requires slash_free(ps)
    ensures slash_free_nonempty(keep_ns(ps)),
        (exists|j: int| 0 <= j < ps.len() && (#[trigger] ps[j]).len() > 0) ==> keep_ns(ps).len() > 0
    decreases ps.len()
{
    if ps.len() > 0 {
        let init = ps.drop_last();
        assert(slash_free(init)) by { assert forall|i: int| 0 <= i < init.len() implies !has_char(#[trigger] init[i], '/') by { assert(init[i] == ps[i]); } }
        lemma_keep_ns_props(init);
        let k = keep_ns(ps);
        assert(!has_char(ps[ps.len() - 1], '/'));
        assert forall|i: int| 0 <= i < k.len() implies (#[trigger] k[i]).len() > 0 && !has_char(k[i], '/') by {
            if ns_skipped(ps.last()) { assert(k[i] == keep_ns(init)[i]); }
            else if i < keep_ns(init).len() { assert(k[i] == keep_ns(init)[i]); } else { assert(k[i] == ps.last()); }
        }
        if exists|j: int| 0 <= j < ps.len() && (#[trigger] ps[j]).len() > 0 {
            let j = choose|j: int| 0 <= j < ps.len() && (#[trigger] ps[j]).len() > 0;
            if j < init.len() { assert(init[j] == ps[j]); }
        }
    }
}

pub proof fn lemma_sig_ns_all_slash(n: Seq<char>)
    requires !all_char(n, '/')
    ensures sig_ns(n).len() > 0, !all_char(sig_ns(n), '/')
{
    lemma_split_has_nonempty(n);
    lemma_split_pieces_no_sep(n, '/');
    let ps = split_spec(n, '/');
    assert(slash_free(ps));
    lemma_keep_ns_props(ps);
    lemma_join_ends(keep_ns(ps));
    assert(sig_ns(n)[0] != '/');
}

// ---- for clean segments nothing is dropped ----
pub proof fn lemma_keep_ns_all(segs: Seq<Seq<char>>)
    requires slash_free_nonempty(segs)
    ensures keep_ns(segs) == segs
    decreases segs.len()
{
    if segs.len() > 0 {
        let init = segs.drop_last();
        assert forall|i: int| 0 <= i < init.len() implies (#[trigger] init[i]).len() > 0 && !has_char(init[i], '/') by { assert(init[i] == segs[i]); }
        lemma_keep_ns_all(init);
        assert(segs[segs.len() - 1].len() > 0);
        assert(init.push(segs.last()) =~= segs);
    } else {
        assert(keep_ns(segs) =~= segs);
    }
}
pub proof fn lemma_sig_ns_normal(segs: Seq<Seq<char>>)
    requires segs.len() > 0, slash_free_nonempty(segs)
    ensures sig_ns(join_segs(segs)) == join_segs(segs)
{
    lemma_split_of_join(segs);
    lemma_keep_ns_all(segs);
}
