// ---- C01 / C09 / C19: parsing the canonical string gives the parts back (the inverse direction), part 1: encoding lemmas ----
/// ASSUMED (A: bounded replay): percent-decoding inverts percent-encoding, for every escape set
#[verifier::external_body]
pub proof fn axiom_dec_enc(set: SetId, s: Seq<char>)
    ensures dec(enc(set, s)) == Some(s)
{ }

pub proof fn lemma_enc_concat(set: SetId, a: Seq<char>, b: Seq<char>)
    ensures enc(set, a + b) == enc(set, a) + enc(set, b)
    decreases b.len()
{
    if b.len() == 0 {
        assert(a + b =~= a);
        assert(enc(set, a) + enc(set, b) =~= enc(set, a));
    } else {
        assert((a + b).drop_last() =~= a + b.drop_last());
        assert((a + b).last() == b.last());
        lemma_enc_concat(set, a, b.drop_last());
        assert(enc(set, a + b) =~= enc(set, a) + enc(set, b));
    }
}

pub proof fn lemma_enc_single(set: SetId, c: char)
    ensures enc(set, seq![c]) == enc_char(set, c)
{
    assert(seq![c].drop_last() =~= Seq::<char>::empty());
    assert(enc(set, Seq::<char>::empty()) =~= Seq::<char>::empty());
    assert(Seq::<char>::empty() + enc_char(set, c) =~= enc_char(set, c));
}

pub proof fn lemma_enc_len(set: SetId, s: Seq<char>)
    ensures (enc(set, s).len() == 0) == (s.len() == 0), enc(set, s).len() >= s.len()
    decreases s.len()
{
    if s.len() > 0 { lemma_enc_len(set, s.drop_last()); axiom_pct(s.last()); }
}

/// a character that is escaped in `set` and is not in the %HEX alphabet never appears in an encoded string
pub proof fn lemma_enc_excludes(set: SetId, s: Seq<char>, x: char)
    requires escaped_c(set, x), !pct_alphabet(x)
    ensures !has_char(enc(set, s), x)
    decreases s.len()
{
    if s.len() > 0 {
        lemma_enc_excludes(set, s.drop_last(), x);
        let c = s.last();
        axiom_pct(c);
        let e = enc_char(set, c);
        assert(!has_char(e, x)) by {
            if has_char(e, x) {
                let i = choose|i: int| 0 <= i < e.len() && e[i] == x;
                if escaped_c(set, c) { assert(pct_alphabet(pct(c)[i])); } else { assert(e[i] == c); }
            }
        }
        lemma_has_char_concat(enc(set, s.drop_last()), e, x);
    }
}

/// an unescaped character of the %HEX-free kind is preserved: it occurs in the encoding iff it occurs in the text
pub proof fn lemma_enc_preserves(set: SetId, s: Seq<char>, x: char)
    requires !escaped_c(set, x), !pct_alphabet(x)
    ensures has_char(enc(set, s), x) == has_char(s, x)
    decreases s.len()
{
    if s.len() > 0 {
        lemma_enc_preserves(set, s.drop_last(), x);
        let c = s.last();
        axiom_pct(c);
        let e = enc_char(set, c);
        assert(has_char(e, x) == (c == x)) by {
            if has_char(e, x) {
                let i = choose|i: int| 0 <= i < e.len() && e[i] == x;
                if escaped_c(set, c) { assert(pct_alphabet(pct(c)[i])); } else { assert(e[i] == c); }
            }
            if c == x { assert(e == seq![c]); assert(e[0] == x); }
        }
        lemma_has_char_concat(enc(set, s.drop_last()), e, x);
        assert(s.drop_last().push(c) =~= s);
        lemma_has_char_concat(s.drop_last(), seq![c], x);
        assert(s.drop_last() + seq![c] =~= s);
        assert(has_char(seq![c], x) == (c == x)) by { if c == x { assert(seq![c][0] == x); } }
    }
}

/// a string made of unescaped characters only is its own encoding (qualifier keys, '/', ...)
pub proof fn lemma_enc_identity(set: SetId, s: Seq<char>)
    requires forall|i: int| 0 <= i < s.len() ==> !escaped_c(set, #[trigger] s[i])
    ensures enc(set, s) == s
    decreases s.len()
{
    if s.len() > 0 {
        assert forall|i: int| 0 <= i < s.drop_last().len() implies !escaped_c(set, #[trigger] s.drop_last()[i]) by { assert(s.drop_last()[i] == s[i]); }
        lemma_enc_identity(set, s.drop_last());
        assert(!escaped_c(set, s[s.len() - 1]));
        assert(enc(set, s) =~= s);
    } else { assert(enc(set, s) =~= s); }
}

/// first / last character of an encoding is the separator `x` (unescaped, not %HEX) iff that of the text is
pub proof fn lemma_enc_ends(set: SetId, s: Seq<char>, x: char)
    requires !escaped_c(set, x), !pct_alphabet(x), s.len() > 0
    ensures enc(set, s).len() > 0, (enc(set, s)[0] == x) == (s[0] == x), (enc(set, s).last() == x) == (s.last() == x)
    decreases s.len()
{
    lemma_enc_len(set, s);
    let c = s.last();
    axiom_pct(c);
    let e = enc_char(set, c);
    let pre = enc(set, s.drop_last());
    assert((pre + e).last() == e.last());
    assert((e.last() == x) == (c == x)) by { if escaped_c(set, c) { assert(pct_alphabet(pct(c)[pct(c).len() - 1])); } }
    if s.len() == 1 {
        assert(s.drop_last() =~= Seq::<char>::empty());
        assert(pre =~= Seq::<char>::empty());
        assert(pre + e =~= e);
        assert((e[0] == x) == (c == x)) by { if escaped_c(set, c) { assert(pct_alphabet(pct(c)[0])); } }
    } else {
        lemma_enc_ends(set, s.drop_last(), x);
        assert((pre + e)[0] == pre[0]);
        assert(s.drop_last()[0] == s[0]);
    }
}
