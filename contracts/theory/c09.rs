// ---- C09 ("the string form of that PURL is accepted by the parser and yields those same field values") as a theorem ----
// For ANY builder state whose build() succeeded with value g: parse_post applied to canon_spec(g) allows only Ok values, with the
// same type text, name, version and qualifier pairs, the namespace after dropping empty segments and the subpath after dropping
// "", "." and ".." segments. (That build() succeeds exactly when ..., and that the accessors return what was last set, are the
// contracts of build() and of the setters themselves: build_post, the setter frames.)
pub proof fn theorem_c09_plain<T: FromStr + PurlShape>(t0: T, p0: PurlParts, t1: T, p1: PurlParts, fr: Result<(), <T as PurlShape>::Error>,
                                                        g: GenericPurl<T>, r2: Result<GenericPurl<T>, <T as PurlShape>::Error>)
    where <T as PurlShape>::Error: From<<T as FromStr>::Err>
    requires
        plain_shape::<T>(),
        wf_seq(p0.qualifiers.qualifiers@),                      // the builder's qualifier list: invariant kept by every verified mutator
        T::finish_rel(t0, p0, t1, p1, fr), build_post::<T>(t1, p1, fr, Ok::<GenericPurl<T>, <T as PurlShape>::Error>(g)),
        parse_post::<T>(canon_spec(g.package_type.type_text(), g.parts), r2),
    ensures
        r2 is Ok,
        r2->Ok_0.package_type.type_text() == g.package_type.type_text(),
        r2->Ok_0.parts.name@ == g.parts.name@, r2->Ok_0.parts.version@ == g.parts.version@,
        r2->Ok_0.parts.namespace@ == sig_ns(g.parts.namespace@), r2->Ok_0.parts.subpath@ == sig_sub(g.parts.subpath@),
        kvs(r2->Ok_0.parts.qualifiers.qualifiers@) == kvs(g.parts.qualifiers.qualifiers@),
{
    lemma_built_is_handed_out_plain::<T>(t0, p0, t1, p1, fr, g);
    let ty1 = g.package_type.type_text();
    assert(gen_parts(g.parts));
    lemma_parse_canon_gen(ty1, g.parts);
    let c = canon_spec(ty1, g.parts);
    let a2 = phase_a(c)->Ok_0;
    let b2 = phase_b(a2.rest)->Ok_0;
    let cr2 = choose|cr2: Result<T, <T as FromStr>::Err>| #[trigger] T::from_str_rel(a2.ty, cr2) && match cr2 {
        Err(ce) => r2 is Err,
        Ok(t0) => match phase_b(a2.rest) {
            Err(e) => r2 is Err,
            Ok(b) => exists|p0: PurlParts, t1: T, p1: PurlParts, fr: Result<(), <T as PurlShape>::Error>|
                parts_are(p0, a2, b) && #[trigger] T::finish_rel(t0, p0, t1, p1, fr) && build_post::<T>(t1, p1, fr, r2),
        },
    };
    let u0 = cr2->Ok_0;
    let (q0, u1, q1, fr2) = choose|q0: PurlParts, u1: T, q1: PurlParts, fr2: Result<(), <T as PurlShape>::Error>|
        parts_are(q0, a2, b2) && #[trigger] T::finish_rel(u0, q0, u1, q1, fr2) && build_post::<T>(u1, q1, fr2, r2);
    assert(q1 == q0 && fr2 is Ok && u1.type_text() == lower_ascii_seq(ty1));
    lemma_normal_quals_congr(g.parts.qualifiers.qualifiers@, q1.qualifiers.qualifiers@);
    lemma_rebuild::<T>(u1, q1, fr2, r2);
}

/// the same for the PackageType enum
pub proof fn theorem_c09_typed(t0: PackageType, p0: PurlParts, t1: PackageType, p1: PurlParts, fr: Result<(), PackageError>,
                               g: GenericPurl<PackageType>, r2: Result<GenericPurl<PackageType>, PackageError>)
    requires
        wf_seq(p0.qualifiers.qualifiers@),
        PackageType::finish_rel(t0, p0, t1, p1, fr), build_post::<PackageType>(t1, p1, fr, Ok::<GenericPurl<PackageType>, PackageError>(g)),
        parse_post::<PackageType>(canon_spec(g.package_type.type_text(), g.parts), r2),
    ensures
        r2 is Ok,
        r2->Ok_0.package_type == g.package_type,
        r2->Ok_0.parts.name@ == g.parts.name@, r2->Ok_0.parts.version@ == g.parts.version@,
        r2->Ok_0.parts.namespace@ == sig_ns(g.parts.namespace@), r2->Ok_0.parts.subpath@ == sig_sub(g.parts.subpath@),
        kvs(r2->Ok_0.parts.qualifiers.qualifiers@) == kvs(g.parts.qualifiers.qualifiers@),
{
    assert(pkg_finish_rel(t0, p0, t1, p1, fr));
    lemma_built_is_handed_out_typed(t0, p0, t1, p1, fr, g);
    assert(fr is Ok && g.package_type == t1);
    let ty1 = type_name(t1);
    lemma_type_name_facts(t1, t1);
    assert(gen_parts(g.parts));
    lemma_parse_canon_gen(ty1, g.parts);
    let c = canon_spec(ty1, g.parts);
    let a2 = phase_a(c)->Ok_0;
    let b2 = phase_b(a2.rest)->Ok_0;
    let cr2 = choose|cr2: Result<PackageType, UnsupportedPackageType>| #[trigger] PackageType::from_str_rel(a2.ty, cr2) && match cr2 {
        Err(ce) => r2 is Err,
        Ok(t0) => match phase_b(a2.rest) {
            Err(e) => r2 is Err,
            Ok(b) => exists|p0: PurlParts, t1: PackageType, p1: PurlParts, fr: Result<(), PackageError>|
                parts_are(p0, a2, b) && #[trigger] PackageType::finish_rel(t0, p0, t1, p1, fr) && build_post::<PackageType>(t1, p1, fr, r2),
        },
    };
    assert(lower_ascii_seq(ty1) == type_name(t1));
    assert(cr2 is Ok);
    let u0 = cr2->Ok_0;
    lemma_type_name_facts(u0, t1);
    assert(u0 == t1);
    let (q0, u1, q1, fr2) = choose|q0: PurlParts, u1: PackageType, q1: PurlParts, fr2: Result<(), PackageError>|
        parts_are(q0, a2, b2) && #[trigger] PackageType::finish_rel(u0, q0, u1, q1, fr2) && build_post::<PackageType>(u1, q1, fr2, r2);
    assert(pkg_finish_rel(u0, q0, u1, q1, fr2));
    // maven: the namespace had a significant segment, so it still has one after dropping the empty ones
    if t1 == PackageType::Maven {
        lemma_sig_ns_all_slash(g.parts.namespace@);
        assert(!all_char(q0.namespace@, '/'));
    }
    assert(fr2 is Ok && u1 == t1 && q1.name@ == g.parts.name@);
    assert(q1.qualifiers == q0.qualifiers);
    lemma_normal_quals_congr(g.parts.qualifiers.qualifiers@, q1.qualifiers.qualifiers@);
    lemma_rebuild::<PackageType>(u1, q1, fr2, r2);
}
