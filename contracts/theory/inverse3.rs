// ---- part 3: the qualifier text survives print -> split -> decode ----
pub open spec fn join_with(items: Seq<Seq<char>>, c: char) -> Seq<char> decreases items.len() {
    if items.len() == 0 { Seq::<char>::empty() }
    else if items.len() == 1 { items[0] }
    else { join_with(items.drop_last(), c) + seq![c] + items.last() }
}
pub proof fn lemma_split_of_join_with(items: Seq<Seq<char>>, c: char)
    requires items.len() > 0, forall|i: int| 0 <= i < items.len() ==> !has_char(#[trigger] items[i], c)
    ensures split_spec(join_with(items, c), c) == items
    decreases items.len()
{
    if items.len() == 1 {
        lemma_split_no_sep(items[0], c);
        assert(items =~= seq![items[0]]);
    } else {
        let init = items.drop_last();
        assert forall|i: int| 0 <= i < init.len() implies !has_char(#[trigger] init[i], c) by { assert(init[i] == items[i]); }
        lemma_split_of_join_with(init, c);
        assert(!has_char(items[items.len() - 1], c));
        lemma_split_append(join_with(init, c), items.last(), c);
        assert(init.push(items.last()) =~= items);
    }
}
pub proof fn lemma_join_with_excludes(items: Seq<Seq<char>>, c: char, x: char)
    requires x != c, forall|i: int| 0 <= i < items.len() ==> !has_char(#[trigger] items[i], x)
    ensures !has_char(join_with(items, c), x)
    decreases items.len()
{
    if items.len() == 1 { assert(!has_char(items[0], x)); }
    else if items.len() > 1 {
        let init = items.drop_last();
        assert forall|i: int| 0 <= i < init.len() implies !has_char(#[trigger] init[i], x) by { assert(init[i] == items[i]); }
        lemma_join_with_excludes(init, c, x);
        assert(!has_char(items[items.len() - 1], x));
        lemma_has_char_concat(join_with(init, c), seq![c], x);
        lemma_has_char_concat(join_with(init, c) + seq![c], items.last(), x);
        assert(!has_char(seq![c], x)) by { if has_char(seq![c], x) { let i = choose|i: int| 0 <= i < seq![c].len() && seq![c][i] == x; } }
    }
}

pub open spec fn q_item(kv: (QualifierKey, SmallString)) -> Seq<char> { enc(SetId::Query, kv.0.0@) + seq!['='] + enc(SetId::Query, kv.1@) }
pub open spec fn q_items(v: Seq<(QualifierKey, SmallString)>) -> Seq<Seq<char>> { v.map_values(|kv: (QualifierKey, SmallString)| q_item(kv)) }

pub proof fn lemma_quals_text_shape(v: Seq<(QualifierKey, SmallString)>)
    requires v.len() > 0
    ensures quals_text(v) == seq!['?'] + join_with(q_items(v), '&')
    decreases v.len()
{
    let items = q_items(v);
    if v.len() == 1 {
        assert(v.drop_last() =~= Seq::<(QualifierKey, SmallString)>::empty());
        assert(quals_text(v.drop_last()) =~= Seq::<char>::empty());
        assert(items[0] == q_item(v[0]));
        assert(quals_text(v) =~= seq!['?'] + join_with(items, '&'));
    } else {
        lemma_quals_text_shape(v.drop_last());
        assert(items.drop_last() =~= q_items(v.drop_last()));
        assert(items.last() == q_item(v.last()));
        assert(quals_text(v) =~= seq!['?'] + join_with(items, '&'));
    }
}

pub proof fn lemma_key_chars(k: Seq<char>)
    requires canon_key(k)
    ensures enc(SetId::Query, k) == k, !has_char(k, '='), !has_char(k, '&'), !has_char(k, '?'), !has_char(k, '#'), lower_ascii_seq(k) == k
{
    assert forall|i: int| 0 <= i < k.len() implies !escaped_c(SetId::Query, #[trigger] k[i]) by { assert(key_char(k[i])); assert(!ascii_upper_c(k[i])); }
    lemma_enc_identity(SetId::Query, k);
    assert forall|i: int| 0 <= i < k.len() implies k[i] != '=' && k[i] != '&' && k[i] != '?' && k[i] != '#' by { assert(key_char(k[i])); }
    lemma_lower_ascii_fixed(k);
}

pub proof fn lemma_q_item_chars(kv: (QualifierKey, SmallString))
    requires canon_key(kv.0.0@)
    ensures !has_char(q_item(kv), '&'), !has_char(q_item(kv), '?'), !has_char(q_item(kv), '#'),
        first_index_of(q_item(kv), '=') == kv.0.0@.len(),
        q_item(kv).subrange(0, kv.0.0@.len() as int) == kv.0.0@,
        q_item(kv).subrange(kv.0.0@.len() as int + 1, q_item(kv).len() as int) == enc(SetId::Query, kv.1@),
{
    let k = kv.0.0@;
    let ev = enc(SetId::Query, kv.1@);
    lemma_key_chars(k);
    lemma_enc_excludes(SetId::Query, kv.1@, '&');
    lemma_enc_excludes(SetId::Query, kv.1@, '?');
    lemma_enc_excludes(SetId::Query, kv.1@, '#');
    let it = q_item(kv);
    assert(it == k + seq!['='] + ev);
    lemma_has_char_concat(k, seq!['='], '&'); lemma_has_char_concat(k + seq!['='], ev, '&');
    lemma_has_char_concat(k, seq!['='], '?'); lemma_has_char_concat(k + seq!['='], ev, '?');
    lemma_has_char_concat(k, seq!['='], '#'); lemma_has_char_concat(k + seq!['='], ev, '#');
    assert(!has_char(seq!['='], '&') && !has_char(seq!['='], '?') && !has_char(seq!['='], '#')) by {
        assert forall|i: int| 0 <= i < seq!['='].len() implies seq!['='][i] == '=' by { }
    }
    lemma_split_join(k, ev, '=');
    assert(it.subrange(0, k.len() as int) =~= k);
    assert(it.subrange(k.len() as int + 1, it.len() as int) =~= ev);
}

pub proof fn lemma_kv_pos_end(acc: KV, k: Seq<char>)
    requires forall|i: int| 0 <= i < acc.len() ==> str_lt((#[trigger] acc[i]).0, k)
    ensures kv_pos_of(acc, k) == acc.len(), !kv_has_key(acc, k)
    decreases acc.len()
{
    if acc.len() > 0 {
        assert forall|i: int| 0 <= i < acc.drop_last().len() implies str_lt((#[trigger] acc.drop_last()[i]).0, k) by { assert(acc.drop_last()[i] == acc[i]); }
        lemma_kv_pos_end(acc.drop_last(), k);
        assert(str_lt(acc[acc.len() - 1].0, k));
    }
    lemma_lt_irrefl(k);
    if kv_has_key(acc, k) { let i = choose|i: int| 0 <= i < acc.len() && (#[trigger] acc[i]).0 == k; assert(str_lt(acc[i].0, k)); }
}

/// folding the printed items gives the pairs back
pub proof fn lemma_dq_fold_items(v: Seq<(QualifierKey, SmallString)>)
    requires wf_seq(v), forall|i: int| 0 <= i < v.len() ==> (#[trigger] v[i]).1@.len() > 0
    ensures dq_fold(q_items(v), Seq::<(Seq<char>, Seq<char>)>::empty()) == Ok::<KV, DqErr>(kvs(v))
    decreases v.len()
{
    let items = q_items(v);
    let e = Seq::<(Seq<char>, Seq<char>)>::empty();
    if v.len() == 0 {
        assert(kvs(v) =~= e);
    } else {
        let init = v.drop_last();
        assert(wf_seq(init)) by {
            assert forall|a: int, b: int| 0 <= a < b < init.len() implies str_lt(#[trigger] init[a].0.0@, #[trigger] init[b].0.0@) by { assert(init[a] == v[a]); assert(init[b] == v[b]); }
            assert forall|a: int| 0 <= a < init.len() implies canon_key(#[trigger] init[a].0.0@) by { assert(init[a] == v[a]); }
        }
        assert forall|i: int| 0 <= i < init.len() implies (#[trigger] init[i]).1@.len() > 0 by { assert(init[i] == v[i]); }
        lemma_dq_fold_items(init);
        assert(items.drop_last() =~= q_items(init));
        let kv = v.last();
        assert(items.last() == q_item(kv));
        assert(canon_key(v[v.len() - 1].0.0@));
        lemma_q_item_chars(kv);
        let k = kv.0.0@;
        lemma_key_chars(k);
        axiom_dec_enc(SetId::Query, kv.1@);
        let acc = kvs(init);
        assert forall|i: int| 0 <= i < acc.len() implies str_lt((#[trigger] acc[i]).0, k) by {
            assert(acc[i].0 == init[i].0.0@); assert(init[i] == v[i]);
            assert(str_lt(v[i].0.0@, v[v.len() - 1].0.0@));
        }
        lemma_kv_pos_end(acc, k);
        assert(v[v.len() - 1].1@.len() > 0);
        assert(acc.insert(acc.len() as int, (k, kv.1@)) =~= kvs(v));
    }
}
