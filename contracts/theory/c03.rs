// ---- C03, last sentence: "The output is therefore printable ASCII in which each separator character can only be read as a separator" ----
pub open spec fn printable_c(c: char) -> bool { 0x21 <= (c as u32) && (c as u32) <= 0x7e }
pub open spec fn printable(s: Seq<char>) -> bool { forall|i: int| 0 <= i < s.len() ==> printable_c(#[trigger] s[i]) }

pub proof fn lemma_printable_concat(a: Seq<char>, b: Seq<char>)
    requires printable(a), printable(b)
    ensures printable(a + b)
{
    assert forall|i: int| 0 <= i < (a + b).len() implies printable_c(#[trigger] (a + b)[i]) by {
        if i < a.len() { assert((a + b)[i] == a[i]); } else { assert((a + b)[i] == b[i - a.len()]); }
    }
}

/// every encoded component is printable ASCII: an unescaped character is one, an escape is '%' and upper-case hex digits
pub proof fn lemma_enc_printable(set: SetId, s: Seq<char>)
    ensures printable(enc(set, s))
    decreases s.len()
{
    if s.len() > 0 {
        lemma_enc_printable(set, s.drop_last());
        let c = s.last();
        axiom_pct(c);
        let e = enc_char(set, c);
        assert(printable(e)) by {
            assert forall|i: int| 0 <= i < e.len() implies printable_c(#[trigger] e[i]) by {
                if escaped_c(set, c) { assert(pct_alphabet(pct(c)[i])); }
            }
        }
        lemma_printable_concat(enc(set, s.drop_last()), e);
    }
}

pub proof fn lemma_quals_text_printable(v: Seq<(QualifierKey, SmallString)>)
    ensures printable(quals_text(v))
    decreases v.len()
{
    if v.len() > 0 {
        lemma_quals_text_printable(v.drop_last());
        let kv = v.last();
        let sep = seq![if v.len() == 1 { '?' } else { '&' }];
        lemma_enc_printable(SetId::Query, kv.0.0@);
        lemma_enc_printable(SetId::Query, kv.1@);
        assert(printable(sep)); assert(printable(seq!['=']));
        let t0 = quals_text(v.drop_last());
        lemma_printable_concat(t0, sep);
        lemma_printable_concat(t0 + sep, enc(SetId::Query, kv.0.0@));
        lemma_printable_concat(t0 + sep + enc(SetId::Query, kv.0.0@), seq!['=']);
        lemma_printable_concat(t0 + sep + enc(SetId::Query, kv.0.0@) + seq!['='], enc(SetId::Query, kv.1@));
    }
}

/// C03: the canonical string is printable ASCII (for every type text made of type characters and any parts)
pub proof fn theorem_c03_printable(ty: Seq<char>, p: PurlParts)
    requires valid_type(ty)
    ensures printable(canon_spec(ty, p))
{
    lemma_lits();
    lemma_canon_stages(ty, p);
    assert(printable(ty)) by { assert forall|i: int| 0 <= i < ty.len() implies printable_c(#[trigger] ty[i]) by { assert(type_char(ty[i])); } }
    reveal_strlit("pkg:");
    assert(printable("pkg:"@)) by { assert("pkg:"@ =~= seq!['p', 'k', 'g', ':']); }
    assert(printable(seq!['/'])); assert(printable(seq!['@'])); assert(printable(seq!['#'])); assert(printable(Seq::<char>::empty()));
    lemma_enc_printable(SetId::Path, p.namespace@);
    lemma_enc_printable(SetId::Segment, p.name@);
    lemma_enc_printable(SetId::Path, p.version@);
    lemma_enc_printable(SetId::Fragment, p.subpath@);
    lemma_quals_text_printable(p.qualifiers.qualifiers@);
    lemma_printable_concat("pkg:"@, ty);
    lemma_printable_concat("pkg:"@ + ty, "/"@);
    lemma_printable_concat(enc(SetId::Path, p.namespace@), "/"@);
    lemma_printable_concat(cs1(ty), opt_part(p.namespace@.len() > 0, enc(SetId::Path, p.namespace@) + "/"@));
    lemma_printable_concat(cs2(ty, p), enc(SetId::Segment, p.name@));
    lemma_printable_concat("@"@, enc(SetId::Path, p.version@));
    lemma_printable_concat(cs3(ty, p), opt_part(p.version@.len() > 0, "@"@ + enc(SetId::Path, p.version@)));
    lemma_printable_concat(cs4(ty, p), quals_text(p.qualifiers.qualifiers@));
    lemma_printable_concat("#"@, enc(SetId::Fragment, p.subpath@));
    lemma_printable_concat(cs5(ty, p), opt_part(p.subpath@.len() > 0, "#"@ + enc(SetId::Fragment, p.subpath@)));
}

/// C03: "each separator character can only be read as a separator" -- inside the components the separator characters
/// '@', '?', '#' never occur raw, '/' never occurs raw in the name, '&' and '=' ... '&' never in a qualifier value, and the
/// right-to-left splitting of the parser therefore finds exactly the written separators (lemma_parse_canon_gen, group inverse)
pub proof fn theorem_c03_separators(p: PurlParts, i: int)
    requires 0 <= i < p.qualifiers.qualifiers@.len()
    ensures
        !has_char(enc(SetId::Path, p.namespace@), '@'), !has_char(enc(SetId::Path, p.namespace@), '?'), !has_char(enc(SetId::Path, p.namespace@), '#'),
        !has_char(enc(SetId::Segment, p.name@), '/'), !has_char(enc(SetId::Segment, p.name@), '@'), !has_char(enc(SetId::Segment, p.name@), '?'), !has_char(enc(SetId::Segment, p.name@), '#'),
        !has_char(enc(SetId::Path, p.version@), '@'), !has_char(enc(SetId::Path, p.version@), '?'), !has_char(enc(SetId::Path, p.version@), '#'),
        !has_char(enc(SetId::Query, p.qualifiers.qualifiers@[i].1@), '&'), !has_char(enc(SetId::Query, p.qualifiers.qualifiers@[i].1@), '#'),
        !has_char(enc(SetId::Query, p.qualifiers.qualifiers@[i].1@), '?'), !has_char(enc(SetId::Query, p.qualifiers.qualifiers@[i].1@), '+'),
        !has_char(enc(SetId::Fragment, p.subpath@), '#'), !has_char(enc(SetId::Fragment, p.subpath@), '?'),
{
    lemma_enc_excludes(SetId::Path, p.namespace@, '@'); lemma_enc_excludes(SetId::Path, p.namespace@, '?'); lemma_enc_excludes(SetId::Path, p.namespace@, '#');
    lemma_enc_excludes(SetId::Segment, p.name@, '/'); lemma_enc_excludes(SetId::Segment, p.name@, '@'); lemma_enc_excludes(SetId::Segment, p.name@, '?'); lemma_enc_excludes(SetId::Segment, p.name@, '#');
    lemma_enc_excludes(SetId::Path, p.version@, '@'); lemma_enc_excludes(SetId::Path, p.version@, '?'); lemma_enc_excludes(SetId::Path, p.version@, '#');
    let v = p.qualifiers.qualifiers@[i].1@;
    lemma_enc_excludes(SetId::Query, v, '&'); lemma_enc_excludes(SetId::Query, v, '#'); lemma_enc_excludes(SetId::Query, v, '?'); lemma_enc_excludes(SetId::Query, v, '+');
    lemma_enc_excludes(SetId::Fragment, p.subpath@, '#'); lemma_enc_excludes(SetId::Fragment, p.subpath@, '?');
}
