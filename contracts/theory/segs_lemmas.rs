// ---- C07 (L-seg): what a successful fold looks like ----
/// ASSUMED (A: bounded replay against the real decoder): a non-empty piece never decodes to the empty string
#[verifier::external_body]
pub proof fn axiom_dec_nonempty(p: Seq<char>)
    requires p.len() > 0, dec(p) is Some
    ensures dec(p)->Some_0.len() > 0
{ }

pub open spec fn join_segs(segs: Seq<Seq<char>>) -> Seq<char> decreases segs.len()
{ if segs.len() == 0 { Seq::<char>::empty() } else { join_push(join_segs(segs.drop_last()), segs.last()) } }

/// the decoded, non-skipped pieces of a subpath (meaningful when sub_fold is Some)
pub open spec fn sub_segs(pieces: Seq<Seq<char>>) -> Seq<Seq<char>> decreases pieces.len()
{
    if pieces.len() == 0 { Seq::<Seq<char>>::empty() }
    else if sub_skipped(pieces.last()) { sub_segs(pieces.drop_last()) }
    else { sub_segs(pieces.drop_last()).push(dec(pieces.last())->Some_0) }
}
pub open spec fn ns_segs(pieces: Seq<Seq<char>>) -> Seq<Seq<char>> decreases pieces.len()
{
    if pieces.len() == 0 { Seq::<Seq<char>>::empty() }
    else if ns_skipped(pieces.last()) { ns_segs(pieces.drop_last()) }
    else { ns_segs(pieces.drop_last()).push(dec(pieces.last())->Some_0) }
}

pub open spec fn clean_sub_seg(s: Seq<char>) -> bool { s.len() > 0 && !has_char(s, '/') && !is_dot(s) && !is_dotdot(s) }
pub open spec fn clean_ns_seg(s: Seq<char>) -> bool { s.len() > 0 && !has_char(s, '/') }

/// a successful subpath fold is the '/'-join of the decoded non-skipped pieces, every one of them clean
pub proof fn lemma_sub_fold_shape(ps: Seq<Seq<char>>)
    requires sub_fold(ps) is Some
    ensures
        sub_fold(ps)->Some_0 == join_segs(sub_segs(ps)),
        forall|i: int| 0 <= i < sub_segs(ps).len() ==> clean_sub_seg(#[trigger] sub_segs(ps)[i]),
    decreases ps.len()
{
    if ps.len() > 0 {
        let init = ps.drop_last();
        lemma_sub_fold_shape(init);
        if !sub_skipped(ps.last()) {
            axiom_dec_nonempty(ps.last());
            let d = dec(ps.last())->Some_0;
            let segs = sub_segs(ps);
            assert(segs.drop_last() == sub_segs(init));
            assert forall|i: int| 0 <= i < segs.len() implies clean_sub_seg(#[trigger] segs[i]) by {
                if i < segs.len() - 1 { assert(segs[i] == sub_segs(init)[i]); }
            }
        }
    }
}
pub proof fn lemma_ns_fold_shape(ps: Seq<Seq<char>>)
    requires ns_fold(ps) is Some
    ensures
        ns_fold(ps)->Some_0 == join_segs(ns_segs(ps)),
        forall|i: int| 0 <= i < ns_segs(ps).len() ==> clean_ns_seg(#[trigger] ns_segs(ps)[i]),
    decreases ps.len()
{
    if ps.len() > 0 {
        let init = ps.drop_last();
        lemma_ns_fold_shape(init);
        if !ns_skipped(ps.last()) {
            axiom_dec_nonempty(ps.last());
            let segs = ns_segs(ps);
            assert(segs.drop_last() == ns_segs(init));
            assert forall|i: int| 0 <= i < segs.len() implies clean_ns_seg(#[trigger] segs[i]) by {
                if i < segs.len() - 1 { assert(segs[i] == ns_segs(init)[i]); }
            }
        }
    }
}

pub proof fn lemma_first_index_prefix(a: Seq<char>, b: Seq<char>, c: char)
    requires has_char(a, c)
    ensures first_index_of(a + b, c) == first_index_of(a, c)
    decreases a.len()
{
    lemma_first_index(a, c);
    if a.len() > 0 {
        assert((a + b)[0] == a[0]);
        if a[0] != c {
            let a1 = a.subrange(1, a.len() as int);
            assert((a + b).subrange(1, (a + b).len() as int) =~= a1 + b);
            let i = choose|i: int| 0 <= i < a.len() && a[i] == c;
            assert(a1[i - 1] == c);
            lemma_first_index_prefix(a1, b, c);
        }
    }
}

pub proof fn lemma_split_no_sep(s: Seq<char>, c: char)
    requires !has_char(s, c)
    ensures split_spec(s, c) == seq![s]
{
    lemma_first_index(s, c);
}

/// appending `c` and a `c`-free tail appends one piece
pub proof fn lemma_split_append(a: Seq<char>, b: Seq<char>, c: char)
    requires !has_char(b, c)
    ensures split_spec(a + seq![c] + b, c) == split_spec(a, c).push(b)
    decreases a.len()
{
    let s = a + seq![c] + b;
    lemma_first_index(a, c);
    if !has_char(a, c) {
        lemma_split_join(a, b, c);
        assert(s.subrange(0, a.len() as int) =~= a);
        assert(s.subrange(a.len() as int + 1, s.len() as int) =~= b);
        lemma_split_no_sep(b, c);
        lemma_split_no_sep(a, c);
        assert(split_spec(s, c) =~= seq![a].push(b));
    } else {
        let i = first_index_of(a, c);
        assert(s =~= a + (seq![c] + b));
        lemma_first_index_prefix(a, seq![c] + b, c);
        let rest = a.subrange(i + 1, a.len() as int);
        assert(s.subrange(0, i) =~= a.subrange(0, i));
        assert(s.subrange(i + 1, s.len() as int) =~= rest + seq![c] + b);
        lemma_split_append(rest, b, c);
        assert(split_spec(s, c) =~= split_spec(a, c).push(b));
    }
}

pub proof fn lemma_join_nonempty(segs: Seq<Seq<char>>)
    requires segs.len() > 0, forall|i: int| 0 <= i < segs.len() ==> (#[trigger] segs[i]).len() > 0
    ensures join_segs(segs).len() > 0
{
}

/// C07: splitting the reported namespace / subpath at '/' gives back exactly the clean segments -- no empty
/// segment, hence no leading or trailing '/', and an escape neither split nor joined anything
pub proof fn lemma_split_of_join(segs: Seq<Seq<char>>)
    requires segs.len() > 0, forall|i: int| 0 <= i < segs.len() ==> (#[trigger] segs[i]).len() > 0 && !has_char(segs[i], '/')
    ensures split_spec(join_segs(segs), '/') == segs
    decreases segs.len()
{
    let init = segs.drop_last();
    if init.len() == 0 {
        assert(join_segs(segs) == segs[0]);
        lemma_split_no_sep(segs[0], '/');
        assert(segs =~= seq![segs[0]]);
    } else {
        assert forall|i: int| 0 <= i < init.len() implies (#[trigger] init[i]).len() > 0 && !has_char(init[i], '/') by { assert(init[i] == segs[i]); }
        lemma_split_of_join(init);
        lemma_join_nonempty(init);
        lemma_split_append(join_segs(init), segs.last(), '/');
        assert(init.push(segs.last()) =~= segs);
    }
}

/// C07, as stated: for every accepted subpath text
pub proof fn lemma_c07_subpath(ps: Seq<Seq<char>>)
    requires sub_fold(ps) is Some
    ensures ({
        let out = sub_fold(ps)->Some_0;
        if sub_segs(ps).len() == 0 { out.len() == 0 }      // reported as "no subpath"
        else {
            split_spec(out, '/') == sub_segs(ps)
            && forall|i: int| 0 <= i < sub_segs(ps).len() ==> clean_sub_seg(#[trigger] sub_segs(ps)[i])
        }
    })
{
    lemma_sub_fold_shape(ps);
    if sub_segs(ps).len() > 0 { lemma_split_of_join(sub_segs(ps)); }
}
pub proof fn lemma_c07_namespace(ps: Seq<Seq<char>>)
    requires ns_fold(ps) is Some
    ensures ({
        let out = ns_fold(ps)->Some_0;
        if ns_segs(ps).len() == 0 { out.len() == 0 }
        else {
            split_spec(out, '/') == ns_segs(ps)
            && forall|i: int| 0 <= i < ns_segs(ps).len() ==> clean_ns_seg(#[trigger] ns_segs(ps)[i])
        }
    })
{
    lemma_ns_fold_shape(ps);
    if ns_segs(ps).len() > 0 { lemma_split_of_join(ns_segs(ps)); }
}
