// ---- the checksum text is a fixpoint of parse + serialise (C01 / C10 / C12) ----
// A-validated per char (exhaustive over all scalar values): lower-casing never produces ',' from another character
#[verifier::external_body]
pub proof fn axiom_lower_no_comma(c: char)
    requires c != ','
    ensures !has_char(u_to_lower(c), ',')
{ }

pub proof fn lemma_lower_seq_no_comma(s: Seq<char>)
    requires !has_char(s, ',')
    ensures !has_char(lower_seq(s), ',')
    decreases s.len()
{
    if s.len() > 0 {
        let w = s.drop_last();
        if has_char(w, ',') { let i = choose|i: int| 0 <= i < w.len() && w[i] == ','; assert(s[i] == ','); }
        lemma_lower_seq_no_comma(w);
        if s.last() == ',' { assert(s[s.len() - 1] == ','); }
        axiom_lower_no_comma(s.last());
        lemma_has_char_concat(lower_seq(w), u_to_lower(s.last()), ',');
    }
}

pub open spec fn lower_vals(es: VS) -> VS { es.map_values(|e: (Seq<char>, Seq<char>)| (e.0, lower_ascii_seq(e.1))) }
pub open spec fn pieces_of(es: VS) -> Seq<Seq<char>> { es.map_values(|e: (Seq<char>, Seq<char>)| entry_text(e.0, e.1)) }
/// the map a listing denotes
pub open spec fn map_of(es: VS) -> Map<Seq<char>, Seq<char>> decreases es.len() {
    if es.len() == 0 { Map::<Seq<char>, Seq<char>>::empty() } else { map_of(es.drop_last()).insert(es.last().0, es.last().1) }
}
pub open spec fn keys_distinct(es: VS) -> bool { forall|i: int, j: int| 0 <= i < j < es.len() ==> #[trigger] es[i].0 != #[trigger] es[j].0 }
pub open spec fn keys_fixed(es: VS) -> bool { forall|i: int| 0 <= i < es.len() ==> lower_seq(#[trigger] es[i].0) == es[i].0 && !has_char(es[i].0, ',') }

pub proof fn lemma_hex_lower(v: Seq<char>)
    requires hex_ok(v)
    ensures hex_ok(lower_ascii_seq(v)), lower_ascii_seq(lower_ascii_seq(v)) == lower_ascii_seq(v),
        !has_char(lower_ascii_seq(v), ':'), !has_char(lower_ascii_seq(v), ',')
{
    let l = lower_ascii_seq(v);
    assert forall|i: int| 0 <= i < l.len() implies ascii_hex_c(#[trigger] l[i]) && !ascii_upper_c(l[i]) && l[i] != ':' && l[i] != ',' by { assert(ascii_hex_c(v[i])); }
    lemma_lower_ascii_fixed(l);
    if has_char(l, ':') { let i = choose|i: int| 0 <= i < l.len() && l[i] == ':'; }
    if has_char(l, ',') { let i = choose|i: int| 0 <= i < l.len() && l[i] == ','; }
}

pub proof fn lemma_map_of_keys(es: VS, k: Seq<char>)
    ensures map_of(es).contains_key(k) <==> exists|i: int| 0 <= i < es.len() && #[trigger] es[i].0 == k
    decreases es.len()
{
    if es.len() > 0 {
        let w = es.drop_last();
        lemma_map_of_keys(w, k);
        if exists|i: int| 0 <= i < w.len() && #[trigger] w[i].0 == k { let i = choose|i: int| 0 <= i < w.len() && #[trigger] w[i].0 == k; assert(es[i].0 == k); }
        if exists|i: int| 0 <= i < es.len() && #[trigger] es[i].0 == k {
            let i = choose|i: int| 0 <= i < es.len() && #[trigger] es[i].0 == k;
            if i < w.len() { assert(w[i].0 == k); }
        }
    }
}

pub proof fn lemma_map_of_is_listing(es: VS)
    requires keys_distinct(es)
    ensures is_listing(es, map_of(es))
    decreases es.len()
{
    reveal(is_listing);
    if es.len() > 0 {
        let w = es.drop_last();
        assert(keys_distinct(w)) by { assert forall|i: int, j: int| 0 <= i < j < w.len() implies #[trigger] w[i].0 != #[trigger] w[j].0 by { assert(es[i].0 != es[j].0); } }
        lemma_map_of_is_listing(w);
        let m = map_of(es);
        assert forall|i: int| 0 <= i < es.len() implies m.contains_key(#[trigger] es[i].0) && m[es[i].0] == es[i].1 by {
            if i < w.len() { assert(w[i] == es[i]); assert(es[i].0 != es[es.len() - 1].0); }
        }
        assert forall|k: Seq<char>| m.contains_key(k) implies exists|i: int| 0 <= i < es.len() && #[trigger] es[i].0 == k by {
            if k == es.last().0 { assert(es[es.len() - 1].0 == k); }
            else { let i = choose|i: int| 0 <= i < w.len() && #[trigger] w[i].0 == k; assert(es[i].0 == k); }
        }
    }
}

/// splitting the text of a non-empty listing at ',' gives back the entry texts (no key, no hex value contains ',')
pub proof fn lemma_split_listing(es: VS)
    requires es.len() > 0, keys_fixed(es), all_hex_ok(es)
    ensures split_spec(listing_text(es), ',') == pieces_of(es)
    decreases es.len()
{
    let last = es.last();
    lemma_hex_lower(last.1);
    lemma_single_excludes(':', ',');
    lemma_has_char_concat(last.0, seq![':'], ',');
    lemma_has_char_concat(last.0 + seq![':'], lower_ascii_seq(last.1), ',');
    let e = entry_text(last.0, last.1);
    assert(!has_char(e, ','));
    if es.len() == 1 {
        lemma_split_no_sep(e, ',');
        assert(pieces_of(es) =~= seq![e]);
    } else {
        let w = es.drop_last();
        assert(keys_fixed(w)) by { assert forall|i: int| 0 <= i < w.len() implies lower_seq(#[trigger] w[i].0) == w[i].0 && !has_char(w[i].0, ',') by { assert(w[i] == es[i]); } }
        assert(all_hex_ok(w)) by { assert forall|i: int| 0 <= i < w.len() implies hex_ok(#[trigger] w[i].1) by { assert(w[i] == es[i]); } }
        lemma_split_listing(w);
        lemma_split_append(listing_text(w), e, ',');
        assert(pieces_of(es) =~= pieces_of(w).push(e));
    }
}

/// folding the entry texts of a listing with distinct lower-case keys gives the map of the listing with lower-cased hex
pub proof fn lemma_fold_listing(es: VS)
    requires keys_fixed(es), keys_distinct(es), all_hex_ok(es)
    ensures ck_fold(pieces_of(es)) == Some(map_of(lower_vals(es)))
    decreases es.len()
{
    if es.len() == 0 {
        assert(pieces_of(es) =~= Seq::<Seq<char>>::empty());
        assert(lower_vals(es) =~= Seq::<(Seq<char>, Seq<char>)>::empty());
    } else {
        let w = es.drop_last();
        assert(keys_fixed(w)) by { assert forall|i: int| 0 <= i < w.len() implies lower_seq(#[trigger] w[i].0) == w[i].0 && !has_char(w[i].0, ',') by { assert(w[i] == es[i]); } }
        assert(all_hex_ok(w)) by { assert forall|i: int| 0 <= i < w.len() implies hex_ok(#[trigger] w[i].1) by { assert(w[i] == es[i]); } }
        assert(keys_distinct(w)) by { assert forall|i: int, j: int| 0 <= i < j < w.len() implies #[trigger] w[i].0 != #[trigger] w[j].0 by { assert(es[i].0 != es[j].0); } }
        lemma_fold_listing(w);
        let last = es.last();
        let lv = lower_ascii_seq(last.1);
        lemma_hex_lower(last.1);
        let p = entry_text(last.0, last.1);
        lemma_rsplit_join(last.0, lv, ':');
        assert(last_index_of(p, ':') == last.0.len());
        assert(p.subrange(0, last.0.len() as int) =~= last.0);
        assert(p.subrange(last.0.len() as int + 1, p.len() as int) =~= lv);
        assert(pieces_of(es).drop_last() =~= pieces_of(w));
        assert(pieces_of(es).last() == p);
        assert(lower_vals(es).drop_last() =~= lower_vals(w));
        assert(lower_vals(es).last() == (last.0, lv));
        let m0 = map_of(lower_vals(w));
        lemma_map_of_keys(lower_vals(w), last.0);
        if m0.contains_key(last.0) {
            let i = choose|i: int| 0 <= i < lower_vals(w).len() && #[trigger] lower_vals(w)[i].0 == last.0;
            assert(lower_vals(w)[i].0 == es[i].0);
            assert(es[i].0 != es[es.len() - 1].0);
        }
    }
}

pub proof fn lemma_lower_vals_text(es: VS)
    requires all_hex_ok(es)
    ensures listing_text(lower_vals(es)) == listing_text(es), all_hex_ok(lower_vals(es))
    decreases es.len()
{
    assert forall|i: int| 0 <= i < lower_vals(es).len() implies hex_ok(#[trigger] lower_vals(es)[i].1) by { lemma_hex_lower(es[i].1); }
    if es.len() > 0 {
        lemma_hex_lower(es.last().1);
        if es.len() == 1 {
            assert(lower_vals(es)[0] == (es[0].0, lower_ascii_seq(es[0].1)));
        } else {
            let w = es.drop_last();
            assert(all_hex_ok(w)) by { assert forall|i: int| 0 <= i < w.len() implies hex_ok(#[trigger] w[i].1) by { assert(w[i] == es[i]); } }
            lemma_lower_vals_text(w);
            assert(lower_vals(es).drop_last() =~= lower_vals(w));
            assert(lower_vals(es).last() == (es.last().0, lower_ascii_seq(es.last().1)));
        }
    }
}

/// C12 / C01: for entries `es` in ascending key order with lower-case, comma-free keys and hex values, the text parses
/// back to the same keys with lower-cased hex, and that map's canonical text is the same text
pub proof fn theorem_checksum_text_fixpoint(es: VS, m: Map<Seq<char>, Seq<char>>)
    requires es.len() > 0, is_listing(es, m), sorted_by_key(es), keys_fixed(es), all_hex_ok(es)
    ensures
        canon_text(m) == listing_text(es),
        ck_parse(canon_text(m)) is Some,
        ck_text(ck_parse(canon_text(m))->Some_0) == Some(canon_text(m)),
{
    lemma_canon_listing(es, m);
    assert(keys_distinct(es)) by { reveal(is_listing); }
    lemma_split_listing(es);
    lemma_fold_listing(es);
    let les = lower_vals(es);
    let m2 = map_of(les);
    assert(ck_parse(canon_text(m)) == Some(m2));
    // the lowered listing is the sorted listing of m2
    assert(keys_distinct(les)) by { assert forall|i: int, j: int| 0 <= i < j < les.len() implies #[trigger] les[i].0 != #[trigger] les[j].0 by { assert(es[i].0 != es[j].0); } }
    lemma_map_of_is_listing(les);
    assert(sorted_by_key(les)) by {
        reveal(sorted_by_key);
        assert forall|i: int, j: int| 0 <= i < j < les.len() implies str_lt(#[trigger] les[i].0, #[trigger] les[j].0) by { assert(str_lt(es[i].0, es[j].0)); }
    }
    lemma_canon_listing(les, m2);
    lemma_lower_vals_text(es);
    assert(all_values_hex(m2)) by {
        reveal(is_listing);
        assert forall|k: Seq<char>| m2.contains_key(k) implies hex_ok(#[trigger] m2[k]) by {
            let i = choose|i: int| 0 <= i < les.len() && #[trigger] les[i].0 == k;
            assert(m2[les[i].0] == les[i].1);
        }
    }
}

// ---- every map ck_parse returns has a sorted listing with lower-case, comma-free keys ----
pub proof fn lemma_lt_trichotomy(a: Seq<char>, b: Seq<char>)
    ensures str_lt(a, b) || a == b || str_lt(b, a)
{
    lemma_lex_eq(a, b);
    lemma_lex_flip(a, b);
}

pub open spec fn ins_pos(es: VS, k: Seq<char>) -> int decreases es.len() {
    if es.len() == 0 { 0 } else { ins_pos(es.drop_last(), k) + if str_lt(es.last().0, k) { 1int } else { 0int } }
}

pub proof fn lemma_ins_pos(es: VS, k: Seq<char>)
    requires sorted_by_key(es), forall|i: int| 0 <= i < es.len() ==> (#[trigger] es[i]).0 != k
    ensures 0 <= ins_pos(es, k) <= es.len(),
        forall|j: int| 0 <= j < ins_pos(es, k) ==> str_lt(#[trigger] es[j].0, k),
        forall|j: int| ins_pos(es, k) <= j < es.len() ==> str_lt(k, #[trigger] es[j].0),
    decreases es.len()
{
    reveal(sorted_by_key);
    if es.len() > 0 {
        let w = es.drop_last();
        assert(sorted_by_key(w)) by { assert forall|i: int, j: int| 0 <= i < j < w.len() implies str_lt(#[trigger] w[i].0, #[trigger] w[j].0) by { assert(str_lt(es[i].0, es[j].0)); } }
        assert forall|i: int| 0 <= i < w.len() implies (#[trigger] w[i]).0 != k by { assert(w[i] == es[i]); }
        lemma_ins_pos(w, k);
        let last = es.last();
        assert(es[es.len() - 1].0 != k);
        lemma_lt_trichotomy(last.0, k);
        if str_lt(last.0, k) {
            // everything is below k
            assert forall|j: int| 0 <= j < es.len() implies str_lt(#[trigger] es[j].0, k) by {
                if j < w.len() { assert(str_lt(es[j].0, es[es.len() - 1].0)); lemma_lex_trans(es[j].0, last.0, k); }
            }
            if ins_pos(w, k) < w.len() {
                let j = ins_pos(w, k);
                assert(str_lt(k, w[j].0));
                assert(w[j] == es[j]);
                lemma_lt_asym(k, es[j].0);
            }
            assert(ins_pos(w, k) == w.len());
        } else {
            assert(str_lt(k, last.0));
            assert forall|j: int| 0 <= j < ins_pos(es, k) implies str_lt(#[trigger] es[j].0, k) by { assert(w[j] == es[j]); }
            assert forall|j: int| ins_pos(es, k) <= j < es.len() implies str_lt(k, #[trigger] es[j].0) by { if j < w.len() { assert(w[j] == es[j]); } }
        }
    }
}

pub proof fn lemma_sorted_insert(es: VS, m: Map<Seq<char>, Seq<char>>, k: Seq<char>, v: Seq<char>)
    requires is_listing(es, m), sorted_by_key(es), !m.contains_key(k)
    ensures is_listing(es.insert(ins_pos(es, k), (k, v)), m.insert(k, v)), sorted_by_key(es.insert(ins_pos(es, k), (k, v)))
{
    reveal(is_listing);
    reveal(sorted_by_key);
    assert forall|i: int| 0 <= i < es.len() implies (#[trigger] es[i]).0 != k by { assert(m.contains_key(es[i].0)); }
    lemma_ins_pos(es, k);
    let p = ins_pos(es, k);
    let w = es.insert(p, (k, v));
    let m2 = m.insert(k, v);
    assert forall|i: int, j: int| 0 <= i < j < w.len() implies str_lt(#[trigger] w[i].0, #[trigger] w[j].0) by {
        if i < p && j == p { assert(w[i] == es[i]); }
        else if i < p && j > p { assert(w[i] == es[i]); assert(w[j] == es[j - 1]); assert(str_lt(es[i].0, es[j - 1].0)); }
        else if i == p { assert(w[j] == es[j - 1]); }
        else if i > p { assert(w[i] == es[i - 1]); assert(w[j] == es[j - 1]); assert(str_lt(es[i - 1].0, es[j - 1].0)); }
        else { assert(w[i] == es[i]); assert(w[j] == es[j]); assert(str_lt(es[i].0, es[j].0)); }
    }
    assert forall|i: int, j: int| 0 <= i < j < w.len() implies #[trigger] w[i].0 != #[trigger] w[j].0 by {
        assert(str_lt(w[i].0, w[j].0)); lemma_lt_irrefl(w[i].0);
    }
    assert forall|i: int| 0 <= i < w.len() implies m2.contains_key(#[trigger] w[i].0) && m2[w[i].0] == w[i].1 by {
        if i < p { assert(w[i] == es[i]); assert(m.contains_key(es[i].0)); }
        else if i > p { assert(w[i] == es[i - 1]); assert(m.contains_key(es[i - 1].0)); }
    }
    assert forall|kk: Seq<char>| m2.contains_key(kk) implies exists|i: int| 0 <= i < w.len() && #[trigger] w[i].0 == kk by {
        if kk == k { assert(w[p].0 == kk); }
        else {
            let i = choose|i: int| 0 <= i < es.len() && #[trigger] es[i].0 == kk;
            if i < p { assert(w[i] == es[i]); assert(w[i].0 == kk); } else { assert(w[i + 1] == es[i]); assert(w[i + 1].0 == kk); }
        }
    }
}

pub proof fn lemma_ck_fold_sorted_listing(ps: Seq<Seq<char>>)
    requires ck_fold(ps) is Some, forall|i: int| 0 <= i < ps.len() ==> !has_char(#[trigger] ps[i], ',')
    ensures exists|es: VS| #![auto] is_listing(es, ck_fold(ps)->Some_0) && sorted_by_key(es) && keys_fixed(es) && es.len() == ps.len()
    decreases ps.len()
{
    if ps.len() == 0 {
        let es = Seq::<(Seq<char>, Seq<char>)>::empty();
        assert(is_listing(es, ck_fold(ps)->Some_0)) by { reveal(is_listing); }
        assert(sorted_by_key(es)) by { reveal(sorted_by_key); }
        assert(keys_fixed(es));
    } else {
        let w = ps.drop_last();
        assert forall|i: int| 0 <= i < w.len() implies !has_char(#[trigger] w[i], ',') by { assert(w[i] == ps[i]); }
        lemma_ck_fold_sorted_listing(w);
        let m0 = ck_fold(w)->Some_0;
        let es0 = choose|es: VS| #![auto] is_listing(es, m0) && sorted_by_key(es) && keys_fixed(es) && es.len() == w.len();
        let p = ps.last();
        let i = last_index_of(p, ':');
        lemma_last_index(p, ':');
        let raw = p.subrange(0, i);
        let k = lower_seq(raw);
        let v = p.subrange(i + 1, p.len() as int);
        assert(!has_char(p, ','));
        if has_char(raw, ',') { let j = choose|j: int| 0 <= j < raw.len() && raw[j] == ','; assert(p[j] == ','); }
        lemma_lower_seq_no_comma(raw);
        lemma_lower_seq_idem(raw);
        lemma_sorted_insert(es0, m0, k, v);
        let es = es0.insert(ins_pos(es0, k), (k, v));
        reveal(is_listing);
        assert forall|j: int| 0 <= j < es0.len() implies (#[trigger] es0[j]).0 != k by { assert(m0.contains_key(es0[j].0)); }
        lemma_ins_pos(es0, k);
        assert(keys_fixed(es)) by {
            let q = ins_pos(es0, k);
            assert forall|j: int| 0 <= j < es.len() implies lower_seq(#[trigger] es[j].0) == es[j].0 && !has_char(es[j].0, ',') by {
                if j < q { assert(es[j] == es0[j]); } else if j > q { assert(es[j] == es0[j - 1]); } else { assert(es[j] == (k, v)); }
            }
        }
    }
}

/// C12 / C01 / C10, as used by build(): the text build() stores for a checksum is a fixpoint of what build() does to it
pub proof fn theorem_checksum_rebuild(x: Seq<char>)
    requires ck_parse(x) is Some, ck_text(ck_parse(x)->Some_0) is Some
    ensures ({
        let t = ck_text(ck_parse(x)->Some_0)->Some_0;
        t.len() > 0 && ck_parse(t) is Some && ck_text(ck_parse(t)->Some_0) == Some(t)
    })
{
    let ps = split_spec(x, ',');
    lemma_split_pieces_no_sep(x, ',');
    lemma_split_nonempty(x, ',');
    lemma_ck_fold_sorted_listing(ps);
    let m = ck_parse(x)->Some_0;
    let es = choose|es: VS| #![auto] is_listing(es, m) && sorted_by_key(es) && keys_fixed(es) && es.len() == ps.len();
    assert(all_hex_ok(es)) by { reveal(is_listing); assert forall|i: int| 0 <= i < es.len() implies hex_ok(#[trigger] es[i].1) by { assert(m.contains_key(es[i].0)); } }
    theorem_checksum_text_fixpoint(es, m);
    lemma_listing_text_nonempty(es);
}

// ---- C04: the stored checksum text is free of ASCII upper-case letters ----
pub proof fn lemma_lower_seq_len(s: Seq<char>)
    ensures lower_seq(s).len() >= s.len()
    decreases s.len()
{
    if s.len() > 0 { lemma_lower_seq_len(s.drop_last()); axiom_lower_nonempty(s.last()); }
}

/// a text that lower-casing leaves alone contains no ASCII upper-case letter
pub proof fn lemma_lower_fixed_no_upper(k: Seq<char>)
    requires lower_seq(k) == k
    ensures forall|i: int| 0 <= i < k.len() ==> !ascii_upper_c(#[trigger] k[i])
    decreases k.len()
{
    broadcast use axiom_ascii_to_lower;
    if k.len() > 0 {
        let w = k.drop_last();
        let c = k.last();
        lemma_lower_seq_len(w);
        axiom_lower_nonempty(c);
        let lw = lower_seq(w);
        let lc = u_to_lower(c);
        assert(lower_seq(k) == lw + lc);
        assert(lw.len() == w.len() && lc.len() == 1);
        assert(lw =~= k.subrange(0, w.len() as int)) by { assert forall|i: int| 0 <= i < lw.len() implies lw[i] == k[i] by { assert((lw + lc)[i] == lw[i]); } }
        assert(k.subrange(0, w.len() as int) =~= w);
        lemma_lower_fixed_no_upper(w);
        assert((lw + lc)[w.len() as int] == lc[0]);
        assert(lc[0] == c);
        if ascii_upper_c(c) { assert(is_ascii_c(c)); assert(u_to_lower(c) == seq![ascii_lower(c)]); assert(false); }
        assert forall|i: int| 0 <= i < k.len() implies !ascii_upper_c(#[trigger] k[i]) by { if i < w.len() { assert(k[i] == w[i]); } }
    }
}

pub open spec fn no_ascii_upper(s: Seq<char>) -> bool { forall|i: int| 0 <= i < s.len() ==> !ascii_upper_c(#[trigger] s[i]) }

pub proof fn lemma_no_upper_concat(a: Seq<char>, b: Seq<char>)
    requires no_ascii_upper(a), no_ascii_upper(b)
    ensures no_ascii_upper(a + b)
{
    assert forall|i: int| 0 <= i < (a + b).len() implies !ascii_upper_c(#[trigger] (a + b)[i]) by {
        if i < a.len() { assert((a + b)[i] == a[i]); } else { assert((a + b)[i] == b[i - a.len()]); }
    }
}

pub proof fn lemma_listing_text_no_upper(es: VS)
    requires keys_fixed(es), all_hex_ok(es)
    ensures no_ascii_upper(listing_text(es))
    decreases es.len()
{
    if es.len() > 0 {
        let last = es.last();
        lemma_lower_fixed_no_upper(last.0);
        lemma_hex_lower(last.1);
        let lv = lower_ascii_seq(last.1);
        assert(no_ascii_upper(lv)) by { assert forall|i: int| 0 <= i < lv.len() implies !ascii_upper_c(#[trigger] lv[i]) by { assert(ascii_hex_c(last.1[i])); } }
        assert(no_ascii_upper(seq![':'])); assert(no_ascii_upper(seq![',']));
        lemma_no_upper_concat(last.0, seq![':']);
        lemma_no_upper_concat(last.0 + seq![':'], lv);
        if es.len() > 1 {
            let w = es.drop_last();
            assert(keys_fixed(w)) by { assert forall|i: int| 0 <= i < w.len() implies lower_seq(#[trigger] w[i].0) == w[i].0 && !has_char(w[i].0, ',') by { assert(w[i] == es[i]); } }
            assert(all_hex_ok(w)) by { assert forall|i: int| 0 <= i < w.len() implies hex_ok(#[trigger] w[i].1) by { assert(w[i] == es[i]); } }
            lemma_listing_text_no_upper(w);
            lemma_no_upper_concat(listing_text(w), seq![',']);
            lemma_no_upper_concat(listing_text(w) + seq![','], entry_text(last.0, last.1));
        }
    }
}

/// C04 (checksum clause): the text build() stores is the ','-joined listing `algorithm:hex` of entries in strictly ascending
/// algorithm order, each with an even number of (lower-case) hex digits, and contains no ASCII upper-case letter
pub proof fn theorem_checksum_text_shape(x: Seq<char>)
    requires ck_parse(x) is Some, ck_text(ck_parse(x)->Some_0) is Some
    ensures exists|es: VS| #![auto] es.len() > 0 && sorted_by_key(es) && all_hex_ok(es) && is_listing(es, ck_parse(x)->Some_0)
        && ck_text(ck_parse(x)->Some_0)->Some_0 == listing_text(es) && no_ascii_upper(listing_text(es))
{
    let ps = split_spec(x, ',');
    lemma_split_pieces_no_sep(x, ',');
    lemma_split_nonempty(x, ',');
    lemma_ck_fold_sorted_listing(ps);
    let m = ck_parse(x)->Some_0;
    let es = choose|es: VS| #![auto] is_listing(es, m) && sorted_by_key(es) && keys_fixed(es) && es.len() == ps.len();
    assert(all_hex_ok(es)) by { reveal(is_listing); assert forall|i: int| 0 <= i < es.len() implies hex_ok(#[trigger] es[i].1) by { assert(m.contains_key(es[i].0)); } }
    lemma_canon_listing(es, m);
    lemma_listing_text_no_upper(es);
}
