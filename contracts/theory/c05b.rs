// ---- C05, part 2: each listed defect, spelled in any way, at any position ----

/// scheme: a string that does not begin with `pkg:` is refused with UnsupportedUrlScheme, for every type parameter
pub proof fn theorem_c05_scheme<T: FromStr + PurlShape>(s: Seq<char>, r: Result<GenericPurl<T>, <T as PurlShape>::Error>)
    where <T as PurlShape>::Error: From<<T as FromStr>::Err>
    requires !has_prefix(s, "pkg:"@), parse_post::<T>(s, r),
    ensures refused_with::<T>(r, ParseError::UnsupportedUrlScheme)
{ }

/// no type: nothing (but optional qualifiers / subpath) follows `pkg:` and its slashes
pub open spec fn text_no_type(lead: nat, q: Option<Seq<char>>, sub: Option<Seq<char>>) -> Seq<char> {
    "pkg:"@ + slashes(lead) + opt_pre('?', q) + opt_pre('#', sub)
}
pub proof fn lemma_trim_slashes_stop(n: nat, b: Seq<char>)
    requires b.len() == 0 || b[0] != '/'
    ensures trim_start_spec(slashes(n) + b, '/') == b
    decreases n
{
    let s = slashes(n) + b;
    if n == 0 { assert(s =~= b); }
    else {
        assert(s[0] == '/');
        assert(s.subrange(1, s.len() as int) =~= slashes((n - 1) as nat) + b);
        lemma_trim_slashes_stop((n - 1) as nat, b);
    }
}
pub proof fn theorem_c05_no_type<T: FromStr + PurlShape>(lead: nat, q: Option<Seq<char>>, sub: Option<Seq<char>>, r: Result<GenericPurl<T>, <T as PurlShape>::Error>)
    where <T as PurlShape>::Error: From<<T as FromStr>::Err>
    requires
        (match sub { Some(x) => !has_char(x, '#') && sub_fold(split_spec(trim_spec(x, '/'), '/')) is Some, None => !has_char(opt_pre('?', q), '#') }),
        (match q { Some(x) => !has_char(x, '?') && dq_fold(split_spec(x, '&'), Seq::<(Seq<char>, Seq<char>)>::empty()) is Ok, None => true }),
        parse_post::<T>(text_no_type(lead, q, sub), r),
    ensures refused_with::<T>(r, ParseError::MissingRequiredField(PurlField::PackageType))
{
    lemma_lits();
    let s = text_no_type(lead, q, sub);
    let l = opt_pre('?', q);
    let b = l + opt_pre('#', sub);
    let e = Seq::<char>::empty();
    assert(s.subrange(0, "pkg:"@.len() as int) =~= "pkg:"@);
    assert(s.subrange("pkg:"@.len() as int, s.len() as int) =~= slashes(lead) + b);
    assert(b.len() == 0 || b[0] != '/') by {
        if b.len() > 0 { match q { Some(x) => { assert(b[0] == '?'); }, None => { match sub { Some(y) => { assert(b[0] == '#'); }, None => {} } } } }
    }
    lemma_trim_slashes_stop(lead, b);
    match sub {
        Some(x) => { assert(b =~= l + seq!['#'] + x); lemma_rsplit_some(l, x, '#'); },
        None => { assert(b =~= l); lemma_rsplit_none(l, '#'); },
    }
    match q {
        Some(x) => { assert(l =~= e + seq!['?'] + x); lemma_rsplit_some(e, x, '?'); },
        None => { assert(l =~= e); assert(!has_char(e, '?')); lemma_rsplit_none(e, '?'); },
    }
}

/// no name: the type is not followed by any '/'
pub open spec fn text_no_name(lead: nat, ty: Seq<char>, q: Option<Seq<char>>, sub: Option<Seq<char>>) -> Seq<char> {
    "pkg:"@ + slashes(lead) + ty + opt_pre('?', q) + opt_pre('#', sub)
}
pub proof fn theorem_c05_no_name_separator<T: FromStr + PurlShape>(lead: nat, ty: Seq<char>, q: Option<Seq<char>>, sub: Option<Seq<char>>, r: Result<GenericPurl<T>, <T as PurlShape>::Error>)
    where <T as PurlShape>::Error: From<<T as FromStr>::Err>
    requires
        ty.len() > 0, !has_char(ty, '/'),
        (match sub { Some(x) => !has_char(x, '#') && sub_fold(split_spec(trim_spec(x, '/'), '/')) is Some, None => !has_char(ty + opt_pre('?', q), '#') }),
        (match q { Some(x) => !has_char(x, '?') && dq_fold(split_spec(x, '&'), Seq::<(Seq<char>, Seq<char>)>::empty()) is Ok, None => !has_char(ty, '?') }),
        parse_post::<T>(text_no_name(lead, ty, q, sub), r),
    ensures refused_with::<T>(r, ParseError::MissingRequiredField(PurlField::Name))
{
    lemma_lits();
    let s = text_no_name(lead, ty, q, sub);
    let l = ty + opt_pre('?', q);
    let b = l + opt_pre('#', sub);
    assert(s.subrange(0, "pkg:"@.len() as int) =~= "pkg:"@);
    assert(s.subrange("pkg:"@.len() as int, s.len() as int) =~= slashes(lead) + b);
    assert(b[0] == ty[0]);
    if ty[0] == '/' { assert(has_char(ty, '/')); }
    lemma_trim_slashes(lead, b);
    match sub {
        Some(x) => { assert(b =~= l + seq!['#'] + x); lemma_rsplit_some(l, x, '#'); },
        None => { assert(b =~= l); lemma_rsplit_none(l, '#'); },
    }
    match q {
        Some(x) => { assert(l =~= ty + seq!['?'] + x); lemma_rsplit_some(ty, x, '?'); },
        None => { assert(l =~= ty); lemma_rsplit_none(ty, '?'); },
    }
    lemma_first_index(ty, '/');
}

// ---- the components, one defect each, everything else fine ----
pub open spec fn sub_fine(w: Raw) -> bool { match w.sub { None => true, Some(x) => sub_fold(split_spec(trim_spec(x, '/'), '/')) is Some } }
pub open spec fn q_fine(w: Raw) -> bool { match w.q { None => true, Some(x) => dq_fold(split_spec(x, '&'), Seq::<(Seq<char>, Seq<char>)>::empty()) is Ok } }
pub open spec fn ver_fine(w: Raw) -> bool { match w.ver { None => true, Some(x) => dec(x) is Some } }
pub open spec fn ns_fine(w: Raw) -> bool { match w.ns { None => true, Some(x) => ns_fold(split_spec(trim_spec(x, '/'), '/')) is Some } }

/// a type that is syntactically invalid (percent-encoded included: '%' is not a type character)
pub proof fn theorem_c05_bad_type(w: Raw)
    requires raw_ok_gen(w), !valid_type(w.ty), sub_fine(w), q_fine(w)
    ensures raw_error(w) == Some(ParseError::InvalidPackageType)
{ }
pub proof fn lemma_encoded_type_invalid(ty: Seq<char>)
    requires has_char(ty, '%')
    ensures !valid_type(ty)
{
    let i = choose|i: int| 0 <= i < ty.len() && ty[i] == '%';
    assert(!type_char(ty[i]));
}
/// a bad escape (or a hidden '/') in the subpath: reported whatever else is wrong
pub proof fn theorem_c05_bad_subpath(w: Raw)
    requires raw_ok_gen(w), !sub_fine(w)
    ensures raw_error(w) == Some(ParseError::InvalidEscape)
{ }
/// a defect among the qualifiers
pub proof fn theorem_c05_bad_qualifiers(w: Raw, d: DqErr)
    requires raw_ok_gen(w), sub_fine(w), w.q is Some, dq_fold(split_spec(w.q->Some_0, '&'), Seq::<(Seq<char>, Seq<char>)>::empty()) == Err::<KV, DqErr>(d)
    ensures raw_error(w) == Some(dq_parse_err(d))
{ }
pub proof fn theorem_c05_bad_version(w: Raw)
    requires raw_ok_gen(w), valid_type(w.ty), sub_fine(w), q_fine(w), !ver_fine(w)
    ensures raw_error(w) == Some(ParseError::InvalidEscape)
{ }
pub proof fn theorem_c05_bad_namespace(w: Raw)
    requires raw_ok_gen(w), valid_type(w.ty), sub_fine(w), q_fine(w), ver_fine(w), !ns_fine(w)
    ensures raw_error(w) == Some(ParseError::InvalidEscape)
{ }
pub proof fn theorem_c05_bad_name(w: Raw)
    requires raw_ok_gen(w), valid_type(w.ty), sub_fine(w), q_fine(w), ver_fine(w), ns_fine(w), dec(w.name) is None
    ensures raw_error(w) == Some(ParseError::InvalidEscape)
{ }
/// no name: the name text decodes to nothing (`pkg:t/`, `pkg:t/ns/`, `pkg:t/@1`)
pub proof fn theorem_c05_empty_name(w: Raw)
    requires raw_ok_gen(w), valid_type(w.ty), sub_fine(w), q_fine(w), ver_fine(w), ns_fine(w), dec(w.name) == Some(Seq::<char>::empty())
    ensures raw_error(w) == Some(ParseError::MissingRequiredField(PurlField::Name))
{ }
pub proof fn theorem_c05_bad_checksum(w: Raw)
    requires raw_ok_gen(w), valid_type(w.ty), sub_fine(w), q_fine(w), ver_fine(w), ns_fine(w), dec(w.name) is Some, dec(w.name)->Some_0.len() > 0,
        ck_defect(phase_a_raw_gen(w)->Ok_0.kv)
    ensures raw_error(w) == Some(ParseError::InvalidQualifier)
{ }

// ---- what makes a component defective: pieces and items ----
/// a namespace piece that does not decode, or hides a '/' behind an escape, at ANY position among ANY other pieces
pub proof fn lemma_c05_ns_piece(ps: Seq<Seq<char>>, i: int)
    requires slash_free(ps), 0 <= i < ps.len(), !ns_skipped(ps[i]), ns_bad(ps[i])
    ensures ns_fold(split_spec(trim_spec(join_with(ps, '/'), '/'), '/')) is None
{
    let x = join_with(ps, '/');
    lemma_split_of_join_with(ps, '/');
    lemma_fold_trim_end(trim_start_spec(x, '/'));
    lemma_fold_trim_start(x);
    let t = ps.take(i + 1);
    assert(t.last() == ps[i]);
    lemma_ns_fold_none(ps, i + 1);
}
/// the same for the subpath; an escaped '.' or '..' segment is refused as well
pub proof fn lemma_c05_sub_piece(ps: Seq<Seq<char>>, i: int)
    requires slash_free(ps), 0 <= i < ps.len(), !sub_skipped(ps[i]), sub_bad(ps[i])
    ensures sub_fold(split_spec(trim_spec(join_with(ps, '/'), '/'), '/')) is None
{
    let x = join_with(ps, '/');
    lemma_split_of_join_with(ps, '/');
    lemma_fold_trim_end(trim_start_spec(x, '/'));
    lemma_fold_trim_start(x);
    let t = ps.take(i + 1);
    assert(t.last() == ps[i]);
    lemma_sub_fold_none(ps, i + 1);
}

/// one defective item after any well-formed items and before anything at all: the fold reports that item's defect
pub proof fn lemma_c05_item(pre: Seq<(Seq<char>, Seq<char>)>, bad: Seq<char>, post: Seq<Seq<char>>, d: DqErr)
    requires items_ok(pre),
        dq_step(dq_fold(item_texts(pre), Seq::<(Seq<char>, Seq<char>)>::empty())->Ok_0, bad) == Err::<KV, DqErr>(d),
    ensures dq_fold(item_texts(pre) + seq![bad] + post, Seq::<(Seq<char>, Seq<char>)>::empty()) == Err::<KV, DqErr>(d)
{
    let e = Seq::<(Seq<char>, Seq<char>)>::empty();
    let all = item_texts(pre) + seq![bad] + post;
    let k = pre.len() as int + 1;
    lemma_dq_spelled(pre);
    assert(all.take(k) =~= item_texts(pre).push(bad));
    assert(all.take(k).drop_last() =~= item_texts(pre));
    assert(all.take(k).last() == bad);
    lemma_dq_fold_err(all, e, k);
}
/// the defects of one item, as the statement lists them
pub proof fn lemma_c05_item_kinds(acc: KV, k: Seq<char>, v: Seq<char>, bad: Seq<char>)
    ensures
        // no '='
        !has_char(bad, '=') ==> dq_step(acc, bad) == Err::<KV, DqErr>(DqErr::Qualifier),
        // an invalid key: empty, percent-encoded, any character outside the key alphabet
        !has_char(k, '=') && !valid_key(k) ==> dq_step(acc, item_text((k, v))) == Err::<KV, DqErr>(DqErr::Qualifier),
        // a key already present, in any letter case
        valid_key(k) && kv_has_key(acc, lower_ascii_seq(k)) ==> dq_step(acc, item_text((k, v))) == Err::<KV, DqErr>(DqErr::Qualifier),
        // a value that does not decode
        valid_key(k) && !kv_has_key(acc, lower_ascii_seq(k)) && dec(v) is None ==> dq_step(acc, item_text((k, v))) == Err::<KV, DqErr>(DqErr::Escape),
        // the forms of an invalid key named in the statement
        k.len() == 0 ==> !valid_key(k), has_char(k, '%') ==> !valid_key(k),
{
    lemma_first_index(bad, '=');
    let t = item_text((k, v));
    if !has_char(k, '=') {
        lemma_split_join(k, v, '=');
        assert(t.subrange(0, k.len() as int) =~= k);
        assert(t.subrange(k.len() as int + 1, t.len() as int) =~= v);
    }
    if valid_key(k) { lemma_valid_key_chars(k); }
    if has_char(k, '%') { let i = choose|i: int| 0 <= i < k.len() && k[i] == '%'; assert(!key_char(k[i])); }
}

// ---- the typed PURL: errors wrapped in PackageError::Parse; unknown type; Maven without a namespace ----
pub open spec fn raw_error_typed(w: Raw, t: PackageType) -> Option<PackageError> {
    match phase_a_raw_gen(w) {
        Err(e) => Some(PackageError::Parse(e)),
        Ok(a) => match phase_b_raw(w) {
            Err(e) => Some(PackageError::Parse(e)),
            Ok(b) =>
                if t == PackageType::Maven && all_char(b.ns, '/') { Some(PackageError::MissingRequiredField(PurlField::Namespace)) }
                else if b.name.len() == 0 { Some(PackageError::Parse(ParseError::MissingRequiredField(PurlField::Name))) }
                else if ck_defect(a.kv) { Some(PackageError::Parse(ParseError::InvalidQualifier)) }
                else { None },
        },
    }
}

pub proof fn theorem_c05_raw_typed(w: Raw, t: PackageType, r: Result<GenericPurl<PackageType>, PackageError>)
    requires raw_ok_gen(w), lower_ascii_seq(w.ty) == type_name(t), parse_post::<PackageType>(text_raw(w), r),
    ensures match raw_error_typed(w, t) { Some(e) => r == Err::<GenericPurl<PackageType>, PackageError>(e), None => r is Ok }
{
    let s = text_raw(w);
    theorem_raw_phase_a_gen(w);
    if phase_a(s) is Ok {
        lemma_has_char_concat(w.ty + seq!['/'], path_raw(w), '?');
        assert(raw_ok(w));
        theorem_raw_phase_b(w);
        let a = phase_a(s)->Ok_0;
        let cr = choose|cr: Result<PackageType, UnsupportedPackageType>| #[trigger] PackageType::from_str_rel(a.ty, cr) && match cr {
            Err(ce) => r is Err,
            Ok(t0) => match phase_b(a.rest) {
                Err(e) => r == Err::<GenericPurl<PackageType>, PackageError>(PackageError::Parse(e)),
                Ok(b) => exists|p0: PurlParts, t1: PackageType, p1: PurlParts, fr: Result<(), PackageError>|
                    parts_are(p0, a, b) && #[trigger] PackageType::finish_rel(t0, p0, t1, p1, fr) && build_post::<PackageType>(t1, p1, fr, r),
            },
        };
        assert(cr is Ok);
        let t0 = cr->Ok_0;
        lemma_type_name_facts(t0, t);
        assert(t0 == t);
        if phase_b(a.rest) is Ok {
            let b = phase_b(a.rest)->Ok_0;
            let (p0, t1, p1, fr) = choose|p0: PurlParts, t1: PackageType, p1: PurlParts, fr: Result<(), PackageError>|
                parts_are(p0, a, b) && #[trigger] PackageType::finish_rel(t0, p0, t1, p1, fr) && build_post::<PackageType>(t1, p1, fr, r);
            assert(pkg_finish_rel(t0, p0, t1, p1, fr));
            if t == PackageType::Maven && all_char(b.ns, '/') {
            } else {
                assert(fr is Ok);
                if b.name.len() > 0 {
                    match t {
                        PackageType::NuGet => { lemma_lower_seq_nonempty(p0.name@); },
                        PackageType::PyPI => { lemma_pypi_norm_nonempty(p0.name@); },
                        _ => {},
                    }
                    assert(p1.name@.len() > 0);
                    let q = p1.qualifiers.qualifiers@;
                    assert(kvs(q).len() == q.len());
                    match w.q { Some(x) => { lemma_dq_fold_sorted(split_spec(x, '&')); }, None => {}, }
                    assert forall|j: int| 0 <= j < q.len() implies (#[trigger] q[j]).1@.len() > 0 by { assert(kvs(q)[j] == (q[j].0.0@, q[j].1@)); }
                    lemma_nonempty_id(q);
                    lemma_checksum_key();
                    let ck = checksum_key();
                    if has_key(q, ck) {
                        let p = pos_of(q, ck);
                        lemma_has_pair_pos_key(q, ck);
                        let x = q[p].1@;
                        assert(has_pair(q, ck, x));
                        lemma_kvs_has_pair(q, ck, x);
                        if ck_canon(x) is None { assert(ck_defect(a.kv)); }
                        else if ck_defect(a.kv) {
                            let y = choose|y: Seq<char>| #[trigger] kv_has_pair(a.kv, ck, y) && ck_canon(y) is None;
                            lemma_kvs_has_pair(q, ck, y);
                            let i = choose|i: int| 0 <= i < q.len() && #[trigger] q[i].0.0@ == ck && q[i].1@ == y;
                            lemma_sorted_unique(q, i, p);
                        }
                    } else if ck_defect(a.kv) {
                        let y = choose|y: Seq<char>| #[trigger] kv_has_pair(a.kv, ck, y) && ck_canon(y) is None;
                        lemma_kvs_has_pair(q, ck, y);
                        let i = choose|i: int| 0 <= i < q.len() && #[trigger] q[i].0.0@ == ck && q[i].1@ == y;
                    }
                } else {
                    match t {
                        PackageType::NuGet => { assert(lower_seq(p0.name@) =~= Seq::<char>::empty()); },
                        PackageType::PyPI => { assert(pypi_norm(p0.name@) =~= Seq::<char>::empty()); },
                        _ => {},
                    }
                    assert(p1.name@.len() == 0);
                }
            }
        }
    }
}

/// a well-formed type other than the seven known ones: UnsupportedType, whatever follows the type
pub proof fn theorem_c05_unknown_type(w: Raw, r: Result<GenericPurl<PackageType>, PackageError>)
    requires raw_ok_gen(w), valid_type(w.ty), sub_fine(w), q_fine(w),
        forall|t: PackageType| lower_ascii_seq(w.ty) != #[trigger] type_name(t),
        parse_post::<PackageType>(text_raw(w), r),
    ensures r == Err::<GenericPurl<PackageType>, PackageError>(PackageError::UnsupportedType)
{
    theorem_raw_phase_a_gen(w);
    theorem_c08_unknown(text_raw(w), r);
}

/// the malformations of a checksum the statement lists: an entry without ':', an algorithm repeated in any letter case, a value
/// with an odd number of digits or a digit that is not hexadecimal -- each makes the canonicalisation fail
pub proof fn lemma_c05_checksum_kinds(x: Seq<char>)
    ensures ({
        let ps = split_spec(x, ',');
        ((exists|i: int| 0 <= i < ps.len() && !piece_ok(#[trigger] ps[i])) ==> ck_canon(x) is None)
        && ((exists|i: int, j: int| 0 <= i < j < ps.len() && piece_key(#[trigger] ps[i]) == piece_key(#[trigger] ps[j])) ==> ck_canon(x) is None)
        && ((exists|i: int| 0 <= i < ps.len() && !hex_ok(piece_val(#[trigger] ps[i]))) ==> ck_canon(x) is None)
    })
{
    let ps = split_spec(x, ',');
    lemma_ck_fold_char(ps);
    if ck_fold(ps) is Some {
        let m = ck_fold(ps)->Some_0;
        if exists|i: int| 0 <= i < ps.len() && !hex_ok(piece_val(#[trigger] ps[i])) {
            let i = choose|i: int| 0 <= i < ps.len() && !hex_ok(piece_val(#[trigger] ps[i]));
            assert(m.contains_key(piece_key(ps[i])) && m[piece_key(ps[i])] == piece_val(ps[i]));
            assert(!all_values_hex(m));
        }
    }
}
