// ---- the parser's two phases as specification functions (C02, C05, C07, C14) ----
pub open spec fn has_prefix(s: Seq<char>, p: Seq<char>) -> bool { s.len() >= p.len() && s.subrange(0, p.len() as int) == p }

/// right-to-left split at the LAST occurrence of `c`: (left part, right part if `c` occurs)
pub open spec fn rsplit_at(s: Seq<char>, c: char) -> (Seq<char>, Option<Seq<char>>) {
    if last_index_of(s, c) < 0 { (s, None) }
    else { (s.subrange(0, last_index_of(s, c)), Some(s.subrange(last_index_of(s, c) + 1, s.len() as int))) }
}

pub struct PhaseA { pub ty: Seq<char>, pub rest: Seq<char>, pub sub: Seq<char>, pub kv: KV }
pub struct PhaseB { pub ns: Seq<char>, pub name: Seq<char>, pub version: Seq<char> }

pub open spec fn dq_parse_err(d: DqErr) -> ParseError { match d { DqErr::Qualifier => ParseError::InvalidQualifier, DqErr::Escape => ParseError::InvalidEscape } }

/// everything up to the type conversion: scheme, leading slashes, subpath after the last '#', qualifiers after the last '?',
/// type up to the first '/', type syntax
pub open spec fn phase_a(s: Seq<char>) -> Result<PhaseA, ParseError> {
    if !has_prefix(s, "pkg:"@) { Err(ParseError::UnsupportedUrlScheme) } else {
        let s1 = trim_start_spec(s.subrange("pkg:"@.len() as int, s.len() as int), '/');
        let (s2, sub_raw) = rsplit_at(s1, '#');
        let sub = match sub_raw { None => Some(Seq::<char>::empty()), Some(x) => sub_fold(split_spec(trim_spec(x, '/'), '/')) };
        if sub is None { Err(ParseError::InvalidEscape) } else {
            let (s3, q_raw) = rsplit_at(s2, '?');
            let kv = match q_raw { None => Ok::<KV, DqErr>(Seq::<(Seq<char>, Seq<char>)>::empty()), Some(x) => dq_fold(split_spec(x, '&'), Seq::<(Seq<char>, Seq<char>)>::empty()) };
            match kv {
                Err(d) => Err(dq_parse_err(d)),
                Ok(kvv) =>
                    if s3.len() == 0 { Err(ParseError::MissingRequiredField(PurlField::PackageType)) }
                    else if first_index_of(s3, '/') < 0 { Err(ParseError::MissingRequiredField(PurlField::Name)) }
                    else {
                        let ty = s3.subrange(0, first_index_of(s3, '/'));
                        if !valid_type(ty) { Err(ParseError::InvalidPackageType) }
                        else { Ok(PhaseA { ty, rest: s3.subrange(first_index_of(s3, '/') + 1, s3.len() as int), sub: sub->Some_0, kv: kvv }) }
                    },
            }
        }
    }
}

/// after the conversion: version after the last '@', namespace before the last '/', name
pub open spec fn phase_b(rest: Seq<char>) -> Result<PhaseB, ParseError> {
    let (r1, ver_raw) = rsplit_at(rest, '@');
    let version = match ver_raw { None => Some(Seq::<char>::empty()), Some(x) => dec(x) };
    if version is None { Err(ParseError::InvalidEscape) } else {
        let (ns_raw, name_raw) = if last_index_of(r1, '/') < 0 { (None::<Seq<char>>, r1) }
            else { (Some(r1.subrange(0, last_index_of(r1, '/'))), r1.subrange(last_index_of(r1, '/') + 1, r1.len() as int)) };
        let ns = match ns_raw { None => Some(Seq::<char>::empty()), Some(x) => ns_fold(split_spec(trim_spec(x, '/'), '/')) };
        if ns is None { Err(ParseError::InvalidEscape) }
        else if dec(name_raw) is None { Err(ParseError::InvalidEscape) }
        else { Ok(PhaseB { ns: ns->Some_0, name: dec(name_raw)->Some_0, version: version->Some_0 }) }
    }
}

