// ---- Qualifiers::try_from_iter (C11: construction from pairs) ----
// R5 (`for` over a caller-supplied iterator): the sequence the argument yields is named by an uninterpreted function;
// ASSUMED about the caller's iterator: it is finite and lawful (vstd's prophetic iterator laws) -- an endless iterator of
// distinct valid keys makes the function run out of memory, which no contract can exclude.
pub uninterp spec fn yielded<I: IntoIterator>(i: I) -> Seq<I::Item>;
#[verifier::external_body]
pub fn x_into_iter<I: IntoIterator>(i: I) -> (r: I::IntoIter)
    ensures
        vstd::std_specs::iter::IteratorSpec::remaining(&r) == yielded(i),
        vstd::std_specs::iter::IteratorSpec::obeys_prophetic_iter_laws(&r),
        vstd::std_specs::iter::IteratorSpec::decrease(&r) is Some,
{ i.into_iter() }
/// `iter.size_hint().0`: only a capacity hint, any value
#[verifier::external_body]
pub fn x_size_hint_lower<I: Iterator>(i: &I) -> (r: usize)
{ i.size_hint().0 }

pub open spec fn item_key<K: AsRef<str>, V>(all: Seq<(K, V)>, i: int) -> Seq<char> { lower_ascii_seq(all[i].0.text()) }

/// the first n keys are pairwise different once ASCII-lower-cased
pub open spec fn tfi_distinct<K: AsRef<str>, V>(all: Seq<(K, V)>, n: int) -> bool {
    forall|i: int, j: int| 0 <= i < j < n ==> #[trigger] item_key(all, i) != #[trigger] item_key(all, j)
}
/// each of the first n items is in the list under its lower-cased key, with its value
pub open spec fn tfi_present<K: AsRef<str>, V>(all: Seq<(K, V)>, n: int, q: Seq<(QualifierKey, SmallString)>) -> bool
    where SmallString: From<V>
{
    forall|i: int| 0 <= i < n ==> valid_key((#[trigger] all[i]).0.text()) && has_key(q, item_key(all, i))
            && (<SmallString as vstd::std_specs::convert::FromSpec<V>>::obeys_from_spec() ==>
                    has_pair(q, item_key(all, i), <SmallString as vstd::std_specs::convert::FromSpec<V>>::from_spec(all[i].1)@))
}
/// ... and nothing else is in it
pub open spec fn tfi_origin<K: AsRef<str>, V>(all: Seq<(K, V)>, n: int, q: Seq<(QualifierKey, SmallString)>) -> bool {
    forall|p: int| 0 <= p < q.len() ==> exists|i: int| 0 <= i < n && (#[trigger] q[p]).0.0@ == #[trigger] item_key(all, i)
}
/// the list holds exactly the first n items: each under its lower-cased key with its value, and nothing else
pub open spec fn tfi_inv<K: AsRef<str>, V>(all: Seq<(K, V)>, n: int, q: Seq<(QualifierKey, SmallString)>) -> bool
    where SmallString: From<V>
{
    wf_seq(q) && q.len() == n && tfi_present(all, n, q) && tfi_origin(all, n, q)
}

pub proof fn lemma_tfi_step_distinct<K: AsRef<str>, V>(all: Seq<(K, V)>, n: int, q: Seq<(QualifierKey, SmallString)>)
    where SmallString: From<V>
    requires tfi_present(all, n, q), tfi_distinct(all, n), 0 <= n < all.len(), !has_key(q, item_key(all, n))
    ensures tfi_distinct(all, n + 1)
{
    assert forall|i: int, j: int| 0 <= i < j < n + 1 implies #[trigger] item_key(all, i) != #[trigger] item_key(all, j) by {
        if j == n { assert(valid_key(all[i].0.text()) && has_key(q, item_key(all, i))); }
    }
}

pub proof fn lemma_tfi_step_present<K: AsRef<str>, V>(all: Seq<(K, V)>, n: int, q: Seq<(QualifierKey, SmallString)>, ix: int, kv: (QualifierKey, SmallString))
    where SmallString: From<V>
    requires
        tfi_present(all, n, q), 0 <= n < all.len(), 0 <= ix <= q.len(),
        valid_key(all[n].0.text()), kv.0.0@ == item_key(all, n),
        <SmallString as vstd::std_specs::convert::FromSpec<V>>::obeys_from_spec() ==> kv.1 == <SmallString as vstd::std_specs::convert::FromSpec<V>>::from_spec(all[n].1),
    ensures tfi_present(all, n + 1, q.insert(ix, kv))
{
    let w = q.insert(ix, kv);
    assert forall|i: int| 0 <= i < n + 1 implies valid_key((#[trigger] all[i]).0.text()) && has_key(w, item_key(all, i))
            && (<SmallString as vstd::std_specs::convert::FromSpec<V>>::obeys_from_spec() ==>
                    has_pair(w, item_key(all, i), <SmallString as vstd::std_specs::convert::FromSpec<V>>::from_spec(all[i].1)@)) by {
        if i == n {
            assert(w[ix] == kv);
        } else {
            assert(has_key(q, item_key(all, i)));
            let p = choose|p: int| 0 <= p < q.len() && #[trigger] q[p].0.0@ == item_key(all, i);
            if p < ix { assert(w[p] == q[p]); } else { assert(w[p + 1] == q[p]); }
            if <SmallString as vstd::std_specs::convert::FromSpec<V>>::obeys_from_spec() {
                let val = <SmallString as vstd::std_specs::convert::FromSpec<V>>::from_spec(all[i].1)@;
                assert(has_pair(q, item_key(all, i), val));
                let p2 = choose|p2: int| 0 <= p2 < q.len() && #[trigger] q[p2].0.0@ == item_key(all, i) && q[p2].1@ == val;
                if p2 < ix { assert(w[p2] == q[p2]); } else { assert(w[p2 + 1] == q[p2]); }
            }
        }
    }
}

pub proof fn lemma_tfi_step_origin<K: AsRef<str>, V>(all: Seq<(K, V)>, n: int, q: Seq<(QualifierKey, SmallString)>, ix: int, kv: (QualifierKey, SmallString))
    requires tfi_origin(all, n, q), 0 <= n < all.len(), 0 <= ix <= q.len(), kv.0.0@ == item_key(all, n),
    ensures tfi_origin(all, n + 1, q.insert(ix, kv))
{
    let w = q.insert(ix, kv);
    assert forall|p: int| 0 <= p < w.len() implies exists|i: int| 0 <= i < n + 1 && (#[trigger] w[p]).0.0@ == #[trigger] item_key(all, i) by {
        if p == ix { assert(w[p].0.0@ == item_key(all, n)); }
        else if p < ix {
            assert(w[p] == q[p]);
            let i = choose|i: int| 0 <= i < n && q[p].0.0@ == #[trigger] item_key(all, i);
            assert(w[p].0.0@ == item_key(all, i));
        } else {
            assert(w[p] == q[p - 1]);
            let i = choose|i: int| 0 <= i < n && q[p - 1].0.0@ == #[trigger] item_key(all, i);
            assert(w[p].0.0@ == item_key(all, i));
        }
    }
}

pub proof fn lemma_tfi_step<K: AsRef<str>, V>(all: Seq<(K, V)>, n: int, q: Seq<(QualifierKey, SmallString)>, ix: int, kv: (QualifierKey, SmallString))
    where SmallString: From<V>
    requires
        tfi_inv(all, n, q), tfi_distinct(all, n), 0 <= n < all.len(), 0 <= ix <= q.len(),
        valid_key(all[n].0.text()), kv.0.0@ == item_key(all, n), !has_key(q, item_key(all, n)),
        wf_seq(q.insert(ix, kv)),
        <SmallString as vstd::std_specs::convert::FromSpec<V>>::obeys_from_spec() ==> kv.1 == <SmallString as vstd::std_specs::convert::FromSpec<V>>::from_spec(all[n].1),
    ensures
        tfi_inv(all, n + 1, q.insert(ix, kv)), tfi_distinct(all, n + 1),
{
    lemma_tfi_step_distinct(all, n, q);
    lemma_tfi_step_present(all, n, q, ix, kv);
    lemma_tfi_step_origin(all, n, q, ix, kv);
}
