// ---- R9: stub of std's TryFrom with a relation describing what an implementation returns ----
pub trait TryFrom<T>: Sized {
    type Error;
    spec fn try_from_rel(t: T, r: Result<Self, Self::Error>) -> bool;
    fn try_from(t: T) -> (r: Result<Self, Self::Error>)
        ensures Self::try_from_rel(t, r);
}
pub assume_specification<T, E> [Option::<Result<T, E>>::transpose] (o: Option<Result<T, E>>) -> (r: Result<Option<T>, E>)
    ensures match o {
        None => r == Ok::<Option<T>, E>(None),
        Some(Ok(x)) => r == Ok::<Option<T>, E>(Some(x)),
        Some(Err(e)) => r == Err::<Option<T>, E>(e),
    };
