// ---- C16: the serde form is the string form -- round trip as a theorem over the contracts of the three impl blocks ----
// `serialize` hands the format exactly `canon_spec(type, parts)` as one string value (contract `ser_text`, group `serde`);
// `deserialize` answers a string value `v` with `de_post(v, r)` (group `serde`). What the FORMAT does with that one string value
// (quoting, escaping, reading it back as the same string) is the data format's business: dependency, exercised by B with serde_json.

/// a value the parser returned, serialised, the string handed back unchanged to `deserialize`: accepted, same type, same field
/// texts, same canonical string
pub proof fn theorem_c16_plain<T: FromStr + PurlShape, E: Error>(s: Seq<char>, g: GenericPurl<T>, r: Result<GenericPurl<T>, E>)
    where <T as PurlShape>::Error: From<<T as FromStr>::Err>
    requires
        plain_shape::<T>(),
        parse_post::<T>(s, Ok::<GenericPurl<T>, <T as PurlShape>::Error>(g)),
        de_post::<T, E>(canon_spec(g.package_type.type_text(), g.parts), r),
    ensures
        r is Ok,
        r->Ok_0.package_type.type_text() == g.package_type.type_text(),
        same_texts(r->Ok_0.parts, g.parts),
        canon_spec(r->Ok_0.package_type.type_text(), r->Ok_0.parts) == canon_spec(g.package_type.type_text(), g.parts),
{
    let c = canon_spec(g.package_type.type_text(), g.parts);
    let pr = choose|pr: Result<GenericPurl<T>, <T as PurlShape>::Error>| #[trigger] parse_post::<T>(c, pr) && match pr {
        Ok(p) => r == Ok::<GenericPurl<T>, E>(p),
        Err(e) => r == Err::<GenericPurl<T>, E>(E::custom_spec(e)),
    };
    theorem_c01_plain::<T>(s, g, pr);
}

pub proof fn theorem_c16_typed<E: Error>(s: Seq<char>, g: GenericPurl<PackageType>, r: Result<GenericPurl<PackageType>, E>)
    requires
        parse_post::<PackageType>(s, Ok::<GenericPurl<PackageType>, PackageError>(g)),
        de_post::<PackageType, E>(canon_spec(g.package_type.type_text(), g.parts), r),
    ensures
        r is Ok,
        r->Ok_0.package_type == g.package_type,
        same_texts(r->Ok_0.parts, g.parts),
        canon_spec(r->Ok_0.package_type.type_text(), r->Ok_0.parts) == canon_spec(g.package_type.type_text(), g.parts),
{
    let c = canon_spec(g.package_type.type_text(), g.parts);
    let pr = choose|pr: Result<GenericPurl<PackageType>, PackageError>| #[trigger] parse_post::<PackageType>(c, pr) && match pr {
        Ok(p) => r == Ok::<GenericPurl<PackageType>, E>(p),
        Err(e) => r == Err::<GenericPurl<PackageType>, E>(E::custom_spec(e)),
    };
    theorem_c01_typed(s, g, pr);
}

/// a value the builder returned: accepted, and equal up to the insignificant segments the builder does not remove itself (C09)
pub proof fn theorem_c16_built_plain<T: FromStr + PurlShape, E: Error>(t0: T, p0: PurlParts, t1: T, p1: PurlParts, fr: Result<(), <T as PurlShape>::Error>,
                                                                        g: GenericPurl<T>, r: Result<GenericPurl<T>, E>)
    where <T as PurlShape>::Error: From<<T as FromStr>::Err>
    requires
        plain_shape::<T>(),
        wf_seq(p0.qualifiers.qualifiers@),
        T::finish_rel(t0, p0, t1, p1, fr), build_post::<T>(t1, p1, fr, Ok::<GenericPurl<T>, <T as PurlShape>::Error>(g)),
        de_post::<T, E>(canon_spec(g.package_type.type_text(), g.parts), r),
    ensures
        r is Ok,
        r->Ok_0.package_type.type_text() == g.package_type.type_text(),
        r->Ok_0.parts.name@ == g.parts.name@, r->Ok_0.parts.version@ == g.parts.version@,
        r->Ok_0.parts.namespace@ == sig_ns(g.parts.namespace@), r->Ok_0.parts.subpath@ == sig_sub(g.parts.subpath@),
        kvs(r->Ok_0.parts.qualifiers.qualifiers@) == kvs(g.parts.qualifiers.qualifiers@),
{
    let c = canon_spec(g.package_type.type_text(), g.parts);
    let pr = choose|pr: Result<GenericPurl<T>, <T as PurlShape>::Error>| #[trigger] parse_post::<T>(c, pr) && match pr {
        Ok(p) => r == Ok::<GenericPurl<T>, E>(p),
        Err(e) => r == Err::<GenericPurl<T>, E>(E::custom_spec(e)),
    };
    theorem_c09_plain::<T>(t0, p0, t1, p1, fr, g, pr);
}

pub proof fn theorem_c16_built_typed<E: Error>(t0: PackageType, p0: PurlParts, t1: PackageType, p1: PurlParts, fr: Result<(), PackageError>,
                                               g: GenericPurl<PackageType>, r: Result<GenericPurl<PackageType>, E>)
    requires
        wf_seq(p0.qualifiers.qualifiers@),
        PackageType::finish_rel(t0, p0, t1, p1, fr), build_post::<PackageType>(t1, p1, fr, Ok::<GenericPurl<PackageType>, PackageError>(g)),
        de_post::<PackageType, E>(canon_spec(g.package_type.type_text(), g.parts), r),
    ensures
        r is Ok,
        r->Ok_0.package_type == g.package_type,
        r->Ok_0.parts.name@ == g.parts.name@, r->Ok_0.parts.version@ == g.parts.version@,
        r->Ok_0.parts.namespace@ == sig_ns(g.parts.namespace@), r->Ok_0.parts.subpath@ == sig_sub(g.parts.subpath@),
        kvs(r->Ok_0.parts.qualifiers.qualifiers@) == kvs(g.parts.qualifiers.qualifiers@),
{
    let c = canon_spec(g.package_type.type_text(), g.parts);
    let pr = choose|pr: Result<GenericPurl<PackageType>, PackageError>| #[trigger] parse_post::<PackageType>(c, pr) && match pr {
        Ok(p) => r == Ok::<GenericPurl<PackageType>, E>(p),
        Err(e) => r == Err::<GenericPurl<PackageType>, E>(E::custom_spec(e)),
    };
    theorem_c09_typed(t0, p0, t1, p1, fr, g, pr);
}

/// the refusing side: a string the parser refuses is refused by `deserialize`, with the parser's error handed to the format
pub proof fn theorem_c16_refused<T: FromStr + PurlShape, E: Error>(v: Seq<char>, pr: Result<GenericPurl<T>, <T as PurlShape>::Error>, r: Result<GenericPurl<T>, E>)
    where <T as PurlShape>::Error: From<<T as FromStr>::Err>
    requires
        de_post::<T, E>(v, r),
        r is Err,
    ensures
        exists|pr: Result<GenericPurl<T>, <T as PurlShape>::Error>| #[trigger] parse_post::<T>(v, pr) && pr is Err && r == Err::<GenericPurl<T>, E>(E::custom_spec(pr->Err_0)),
{
    let pr = choose|pr: Result<GenericPurl<T>, <T as PurlShape>::Error>| #[trigger] parse_post::<T>(v, pr) && match pr {
        Ok(p) => r == Ok::<GenericPurl<T>, E>(p),
        Err(e) => r == Err::<GenericPurl<T>, E>(E::custom_spec(e)),
    };
    assert(parse_post::<T>(v, pr) && pr is Err && r == Err::<GenericPurl<T>, E>(E::custom_spec(pr->Err_0)));
}
