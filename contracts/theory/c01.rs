// ---- C01 / C10 for the type-agnostic PURL, as a theorem over the specification functions ----
// from_str is proved to satisfy parse_post (group parse), Display::fmt to write canon_spec (group fmt), the three built-in
// string shapes to satisfy shape_rel (group lib_shape). What is proved here: every value parse_post allows for a string,
// printed by canon_spec, is accepted again by parse_post with the same type text and the same field texts, and prints the
// same. Excluded (left to the bounded suites): values carrying a `checksum` qualifier (the text fixpoint of
// ck_parse / ck_text is not proved) and the PackageType instance.

/// a type parameter that behaves like the built-in string shapes:
///  (H1) the conversion accepts every text and the value reports that text    [std: String::from_str, Cow::from, SmartString::from]
///  (H2) the hook validates and ASCII-lower-cases the type text and leaves the parts alone   [proved: group lib_shape, shape_rel]
pub open spec fn plain_shape<T: FromStr + PurlShape>() -> bool {
    (forall|s: Seq<char>, cr: Result<T, <T as FromStr>::Err>| #[trigger] T::from_str_rel(s, cr) ==> cr is Ok && cr->Ok_0.type_text() == s)
    && (forall|t0: T, p0: PurlParts, t1: T, p1: PurlParts, fr: Result<(), <T as PurlShape>::Error>| #[trigger] T::finish_rel(t0, p0, t1, p1, fr) ==>
            p1 == p0 && (valid_type(t0.type_text()) ==> fr is Ok && t1.type_text() == lower_ascii_seq(t0.type_text()))
            && (!valid_type(t0.type_text()) ==> fr is Err))
}

pub open spec fn same_texts(p: PurlParts, q: PurlParts) -> bool {
    p.namespace@ == q.namespace@ && p.name@ == q.name@ && p.version@ == q.version@ && p.subpath@ == q.subpath@
    && kvs(p.qualifiers.qualifiers@) == kvs(q.qualifiers.qualifiers@)
}

pub proof fn lemma_quals_text_congr(v: Seq<(QualifierKey, SmallString)>, w: Seq<(QualifierKey, SmallString)>)
    requires kvs(v) == kvs(w)
    ensures quals_text(v) == quals_text(w)
    decreases v.len()
{
    assert(v.len() == kvs(v).len() && w.len() == kvs(w).len());
    if v.len() > 0 {
        assert(kvs(v.drop_last()) =~= kvs(v).drop_last());
        assert(kvs(w.drop_last()) =~= kvs(w).drop_last());
        lemma_quals_text_congr(v.drop_last(), w.drop_last());
        assert(kvs(v).last() == kvs(w).last());
        assert(kvs(v).last() == (v.last().0.0@, v.last().1@));
        assert(kvs(w).last() == (w.last().0.0@, w.last().1@));
    }
}

/// the canonical string depends on the texts only
pub proof fn lemma_canon_congr(ty: Seq<char>, p: PurlParts, q: PurlParts)
    requires same_texts(p, q)
    ensures canon_spec(ty, p) == canon_spec(ty, q)
{
    lemma_quals_text_congr(p.qualifiers.qualifiers@, q.qualifiers.qualifiers@);
}

pub proof fn lemma_valid_type_lower(t: Seq<char>)
    requires valid_type(t)
    ensures valid_type(lower_ascii_seq(t)), lower_ascii_seq(lower_ascii_seq(t)) == lower_ascii_seq(t)
{
    broadcast use axiom_ascii_to_lower;
    let l = lower_ascii_seq(t);
    assert forall|i: int| 0 <= i < l.len() implies type_char(#[trigger] l[i]) && !ascii_upper_c(l[i]) by { assert(type_char(t[i])); }
    assert(valid_type(l));
    lemma_lower_ascii_fixed(l);
}

pub proof fn lemma_kvs_no_key(v: Seq<(QualifierKey, SmallString)>, w: Seq<(QualifierKey, SmallString)>, k: Seq<char>)
    requires kvs(v) == kvs(w), !has_key(v, k)
    ensures !has_key(w, k)
{
    assert(kvs(v).len() == v.len() && kvs(w).len() == w.len());
    if has_key(w, k) {
        let i = choose|i: int| 0 <= i < w.len() && #[trigger] w[i].0.0@ == k;
        assert(kvs(w)[i] == (w[i].0.0@, w[i].1@));
        assert(kvs(v)[i] == (v[i].0.0@, v[i].1@));
        assert(v[i].0.0@ == k);
    }
}

pub proof fn lemma_kvs_values_nonempty(v: Seq<(QualifierKey, SmallString)>, w: Seq<(QualifierKey, SmallString)>)
    requires kvs(v) == kvs(w), forall|j: int| 0 <= j < v.len() ==> (#[trigger] v[j]).1@.len() > 0
    ensures forall|j: int| 0 <= j < w.len() ==> (#[trigger] w[j]).1@.len() > 0
{
    assert(kvs(v).len() == v.len() && kvs(w).len() == w.len());
    assert forall|j: int| 0 <= j < w.len() implies (#[trigger] w[j]).1@.len() > 0 by {
        assert(kvs(w)[j] == (w[j].0.0@, w[j].1@));
        assert(kvs(v)[j] == (v[j].0.0@, v[j].1@));
        assert(v[j].1@.len() > 0);
    }
}


/// the checksum text, if there is one, is a fixpoint of build()'s canonicalisation
pub open spec fn ck_stable(q: Seq<(QualifierKey, SmallString)>) -> bool {
    has_key(q, checksum_key()) ==> ({
        let t = q[pos_of(q, checksum_key())].1@;
        t.len() > 0 && ck_parse(t) is Some && ck_text(ck_parse(t)->Some_0) == Some(t)
    })
}
/// the qualifiers of a value handed out (C04): invariant, no empty value, canonical checksum
pub open spec fn normal_quals(q: Seq<(QualifierKey, SmallString)>) -> bool {
    wf_seq(q) && (forall|i: int| 0 <= i < q.len() ==> (#[trigger] q[i]).1@.len() > 0) && ck_stable(q)
}

/// a key that is present sits at its sorted position
pub proof fn lemma_has_pair_pos_key(v: Seq<(QualifierKey, SmallString)>, k: Seq<char>)
    requires keys_sorted(v), has_key(v, k)
    ensures 0 <= pos_of(v, k) < v.len(), v[pos_of(v, k)].0.0@ == k
{
    let i = choose|i: int| 0 <= i < v.len() && #[trigger] v[i].0.0@ == k;
    assert(has_pair(v, k, v[i].1@));
    lemma_has_pair_pos(v, k);
}

pub proof fn lemma_normal_quals_congr(a: Seq<(QualifierKey, SmallString)>, b: Seq<(QualifierKey, SmallString)>)
    requires kvs(a) == kvs(b), wf_seq(b), normal_quals(a)
    ensures normal_quals(b)
{
    lemma_kvs_values_nonempty(a, b);
    lemma_kvs_pos_of(a, checksum_key());
    lemma_kvs_pos_of(b, checksum_key());
    if has_key(b, checksum_key()) {
        let p = pos_of(b, checksum_key());
        lemma_has_pair_pos_key(b, checksum_key());
        lemma_has_pair_pos_key(a, checksum_key());
        assert(kvs(a)[p] == (a[p].0.0@, a[p].1@));
        assert(kvs(b)[p] == (b[p].0.0@, b[p].1@));
    }
}

/// what build() hands out when the hook succeeded (from build_post alone): the fields the hook left, normal qualifiers
pub proof fn lemma_first_build<T: PurlShape>(t1: T, p1: PurlParts, fr: Result<(), T::Error>, g: GenericPurl<T>)
    requires fr is Ok, wf_seq(p1.qualifiers.qualifiers@), build_post::<T>(t1, p1, fr, Ok::<GenericPurl<T>, T::Error>(g)),
    ensures
        g.package_type == t1,
        g.parts.namespace == p1.namespace, g.parts.name == p1.name, g.parts.version == p1.version, g.parts.subpath == p1.subpath,
        g.parts.name@.len() > 0, normal_quals(g.parts.qualifiers.qualifiers@),
{
    let q2 = nonempty_part(p1.qualifiers.qualifiers@);
    let gq = g.parts.qualifiers.qualifiers@;
    lemma_checksum_key();
    lemma_nonempty_wf(p1.qualifiers.qualifiers@);
    lemma_nonempty_subset(p1.qualifiers.qualifiers@);
    if has_key(q2, checksum_key()) {
        let p = pos_of(q2, checksum_key());
        lemma_has_pair_pos_key(q2, checksum_key());
        let x = q2[p].1@;
        let t = gq[p].1@;
        lemma_update_value_keeps_wf(q2, p, gq[p].1);
        assert(gq == q2.update(p, (q2[p].0, gq[p].1)));
        assert forall|i: int| 0 <= i < gq.len() implies (#[trigger] gq[i]).1@.len() > 0 by { if i != p { assert(gq[i] == q2[i]); } }
        assert(gq[p].0.0@ == checksum_key());
        assert(has_key(gq, checksum_key()));
        lemma_has_pair_pos_key(gq, checksum_key());
        lemma_sorted_unique(gq, p, pos_of(gq, checksum_key()));
        theorem_checksum_rebuild(x);
    } else {
        assert(gq == q2);
    }
}

/// build() applied to parts whose qualifiers are already normal: accepted, nothing changes (texts)
pub proof fn lemma_rebuild<T: PurlShape>(u1: T, q1: PurlParts, fr2: Result<(), T::Error>, r2: Result<GenericPurl<T>, T::Error>)
    requires fr2 is Ok, q1.name@.len() > 0, normal_quals(q1.qualifiers.qualifiers@), build_post::<T>(u1, q1, fr2, r2),
    ensures
        r2 is Ok, r2->Ok_0.package_type == u1,
        r2->Ok_0.parts.namespace == q1.namespace, r2->Ok_0.parts.name == q1.name, r2->Ok_0.parts.version == q1.version, r2->Ok_0.parts.subpath == q1.subpath,
        kvs(r2->Ok_0.parts.qualifiers.qualifiers@) == kvs(q1.qualifiers.qualifiers@),
        wf_seq(r2->Ok_0.parts.qualifiers.qualifiers@),
{
    let q = q1.qualifiers.qualifiers@;
    lemma_nonempty_id(q);
    lemma_checksum_key();
    if has_key(q, checksum_key()) {
        let p = pos_of(q, checksum_key());
        lemma_has_pair_pos_key(q, checksum_key());
        assert(r2 is Ok);
        let rq = r2->Ok_0.parts.qualifiers.qualifiers@;
        assert(rq == q.update(p, (q[p].0, rq[p].1)));
        lemma_update_value_keeps_wf(q, p, rq[p].1);
        assert(kvs(rq) =~= kvs(q)) by {
            assert forall|i: int| 0 <= i < q.len() implies kvs(rq)[i] == kvs(q)[i] by { if i != p { assert(rq[i] == q[i]); } }
        }
    } else {
        assert(r2 is Ok);
    }
}

pub open spec fn seg_shape(ns: Seq<char>, sub: Seq<char>, ns_segs: Seq<Seq<char>>, sub_segs: Seq<Seq<char>>) -> bool {
    (if ns.len() == 0 { ns_segs.len() == 0 } else { ns_segs.len() > 0 && slash_free_nonempty(ns_segs) && ns == join_segs(ns_segs) })
    && (if sub.len() == 0 { sub_segs.len() == 0 } else { sub_segs.len() > 0 && clean_sub_segs(sub_segs) && sub == join_segs(sub_segs) })
}

/// the decoders' segment structure of a parsed value, in the form the inverse theorem wants
pub proof fn lemma_parsed_segments(s: Seq<char>)
    requires phase_a(s) is Ok, phase_b(phase_a(s)->Ok_0.rest) is Ok
    ensures exists|ns_segs: Seq<Seq<char>>, sub_segs: Seq<Seq<char>>|
        #[trigger] seg_shape(phase_b(phase_a(s)->Ok_0.rest)->Ok_0.ns, phase_a(s)->Ok_0.sub, ns_segs, sub_segs)
{
    let a = phase_a(s)->Ok_0;
    let b = phase_b(a.rest)->Ok_0;
    lemma_c07_of_phases(s);
    let ns_segs = if b.ns.len() == 0 { Seq::<Seq<char>>::empty() } else {
        choose|segs: Seq<Seq<char>>| #![auto] segs.len() > 0 && b.ns == join_segs(segs) && split_spec(b.ns, '/') == segs
            && forall|i: int| 0 <= i < segs.len() ==> clean_ns_seg(#[trigger] segs[i]) };
    let sub_segs = if a.sub.len() == 0 { Seq::<Seq<char>>::empty() } else {
        choose|segs: Seq<Seq<char>>| #![auto] segs.len() > 0 && a.sub == join_segs(segs) && split_spec(a.sub, '/') == segs
            && forall|i: int| 0 <= i < segs.len() ==> clean_sub_seg(#[trigger] segs[i]) };
    assert(seg_shape(b.ns, a.sub, ns_segs, sub_segs));
}

/// C01 (type-agnostic instance): print -> parse is accepted, gives the same type text and the same field texts, and prints
/// the identical string again
pub proof fn theorem_c01_plain<T: FromStr + PurlShape>(s: Seq<char>, g: GenericPurl<T>, r2: Result<GenericPurl<T>, <T as PurlShape>::Error>)
    where <T as PurlShape>::Error: From<<T as FromStr>::Err>
    requires
        plain_shape::<T>(),
        parse_post::<T>(s, Ok::<GenericPurl<T>, <T as PurlShape>::Error>(g)),
        parse_post::<T>(canon_spec(g.package_type.type_text(), g.parts), r2),
    ensures
        r2 is Ok,
        r2->Ok_0.package_type.type_text() == g.package_type.type_text(),
        same_texts(r2->Ok_0.parts, g.parts),
        canon_spec(r2->Ok_0.package_type.type_text(), r2->Ok_0.parts) == canon_spec(g.package_type.type_text(), g.parts),
{
    let r = Ok::<GenericPurl<T>, <T as PurlShape>::Error>(g);
    // ---- first parse: what g is ----
    let a = phase_a(s)->Ok_0;
    let cr = choose|cr: Result<T, <T as FromStr>::Err>| #[trigger] T::from_str_rel(a.ty, cr) && match cr {
        Err(ce) => r is Err,
        Ok(t0) => match phase_b(a.rest) {
            Err(e) => r is Err,
            Ok(b) => exists|p0: PurlParts, t1: T, p1: PurlParts, fr: Result<(), <T as PurlShape>::Error>|
                parts_are(p0, a, b) && #[trigger] T::finish_rel(t0, p0, t1, p1, fr) && build_post::<T>(t1, p1, fr, r),
        },
    };
    let t0 = cr->Ok_0;
    let b = phase_b(a.rest)->Ok_0;
    let (p0, t1, p1, fr) = choose|p0: PurlParts, t1: T, p1: PurlParts, fr: Result<(), <T as PurlShape>::Error>|
        parts_are(p0, a, b) && #[trigger] T::finish_rel(t0, p0, t1, p1, fr) && build_post::<T>(t1, p1, fr, r);
    assert(p1 == p0 && fr is Ok && t1.type_text() == lower_ascii_seq(a.ty));
    lemma_first_build::<T>(t1, p1, fr, g);
    let ty1 = g.package_type.type_text();
    lemma_valid_type_lower(a.ty);
    lemma_parsed_segments(s);
    let (ns_segs, sub_segs) = choose|ns_segs: Seq<Seq<char>>, sub_segs: Seq<Seq<char>>| #[trigger] seg_shape(b.ns, a.sub, ns_segs, sub_segs);
    assert(norm_parts(g.parts, ns_segs, sub_segs));
    // ---- the canonical string parses back to the texts of g (inverse theorem) ----
    lemma_parse_canon(ty1, g.parts, ns_segs, sub_segs);
    let c = canon_spec(ty1, g.parts);
    let a2 = phase_a(c)->Ok_0;
    let b2 = phase_b(a2.rest)->Ok_0;
    // ---- second parse ----
    let cr2 = choose|cr2: Result<T, <T as FromStr>::Err>| #[trigger] T::from_str_rel(a2.ty, cr2) && match cr2 {
        Err(ce) => r2 is Err,
        Ok(t0) => match phase_b(a2.rest) {
            Err(e) => r2 is Err,
            Ok(b) => exists|p0: PurlParts, t1: T, p1: PurlParts, fr: Result<(), <T as PurlShape>::Error>|
                parts_are(p0, a2, b) && #[trigger] T::finish_rel(t0, p0, t1, p1, fr) && build_post::<T>(t1, p1, fr, r2),
        },
    };
    let u0 = cr2->Ok_0;
    let (q0, u1, q1, fr2) = choose|q0: PurlParts, u1: T, q1: PurlParts, fr2: Result<(), <T as PurlShape>::Error>|
        parts_are(q0, a2, b2) && #[trigger] T::finish_rel(u0, q0, u1, q1, fr2) && build_post::<T>(u1, q1, fr2, r2);
    assert(q1 == q0 && fr2 is Ok && u1.type_text() == lower_ascii_seq(ty1));
    lemma_normal_quals_congr(g.parts.qualifiers.qualifiers@, q1.qualifiers.qualifiers@);
    lemma_rebuild::<T>(u1, q1, fr2, r2);
    let g2 = r2->Ok_0;
    assert(same_texts(g2.parts, g.parts));
    lemma_canon_congr(ty1, g2.parts, g.parts);
}

/// what C04 says of every value handed out with a built-in string shape (each conjunct is a postcondition of build(),
/// of the shape hooks or of the decoders)
pub open spec fn handed_out_plain<T: PurlShape>(g: GenericPurl<T>) -> bool {
    valid_type(g.package_type.type_text()) && lower_ascii_seq(g.package_type.type_text()) == g.package_type.type_text()
    && g.parts.name@.len() > 0 && normal_quals(g.parts.qualifiers.qualifiers@)
}

/// C10 (built-in string shapes): into_builder().build() is the identity -- build() applied to the value's own type and
/// parts succeeds and returns the same type text, the same field texts and the same canonical string
pub proof fn theorem_c10_plain<T: FromStr + PurlShape>(g: GenericPurl<T>, t1: T, p1: PurlParts, fr: Result<(), <T as PurlShape>::Error>,
                                                        r: Result<GenericPurl<T>, <T as PurlShape>::Error>)
    where <T as PurlShape>::Error: From<<T as FromStr>::Err>
    requires
        plain_shape::<T>(), handed_out_plain(g),
        // build() on GenericPurlBuilder { package_type: g.package_type, parts: g.parts }  (into_builder is proved to produce exactly that)
        T::finish_rel(g.package_type, g.parts, t1, p1, fr), build_post::<T>(t1, p1, fr, r),
    ensures
        r is Ok,
        r->Ok_0.package_type.type_text() == g.package_type.type_text(),
        same_texts(r->Ok_0.parts, g.parts),
        canon_spec(r->Ok_0.package_type.type_text(), r->Ok_0.parts) == canon_spec(g.package_type.type_text(), g.parts),
{
    assert(p1 == g.parts && fr is Ok);
    lemma_rebuild::<T>(t1, p1, fr, r);
    assert(same_texts(r->Ok_0.parts, g.parts));
    lemma_canon_congr(g.package_type.type_text(), r->Ok_0.parts, g.parts);
}

/// the value the parser hands out satisfies handed_out_plain (C04 for the string shapes, from parse_post alone)
pub proof fn lemma_parsed_is_handed_out<T: FromStr + PurlShape>(s: Seq<char>, g: GenericPurl<T>)
    where <T as PurlShape>::Error: From<<T as FromStr>::Err>
    requires plain_shape::<T>(), parse_post::<T>(s, Ok::<GenericPurl<T>, <T as PurlShape>::Error>(g)),
    ensures handed_out_plain(g)
{
    let r = Ok::<GenericPurl<T>, <T as PurlShape>::Error>(g);
    let a = phase_a(s)->Ok_0;
    let cr = choose|cr: Result<T, <T as FromStr>::Err>| #[trigger] T::from_str_rel(a.ty, cr) && match cr {
        Err(ce) => r is Err,
        Ok(t0) => match phase_b(a.rest) {
            Err(e) => r is Err,
            Ok(b) => exists|p0: PurlParts, t1: T, p1: PurlParts, fr: Result<(), <T as PurlShape>::Error>|
                parts_are(p0, a, b) && #[trigger] T::finish_rel(t0, p0, t1, p1, fr) && build_post::<T>(t1, p1, fr, r),
        },
    };
    let t0 = cr->Ok_0;
    let b = phase_b(a.rest)->Ok_0;
    let (p0, t1, p1, fr) = choose|p0: PurlParts, t1: T, p1: PurlParts, fr: Result<(), <T as PurlShape>::Error>|
        parts_are(p0, a, b) && #[trigger] T::finish_rel(t0, p0, t1, p1, fr) && build_post::<T>(t1, p1, fr, r);
    lemma_first_build::<T>(t1, p1, fr, g);
    lemma_valid_type_lower(a.ty);
}

/// ... and so does every value build() returns for a built-in string shape (from the hook relation and build_post alone)
pub proof fn lemma_built_is_handed_out_plain<T: FromStr + PurlShape>(t0: T, p0: PurlParts, t1: T, p1: PurlParts, fr: Result<(), <T as PurlShape>::Error>, g: GenericPurl<T>)
    where <T as PurlShape>::Error: From<<T as FromStr>::Err>
    requires plain_shape::<T>(), wf_seq(p0.qualifiers.qualifiers@), T::finish_rel(t0, p0, t1, p1, fr),
        build_post::<T>(t1, p1, fr, Ok::<GenericPurl<T>, <T as PurlShape>::Error>(g)),
    ensures handed_out_plain(g)
{
    assert(fr is Ok);
    assert(valid_type(t0.type_text()));
    lemma_valid_type_lower(t0.type_text());
    lemma_first_build::<T>(t1, p1, fr, g);
}

/// C04 (checksum clause) for every value build() hands out: the checksum text is the sorted, lower-case, even-hex listing
pub proof fn theorem_c04_checksum<T: PurlShape>(t1: T, p1: PurlParts, fr: Result<(), T::Error>, g: GenericPurl<T>)
    requires fr is Ok, wf_seq(p1.qualifiers.qualifiers@), build_post::<T>(t1, p1, fr, Ok::<GenericPurl<T>, T::Error>(g)),
        has_key(g.parts.qualifiers.qualifiers@, checksum_key()),
    ensures exists|es: VS| #![auto] es.len() > 0 && sorted_by_key(es) && all_hex_ok(es)
        && g.parts.qualifiers.qualifiers@[pos_of(g.parts.qualifiers.qualifiers@, checksum_key())].1@ == listing_text(es)
        && no_ascii_upper(listing_text(es))
{
    let q2 = nonempty_part(p1.qualifiers.qualifiers@);
    let gq = g.parts.qualifiers.qualifiers@;
    lemma_checksum_key();
    lemma_nonempty_wf(p1.qualifiers.qualifiers@);
    lemma_first_build::<T>(t1, p1, fr, g);
    if has_key(q2, checksum_key()) {
        let p = pos_of(q2, checksum_key());
        lemma_has_pair_pos_key(q2, checksum_key());
        assert(gq[p].0.0@ == checksum_key());
        lemma_has_pair_pos_key(gq, checksum_key());
        lemma_sorted_unique(gq, p, pos_of(gq, checksum_key()));
        theorem_checksum_text_shape(q2[p].1@);
    } else {
        assert(gq == q2);
    }
}
