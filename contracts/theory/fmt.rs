// ---- R9: stub of fmt::Formatter (ghost output) and of the escape sets; the canonical shape written from C03 ----
#[verifier::external_body]
pub struct Formatter { _p: core::marker::PhantomData<u8> }
impl Formatter { pub uninterp spec fn out(&self) -> Seq<char>; }
pub struct FmtError;
pub type FmtResult = Result<(), FmtError>;

#[verifier::external_body]
pub fn x_write_str(f: &mut Formatter, s: &str) -> (r: FmtResult)
    ensures r is Ok ==> final(f).out() == old(f).out() + s@
{ unimplemented!() }
/// `{}` of a `Display` value that prints its text (Cow<str>, &str, char)
#[verifier::external_body]
pub fn x_write_display<D: TextOf>(f: &mut Formatter, d: &D) -> (r: FmtResult)
    ensures r is Ok ==> final(f).out() == old(f).out() + d.text_of()
{ unimplemented!() }
/// `{}` of `utf8_percent_encode(s, SET)`
#[verifier::external_body]
pub fn x_write_encoded(f: &mut Formatter, s: &str, set: SetId) -> (r: FmtResult)
    ensures r is Ok ==> final(f).out() == old(f).out() + enc(set, s@)
{ unimplemented!() }

pub trait TextOf { spec fn text_of(&self) -> Seq<char>; }
impl<'a> TextOf for Cow<'a, str> { open spec fn text_of(&self) -> Seq<char> { self@ } }
impl TextOf for char { open spec fn text_of(&self) -> Seq<char> { seq![*self] } }

/// documented panic: formatting a PURL whose type reports an invalid type string
#[verifier::external_body]
pub fn x_panic() -> !
    requires false
{ panic!() }

