// ---- R9: stub of fmt::Formatter (ghost output) and of the escape sets; the canonical shape written from C03 ----
#[verifier::external_body]
pub struct Formatter { _p: core::marker::PhantomData<u8> }
impl Formatter { pub uninterp spec fn out(&self) -> Seq<char>; }
pub struct FmtError;
pub type FmtResult = Result<(), FmtError>;

/// the four escape sets of format.rs (their per-byte content is proved by Kani on the real constants)
#[derive(Clone, Copy)]
pub enum SetId { Path, Segment, Query, Fragment }
pub const PURL_PATH: SetId = SetId::Path;
pub const PURL_PATH_SEGMENT: SetId = SetId::Segment;
pub const PURL_QUERY: SetId = SetId::Query;
pub const PURL_FRAGMENT: SetId = SetId::Fragment;

/// `utf8_percent_encode(s, SET).to_string()` (dependency; its table is the Kani-proved one, applied byte-wise)
pub uninterp spec fn enc(set: SetId, s: Seq<char>) -> Seq<char>;

#[verifier::external_body]
pub fn x_write_str(f: &mut Formatter, s: &str) -> (r: FmtResult)
    ensures r is Ok ==> final(f).out() == old(f).out() + s@
{ unimplemented!() }
/// `{}` of a `Display` value that prints its text (Cow<str>, &str, char)
#[verifier::external_body]
pub fn x_write_display<D: TextOf>(f: &mut Formatter, d: &D) -> (r: FmtResult)
    ensures r is Ok ==> final(f).out() == old(f).out() + d.text_of()
{ unimplemented!() }
/// `{}` of `utf8_percent_encode(s, SET)`
#[verifier::external_body]
pub fn x_write_encoded(f: &mut Formatter, s: &str, set: SetId) -> (r: FmtResult)
    ensures r is Ok ==> final(f).out() == old(f).out() + enc(set, s@)
{ unimplemented!() }

pub trait TextOf { spec fn text_of(&self) -> Seq<char>; }
impl<'a> TextOf for Cow<'a, str> { open spec fn text_of(&self) -> Seq<char> { self@ } }
impl TextOf for char { open spec fn text_of(&self) -> Seq<char> { seq![*self] } }

/// documented panic: formatting a PURL whose type reports an invalid type string
#[verifier::external_body]
pub fn x_panic() -> !
    requires false
{ panic!() }

pub open spec fn opt_part(present: bool, s: Seq<char>) -> Seq<char> { if present { s } else { Seq::<char>::empty() } }

/// [`?` + key=value pairs joined by `&`, in storage order]
pub open spec fn quals_text(v: Seq<(QualifierKey, SmallString)>) -> Seq<char> decreases v.len() {
    if v.len() == 0 { Seq::<char>::empty() }
    else {
        quals_text(v.drop_last()) + seq![if v.len() == 1 { '?' } else { '&' }]
            + enc(SetId::Query, v.last().0.0@) + seq!['='] + enc(SetId::Query, v.last().1@)
    }
}

/// C03: `pkg:` + type + `/` + [namespace + `/`] + name + [`@` + version] + [`?` + pairs] + [`#` + subpath], absent parts omitted
pub open spec fn canon_spec(ty: Seq<char>, p: PurlParts) -> Seq<char> {
    "pkg:"@ + ty + "/"@
    + opt_part(p.namespace@.len() > 0, enc(SetId::Path, p.namespace@) + "/"@)
    + enc(SetId::Segment, p.name@)
    + opt_part(p.version@.len() > 0, "@"@ + enc(SetId::Path, p.version@))
    + quals_text(p.qualifiers.qualifiers@)
    + opt_part(p.subpath@.len() > 0, "#"@ + enc(SetId::Fragment, p.subpath@))
}

// staged prefixes of canon_spec (one per write group), so that each stage closes with one extensional equality
pub open spec fn cs1(ty: Seq<char>) -> Seq<char> { "pkg:"@ + ty + "/"@ }
pub open spec fn cs2(ty: Seq<char>, p: PurlParts) -> Seq<char> { cs1(ty) + opt_part(p.namespace@.len() > 0, enc(SetId::Path, p.namespace@) + "/"@) }
pub open spec fn cs3(ty: Seq<char>, p: PurlParts) -> Seq<char> { cs2(ty, p) + enc(SetId::Segment, p.name@) }
pub open spec fn cs4(ty: Seq<char>, p: PurlParts) -> Seq<char> { cs3(ty, p) + opt_part(p.version@.len() > 0, "@"@ + enc(SetId::Path, p.version@)) }
pub open spec fn cs5(ty: Seq<char>, p: PurlParts) -> Seq<char> { cs4(ty, p) + quals_text(p.qualifiers.qualifiers@) }
pub proof fn lemma_canon_stages(ty: Seq<char>, p: PurlParts)
    ensures canon_spec(ty, p) == cs5(ty, p) + opt_part(p.subpath@.len() > 0, "#"@ + enc(SetId::Fragment, p.subpath@))
{ }
