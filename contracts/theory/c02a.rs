// ---- C02, part 1: the designated separators -- the two parser phases on a string assembled from raw component texts ----
// The statement's spelling freedoms concern (i) what may stand BETWEEN the separators (part 2: pieces, escapes, order) and
// (ii) which occurrence of '#', '?', '@', '/' IS the separator ("an unescaped '@', '?' or '#' to the left of the occurrence that
// right-to-left splitting designates"). This part is (ii): for ANY raw texts obeying the stated discipline, phase_a / phase_b
// hand each text, unchanged, to the decoder of its component.
pub open spec fn slashes(n: nat) -> Seq<char> { Seq::new(n, |i: int| '/') }

/// the raw texts of one spelling: extra slashes after `pkg:`, type as written, text before the last '/' of the path (None: the path
/// has no '/'), name, text after the last '@', text after the last '?', text after the last '#'
pub struct Raw { pub lead: nat, pub ty: Seq<char>, pub ns: Option<Seq<char>>, pub name: Seq<char>, pub ver: Option<Seq<char>>, pub q: Option<Seq<char>>, pub sub: Option<Seq<char>> }

pub open spec fn opt_pre(c: char, x: Option<Seq<char>>) -> Seq<char> { match x { None => Seq::<char>::empty(), Some(t) => seq![c] + t } }
pub open spec fn r1_raw(w: Raw) -> Seq<char> { (match w.ns { None => Seq::<char>::empty(), Some(x) => x + seq!['/'] }) + w.name }
pub open spec fn path_raw(w: Raw) -> Seq<char> { r1_raw(w) + opt_pre('@', w.ver) }
pub open spec fn l2_raw(w: Raw) -> Seq<char> { w.ty + seq!['/'] + path_raw(w) }
pub open spec fn l_raw(w: Raw) -> Seq<char> { l2_raw(w) + opt_pre('?', w.q) }
pub open spec fn b_raw(w: Raw) -> Seq<char> { l_raw(w) + opt_pre('#', w.sub) }
pub open spec fn text_raw(w: Raw) -> Seq<char> { "pkg:"@ + slashes(w.lead) + b_raw(w) }

/// the discipline of the statement: the type is a type; the name holds no raw '/'; the LAST '@' / '?' / '#' of the respective
/// stretch is the separator (so the text to its right holds none, and when a component is absent nothing to the left holds one)
pub open spec fn raw_ok(w: Raw) -> bool {
    valid_type(w.ty)
    && !has_char(w.name, '/')
    && (match w.ver { Some(v) => !has_char(v, '@'), None => !has_char(r1_raw(w), '@') })
    && (match w.q { Some(q) => !has_char(q, '?'), None => !has_char(path_raw(w), '?') })
    && (match w.sub { Some(s) => !has_char(s, '#'), None => !has_char(l_raw(w), '#') })
}

/// what phase_a must return: each raw text handed to its decoder
pub open spec fn phase_a_raw(w: Raw) -> Result<PhaseA, ParseError> {
    let sub = match w.sub { None => Some(Seq::<char>::empty()), Some(x) => sub_fold(split_spec(trim_spec(x, '/'), '/')) };
    if sub is None { Err(ParseError::InvalidEscape) } else {
        let kv = match w.q { None => Ok::<KV, DqErr>(Seq::<(Seq<char>, Seq<char>)>::empty()), Some(x) => dq_fold(split_spec(x, '&'), Seq::<(Seq<char>, Seq<char>)>::empty()) };
        match kv {
            Err(d) => Err(dq_parse_err(d)),
            Ok(kvv) => Ok(PhaseA { ty: w.ty, rest: path_raw(w), sub: sub->Some_0, kv: kvv }),
        }
    }
}
pub open spec fn phase_b_raw(w: Raw) -> Result<PhaseB, ParseError> {
    let version = match w.ver { None => Some(Seq::<char>::empty()), Some(x) => dec(x) };
    if version is None { Err(ParseError::InvalidEscape) } else {
        let ns = match w.ns { None => Some(Seq::<char>::empty()), Some(x) => ns_fold(split_spec(trim_spec(x, '/'), '/')) };
        if ns is None { Err(ParseError::InvalidEscape) }
        else if dec(w.name) is None { Err(ParseError::InvalidEscape) }
        else { Ok(PhaseB { ns: ns->Some_0, name: dec(w.name)->Some_0, version: version->Some_0 }) }
    }
}

pub proof fn lemma_trim_slashes(n: nat, b: Seq<char>)
    requires b.len() > 0, b[0] != '/'
    ensures trim_start_spec(slashes(n) + b, '/') == b
    decreases n
{
    let s = slashes(n) + b;
    if n == 0 {
        assert(s =~= b);
    } else {
        assert(s[0] == '/');
        assert(s.subrange(1, s.len() as int) =~= slashes((n - 1) as nat) + b);
        lemma_trim_slashes((n - 1) as nat, b);
    }
}

/// rsplit at the last `c`: the right text holds none
pub proof fn lemma_rsplit_some(l: Seq<char>, r: Seq<char>, c: char)
    requires !has_char(r, c)
    ensures rsplit_at(l + seq![c] + r, c) == (l, Some(r))
{
    let s = l + seq![c] + r;
    lemma_rsplit_join(l, r, c);
    assert(s.subrange(0, l.len() as int) =~= l);
    assert(s.subrange(l.len() as int + 1, s.len() as int) =~= r);
}
pub proof fn lemma_rsplit_none(l: Seq<char>, c: char)
    requires !has_char(l, c)
    ensures rsplit_at(l, c) == (l, None::<Seq<char>>)
{
    lemma_last_index(l, c);
}

pub proof fn theorem_raw_phase_a(w: Raw)
    requires raw_ok(w)
    ensures phase_a(text_raw(w)) == phase_a_raw(w)
{
    lemma_lits();
    let s = text_raw(w);
    let b = b_raw(w);
    let l = l_raw(w);
    let l2 = l2_raw(w);
    lemma_type_excludes(w.ty, '/');
    // scheme, leading slashes
    assert(s.subrange(0, "pkg:"@.len() as int) =~= "pkg:"@);
    assert(s.subrange("pkg:"@.len() as int, s.len() as int) =~= slashes(w.lead) + b);
    assert(b[0] == w.ty[0]);
    lemma_trim_slashes(w.lead, b);
    // the last '#'
    match w.sub {
        Some(x) => { assert(b =~= l + seq!['#'] + x); lemma_rsplit_some(l, x, '#'); },
        None => { assert(b =~= l); lemma_rsplit_none(l, '#'); },
    }
    // the last '?' before it
    match w.q {
        Some(x) => { assert(l =~= l2 + seq!['?'] + x); lemma_rsplit_some(l2, x, '?'); },
        None => {
            assert(l =~= l2);
            lemma_type_excludes(w.ty, '?');
            lemma_single_excludes('/', '?');
            lemma_has_char_concat(w.ty, seq!['/'], '?');
            lemma_has_char_concat(w.ty + seq!['/'], path_raw(w), '?');
            lemma_rsplit_none(l2, '?');
        },
    }
    // the first '/'
    lemma_split_join(w.ty, path_raw(w), '/');
    assert(l2.subrange(0, w.ty.len() as int) =~= w.ty);
    assert(l2.subrange(w.ty.len() as int + 1, l2.len() as int) =~= path_raw(w));
}

pub proof fn theorem_raw_phase_b(w: Raw)
    requires raw_ok(w)
    ensures phase_b(path_raw(w)) == phase_b_raw(w)
{
    let r1 = r1_raw(w);
    let p = path_raw(w);
    match w.ver {
        Some(x) => { assert(p =~= r1 + seq!['@'] + x); lemma_rsplit_some(r1, x, '@'); },
        None => { assert(p =~= r1); lemma_rsplit_none(r1, '@'); },
    }
    match w.ns {
        Some(x) => {
            assert(r1 =~= x + seq!['/'] + w.name);
            lemma_rsplit_join(x, w.name, '/');
            assert(r1.subrange(0, x.len() as int) =~= x);
            assert(r1.subrange(x.len() as int + 1, r1.len() as int) =~= w.name);
        },
        None => { assert(r1 =~= w.name); lemma_last_index(w.name, '/'); },
    }
}
