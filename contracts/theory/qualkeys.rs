// ---- qualifier keys (C04, C05, C11: ASCII letters, digits, '.', '-', '_'; non-empty) ----
pub open spec fn key_char(c: char) -> bool { ascii_alnum_c(c) || c == '.' || c == '-' || c == '_' }
pub open spec fn valid_key(s: Seq<char>) -> bool { s.len() > 0 && forall|i: int| 0 <= i < s.len() ==> key_char(#[trigger] s[i]) }
/// canonical stored form: valid and free of ASCII upper-case
pub open spec fn canon_key(s: Seq<char>) -> bool { valid_key(s) && forall|i: int| 0 <= i < s.len() ==> !ascii_upper_c(#[trigger] s[i]) }

// ---- lexicographic order on Seq<char> by scalar value (= byte-wise order of the UTF-8 text, = str::cmp) ----
pub open spec fn lex_cmp(a: Seq<char>, b: Seq<char>) -> Ordering decreases a.len()
{
    if a.len() == 0 { if b.len() == 0 { Ordering::Equal } else { Ordering::Less } }
    else if b.len() == 0 { Ordering::Greater }
    else if (a[0] as u32) < (b[0] as u32) { Ordering::Less }
    else if (a[0] as u32) > (b[0] as u32) { Ordering::Greater }
    else { lex_cmp(a.subrange(1, a.len() as int), b.subrange(1, b.len() as int)) }
}
pub open spec fn str_lt(a: Seq<char>, b: Seq<char>) -> bool { lex_cmp(a, b) is Less }

pub proof fn lemma_lex_eq(a: Seq<char>, b: Seq<char>)
    ensures (lex_cmp(a, b) is Equal) == (a == b)
    decreases a.len()
{
    if a.len() > 0 && b.len() > 0 {
        if a[0] == b[0] {
            lemma_lex_eq(a.subrange(1, a.len() as int), b.subrange(1, b.len() as int));
            if a.subrange(1, a.len() as int) == b.subrange(1, b.len() as int) {
                assert(a =~= seq![a[0]] + a.subrange(1, a.len() as int));
                assert(b =~= seq![b[0]] + b.subrange(1, b.len() as int));
            }
        } else {
            assert((a[0] as u32) != (b[0] as u32));
        }
    } else {
        assert((a == b) == (a.len() == 0 && b.len() == 0)) by { if a.len() == 0 && b.len() == 0 { assert(a =~= b); } }
    }
}

pub proof fn lemma_lex_flip(a: Seq<char>, b: Seq<char>)
    ensures
        (lex_cmp(a, b) is Less) == (lex_cmp(b, a) is Greater),
        (lex_cmp(a, b) is Greater) == (lex_cmp(b, a) is Less),
    decreases a.len()
{
    if a.len() > 0 && b.len() > 0 && a[0] == b[0] {
        lemma_lex_flip(a.subrange(1, a.len() as int), b.subrange(1, b.len() as int));
    }
}

pub proof fn lemma_lex_trans(a: Seq<char>, b: Seq<char>, c: Seq<char>)
    requires str_lt(a, b), str_lt(b, c)
    ensures str_lt(a, c)
    decreases a.len()
{
    if a.len() > 0 && b.len() > 0 && c.len() > 0 && a[0] == b[0] && b[0] == c[0] {
        lemma_lex_trans(a.subrange(1, a.len() as int), b.subrange(1, b.len() as int), c.subrange(1, c.len() as int));
    }
}

pub proof fn lemma_lt_irrefl(a: Seq<char>)
    ensures !str_lt(a, a)
{
    lemma_lex_eq(a, a);
}

// ---- the representation invariant of Qualifiers (C04, C11): keys canonical, strictly ascending ----
pub open spec fn keys_sorted(v: Seq<(QualifierKey, SmallString)>) -> bool {
    forall|i: int, j: int| 0 <= i < j < v.len() ==> str_lt(#[trigger] v[i].0.0@, #[trigger] v[j].0.0@)
}
pub open spec fn keys_canon(v: Seq<(QualifierKey, SmallString)>) -> bool {
    forall|i: int| 0 <= i < v.len() ==> canon_key(#[trigger] v[i].0.0@)
}
pub open spec fn wf_seq(v: Seq<(QualifierKey, SmallString)>) -> bool { keys_sorted(v) && keys_canon(v) }

/// abstract content: key text -> value text (a function of the sequence; unique positions because keys are strictly ascending)
pub open spec fn has_key(v: Seq<(QualifierKey, SmallString)>, k: Seq<char>) -> bool {
    exists|i: int| 0 <= i < v.len() && #[trigger] v[i].0.0@ == k
}
pub open spec fn has_pair(v: Seq<(QualifierKey, SmallString)>, k: Seq<char>, val: Seq<char>) -> bool {
    exists|i: int| 0 <= i < v.len() && #[trigger] v[i].0.0@ == k && v[i].1@ == val
}

pub proof fn lemma_sorted_unique(v: Seq<(QualifierKey, SmallString)>, i: int, j: int)
    requires keys_sorted(v), 0 <= i < v.len(), 0 <= j < v.len(), v[i].0.0@ == v[j].0.0@
    ensures i == j
{
    lemma_lt_irrefl(v[i].0.0@);
    if i < j { assert(str_lt(v[i].0.0@, v[j].0.0@)); }
    if j < i { assert(str_lt(v[j].0.0@, v[i].0.0@)); }
}

/// the position of key `k` in a strictly ascending list = number of keys smaller than `k` (names the witness, so
/// whole-content postconditions need no existential)
pub open spec fn pos_of(v: Seq<(QualifierKey, SmallString)>, k: Seq<char>) -> int decreases v.len()
{
    if v.len() == 0 { 0 } else { pos_of(v.drop_last(), k) + if str_lt(v.last().0.0@, k) { 1int } else { 0int } }
}

pub proof fn lemma_pos_of(v: Seq<(QualifierKey, SmallString)>, k: Seq<char>, i: int)
    requires 0 <= i <= v.len(),
        forall|j: int| 0 <= j < i ==> str_lt(#[trigger] v[j].0.0@, k),
        forall|j: int| i <= j < v.len() ==> !str_lt(#[trigger] v[j].0.0@, k),
    ensures pos_of(v, k) == i
    decreases v.len()
{
    if v.len() > 0 {
        let w = v.drop_last();
        if i == v.len() {
            assert forall|j: int| 0 <= j < i - 1 implies str_lt(#[trigger] w[j].0.0@, k) by { assert(w[j] == v[j]); }
            lemma_pos_of(w, k, i - 1);
            assert(str_lt(v[v.len() - 1].0.0@, k));
        } else {
            assert forall|j: int| 0 <= j < i implies str_lt(#[trigger] w[j].0.0@, k) by { assert(w[j] == v[j]); }
            assert forall|j: int| i <= j < w.len() implies !str_lt(#[trigger] w[j].0.0@, k) by { assert(w[j] == v[j]); }
            lemma_pos_of(w, k, i);
            assert(!str_lt(v[v.len() - 1].0.0@, k));
        }
    }
}

pub proof fn lemma_lt_asym(a: Seq<char>, b: Seq<char>)
    requires str_lt(a, b)
    ensures !str_lt(b, a)
{
    lemma_lex_flip(a, b);
}

/// in a strictly ascending list, the value paired with key `k` is the one at `pos_of(k)`
pub proof fn lemma_has_pair_pos(v: Seq<(QualifierKey, SmallString)>, k: Seq<char>)
    requires keys_sorted(v)
    ensures forall|val: Seq<char>| has_pair(v, k, val) ==> 0 <= pos_of(v, k) < v.len() && v[pos_of(v, k)].0.0@ == k && v[pos_of(v, k)].1@ == val
{
    assert forall|val: Seq<char>| has_pair(v, k, val) implies 0 <= pos_of(v, k) < v.len() && v[pos_of(v, k)].0.0@ == k && v[pos_of(v, k)].1@ == val by {
        let i = choose|i: int| 0 <= i < v.len() && #[trigger] v[i].0.0@ == k && v[i].1@ == val;
        assert forall|j: int| 0 <= j < i implies str_lt(#[trigger] v[j].0.0@, k) by { assert(str_lt(v[j].0.0@, v[i].0.0@)); }
        assert forall|j: int| i <= j < v.len() implies !str_lt(#[trigger] v[j].0.0@, k) by {
            if j == i { lemma_lt_irrefl(k); } else { assert(str_lt(v[i].0.0@, v[j].0.0@)); lemma_lt_asym(k, v[j].0.0@); }
        }
        lemma_pos_of(v, k, i);
    }
}
