// ---- checksum qualifier: typed value <-> text (C04, C12), written from the statements ----
// R9: stub of std::collections::HashMap as used by Checksum (String keys, Cow<str> values); every operation on it is an
// assumed wrapper (std HashMap semantics). Its iteration order is modelled as ARBITRARY.
#[verifier::external_body]
#[verifier::accept_recursive_types(K)]
#[verifier::accept_recursive_types(V)]
pub struct HashMap<K, V> { _k: core::marker::PhantomData<K>, _v: core::marker::PhantomData<V> }

pub uninterp spec fn hm_view<'a>(m: HashMap<SmallString, Cow<'a, str>>) -> Map<Seq<char>, Seq<char>>;

/// entries as text pairs (algorithm, hex)
pub type VS = Seq<(Seq<char>, Seq<char>)>;
/// the text pairs of a vector of owned entries
pub open spec fn ev<'a>(es: Seq<(SmallString, Cow<'a, str>)>) -> VS { es.map_values(|e: (SmallString, Cow<'a, str>)| (e.0@, e.1@)) }

/// `es` lists every entry of `m` exactly once (in any order)
#[verifier::opaque]
pub open spec fn is_listing(es: VS, m: Map<Seq<char>, Seq<char>>) -> bool {
    (forall|i: int| 0 <= i < es.len() ==> m.contains_key(#[trigger] es[i].0) && m[es[i].0] == es[i].1)
    && (forall|i: int, j: int| 0 <= i < j < es.len() ==> #[trigger] es[i].0 != #[trigger] es[j].0)
    && (forall|k: Seq<char>| m.contains_key(k) ==> exists|i: int| 0 <= i < es.len() && #[trigger] es[i].0 == k)
}
#[verifier::opaque]
pub open spec fn sorted_by_key(es: VS) -> bool {
    forall|i: int, j: int| 0 <= i < j < es.len() ==> str_lt(#[trigger] es[i].0, #[trigger] es[j].0)
}

pub open spec fn hex_ok(v: Seq<char>) -> bool { (forall|i: int| 0 <= i < v.len() ==> ascii_hex_c(#[trigger] v[i])) && v.len() % 2 == 0 }
pub open spec fn entry_text(k: Seq<char>, v: Seq<char>) -> Seq<char> { k + seq![':'] + lower_ascii_seq(v) }
/// "comma-separated list of algorithm:hex entries", in the order of `es`
pub open spec fn listing_text(es: VS) -> Seq<char> decreases es.len() {
    if es.len() == 0 { Seq::<char>::empty() }
    else if es.len() == 1 { entry_text(es[0].0, es[0].1) }
    else { listing_text(es.drop_last()) + seq![','] + entry_text(es.last().0, es.last().1) }
}
pub open spec fn all_hex_ok(es: VS) -> bool { forall|i: int| 0 <= i < es.len() ==> hex_ok(#[trigger] es[i].1) }

/// ASSUMED (UTF-8): an all-ASCII string has as many bytes as chars
#[verifier::external_body]
pub proof fn axiom_utf8_len_ascii(s: Seq<char>)
    requires forall|i: int| 0 <= i < s.len() ==> is_ascii_c(#[trigger] s[i])
    ensures utf8_len(s) == s.len()
{ }

#[verifier::external_body]
pub fn x_str_len(s: &str) -> (r: usize)
    ensures r == utf8_len(s@)
{ s.len() }

/// `value.chars().filter(|c| *c == ch).count()`; a str never has more than isize::MAX bytes
#[verifier::external_body]
pub fn x_count_char(s: &str, ch: char) -> (r: usize)
    ensures r < usize::MAX
{ s.chars().filter(|c| *c == ch).count() }

#[verifier::external_body]
pub fn x_hm_with_capacity<'a>(n: usize) -> (r: HashMap<SmallString, Cow<'a, str>>)
    ensures hm_view(r) == Map::<Seq<char>, Seq<char>>::empty()
{ unimplemented!() }

/// `m.insert(k, v)`
#[verifier::external_body]
pub fn x_hm_insert<'a>(m: &mut HashMap<SmallString, Cow<'a, str>>, k: SmallString, v: Cow<'a, str>) -> (r: Option<Cow<'a, str>>)
    ensures hm_view(*final(m)) == hm_view(*old(m)).insert(k@, v@), r is Some == hm_view(*old(m)).contains_key(k@)
{ unimplemented!() }

/// `m.into_iter().collect::<Vec<_>>()`: every entry once, in an ARBITRARY order (hash seed, insertion history)
#[verifier::external_body]
pub fn x_hm_into_vec<'a>(m: HashMap<SmallString, Cow<'a, str>>) -> (r: Vec<(SmallString, Cow<'a, str>)>)
    ensures is_listing(ev(r@), hm_view(m))
{ unimplemented!() }

/// what `sort_unstable_by(|a, b| a.0.cmp(&b.0))` does: a permutation, ordered (non-strictly) by the keys
/// (String::cmp = byte-wise = scalar-value order). Four separately opaque facts (revealing both inclusion directions at once
/// sends the solver into a matching loop).
#[verifier::opaque]
pub open spec fn perm_into(before: VS, after: VS) -> bool {
    forall|i: int| 0 <= i < before.len() ==> exists|j: int| 0 <= j < after.len() && after[j] == #[trigger] before[i]
}
#[verifier::opaque]
pub open spec fn perm_from(before: VS, after: VS) -> bool {
    forall|j: int| 0 <= j < after.len() ==> exists|i: int| 0 <= i < before.len() && before[i] == #[trigger] after[j]
}
#[verifier::opaque]
pub open spec fn ordered_by_key(after: VS) -> bool {
    forall|i: int, j: int| 0 <= i < j < after.len() ==> !str_lt(#[trigger] after[j].0, #[trigger] after[i].0)
}
pub open spec fn distinct_keys(es: VS) -> bool {
    forall|i: int, j: int| 0 <= i < j < es.len() ==> #[trigger] es[i].0 != #[trigger] es[j].0
}
pub open spec fn is_sorted_perm(before: VS, after: VS) -> bool {
    after.len() == before.len() && perm_into(before, after) && perm_from(before, after) && ordered_by_key(after)
    // a permutation keeps pairwise-distinct keys pairwise distinct
    && (distinct_keys(before) ==> distinct_keys(after))
}

/// `v.sort_unstable_by(|a, b| a.0.cmp(&b.0))`
#[verifier::external_body]
pub fn x_sort_by_key0<'a>(v: &mut Vec<(SmallString, Cow<'a, str>)>)
    ensures is_sorted_perm(ev(old(v)@), ev(final(v)@)), final(v)@.len() == old(v)@.len()
{ unimplemented!() }

/// `v.iter().map(|(k, v)| k.len() + 1 + v.len()).sum::<usize>()`; ASSUMED not to overflow (the strings are all in memory)
#[verifier::external_body]
pub fn x_sum_entry_lens<'a>(v: &Vec<(SmallString, Cow<'a, str>)>) -> (r: usize)
    ensures r + v@.len() <= usize::MAX
{ unimplemented!() }

/// `s.extend(t.chars().map(|c| c.to_ascii_lowercase()))`
#[verifier::external_body]
pub fn x_extend_ascii_lower(s: &mut String, t: &str)
    ensures final(s)@ == old(s)@ + lower_ascii_seq(t@)
{ s.extend(t.chars().map(|c| c.to_ascii_lowercase())) }

/// a permutation of a duplicate-free listing, ordered non-strictly, is ordered strictly and is still a listing
pub proof fn lemma_perm_members(before: VS, after: VS, m: Map<Seq<char>, Seq<char>>)
    requires is_listing(before, m), is_sorted_perm(before, after)
    ensures forall|i: int| 0 <= i < after.len() ==> m.contains_key(#[trigger] after[i].0) && m[after[i].0] == after[i].1
{
    reveal(is_listing); reveal(perm_from);
    assert forall|i: int| 0 <= i < after.len() implies m.contains_key(#[trigger] after[i].0) && m[after[i].0] == after[i].1 by {
        let k = choose|k: int| 0 <= k < before.len() && before[k] == after[i];
        assert(m.contains_key(before[k].0));
    }
}
pub proof fn lemma_perm_covers(before: VS, after: VS, m: Map<Seq<char>, Seq<char>>)
    requires is_listing(before, m), is_sorted_perm(before, after)
    ensures forall|k: Seq<char>| m.contains_key(k) ==> exists|i: int| 0 <= i < after.len() && #[trigger] after[i].0 == k
{
    reveal(is_listing); reveal(perm_into);
    assert forall|k: Seq<char>| m.contains_key(k) implies exists|i: int| 0 <= i < after.len() && #[trigger] after[i].0 == k by {
        let b = choose|b: int| 0 <= b < before.len() && #[trigger] before[b].0 == k;
        let j = choose|j: int| 0 <= j < after.len() && after[j] == before[b];
        assert(after[j].0 == k);
    }
}
pub proof fn lemma_perm_strict(before: VS, after: VS, m: Map<Seq<char>, Seq<char>>)
    requires is_listing(before, m), is_sorted_perm(before, after)
    ensures
        forall|i: int, j: int| 0 <= i < j < after.len() ==> #[trigger] after[i].0 != #[trigger] after[j].0,
        sorted_by_key(after),
{
    reveal(is_listing); reveal(ordered_by_key); reveal(sorted_by_key);
    assert forall|i: int, j: int| 0 <= i < j < after.len() implies str_lt(#[trigger] after[i].0, #[trigger] after[j].0) by {
        let (a, b) = (after[i].0, after[j].0);
        lemma_lex_eq(a, b);
        lemma_lex_flip(a, b);
    }
}
pub proof fn lemma_sorted_listing(before: VS, after: VS, m: Map<Seq<char>, Seq<char>>)
    requires is_listing(before, m), is_sorted_perm(before, after)
    ensures is_listing(after, m), sorted_by_key(after)
{
    lemma_perm_members(before, after, m);
    lemma_perm_covers(before, after, m);
    lemma_perm_strict(before, after, m);
    reveal(is_listing);
}

/// C12: the text does not depend on the order in which the map hands out its entries -- two strictly sorted listings of
/// the same map are the same sequence of (key text, value text)
pub proof fn lemma_sorted_listing_unique(a: VS, b: VS, m: Map<Seq<char>, Seq<char>>)
    requires is_listing(a, m), sorted_by_key(a), is_listing(b, m), sorted_by_key(b)
    ensures a.len() == b.len(), forall|i: int| 0 <= i < a.len() ==> (#[trigger] a[i]).0 == b[i].0 && a[i].1 == b[i].1
    decreases a.len()
{
    reveal(is_listing); reveal(sorted_by_key);
    if a.len() == 0 {
        if b.len() > 0 { assert(m.contains_key(b[0].0)); let i = choose|i: int| 0 <= i < a.len() && #[trigger] a[i].0 == b[0].0; }
    } else if b.len() == 0 {
        assert(m.contains_key(a[0].0)); let i = choose|i: int| 0 <= i < b.len() && #[trigger] b[i].0 == a[0].0;
    } else {
        // the largest key is last in both
        let ka = a.last().0;
        let kb = b.last().0;
        assert(m.contains_key(a[a.len() - 1].0));
        assert(m.contains_key(b[b.len() - 1].0));
        let ib = choose|i: int| 0 <= i < b.len() && #[trigger] b[i].0 == ka;
        let ia = choose|i: int| 0 <= i < a.len() && #[trigger] a[i].0 == kb;
        if ia < a.len() - 1 { assert(str_lt(a[ia].0, a[a.len() - 1].0)); }
        if ib < b.len() - 1 { assert(str_lt(b[ib].0, b[b.len() - 1].0)); }
        if ka != kb {
            // kb < ka (position in a) and ka < kb (position in b): contradiction
            lemma_lt_asym(kb, ka);
        }
        let m2 = m.remove(ka);
        let a2 = a.drop_last();
        let b2 = b.drop_last();
        assert(is_listing(a2, m2)) by {
            assert forall|i: int| 0 <= i < a2.len() implies m2.contains_key(#[trigger] a2[i].0) && m2[a2[i].0] == a2[i].1 by {
                assert(a2[i] == a[i]); assert(a[i].0 != a[a.len() - 1].0);
            }
            assert forall|k: Seq<char>| m2.contains_key(k) implies exists|i: int| 0 <= i < a2.len() && #[trigger] a2[i].0 == k by {
                let i = choose|i: int| 0 <= i < a.len() && #[trigger] a[i].0 == k;
                assert(a2[i] == a[i]);
            }
            assert forall|i: int, j: int| 0 <= i < j < a2.len() implies #[trigger] a2[i].0 != #[trigger] a2[j].0 by { assert(a2[i] == a[i]); assert(a2[j] == a[j]); }
        }
        assert(is_listing(b2, m2)) by {
            assert forall|i: int| 0 <= i < b2.len() implies m2.contains_key(#[trigger] b2[i].0) && m2[b2[i].0] == b2[i].1 by {
                assert(b2[i] == b[i]); assert(b[i].0 != b[b.len() - 1].0);
            }
            assert forall|k: Seq<char>| m2.contains_key(k) implies exists|i: int| 0 <= i < b2.len() && #[trigger] b2[i].0 == k by {
                let i = choose|i: int| 0 <= i < b.len() && #[trigger] b[i].0 == k;
                assert(b2[i] == b[i]);
            }
            assert forall|i: int, j: int| 0 <= i < j < b2.len() implies #[trigger] b2[i].0 != #[trigger] b2[j].0 by { assert(b2[i] == b[i]); assert(b2[j] == b[j]); }
        }
        assert(sorted_by_key(a2)) by { assert forall|i: int, j: int| 0 <= i < j < a2.len() implies str_lt(#[trigger] a2[i].0, #[trigger] a2[j].0) by { assert(a2[i] == a[i]); assert(a2[j] == a[j]); } }
        assert(sorted_by_key(b2)) by { assert forall|i: int, j: int| 0 <= i < j < b2.len() implies str_lt(#[trigger] b2[i].0, #[trigger] b2[j].0) by { assert(b2[i] == b[i]); assert(b2[j] == b[j]); } }
        lemma_sorted_listing_unique(a2, b2, m2);
        assert forall|i: int| 0 <= i < a.len() implies (#[trigger] a[i]).0 == b[i].0 && a[i].1 == b[i].1 by {
            if i < a.len() - 1 { assert(a2[i] == a[i]); assert(b2[i] == b[i]); }
        }
    }
}

pub proof fn lemma_bad_entry(es: VS, m: Map<Seq<char>, Seq<char>>, i: int)
    requires is_listing(es, m), 0 <= i < es.len(), !hex_ok(es[i].1)
    ensures exists|k: Seq<char>| m.contains_key(k) && !hex_ok(#[trigger] m[k])
{
    reveal(is_listing);
    assert(m.contains_key(es[i].0) && m[es[i].0] == es[i].1);
}
pub proof fn lemma_all_ok(es: VS, m: Map<Seq<char>, Seq<char>>)
    requires is_listing(es, m), forall|i: int| 0 <= i < es.len() ==> hex_ok(#[trigger] es[i].1)
    ensures forall|k: Seq<char>| m.contains_key(k) ==> hex_ok(#[trigger] m[k])
{
    reveal(is_listing);
    assert forall|k: Seq<char>| m.contains_key(k) implies hex_ok(#[trigger] m[k]) by {
        let i = choose|i: int| 0 <= i < es.len() && #[trigger] es[i].0 == k;
        assert(m[es[i].0] == es[i].1);
    }
}
pub proof fn lemma_listing_text_step(es: VS, i: int)
    requires 0 <= i < es.len()
    ensures listing_text(es.take(i + 1)) ==
        (if i == 0 { entry_text(es[i].0, es[i].1) } else { listing_text(es.take(i)) + seq![','] + entry_text(es[i].0, es[i].1) })
{
    assert(es.take(i + 1).drop_last() == es.take(i));
    assert(es.take(i + 1).last() == es[i]);
    if i == 0 { assert(es.take(1)[0] == es[0]); }
}
pub proof fn lemma_hex_is_ascii(v: Seq<char>)
    requires forall|i: int| 0 <= i < v.len() ==> ascii_hex_c(#[trigger] v[i])
    ensures utf8_len(v) == v.len()
{
    assert forall|i: int| 0 <= i < v.len() implies is_ascii_c(#[trigger] v[i]) by { assert(ascii_hex_c(v[i])); }
    axiom_utf8_len_ascii(v);
}
pub proof fn lemma_listing_text_nonempty_iff(es: VS)
    ensures (listing_text(es).len() == 0) ==> es.len() == 0
    decreases es.len()
{
    if es.len() == 1 { } else if es.len() > 1 { }
}

/// C04 / C12: THE text form of a set of entries: defined for maps whose every value is an even number of hex digits,
/// as the text of the strictly sorted listing (unique by lemma_sorted_listing_unique)
pub open spec fn all_values_hex(m: Map<Seq<char>, Seq<char>>) -> bool { forall|k: Seq<char>| m.contains_key(k) ==> hex_ok(#[trigger] m[k]) }
pub open spec fn canon_listing(m: Map<Seq<char>, Seq<char>>) -> VS { choose|vs: VS| is_listing(vs, m) && sorted_by_key(vs) }
pub open spec fn canon_text(m: Map<Seq<char>, Seq<char>>) -> Seq<char> { listing_text(canon_listing(m)) }

pub proof fn lemma_canon_listing(vs: VS, m: Map<Seq<char>, Seq<char>>)
    requires is_listing(vs, m), sorted_by_key(vs)
    ensures canon_listing(m) == vs
{
    let c = canon_listing(m);
    lemma_sorted_listing_unique(vs, c, m);
    assert(vs =~= c) by {
        assert forall|i: int| 0 <= i < vs.len() implies vs[i] == c[i] by { assert(vs[i].0 == c[i].0 && vs[i].1 == c[i].1); }
    }
}

// ---- text -> typed (C12): "split ',', rsplit_once ':', lower-case the algorithm, refuse duplicates" ----
pub open spec fn ck_fold(pieces: Seq<Seq<char>>) -> Option<Map<Seq<char>, Seq<char>>> decreases pieces.len() {
    if pieces.len() == 0 { Some(Map::<Seq<char>, Seq<char>>::empty()) } else {
        match ck_fold(pieces.drop_last()) {
            None => None,
            Some(m) => {
                let p = pieces.last();
                let i = last_index_of(p, ':');
                if i < 0 { None }                                             // entry without ':'
                else if m.contains_key(lower_seq(p.subrange(0, i))) { None }   // algorithm repeated in any case
                else { Some(m.insert(lower_seq(p.subrange(0, i)), p.subrange(i + 1, p.len() as int))) }
            },
        }
    }
}
pub open spec fn ck_parse(text: Seq<char>) -> Option<Map<Seq<char>, Seq<char>>> { ck_fold(split_spec(text, ',')) }

pub proof fn lemma_ck_fold_none(ps: Seq<Seq<char>>, k: int)
    requires 0 <= k <= ps.len(), ck_fold(ps.take(k)) is None
    ensures ck_fold(ps) is None
    decreases ps.len() - k
{
    if k < ps.len() {
        assert(ps.take(k + 1).drop_last() == ps.take(k));
        lemma_ck_fold_none(ps, k + 1);
    } else { assert(ps.take(k) == ps); }
}

/// the typed -> text conversion as a partial function of the entries (C04, C12)
pub open spec fn ck_text(m: Map<Seq<char>, Seq<char>>) -> Option<Seq<char>> { if all_values_hex(m) { Some(canon_text(m)) } else { None } }
pub open spec fn checksum_key() -> Seq<char> { seq!['c', 'h', 'e', 'c', 'k', 's', 'u', 'm'] }

/// a checksum parsed from any text has at least one entry, and the text form of a non-empty entry set is non-empty
pub proof fn lemma_ck_fold_nonempty(ps: Seq<Seq<char>>)
    requires ps.len() > 0, ck_fold(ps) is Some
    ensures exists|k: Seq<char>| (#[trigger] ck_fold(ps)->Some_0.contains_key(k))
{
    let p = ps.last();
    let i = last_index_of(p, ':');
    let m = ck_fold(ps.drop_last())->Some_0;
    let k = lower_seq(p.subrange(0, i));
    assert(ck_fold(ps)->Some_0 == m.insert(k, p.subrange(i + 1, p.len() as int)));
    assert(ck_fold(ps)->Some_0.contains_key(k));
}
pub proof fn lemma_split_nonempty(s: Seq<char>, c: char)
    ensures split_spec(s, c).len() > 0
    decreases s.len()
{
    if !(first_index_of(s, c) < 0 || first_index_of(s, c) >= s.len()) { }
}
pub proof fn lemma_listing_text_nonempty(es: VS)
    requires es.len() > 0
    ensures listing_text(es).len() > 0
    decreases es.len()
{
    if es.len() == 1 { assert(entry_text(es[0].0, es[0].1).len() >= 1); }
    else { assert(listing_text(es).len() >= 1); }
}
pub proof fn lemma_ck_parse_nonempty(text: Seq<char>)
    requires ck_parse(text) is Some
    ensures exists|k: Seq<char>| (#[trigger] ck_parse(text)->Some_0.contains_key(k))
{
    lemma_split_nonempty(text, ',');
    lemma_ck_fold_nonempty(split_spec(text, ','));
}
pub proof fn lemma_listing_covers(es: VS, m: Map<Seq<char>, Seq<char>>, k: Seq<char>)
    requires is_listing(es, m), m.contains_key(k)
    ensures es.len() > 0
{
    reveal(is_listing);
    let i = choose|i: int| 0 <= i < es.len() && #[trigger] es[i].0 == k;
}

// ---- typed accessors of Checksum (C12) ----
/// representation invariant of Checksum: every algorithm name is stored lower-cased
pub open spec fn keys_lower(m: Map<Seq<char>, Seq<char>>) -> bool { forall|k: Seq<char>| #[trigger] m.contains_key(k) ==> lower_seq(k) == k }

/// `m.get_mut(k)`
#[verifier::external_body]
pub fn x_hm_get_mut<'a, 'b>(m: &'b mut HashMap<SmallString, Cow<'a, str>>, k: &str) -> (r: Option<&'b mut Cow<'a, str>>)
    ensures match r {
        Some(v) => hm_view(*old(m)).contains_key(k@) && (*v)@ == hm_view(*old(m))[k@]
            && hm_view(*final(m)) == hm_view(*old(m)).insert(k@, (*final(v))@),
        None => !hm_view(*old(m)).contains_key(k@) && hm_view(*final(m)) == hm_view(*old(m)),
    }
{ unimplemented!() }
/// `m.get(k)`
#[verifier::external_body]
pub fn x_hm_get<'a, 'b>(m: &'b HashMap<SmallString, Cow<'a, str>>, k: &str) -> (r: Option<&'b Cow<'a, str>>)
    ensures match r {
        Some(v) => hm_view(*m).contains_key(k@) && (*v)@ == hm_view(*m)[k@],
        None => !hm_view(*m).contains_key(k@),
    }
{ unimplemented!() }
/// `m.remove(k)`
#[verifier::external_body]
pub fn x_hm_remove<'a>(m: &mut HashMap<SmallString, Cow<'a, str>>, k: &str) -> (r: Option<Cow<'a, str>>)
    ensures hm_view(*final(m)) == hm_view(*old(m)).remove(k@)
{ unimplemented!() }

pub proof fn lemma_ck_fold_keys_lower(ps: Seq<Seq<char>>)
    requires ck_fold(ps) is Some
    ensures keys_lower(ck_fold(ps)->Some_0)
    decreases ps.len()
{
    if ps.len() > 0 {
        lemma_ck_fold_keys_lower(ps.drop_last());
        let p = ps.last();
        let i = last_index_of(p, ':');
        lemma_lower_seq_idem(p.subrange(0, i));
    }
}
