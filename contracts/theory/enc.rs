// ---- percent-encoding as a specification function (C03): defined per character from the documented table ----
// What is ASSUMED about the dependency: `utf8_percent_encode(s, SET)` produces `enc(SET, s)` (its per-byte table is proved by
// Kani on the real constants; that it works char by char is replayed by A), and `dec(enc(set, s)) == Some(s)` (A).
#[derive(Clone, Copy)]
pub enum SetId { Path, Segment, Query, Fragment }
pub const PURL_PATH: SetId = SetId::Path;
pub const PURL_PATH_SEGMENT: SetId = SetId::Segment;
pub const PURL_QUERY: SetId = SetId::Query;
pub const PURL_FRAGMENT: SetId = SetId::Fragment;

/// C03's table: "every byte that is a control character, DEL, space, non-ASCII, '"', '<', '>', '%', '@', '?' or '#' - and
/// additionally '`', '{', '}' in namespace, name and version, '/' in the name, '+' and '&' in qualifier values, '`' in the subpath"
pub open spec fn escaped_c(set: SetId, c: char) -> bool {
    (c as u32) < 0x20 || (c as u32) >= 0x7f || c == ' ' || c == '"' || c == '<' || c == '>' || c == '%' || c == '@' || c == '?' || c == '#'
    || match set {
        SetId::Path => c == '`' || c == '{' || c == '}',
        SetId::Segment => c == '`' || c == '{' || c == '}' || c == '/',
        SetId::Query => c == '+' || c == '&',
        SetId::Fragment => c == '`',
    }
}
/// `%XX…` for the UTF-8 bytes of `c` (uninterpreted; only its alphabet is used)
pub uninterp spec fn pct(c: char) -> Seq<char>;
pub open spec fn pct_alphabet(x: char) -> bool { x == '%' || ('0' <= x && x <= '9') || ('A' <= x && x <= 'F') }
/// ASSUMED (definition of percent-encoding): non-empty, made of '%' and upper-case hex digits
#[verifier::external_body]
pub proof fn axiom_pct(c: char)
    ensures pct(c).len() > 0, forall|i: int| 0 <= i < pct(c).len() ==> pct_alphabet(#[trigger] pct(c)[i])
{ }

pub open spec fn enc_char(set: SetId, c: char) -> Seq<char> { if escaped_c(set, c) { pct(c) } else { seq![c] } }
pub open spec fn enc(set: SetId, s: Seq<char>) -> Seq<char> decreases s.len()
{ if s.len() == 0 { Seq::<char>::empty() } else { enc(set, s.drop_last()) + enc_char(set, s.last()) } }
