// ---- C12: "any equivalent spelling (order, case ...) carries that one canonical text" ----
pub open spec fn piece_ok(p: Seq<char>) -> bool { last_index_of(p, ':') >= 0 }
pub open spec fn piece_key(p: Seq<char>) -> Seq<char> { lower_seq(p.subrange(0, last_index_of(p, ':'))) }
pub open spec fn piece_val(p: Seq<char>) -> Seq<char> { p.subrange(last_index_of(p, ':') + 1, p.len() as int) }
pub open spec fn pieces_ok(ps: Seq<Seq<char>>) -> bool { forall|i: int| 0 <= i < ps.len() ==> piece_ok(#[trigger] ps[i]) }
pub open spec fn pieces_distinct(ps: Seq<Seq<char>>) -> bool {
    forall|i: int, j: int| 0 <= i < j < ps.len() ==> piece_key(#[trigger] ps[i]) != piece_key(#[trigger] ps[j])
}
/// m is exactly the map {algorithm (lower-cased) -> hex as written} of the pieces
pub open spec fn map_is(ps: Seq<Seq<char>>, m: Map<Seq<char>, Seq<char>>) -> bool {
    (forall|k: Seq<char>| m.contains_key(k) <==> exists|i: int| 0 <= i < ps.len() && piece_key(#[trigger] ps[i]) == k)
    && (forall|i: int| 0 <= i < ps.len() ==> m.contains_key(piece_key(#[trigger] ps[i])) && m[piece_key(ps[i])] == piece_val(ps[i]))
}

/// what ck_fold computes, independent of the order of the pieces
pub proof fn lemma_ck_fold_char(ps: Seq<Seq<char>>)
    ensures
        (ck_fold(ps) is Some) == (pieces_ok(ps) && pieces_distinct(ps)),
        ck_fold(ps) is Some ==> map_is(ps, ck_fold(ps)->Some_0),
    decreases ps.len()
{
    if ps.len() == 0 {
        assert(map_is(ps, Map::<Seq<char>, Seq<char>>::empty()));
    } else {
        let w = ps.drop_last();
        let last = ps.last();
        lemma_ck_fold_char(w);
        if pieces_ok(ps) && pieces_distinct(ps) {
            assert(pieces_ok(w)) by { assert forall|i: int| 0 <= i < w.len() implies piece_ok(#[trigger] w[i]) by { assert(w[i] == ps[i]); } }
            assert(pieces_distinct(w)) by { assert forall|i: int, j: int| 0 <= i < j < w.len() implies piece_key(#[trigger] w[i]) != piece_key(#[trigger] w[j]) by { assert(w[i] == ps[i] && w[j] == ps[j]); } }
            assert(piece_ok(ps[ps.len() - 1]));
            let m0 = ck_fold(w)->Some_0;
            if m0.contains_key(piece_key(last)) {
                let i = choose|i: int| 0 <= i < w.len() && piece_key(#[trigger] w[i]) == piece_key(last);
                assert(w[i] == ps[i]);
                assert(piece_key(ps[i]) != piece_key(ps[ps.len() - 1]));
            }
        }
        if ck_fold(ps) is Some {
            let m0 = ck_fold(w)->Some_0;
            let m = ck_fold(ps)->Some_0;
            assert(pieces_ok(ps)) by { assert forall|i: int| 0 <= i < ps.len() implies piece_ok(#[trigger] ps[i]) by { if i < w.len() { assert(w[i] == ps[i]); } } }
            assert(pieces_distinct(ps)) by {
                assert forall|i: int, j: int| 0 <= i < j < ps.len() implies piece_key(#[trigger] ps[i]) != piece_key(#[trigger] ps[j]) by {
                    if j < w.len() { assert(w[i] == ps[i] && w[j] == ps[j]); }
                    else { assert(w[i] == ps[i]); assert(m0.contains_key(piece_key(w[i]))); }
                }
            }
            assert(map_is(ps, m)) by {
                assert forall|k: Seq<char>| m.contains_key(k) <==> exists|i: int| 0 <= i < ps.len() && piece_key(#[trigger] ps[i]) == k by {
                    if m.contains_key(k) {
                        if k == piece_key(last) { assert(piece_key(ps[ps.len() - 1]) == k); }
                        else { let i = choose|i: int| 0 <= i < w.len() && piece_key(#[trigger] w[i]) == k; assert(w[i] == ps[i]); }
                    }
                    if exists|i: int| 0 <= i < ps.len() && piece_key(#[trigger] ps[i]) == k {
                        let i = choose|i: int| 0 <= i < ps.len() && piece_key(#[trigger] ps[i]) == k;
                        if i < w.len() { assert(w[i] == ps[i]); assert(m0.contains_key(piece_key(w[i]))); }
                    }
                }
                assert forall|i: int| 0 <= i < ps.len() implies m.contains_key(piece_key(#[trigger] ps[i])) && m[piece_key(ps[i])] == piece_val(ps[i]) by {
                    if i < w.len() { assert(w[i] == ps[i]); assert(m0.contains_key(piece_key(w[i]))); assert(piece_key(ps[i]) != piece_key(ps[ps.len() - 1])); }
                }
            }
        }
    }
}

/// two maps with the same algorithms whose hex values agree up to ASCII case
pub open spec fn same_up_to_hex_case(m1: Map<Seq<char>, Seq<char>>, m2: Map<Seq<char>, Seq<char>>) -> bool {
    (forall|k: Seq<char>| m1.contains_key(k) <==> m2.contains_key(k))
    && (forall|k: Seq<char>| #[trigger] m1.contains_key(k) ==> lower_ascii_seq(m1[k]) == lower_ascii_seq(m2[k]))
}

pub proof fn lemma_hex_case(a: Seq<char>, b: Seq<char>)
    requires hex_ok(a), lower_ascii_seq(a) == lower_ascii_seq(b)
    ensures hex_ok(b)
{
    assert(a.len() == lower_ascii_seq(a).len() && b.len() == lower_ascii_seq(b).len());
    assert forall|i: int| 0 <= i < b.len() implies ascii_hex_c(#[trigger] b[i]) by {
        assert(ascii_hex_c(a[i]));
        assert(lower_ascii_seq(a)[i] == ascii_lower(a[i]));
        assert(lower_ascii_seq(b)[i] == ascii_lower(b[i]));
    }
}

pub open spec fn with_vals(es: VS, m: Map<Seq<char>, Seq<char>>) -> VS { es.map_values(|e: (Seq<char>, Seq<char>)| (e.0, m[e.0])) }

pub proof fn lemma_listing_text_vals(es: VS, m2: Map<Seq<char>, Seq<char>>)
    requires forall|i: int| 0 <= i < es.len() ==> lower_ascii_seq((#[trigger] es[i]).1) == lower_ascii_seq(m2[es[i].0])
    ensures listing_text(with_vals(es, m2)) == listing_text(es)
    decreases es.len()
{
    let es2 = with_vals(es, m2);
    if es.len() > 0 {
        assert(es2.last() == (es.last().0, m2[es.last().0]));
        assert(lower_ascii_seq(es[es.len() - 1].1) == lower_ascii_seq(m2[es[es.len() - 1].0]));
        if es.len() == 1 {
            assert(es2[0] == (es[0].0, m2[es[0].0]));
        } else {
            let w = es.drop_last();
            assert forall|i: int| 0 <= i < w.len() implies lower_ascii_seq((#[trigger] w[i]).1) == lower_ascii_seq(m2[w[i].0]) by { assert(w[i] == es[i]); }
            lemma_listing_text_vals(w, m2);
            assert(es2.drop_last() =~= with_vals(w, m2));
        }
    }
}

/// the canonical text depends on the algorithms and on the hex values up to ASCII case only
pub proof fn lemma_canon_text_hex_case(es: VS, m1: Map<Seq<char>, Seq<char>>, m2: Map<Seq<char>, Seq<char>>)
    requires is_listing(es, m1), sorted_by_key(es), same_up_to_hex_case(m1, m2), all_values_hex(m1)
    ensures canon_text(m2) == canon_text(m1), all_values_hex(m2)
{
    let es2 = with_vals(es, m2);
    lemma_canon_listing(es, m1);
    assert(is_listing(es2, m2)) by {
        reveal(is_listing);
        assert forall|i: int| 0 <= i < es2.len() implies m2.contains_key(#[trigger] es2[i].0) && m2[es2[i].0] == es2[i].1 by { assert(es2[i] == (es[i].0, m2[es[i].0])); assert(m1.contains_key(es[i].0)); }
        assert forall|i: int, j: int| 0 <= i < j < es2.len() implies #[trigger] es2[i].0 != #[trigger] es2[j].0 by { assert(es2[i].0 == es[i].0 && es2[j].0 == es[j].0); assert(es[i].0 != es[j].0); }
        assert forall|k: Seq<char>| m2.contains_key(k) implies exists|i: int| 0 <= i < es2.len() && #[trigger] es2[i].0 == k by {
            assert(m1.contains_key(k));
            let i = choose|i: int| 0 <= i < es.len() && #[trigger] es[i].0 == k;
            assert(es2[i].0 == k);
        }
    }
    assert(sorted_by_key(es2)) by {
        reveal(sorted_by_key);
        assert forall|i: int, j: int| 0 <= i < j < es2.len() implies str_lt(#[trigger] es2[i].0, #[trigger] es2[j].0) by { assert(es2[i].0 == es[i].0 && es2[j].0 == es[j].0); assert(str_lt(es[i].0, es[j].0)); }
    }
    lemma_canon_listing(es2, m2);
    assert forall|i: int| 0 <= i < es.len() implies lower_ascii_seq((#[trigger] es[i]).1) == lower_ascii_seq(m2[es[i].0]) by {
        reveal(is_listing);
        assert(m1.contains_key(es[i].0) && m1[es[i].0] == es[i].1);
    }
    lemma_listing_text_vals(es, m2);
    assert forall|k: Seq<char>| m2.contains_key(k) implies hex_ok(#[trigger] m2[k]) by { assert(m1.contains_key(k)); lemma_hex_case(m1[k], m2[k]); }
}

/// C12: two checksum texts whose entries are the same up to order, letter case of the algorithm names and letter case of the
/// hex digits -- if build() accepts the first it accepts the second and stores the SAME canonical text for both
pub proof fn theorem_checksum_spellings(x1: Seq<char>, x2: Seq<char>)
    requires
        ck_parse(x1) is Some, ck_text(ck_parse(x1)->Some_0) is Some,
        ({
            let ps1 = split_spec(x1, ','); let ps2 = split_spec(x2, ',');
            pieces_ok(ps2) && pieces_distinct(ps2)
            && (forall|i: int| 0 <= i < ps2.len() ==> exists|j: int| 0 <= j < ps1.len() && piece_key(#[trigger] ps2[i]) == piece_key(#[trigger] ps1[j])
                    && lower_ascii_seq(piece_val(ps2[i])) == lower_ascii_seq(piece_val(ps1[j])))
            && (forall|j: int| 0 <= j < ps1.len() ==> exists|i: int| 0 <= i < ps2.len() && piece_key(#[trigger] ps2[i]) == piece_key(#[trigger] ps1[j]))
        }),
    ensures ck_parse(x2) is Some, ck_text(ck_parse(x2)->Some_0) == ck_text(ck_parse(x1)->Some_0)
{
    let ps1 = split_spec(x1, ',');
    let ps2 = split_spec(x2, ',');
    lemma_ck_fold_char(ps1);
    lemma_ck_fold_char(ps2);
    let m1 = ck_parse(x1)->Some_0;
    let m2 = ck_parse(x2)->Some_0;
    assert(same_up_to_hex_case(m1, m2)) by {
        assert forall|k: Seq<char>| m1.contains_key(k) <==> m2.contains_key(k) by {
            if m1.contains_key(k) {
                let j = choose|j: int| 0 <= j < ps1.len() && piece_key(#[trigger] ps1[j]) == k;
                let i = choose|i: int| 0 <= i < ps2.len() && piece_key(#[trigger] ps2[i]) == piece_key(#[trigger] ps1[j]);
                assert(m2.contains_key(piece_key(ps2[i])));
            }
            if m2.contains_key(k) {
                let i = choose|i: int| 0 <= i < ps2.len() && piece_key(#[trigger] ps2[i]) == k;
                let j = choose|j: int| 0 <= j < ps1.len() && piece_key(#[trigger] ps2[i]) == piece_key(#[trigger] ps1[j])
                    && lower_ascii_seq(piece_val(ps2[i])) == lower_ascii_seq(piece_val(ps1[j]));
                assert(m1.contains_key(piece_key(ps1[j])));
            }
        }
        assert forall|k: Seq<char>| #[trigger] m1.contains_key(k) implies lower_ascii_seq(m1[k]) == lower_ascii_seq(m2[k]) by {
            assert(m2.contains_key(k));
            let i = choose|i: int| 0 <= i < ps2.len() && piece_key(#[trigger] ps2[i]) == k;
            let j = choose|j: int| 0 <= j < ps1.len() && piece_key(#[trigger] ps2[i]) == piece_key(#[trigger] ps1[j])
                && lower_ascii_seq(piece_val(ps2[i])) == lower_ascii_seq(piece_val(ps1[j]));
            assert(m1[piece_key(ps1[j])] == piece_val(ps1[j]));
            assert(m2[piece_key(ps2[i])] == piece_val(ps2[i]));
        }
    }
    lemma_split_pieces_no_sep(x1, ',');
    lemma_ck_fold_sorted_listing(ps1);
    let es = choose|es: VS| #![auto] is_listing(es, m1) && sorted_by_key(es) && keys_fixed(es) && es.len() == ps1.len();
    lemma_canon_text_hex_case(es, m1, m2);
}
