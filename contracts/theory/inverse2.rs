// ---- part 2: namespace / subpath text survives encode -> split -> decode ----
pub open spec fn enc_each(set: SetId, segs: Seq<Seq<char>>) -> Seq<Seq<char>> { segs.map_values(|s: Seq<char>| enc(set, s)) }

pub open spec fn slash_free_nonempty(segs: Seq<Seq<char>>) -> bool {
    forall|i: int| 0 <= i < segs.len() ==> (#[trigger] segs[i]).len() > 0 && !has_char(segs[i], '/')
}

pub proof fn lemma_slash_unescaped()
    ensures !escaped_c(SetId::Path, '/'), !escaped_c(SetId::Fragment, '/'), !pct_alphabet('/'), !pct_alphabet('.'),
        !escaped_c(SetId::Path, '.'), !escaped_c(SetId::Fragment, '.')
{ }

/// encoding a '/'-join (with a set that leaves '/' alone) is the '/'-join of the encodings
pub proof fn lemma_enc_join(set: SetId, segs: Seq<Seq<char>>)
    requires !escaped_c(set, '/'), slash_free_nonempty(segs)
    ensures enc(set, join_segs(segs)) == join_segs(enc_each(set, segs)), slash_free_nonempty(enc_each(set, segs))
    decreases segs.len()
{
    let es = enc_each(set, segs);
    assert forall|i: int| 0 <= i < es.len() implies (#[trigger] es[i]).len() > 0 && !has_char(es[i], '/') by {
        lemma_enc_len(set, segs[i]);
        lemma_enc_preserves(set, segs[i], '/');
    }
    if segs.len() == 0 {
        assert(enc(set, join_segs(segs)) =~= join_segs(es));
    } else {
        let init = segs.drop_last();
        assert forall|i: int| 0 <= i < init.len() implies (#[trigger] init[i]).len() > 0 && !has_char(init[i], '/') by { assert(init[i] == segs[i]); }
        lemma_enc_join(set, init);
        assert(es.drop_last() =~= enc_each(set, init));
        assert(es.last() == enc(set, segs.last()));
        if init.len() == 0 {
            assert(join_segs(init) =~= Seq::<char>::empty());
            assert(join_segs(es.drop_last()) =~= Seq::<char>::empty());
        } else {
            lemma_join_nonempty(init);
            lemma_join_nonempty(enc_each(set, init));
            lemma_enc_concat(set, join_segs(init) + seq!['/'], segs.last());
            lemma_enc_concat(set, join_segs(init), seq!['/']);
            lemma_enc_single(set, '/');
        }
    }
}

/// folding the pieces enc(seg_i) with the namespace rule gives the '/'-join of the segments
pub proof fn lemma_ns_fold_of_enc(set: SetId, segs: Seq<Seq<char>>)
    requires slash_free_nonempty(segs)
    ensures ns_fold(enc_each(set, segs)) == Some(join_segs(segs))
    decreases segs.len()
{
    let es = enc_each(set, segs);
    if segs.len() > 0 {
        let init = segs.drop_last();
        assert forall|i: int| 0 <= i < init.len() implies (#[trigger] init[i]).len() > 0 && !has_char(init[i], '/') by { assert(init[i] == segs[i]); }
        lemma_ns_fold_of_enc(set, init);
        assert(es.drop_last() =~= enc_each(set, init));
        assert(es.last() == enc(set, segs.last()));
        lemma_enc_len(set, segs.last());
        axiom_dec_enc(set, segs.last());
        assert(segs[segs.len() - 1].len() > 0 && !has_char(segs[segs.len() - 1], '/'));
    }
}

pub open spec fn clean_sub_segs(segs: Seq<Seq<char>>) -> bool {
    forall|i: int| 0 <= i < segs.len() ==> clean_sub_seg(#[trigger] segs[i])
}

/// an encoding equals "." / ".." only if the text does ('.' is never escaped, escapes contain '%')
pub proof fn lemma_enc_dot(set: SetId, s: Seq<char>)
    requires !escaped_c(set, '.')
    ensures is_dot(enc(set, s)) ==> is_dot(s), is_dotdot(enc(set, s)) ==> is_dotdot(s)
{
    lemma_enc_len(set, s);
    let e = enc(set, s);
    if is_dot(e) || is_dotdot(e) {
        // every char of e is '.', so no escape happened: each char of s is unescaped and equals its image
        lemma_enc_all_dots(set, s);
    }
}

pub proof fn lemma_enc_all_dots(set: SetId, s: Seq<char>)
    requires forall|i: int| 0 <= i < enc(set, s).len() ==> #[trigger] enc(set, s)[i] == '.'
    ensures enc(set, s) == s
    decreases s.len()
{
    if s.len() > 0 {
        let pre = enc(set, s.drop_last());
        let c = s.last();
        let e = enc_char(set, c);
        axiom_pct(c);
        assert forall|i: int| 0 <= i < pre.len() implies #[trigger] pre[i] == '.' by { assert((pre + e)[i] == pre[i]); }
        lemma_enc_all_dots(set, s.drop_last());
        assert((pre + e)[pre.len() as int] == e[0]);
        if escaped_c(set, c) { assert(pct_alphabet(pct(c)[0])); assert(false); }
        assert(e == seq![c]);
        assert(enc(set, s) =~= s);
    } else { assert(enc(set, s) =~= s); }
}

pub proof fn lemma_sub_fold_of_enc(set: SetId, segs: Seq<Seq<char>>)
    requires clean_sub_segs(segs), !escaped_c(set, '.')
    ensures sub_fold(enc_each(set, segs)) == Some(join_segs(segs))
    decreases segs.len()
{
    let es = enc_each(set, segs);
    if segs.len() > 0 {
        let init = segs.drop_last();
        assert forall|i: int| 0 <= i < init.len() implies clean_sub_seg(#[trigger] init[i]) by { assert(init[i] == segs[i]); }
        lemma_sub_fold_of_enc(set, init);
        assert(es.drop_last() =~= enc_each(set, init));
        assert(es.last() == enc(set, segs.last()));
        lemma_enc_len(set, segs.last());
        axiom_dec_enc(set, segs.last());
        lemma_enc_dot(set, segs.last());
        assert(clean_sub_seg(segs[segs.len() - 1]));
    }
}

/// trimming '/' does nothing to a text that neither starts nor ends with '/'
pub proof fn lemma_trim_noop(s: Seq<char>, c: char)
    requires s.len() == 0 || (s[0] != c && s.last() != c)
    ensures trim_spec(s, c) == s
{
    if s.len() > 0 { assert(trim_start_spec(s, c) == s); assert(trim_end_spec(s, c) == s); }
}

pub proof fn lemma_join_ends(segs: Seq<Seq<char>>)
    requires segs.len() > 0, slash_free_nonempty(segs)
    ensures join_segs(segs).len() > 0, join_segs(segs)[0] != '/', join_segs(segs).last() != '/'
    decreases segs.len()
{
    let init = segs.drop_last();
    let l = segs.last();
    assert(l.len() > 0 && !has_char(l, '/')) by { assert(segs[segs.len() - 1] == l); }
    assert(l[0] != '/'); assert(l[l.len() - 1] != '/');
    if init.len() == 0 {
        assert(join_segs(init) =~= Seq::<char>::empty());
    } else {
        assert forall|i: int| 0 <= i < init.len() implies (#[trigger] init[i]).len() > 0 && !has_char(init[i], '/') by { assert(init[i] == segs[i]); }
        lemma_join_ends(init);
        let j = join_segs(init);
        assert((j + seq!['/'] + l)[0] == j[0]);
        assert((j + seq!['/'] + l).last() == l.last());
    }
}

/// C07 / C01 (namespace): the printed namespace parses back to itself
pub proof fn lemma_ns_roundtrip(segs: Seq<Seq<char>>)
    requires segs.len() > 0, slash_free_nonempty(segs)
    ensures ns_fold(split_spec(trim_spec(enc(SetId::Path, join_segs(segs)), '/'), '/')) == Some(join_segs(segs))
{
    lemma_slash_unescaped();
    lemma_enc_join(SetId::Path, segs);
    let es = enc_each(SetId::Path, segs);
    lemma_join_ends(es);
    lemma_trim_noop(join_segs(es), '/');
    lemma_split_of_join(es);
    lemma_ns_fold_of_enc(SetId::Path, segs);
}

/// C07 / C01 (subpath)
pub proof fn lemma_sub_roundtrip(segs: Seq<Seq<char>>)
    requires segs.len() > 0, clean_sub_segs(segs)
    ensures sub_fold(split_spec(trim_spec(enc(SetId::Fragment, join_segs(segs)), '/'), '/')) == Some(join_segs(segs))
{
    lemma_slash_unescaped();
    assert(slash_free_nonempty(segs)) by { assert forall|i: int| 0 <= i < segs.len() implies (#[trigger] segs[i]).len() > 0 && !has_char(segs[i], '/') by { assert(clean_sub_seg(segs[i])); } }
    lemma_enc_join(SetId::Fragment, segs);
    let es = enc_each(SetId::Fragment, segs);
    lemma_join_ends(es);
    lemma_trim_noop(join_segs(es), '/');
    lemma_split_of_join(es);
    lemma_sub_fold_of_enc(SetId::Fragment, segs);
}
