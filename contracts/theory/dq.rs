// ---- qualifiers part of the parser (C02, C05), written from the statements ----
pub type KV = Seq<(Seq<char>, Seq<char>)>;
pub open spec fn kvs(v: Seq<(QualifierKey, SmallString)>) -> KV { v.map_values(|e: (QualifierKey, SmallString)| (e.0.0@, e.1@)) }

pub open spec fn kv_has_key(v: KV, k: Seq<char>) -> bool { exists|i: int| 0 <= i < v.len() && (#[trigger] v[i]).0 == k }
pub open spec fn kv_pos_of(v: KV, k: Seq<char>) -> int decreases v.len()
{ if v.len() == 0 { 0 } else { kv_pos_of(v.drop_last(), k) + if str_lt(v.last().0, k) { 1int } else { 0int } } }

pub proof fn lemma_kvs_pos_of(v: Seq<(QualifierKey, SmallString)>, k: Seq<char>)
    ensures kv_pos_of(kvs(v), k) == pos_of(v, k), kv_has_key(kvs(v), k) == has_key(v, k)
    decreases v.len()
{
    if v.len() > 0 {
        assert(kvs(v).drop_last() =~= kvs(v.drop_last()));
        lemma_kvs_pos_of(v.drop_last(), k);
        assert(kvs(v).last().0 == v.last().0.0@);
    }
    if has_key(v, k) { let i = choose|i: int| 0 <= i < v.len() && #[trigger] v[i].0.0@ == k; assert(kvs(v)[i].0 == k); }
    if kv_has_key(kvs(v), k) { let i = choose|i: int| 0 <= i < kvs(v).len() && (#[trigger] kvs(v)[i]).0 == k; assert(v[i].0.0@ == k); }
}

pub enum DqErr { Qualifier, Escape }

/// one `key=value` item, in the order the statement lists the defects: no '=', invalid key, key already present,
/// value not decodable; an empty decoded value is skipped; otherwise the pair is inserted at its sorted position
pub open spec fn dq_step(acc: KV, item: Seq<char>) -> Result<KV, DqErr> {
    let i = first_index_of(item, '=');
    if i < 0 { Err(DqErr::Qualifier) } else {
        let k = item.subrange(0, i);
        let v = item.subrange(i + 1, item.len() as int);
        if !valid_key(k) { Err(DqErr::Qualifier) }
        else if kv_has_key(acc, lower_ascii_seq(k)) { Err(DqErr::Qualifier) }
        else if dec(v) is None { Err(DqErr::Escape) }
        else if dec(v)->Some_0.len() == 0 { Ok(acc) }
        else { Ok(acc.insert(kv_pos_of(acc, lower_ascii_seq(k)), (lower_ascii_seq(k), dec(v)->Some_0))) }
    }
}
pub open spec fn dq_fold(items: Seq<Seq<char>>, acc0: KV) -> Result<KV, DqErr> decreases items.len() {
    if items.len() == 0 { Ok(acc0) } else {
        match dq_fold(items.drop_last(), acc0) { Err(e) => Err(e), Ok(acc) => dq_step(acc, items.last()) }
    }
}
pub open spec fn dq_err(e: ParseError, d: DqErr) -> bool {
    match d { DqErr::Qualifier => e == ParseError::InvalidQualifier, DqErr::Escape => e == ParseError::InvalidEscape }
}
pub proof fn lemma_dq_fold_err(items: Seq<Seq<char>>, acc0: KV, k: int)
    requires 0 <= k <= items.len(), dq_fold(items.take(k), acc0) is Err
    ensures dq_fold(items, acc0) == dq_fold(items.take(k), acc0)
    decreases items.len() - k
{
    if k < items.len() {
        assert(items.take(k + 1).drop_last() == items.take(k));
        lemma_dq_fold_err(items, acc0, k + 1);
    } else { assert(items.take(k) == items); }
}
