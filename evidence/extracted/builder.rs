// GENERATED on every run by vlib/extract.py from /repo -- do not edit
#![allow(unused_imports, unused_variables, unused_mut, dead_code, unused_parens, unused_braces, non_snake_case)]
use vstd::prelude::*;
use core::cmp::Ordering;
use core::marker::PhantomData;
verus! {

// ---- theory: base.rs ----
// Shared vocabulary. Strings are Seq<char>. Everything marked `uninterp` or `external_body` below is an
// ASSUMPTION about std / Unicode; each is listed in the trusted base and replayed against the real std by
// the A step (exhaustively per char, bounded per string).

pub type SmallString = String;   // R0: purl's own `#[cfg(not(feature = "smartstring"))] type SmallString = String;`

// ---- Unicode tables (uninterpreted) ----
pub uninterp spec fn u_to_lower(c: char) -> Seq<char>;      // char::to_lowercase, as a sequence

pub open spec fn is_ascii_c(c: char) -> bool { (c as u32) < 128 }
pub open spec fn ascii_upper_c(c: char) -> bool { 'A' <= c && c <= 'Z' }
pub open spec fn ascii_lower_c(c: char) -> bool { 'a' <= c && c <= 'z' }
pub open spec fn ascii_digit_c(c: char) -> bool { '0' <= c && c <= '9' }
pub open spec fn ascii_alnum_c(c: char) -> bool { ascii_upper_c(c) || ascii_lower_c(c) || ascii_digit_c(c) }
pub open spec fn ascii_hex_c(c: char) -> bool { ascii_digit_c(c) || ('a' <= c && c <= 'f') || ('A' <= c && c <= 'F') }
pub open spec fn ascii_lower(c: char) -> char { if ascii_upper_c(c) { ((c as u32 + 32) as char) } else { c } }

/// Unicode lower-casing of a string: each character replaced by its lower-case mapping (C08 wording).
pub open spec fn lower_seq(s: Seq<char>) -> Seq<char> decreases s.len()
{ if s.len() == 0 { seq![] } else { lower_seq(s.drop_last()) + u_to_lower(s.last()) } }

/// ASCII lower-casing (what make_ascii_lowercase / to_ascii_lowercase do).
pub open spec fn lower_ascii_seq(s: Seq<char>) -> Seq<char> { s.map_values(|c: char| ascii_lower(c)) }

pub open spec fn all_ascii_lower(s: Seq<char>) -> bool { forall|i: int| 0 <= i < s.len() ==> ascii_lower_c(#[trigger] s[i]) }

pub open spec fn has_char(s: Seq<char>, c: char) -> bool { exists|i: int| 0 <= i < s.len() && s[i] == c }

// A-validated fact (exhaustive over all 128 ASCII chars): on ASCII, Unicode lower-casing is ASCII lower-casing.
#[verifier::external_body]
pub broadcast proof fn axiom_ascii_to_lower(c: char)
    requires is_ascii_c(c)
    ensures #[trigger] u_to_lower(c) == seq![ascii_lower(c)]
{ }

// ---- char methods (assumed = their documented ASCII definitions; A: exhaustive over all scalar values) ----
pub assume_specification [char::is_ascii] (c: &char) -> (r: bool) ensures r == is_ascii_c(*c);
pub assume_specification [char::is_ascii_alphanumeric] (c: &char) -> (r: bool) ensures r == ascii_alnum_c(*c);
pub assume_specification [char::is_ascii_lowercase] (c: &char) -> (r: bool) ensures r == ascii_lower_c(*c);
pub assume_specification [char::is_ascii_hexdigit] (c: &char) -> (r: bool) ensures r == ascii_hex_c(*c);
pub assume_specification [char::is_ascii_uppercase] (c: &char) -> (r: bool) ensures r == ascii_upper_c(*c);
pub assume_specification [char::is_ascii_digit] (c: &char) -> (r: bool) ensures r == ascii_digit_c(*c);
pub assume_specification [char::is_ascii_alphabetic] (c: &char) -> (r: bool) ensures r == (ascii_upper_c(*c) || ascii_lower_c(*c));
pub assume_specification [char::to_ascii_lowercase] (c: &char) -> (r: char) ensures r == ascii_lower(*c);

/// byte length of the UTF-8 encoding (uninterpreted; only that it is a function of the text is used)
pub uninterp spec fn utf8_len(s: Seq<char>) -> nat;
pub assume_specification [String::len] (s: &String) -> (r: usize) ensures r == utf8_len(s@);

// ---- string wrappers (R3): body IS the original call; only the contract is assumed ----
#[verifier::external_body]
pub fn x_make_ascii_lowercase(s: &mut str)
    ensures final(s)@ == lower_ascii_seq(old(s)@)
{ s.make_ascii_lowercase() }

// `&mut String -> &mut str` deref coercion: same text, writes go through.
pub assume_specification [ <String as core::ops::DerefMut>::deref_mut ] (s: &mut String) -> (r: &mut str)
    ensures r@ == old(s)@, final(r)@ == final(s)@;

/// `<[char]>::contains`
#[verifier::external_body]
pub fn x_slice_contains(s: &[char], c: &char) -> (r: bool)
    ensures r == s@.contains(*c)
{ s.contains(c) }

#[verifier::external_body]
pub fn x_to_ascii_lowercase(s: &str) -> (r: String)
    ensures r@ == lower_ascii_seq(s@)
{ s.to_ascii_lowercase() }

/// `s.chars().flat_map(|c| c.to_lowercase()).collect()`
#[verifier::external_body]
pub fn x_lower_collect(s: &str) -> (r: String)
    ensures r@ == lower_seq(s@)
{ s.chars().flat_map(|c| c.to_lowercase()).collect() }

/// `c.to_lowercase().ne([c])`
#[verifier::external_body]
pub fn x_lower_changes(c: char) -> (r: bool)
    ensures r == (u_to_lower(c) != seq![c])
{ c.to_lowercase().ne([c]) }

/// `result.extend(c.to_lowercase())`
#[verifier::external_body]
pub fn x_extend_lower(s: &mut String, c: char)
    ensures final(s)@ == old(s)@ + u_to_lower(c)
{ s.extend(c.to_lowercase()) }

// String::from(&str) / String::from(String) / .into(): vstd ties From::from to FromSpec; the two instances used by
// purl (with SmallString = String) are assumed to copy / move the text.
#[verifier::external_body]
pub proof fn axiom_string_from()
    ensures
        <String as vstd::std_specs::convert::FromSpec<&str>>::obeys_from_spec(),
        forall|s: &str| (#[trigger] <String as vstd::std_specs::convert::FromSpec<&str>>::from_spec(s))@ == s@,
        <String as vstd::std_specs::convert::FromSpec<String>>::obeys_from_spec(),
        forall|s: String| (#[trigger] <String as vstd::std_specs::convert::FromSpec<String>>::from_spec(s)) == s,
{ }

// ---- lemmas over the vocabulary (proved) ----
pub proof fn lemma_lower_seq_identity(s: Seq<char>)
    requires forall|i: int| 0 <= i < s.len() ==> u_to_lower(#[trigger] s[i]) == seq![s[i]]
    ensures lower_seq(s) == s
    decreases s.len()
{
    if s.len() > 0 {
        lemma_lower_seq_identity(s.drop_last());
        assert(s.drop_last().push(s.last()) == s);
        assert(lower_seq(s) =~= s);
    }
}

pub proof fn lemma_lower_seq_ascii(s: Seq<char>)
    requires forall|i: int| 0 <= i < s.len() ==> (u_to_lower(#[trigger] s[i]) != seq![s[i]] ==> is_ascii_c(s[i]))
    ensures lower_seq(s) == lower_ascii_seq(s)
    decreases s.len()
{
    broadcast use axiom_ascii_to_lower;
    if s.len() > 0 {
        lemma_lower_seq_ascii(s.drop_last());
        let c = s.last();
        if is_ascii_c(c) {
            assert(u_to_lower(c) == seq![ascii_lower(c)]);
        } else {
            assert(u_to_lower(c) == seq![c]);
            assert(ascii_lower(c) == c);
        }
        assert(lower_ascii_seq(s.drop_last()) =~= lower_ascii_seq(s).drop_last());
        assert(lower_seq(s) =~= lower_ascii_seq(s));
    } else {
        assert(lower_seq(s) =~= lower_ascii_seq(s));
    }
}

pub proof fn lemma_lower_seq_push(s: Seq<char>, c: char)
    ensures lower_seq(s.push(c)) == lower_seq(s) + u_to_lower(c)
{
    assert(s.push(c).drop_last() == s);
}

pub proof fn lemma_lower_seq_take(s: Seq<char>, k: int)
    requires 0 <= k < s.len()
    ensures lower_seq(s.take(k + 1)) == lower_seq(s.take(k)) + u_to_lower(s[k])
{
    assert(s.take(k + 1).drop_last() == s.take(k));
}

// ---- trimming / splitting vocabulary (defined, so lemmas about it are proved) ----
pub open spec fn trim_start_spec(s: Seq<char>, c: char) -> Seq<char> decreases s.len()
{ if s.len() > 0 && s[0] == c { trim_start_spec(s.subrange(1, s.len() as int), c) } else { s } }
pub open spec fn trim_end_spec(s: Seq<char>, c: char) -> Seq<char> decreases s.len()
{ if s.len() > 0 && s.last() == c { trim_end_spec(s.drop_last(), c) } else { s } }
pub open spec fn trim_spec(s: Seq<char>, c: char) -> Seq<char> { trim_end_spec(trim_start_spec(s, c), c) }
pub open spec fn all_char(s: Seq<char>, c: char) -> bool { forall|i: int| 0 <= i < s.len() ==> #[trigger] s[i] == c }

/// `s.trim_matches(c)` for a char pattern
#[verifier::external_body]
pub fn x_trim_matches<'a>(s: &'a str, c: char) -> (r: &'a str)
    ensures r@ == trim_spec(s@, c)
{ s.trim_matches(c) }

/// `s.trim_start_matches(c)` for a char pattern
#[verifier::external_body]
pub fn x_trim_start_matches<'a>(s: &'a str, c: char) -> (r: &'a str)
    ensures r@ == trim_start_spec(s@, c)
{ s.trim_start_matches(c) }

/// `s.contains(set)` for a `&[char]` pattern
#[verifier::external_body]
pub fn x_str_contains_any(s: &str, set: &[char]) -> (r: bool)
    ensures r == exists|i: int| 0 <= i < s@.len() && set@.contains(#[trigger] s@[i])
{ s.contains(set) }

/// `s.contains(c)` for a char pattern
#[verifier::external_body]
pub fn x_str_contains_char(s: &str, c: char) -> (r: bool)
    ensures r == has_char(s@, c)
{ s.contains(c) }

pub proof fn lemma_trim_start_all(s: Seq<char>, c: char)
    ensures
        all_char(s, c) ==> trim_start_spec(s, c).len() == 0,
        !all_char(s, c) ==> trim_start_spec(s, c).len() > 0 && trim_start_spec(s, c)[0] != c && !all_char(trim_start_spec(s, c), c),
    decreases s.len()
{
    if s.len() > 0 && s[0] == c {
        let t = s.subrange(1, s.len() as int);
        lemma_trim_start_all(t, c);
        if all_char(s, c) {
            assert forall|i: int| 0 <= i < t.len() implies #[trigger] t[i] == c by { assert(t[i] == s[i + 1]); }
        } else {
            let j = choose|j: int| 0 <= j < s.len() && s[j] != c;
            assert(t[j - 1] == s[j]);
        }
    } else if s.len() > 0 {
        assert(s[0] != c);
    }
}

pub proof fn lemma_trim_end_all(s: Seq<char>, c: char)
    ensures
        all_char(s, c) ==> trim_end_spec(s, c).len() == 0,
        !all_char(s, c) ==> trim_end_spec(s, c).len() > 0,
    decreases s.len()
{
    if s.len() > 0 && s.last() == c {
        let t = s.drop_last();
        lemma_trim_end_all(t, c);
        if !all_char(s, c) {
            let j = choose|j: int| 0 <= j < s.len() && s[j] != c;
            assert(t[j] == s[j]);
        }
    } else if s.len() > 0 {
        assert(s[s.len() - 1] != c);
    }
}

/// trimming leaves nothing exactly when the string consists of the trimmed character only
pub proof fn lemma_trim_empty_iff_all(s: Seq<char>, c: char)
    ensures (trim_spec(s, c).len() == 0) == all_char(s, c)
{
    lemma_trim_start_all(s, c);
    lemma_trim_end_all(trim_start_spec(s, c), c);
}

pub proof fn lemma_lower_ascii_fixed(s: Seq<char>)
    requires forall|i: int| 0 <= i < s.len() ==> !ascii_upper_c(#[trigger] s[i])
    ensures lower_ascii_seq(s) == s
{
    assert(lower_ascii_seq(s) =~= s);
}

// ---- unit T.PurlField  <= purl/src/parse.rs:112 ----
#[derive(Debug, Clone, Copy)]
pub enum PurlField {
    PackageType,
    Namespace,
    Name,
    Version,
    Subpath,
}
// ---- unit T.ParseError  <= purl/src/parse.rs:17 ----
#[derive(Debug)]
pub enum ParseError {
    UnsupportedUrlScheme,
    MissingRequiredField(PurlField),
    InvalidPackageType,
    InvalidQualifier,
    InvalidEscape,
}
// ---- unit T.QualifierKey  <= purl/src/qualifiers.rs:319 ----
pub struct QualifierKey(pub SmallString);
// ---- unit T.Qualifiers  <= purl/src/qualifiers.rs:21 ----
pub struct Qualifiers {
    pub qualifiers: Vec<(QualifierKey, SmallString)>,
}
// ---- unit T.PurlParts  <= purl/src/lib.rs:212 ----
pub struct PurlParts {
    pub namespace: SmallString,
    pub name: SmallString,
    pub version: SmallString,
    pub qualifiers: Qualifiers,
    pub subpath: SmallString,
}
// ---- unit T.MixedQualifierKey  <= purl/src/qualifiers.rs:553 ----
pub enum MixedQualifierKey<S> {
    Lower(S),
    Mixed(S),
}
// ---- unit theory.qual  <= (contracts):0 ----
// ---- qualifier keys (C04, C05, C11: ASCII letters, digits, '.', '-', '_'; non-empty) ----
pub open spec fn key_char(c: char) -> bool { ascii_alnum_c(c) || c == '.' || c == '-' || c == '_' }
pub open spec fn valid_key(s: Seq<char>) -> bool { s.len() > 0 && forall|i: int| 0 <= i < s.len() ==> key_char(#[trigger] s[i]) }
/// canonical stored form: valid and free of ASCII upper-case
pub open spec fn canon_key(s: Seq<char>) -> bool { valid_key(s) && forall|i: int| 0 <= i < s.len() ==> !ascii_upper_c(#[trigger] s[i]) }

// ---- lexicographic order on Seq<char> by scalar value (= byte-wise order of the UTF-8 text, = str::cmp) ----
pub open spec fn lex_cmp(a: Seq<char>, b: Seq<char>) -> Ordering decreases a.len()
{
    if a.len() == 0 { if b.len() == 0 { Ordering::Equal } else { Ordering::Less } }
    else if b.len() == 0 { Ordering::Greater }
    else if (a[0] as u32) < (b[0] as u32) { Ordering::Less }
    else if (a[0] as u32) > (b[0] as u32) { Ordering::Greater }
    else { lex_cmp(a.subrange(1, a.len() as int), b.subrange(1, b.len() as int)) }
}
pub open spec fn str_lt(a: Seq<char>, b: Seq<char>) -> bool { lex_cmp(a, b) is Less }

pub proof fn lemma_lex_eq(a: Seq<char>, b: Seq<char>)
    ensures (lex_cmp(a, b) is Equal) == (a == b)
    decreases a.len()
{
    if a.len() > 0 && b.len() > 0 {
        if a[0] == b[0] {
            lemma_lex_eq(a.subrange(1, a.len() as int), b.subrange(1, b.len() as int));
            if a.subrange(1, a.len() as int) == b.subrange(1, b.len() as int) {
                assert(a =~= seq![a[0]] + a.subrange(1, a.len() as int));
                assert(b =~= seq![b[0]] + b.subrange(1, b.len() as int));
            }
        } else {
            assert((a[0] as u32) != (b[0] as u32));
        }
    } else {
        assert((a == b) == (a.len() == 0 && b.len() == 0)) by { if a.len() == 0 && b.len() == 0 { assert(a =~= b); } }
    }
}

pub proof fn lemma_lex_flip(a: Seq<char>, b: Seq<char>)
    ensures
        (lex_cmp(a, b) is Less) == (lex_cmp(b, a) is Greater),
        (lex_cmp(a, b) is Greater) == (lex_cmp(b, a) is Less),
    decreases a.len()
{
    if a.len() > 0 && b.len() > 0 && a[0] == b[0] {
        lemma_lex_flip(a.subrange(1, a.len() as int), b.subrange(1, b.len() as int));
    }
}

pub proof fn lemma_lex_trans(a: Seq<char>, b: Seq<char>, c: Seq<char>)
    requires str_lt(a, b), str_lt(b, c)
    ensures str_lt(a, c)
    decreases a.len()
{
    if a.len() > 0 && b.len() > 0 && c.len() > 0 && a[0] == b[0] && b[0] == c[0] {
        lemma_lex_trans(a.subrange(1, a.len() as int), b.subrange(1, b.len() as int), c.subrange(1, c.len() as int));
    }
}

pub proof fn lemma_lt_irrefl(a: Seq<char>)
    ensures !str_lt(a, a)
{
    lemma_lex_eq(a, a);
}

// ---- the representation invariant of Qualifiers (C04, C11): keys canonical, strictly ascending ----
pub open spec fn keys_sorted(v: Seq<(QualifierKey, SmallString)>) -> bool {
    forall|i: int, j: int| 0 <= i < j < v.len() ==> str_lt(#[trigger] v[i].0.0@, #[trigger] v[j].0.0@)
}
pub open spec fn keys_canon(v: Seq<(QualifierKey, SmallString)>) -> bool {
    forall|i: int| 0 <= i < v.len() ==> canon_key(#[trigger] v[i].0.0@)
}
pub open spec fn wf_seq(v: Seq<(QualifierKey, SmallString)>) -> bool { keys_sorted(v) && keys_canon(v) }

/// abstract content: key text -> value text (a function of the sequence; unique positions because keys are strictly ascending)
pub open spec fn has_key(v: Seq<(QualifierKey, SmallString)>, k: Seq<char>) -> bool {
    exists|i: int| 0 <= i < v.len() && #[trigger] v[i].0.0@ == k
}
pub open spec fn has_pair(v: Seq<(QualifierKey, SmallString)>, k: Seq<char>, val: Seq<char>) -> bool {
    exists|i: int| 0 <= i < v.len() && #[trigger] v[i].0.0@ == k && v[i].1@ == val
}

pub proof fn lemma_sorted_unique(v: Seq<(QualifierKey, SmallString)>, i: int, j: int)
    requires keys_sorted(v), 0 <= i < v.len(), 0 <= j < v.len(), v[i].0.0@ == v[j].0.0@
    ensures i == j
{
    lemma_lt_irrefl(v[i].0.0@);
    if i < j { assert(str_lt(v[i].0.0@, v[j].0.0@)); }
    if j < i { assert(str_lt(v[j].0.0@, v[i].0.0@)); }
}

/// the position of key `k` in a strictly ascending list = number of keys smaller than `k` (names the witness, so
/// whole-content postconditions need no existential)
pub open spec fn pos_of(v: Seq<(QualifierKey, SmallString)>, k: Seq<char>) -> int decreases v.len()
{
    if v.len() == 0 { 0 } else { pos_of(v.drop_last(), k) + if str_lt(v.last().0.0@, k) { 1int } else { 0int } }
}

pub proof fn lemma_pos_of(v: Seq<(QualifierKey, SmallString)>, k: Seq<char>, i: int)
    requires 0 <= i <= v.len(),
        forall|j: int| 0 <= j < i ==> str_lt(#[trigger] v[j].0.0@, k),
        forall|j: int| i <= j < v.len() ==> !str_lt(#[trigger] v[j].0.0@, k),
    ensures pos_of(v, k) == i
    decreases v.len()
{
    if v.len() > 0 {
        let w = v.drop_last();
        if i == v.len() {
            assert forall|j: int| 0 <= j < i - 1 implies str_lt(#[trigger] w[j].0.0@, k) by { assert(w[j] == v[j]); }
            lemma_pos_of(w, k, i - 1);
            assert(str_lt(v[v.len() - 1].0.0@, k));
        } else {
            assert forall|j: int| 0 <= j < i implies str_lt(#[trigger] w[j].0.0@, k) by { assert(w[j] == v[j]); }
            assert forall|j: int| i <= j < w.len() implies !str_lt(#[trigger] w[j].0.0@, k) by { assert(w[j] == v[j]); }
            lemma_pos_of(w, k, i);
            assert(!str_lt(v[v.len() - 1].0.0@, k));
        }
    }
}

pub proof fn lemma_lt_asym(a: Seq<char>, b: Seq<char>)
    requires str_lt(a, b)
    ensures !str_lt(b, a)
{
    lemma_lex_flip(a, b);
}
// ---- R9: stub of std's AsRef, with a specification of the text it exposes ----
pub uninterp spec fn view_of<T: ?Sized>(t: &T) -> Seq<char>;
#[verifier::external_body]
pub broadcast proof fn axiom_view_of_str(s: &str)
    ensures #[trigger] view_of::<str>(s) == s@
{ }

pub trait AsRef<T: ?Sized> {
    spec fn text(&self) -> Seq<char>;
    fn as_ref(&self) -> (r: &T)
        ensures view_of(r) == self.text();
}
impl AsRef<str> for str {
    open spec fn text(&self) -> Seq<char> { self@ }
    fn as_ref(&self) -> (r: &str) { broadcast use axiom_view_of_str; self }
}
impl<T: ?Sized + AsRef<str>> AsRef<str> for &T {
    open spec fn text(&self) -> Seq<char> { (**self).text() }
    fn as_ref(&self) -> (r: &str) { (**self).as_ref() }
}
impl AsRef<str> for String {
    open spec fn text(&self) -> Seq<char> { self@ }
    fn as_ref(&self) -> (r: &str) { broadcast use axiom_view_of_str; self.as_str() }
}

/// ASSUMED coherence of std conversions: for every K that is both `AsRef<str>` and convertible into SmallString,
/// `SmallString::from(k)` has the text `k.as_ref()` (true for &str, String, SmallString, Cow<str>, Box<str>, ...).
#[verifier::external_body]
pub proof fn axiom_from_keeps_text<K: AsRef<str>>()
    where String: From<K>
    ensures
        <String as vstd::std_specs::convert::FromSpec<K>>::obeys_from_spec(),
        forall|k: K| (#[trigger] <String as vstd::std_specs::convert::FromSpec<K>>::from_spec(k))@ == k.text(),
{ }

pub assume_specification [std::cmp::Ordering::is_eq] (o: Ordering) -> (r: bool) ensures r == (o is Equal);

/// `a.chars().cmp(b.chars().flat_map(|c| c.to_lowercase()))`: Iterator::cmp is lexicographic by scalar value
#[verifier::external_body]
pub fn x_cmp_chars_lower(a: &str, b: &str) -> (r: Ordering)
    ensures r == lex_cmp(a@, lower_seq(b@))
{ a.chars().cmp(b.chars().flat_map(|c| c.to_lowercase())) }

pub open spec fn ord_rank(o: Ordering) -> int { match o { Ordering::Less => 0, Ordering::Equal => 1, Ordering::Greater => 2 } }

pub open spec fn key_cmp(kv: (QualifierKey, SmallString), t: Seq<char>) -> Ordering { lex_cmp(kv.0.0@, t) }

/// a strictly ascending key list is partitioned Less* Equal? Greater* by comparison with any target
pub proof fn lemma_sorted_partition(v: Seq<(QualifierKey, SmallString)>, t: Seq<char>)
    requires keys_sorted(v)
    ensures forall|i: int, j: int| 0 <= i < j < v.len() ==> ord_rank(key_cmp(#[trigger] v[i], t)) <= ord_rank(key_cmp(#[trigger] v[j], t))
{
    assert forall|i: int, j: int| 0 <= i < j < v.len() implies ord_rank(key_cmp(#[trigger] v[i], t)) <= ord_rank(key_cmp(#[trigger] v[j], t)) by {
        let a = v[i].0.0@;
        let b = v[j].0.0@;
        assert(str_lt(a, b));
        if lex_cmp(a, t) is Greater {
            lemma_lex_flip(a, t);
            lemma_lex_trans(t, a, b);
            lemma_lex_flip(t, b);
        } else if lex_cmp(a, t) is Equal {
            lemma_lex_eq(a, t);
            lemma_lex_flip(t, b);
        }
    }
}



impl<S: AsRef<str>> MixedQualifierKey<S> {
    pub open spec fn text(&self) -> Seq<char> {
        match self { MixedQualifierKey::Lower(s) => s.text(), MixedQualifierKey::Mixed(s) => s.text() }
    }
    /// valid key; the `Lower` tag promises there is nothing to lower-case
    pub open spec fn wf(&self) -> bool {
        valid_key(self.text()) && (self is Lower ==> all_ascii_lower(self.text()))
    }
    pub open spec fn canon(&self) -> Seq<char> { lower_ascii_seq(self.text()) }
}
pub proof fn lemma_canon_of_valid(s: Seq<char>)
    requires valid_key(s)
    ensures canon_key(lower_ascii_seq(s)), lower_seq(s) == lower_ascii_seq(s)
{
    let l = lower_ascii_seq(s);
    assert forall|i: int| 0 <= i < l.len() implies key_char(#[trigger] l[i]) && !ascii_upper_c(l[i]) by {
        assert(key_char(s[i]));
    }
    assert forall|i: int| 0 <= i < s.len() implies (u_to_lower(#[trigger] s[i]) != seq![s[i]] ==> is_ascii_c(s[i])) by {
        assert(key_char(s[i]));
    }
    lemma_lower_seq_ascii(s);
}

impl Qualifiers {
// ---- unit spec.Qualifiers  <= (contracts):0 ----
    /// representation invariant (C04, C11): keys valid, lower-case, strictly ascending
    pub open spec fn wf(&self) -> bool { wf_seq(self.qualifiers@) }
}
// ---- unit theory.types  <= (contracts):0 ----
// ---- R9: stub of std::borrow::Cow for B = str (two variants, same names) ----
pub enum Cow<'a, B: ?Sized> { Borrowed(&'a B), Owned(String) }

impl<'a> View for Cow<'a, str> {
    type V = Seq<char>;
    open spec fn view(&self) -> Seq<char> {
        match self { Cow::Borrowed(b) => b@, Cow::Owned(o) => o@ }
    }
}

impl<'a> core::ops::Deref for Cow<'a, str> {
    type Target = str;
    fn deref(&self) -> (r: &str)
        ensures r@ == self@
    {
        match self { Cow::Borrowed(b) => b, Cow::Owned(o) => o.as_str() }
    }
}

// ---- vocabulary for package types (written from C02/C04/C05: letters, digits, '.', '+', '-'; non-empty) ----
pub open spec fn type_char(c: char) -> bool { ascii_alnum_c(c) || c == '.' || c == '+' || c == '-' }
pub open spec fn valid_type(s: Seq<char>) -> bool { s.len() > 0 && forall|i: int| 0 <= i < s.len() ==> type_char(#[trigger] s[i]) }

/// What every built-in string-like shape must do in `finish` (C04, C13): validate, then ASCII-lower-case; parts untouched.
pub open spec fn shape_rel(t0: Seq<char>, p0: PurlParts, t1: Seq<char>, p1: PurlParts, r: Result<(), ParseError>) -> bool {
    p1 == p0
    && (valid_type(t0) ==> r is Ok && t1 == lower_ascii_seq(t0))
    && (!valid_type(t0) ==> r == Err::<(), ParseError>(ParseError::InvalidPackageType))
}


// ---- unit theory.cksum_abs  <= (contracts):0 ----
// ---- abstract vocabulary for the checksum qualifier as seen from build() ----
// (defined concretely and proved against the real functions in the `cksum` group; here only the names are needed)
pub uninterp spec fn ck_parse(text: Seq<char>) -> Option<Seq<(Seq<char>, Seq<char>)>>;   // Checksum::try_from(&str): entries, or refused
pub uninterp spec fn ck_text(entries: Seq<(Seq<char>, Seq<char>)>) -> Option<Seq<char>>;  // SmallString::try_from(Checksum): canonical text, or refused
pub open spec fn checksum_key() -> Seq<char> { seq!['c', 'h', 'e', 'c', 'k', 's', 'u', 'm'] }

// ---- unit T.KnownQualifierKey  <= purl/src/qualifiers/well_known.rs:17 ----
pub trait KnownQualifierKey {
    const KEY: &'static str;
}
// ---- unit T.GenericPurlBuilder  <= purl/src/builder.rs:25 ----
pub struct GenericPurlBuilder<T> {
    pub package_type: T,
    pub parts: PurlParts,
}
// ---- unit T.GenericPurl  <= purl/src/lib.rs:251 ----
pub struct GenericPurl<T> {
    pub package_type: T,
    pub parts: PurlParts,
}
// ---- unit stub.builder  <= (contracts):0 ----

// R9: derive(Default) on PurlParts / Qualifiers (derive semantics, assumed): all fields empty
impl Default for PurlParts {
    fn default() -> (r: Self)
        ensures r.namespace@.len() == 0, r.name@.len() == 0, r.version@.len() == 0, r.subpath@.len() == 0, r.qualifiers.qualifiers@.len() == 0
    { PurlParts { namespace: String::new(), name: String::new(), version: String::new(),
                  qualifiers: Qualifiers { qualifiers: Vec::new() }, subpath: String::new() } }
}

// ---- unit T.PurlShape  <= purl/src/lib.rs:111 ----
pub trait PurlShape: Sized {
    type Error: From<ParseError>;
    spec fn type_text(&self) -> Seq<char>;
    fn package_type(&self) -> (r: Cow<str>)
        ensures r@ == self.type_text();
    spec fn finish_rel(t0: Self, p0: PurlParts, t1: Self, p1: PurlParts, r: Result<(), Self::Error>) -> bool;
    fn finish(&mut self, parts: &mut PurlParts) -> (r: Result<(), Self::Error>)
        ensures Self::finish_rel(*old(self), *old(parts), *final(self), *final(parts), r),
            // the hook can only reach the qualifier list through its public API, every mutator of which is
            // proved to preserve the representation invariant (group `qual`); assumed for user-written hooks
            wf_seq(old(parts).qualifiers.qualifiers@) ==> wf_seq(final(parts).qualifiers.qualifiers@);
}
// ---- unit theory.build  <= (contracts):0 ----
// ---- what build() must do after the hook (C04, C09, C14), written from the property statements ----

/// the sub-list of pairs whose value is non-empty, order kept ("empty-valued qualifiers are removed")
pub open spec fn nonempty_part(v: Seq<(QualifierKey, SmallString)>) -> Seq<(QualifierKey, SmallString)> decreases v.len()
{
    if v.len() == 0 { seq![] }
    else if v.last().1@.len() > 0 { nonempty_part(v.drop_last()).push(v.last()) }
    else { nonempty_part(v.drop_last()) }
}

pub proof fn lemma_nonempty_subset(v: Seq<(QualifierKey, SmallString)>)
    ensures
        forall|i: int| 0 <= i < nonempty_part(v).len() ==>
            (#[trigger] nonempty_part(v)[i]).1@.len() > 0 && exists|j: int| 0 <= j < v.len() && v[j] == nonempty_part(v)[i],
    decreases v.len()
{
    if v.len() > 0 {
        let w0 = v.drop_last();
        lemma_nonempty_subset(w0);
        let w = nonempty_part(w0);
        let n = nonempty_part(v);
        assert forall|i: int| 0 <= i < n.len() implies
            (#[trigger] n[i]).1@.len() > 0 && exists|j: int| 0 <= j < v.len() && v[j] == n[i] by {
            if i < w.len() {
                assert(n[i] == w[i]);
                let j = choose|j: int| 0 <= j < w0.len() && w0[j] == w[i];
                assert(v[j] == n[i]);
            } else {
                assert(n[i] == v[v.len() - 1]);
            }
        }
    }
}

pub proof fn lemma_wf_drop_last(v: Seq<(QualifierKey, SmallString)>)
    requires wf_seq(v), v.len() > 0
    ensures wf_seq(v.drop_last())
{
    let w0 = v.drop_last();
    assert forall|a: int, b: int| 0 <= a < b < w0.len() implies str_lt(#[trigger] w0[a].0.0@, #[trigger] w0[b].0.0@) by {
        assert(w0[a] == v[a]); assert(w0[b] == v[b]);
    }
    assert forall|a: int| 0 <= a < w0.len() implies canon_key(#[trigger] w0[a].0.0@) by { assert(w0[a] == v[a]); }
}

pub proof fn lemma_nonempty_wf(v: Seq<(QualifierKey, SmallString)>)
    requires wf_seq(v)
    ensures wf_seq(nonempty_part(v))
    decreases v.len()
{
    if v.len() > 0 {
        let w0 = v.drop_last();
        lemma_wf_drop_last(v);
        lemma_nonempty_wf(w0);
        lemma_nonempty_subset(w0);
        lemma_nonempty_subset(v);
        let w = nonempty_part(w0);
        let n = nonempty_part(v);
        assert forall|a: int, b: int| 0 <= a < b < n.len() implies str_lt(#[trigger] n[a].0.0@, #[trigger] n[b].0.0@) by {
            if b < w.len() { assert(n[a] == w[a]); assert(n[b] == w[b]); }
            else {
                assert(n[a] == w[a]);
                let j = choose|j: int| 0 <= j < w0.len() && w0[j] == w[a];
                assert(v[j] == w0[j]);
                assert(str_lt(v[j].0.0@, v[v.len() - 1].0.0@));
            }
        }
        assert forall|a: int| 0 <= a < n.len() implies canon_key(#[trigger] n[a].0.0@) by {
            let j = choose|j: int| 0 <= j < v.len() && v[j] == n[a];
            assert(canon_key(v[j].0.0@));
        }
    }
}

pub proof fn lemma_nonempty_id(v: Seq<(QualifierKey, SmallString)>)
    requires forall|j: int| 0 <= j < v.len() ==> (#[trigger] v[j]).1@.len() > 0
    ensures nonempty_part(v) == v
    decreases v.len()
{
    if v.len() > 0 {
        let w0 = v.drop_last();
        assert forall|j: int| 0 <= j < w0.len() implies (#[trigger] w0[j]).1@.len() > 0 by { assert(w0[j] == v[j]); }
        lemma_nonempty_id(w0);
        assert(v[v.len() - 1].1@.len() > 0);
        assert(nonempty_part(v) =~= v);
    }
}

/// `q.retain(|_, v| !v.is_empty())`  (ASSUMED: Vec::retain keeps exactly the elements the predicate accepts, in order)
#[verifier::external_body]
pub fn x_retain_nonempty(q: &mut Qualifiers)
    ensures final(q).qualifiers@ == nonempty_part(old(q).qualifiers@)
{ unimplemented!() }

// ---- opaque stand-in for the typed checksum value (its own contracts are proved in group `cksum`) ----
#[verifier::external_body]
pub struct Checksum<'a> { _p: &'a str }
impl<'a> Checksum<'a> { pub uninterp spec fn entries(&self) -> Seq<(Seq<char>, Seq<char>)>; }

/// `q.try_get_typed::<Checksum>()`  = `q.get("checksum").map(Checksum::try_from).transpose()`
#[verifier::external_body]
pub fn x_try_get_typed_checksum<'a>(q: &'a Qualifiers) -> (r: Result<Option<Checksum<'a>>, ParseError>)
    requires wf_seq(q.qualifiers@)
    ensures
        !has_key(q.qualifiers@, checksum_key()) ==> r is Ok && r->Ok_0 is None,
        has_key(q.qualifiers@, checksum_key()) ==> match ck_parse(q.qualifiers@[pos_of(q.qualifiers@, checksum_key())].1@) {
            None => r is Err && r->Err_0 == ParseError::InvalidQualifier,
            Some(es) => r is Ok && r->Ok_0 is Some && r->Ok_0->Some_0.entries() == es,
        },
{ unimplemented!() }

/// `SmallString::try_from(checksum)`
#[verifier::external_body]
pub fn x_checksum_to_text<'a>(c: Checksum<'a>) -> (r: Result<SmallString, ParseError>)
    ensures match ck_text(c.entries()) {
        None => r is Err && r->Err_0 == ParseError::InvalidQualifier,
        Some(t) => r is Ok && r->Ok_0@ == t,
    },
{ unimplemented!() }

pub proof fn lemma_checksum_key()
    ensures "checksum"@ == checksum_key(), valid_key(checksum_key()), lower_ascii_seq(checksum_key()) == checksum_key()
{
    reveal_strlit("checksum");
    assert("checksum"@ =~= checksum_key());
    let k = checksum_key();
    assert forall|i: int| 0 <= i < k.len() implies key_char(#[trigger] k[i]) && !ascii_upper_c(k[i]) by {
        if i == 0 {} else if i == 1 {} else if i == 2 {} else if i == 3 {} else if i == 4 {} else if i == 5 {} else if i == 6 {} else {}
    }
    lemma_lower_ascii_fixed(k);
}

pub open spec fn same_but_qualifiers<T>(g: GenericPurl<T>, t1: T, p1: PurlParts) -> bool {
    g.package_type == t1 && g.parts.namespace == p1.namespace && g.parts.name == p1.name
    && g.parts.version == p1.version && g.parts.subpath == p1.subpath
}

/// C04 / C09 / C14: the result of build() as a function of what the hook left behind (t1, p1, fr)
pub open spec fn build_post<T: PurlShape>(t1: T, p1: PurlParts, fr: Result<(), T::Error>, r: Result<GenericPurl<T>, T::Error>) -> bool {
    let conv = <T::Error as vstd::std_specs::convert::FromSpec<ParseError>>::obeys_from_spec();
    match fr {
        Err(e) => r == Err::<GenericPurl<T>, T::Error>(e),                       // an error from the hook is returned unchanged
        Ok(_) =>
            if p1.name@.len() == 0 {                                              // an emptied name is refused
                r is Err && (conv ==> r->Err_0 == <T::Error as vstd::std_specs::convert::FromSpec<ParseError>>::from_spec(
                    ParseError::MissingRequiredField(PurlField::Name)))
            } else {
                let q2 = nonempty_part(p1.qualifiers.qualifiers@);               // empty-valued qualifiers are removed
                if !has_key(q2, checksum_key()) {
                    r is Ok && same_but_qualifiers(r->Ok_0, t1, p1) && r->Ok_0.parts.qualifiers.qualifiers@ == q2
                } else {
                    let p = pos_of(q2, checksum_key());
                    let canon = match ck_parse(q2[p].1@) { None => None, Some(es) => ck_text(es) };
                    match canon {                                                 // a checksum is canonicalised or refused
                        None => r is Err && (conv ==> r->Err_0 == <T::Error as vstd::std_specs::convert::FromSpec<ParseError>>::from_spec(
                            ParseError::InvalidQualifier)),
                        Some(t) => r is Ok && same_but_qualifiers(r->Ok_0, t1, p1)
                            && r->Ok_0.parts.qualifiers.qualifiers@.len() == q2.len()
                            && r->Ok_0.parts.qualifiers.qualifiers@[p].1@ == t
                            && r->Ok_0.parts.qualifiers.qualifiers@ == q2.update(p, (q2[p].0, r->Ok_0.parts.qualifiers.qualifiers@[p].1)),
                    }
                }
            },
    }
}

// ---- unit T.ChecksumKey  <= purl/src/qualifiers/well_known.rs:103 ----
impl KnownQualifierKey for Checksum<'_> {
    const KEY: &'static str = "checksum";
}
impl Qualifiers {
// ---- unit U-qmap.insert  <= purl/src/qualifiers.rs:207 ----
#[verifier::external_body]
pub fn insert<K, V>(&mut self, key: K, v: V) -> (r: Result<&mut SmallString, ParseError>)
where K: AsRef<str>, SmallString: From<K> + From<V>,
        requires old(self).wf()
        ensures
            final(self).wf(),
            !valid_key(key.text()) ==> r is Err && r->Err_0 is InvalidQualifier && final(self).qualifiers@ == old(self).qualifiers@,
            valid_key(key.text()) ==> r is Ok
                && (<SmallString as vstd::std_specs::convert::FromSpec<V>>::obeys_from_spec() ==>
                        *(r->Ok_0) == <SmallString as vstd::std_specs::convert::FromSpec<V>>::from_spec(v)),
            // whole-content postcondition (p names the position of the key = number of smaller keys):
            // an existing key keeps its position and only its value changes ...
            valid_key(key.text()) && has_key(old(self).qualifiers@, lower_ascii_seq(key.text())) ==> ({
                let p = pos_of(old(self).qualifiers@, lower_ascii_seq(key.text()));
                0 <= p < old(self).qualifiers@.len() && old(self).qualifiers@[p].0.0@ == lower_ascii_seq(key.text())
                && final(self).qualifiers@ == old(self).qualifiers@.update(p, (old(self).qualifiers@[p].0, *final(r->Ok_0)))
            }),
            // ... a new key is spliced in at p, every other pair untouched and in the same order
            valid_key(key.text()) && !has_key(old(self).qualifiers@, lower_ascii_seq(key.text())) ==> ({
                let p = pos_of(old(self).qualifiers@, lower_ascii_seq(key.text()));
                0 <= p <= old(self).qualifiers@.len()
                && final(self).qualifiers@.len() == old(self).qualifiers@.len() + 1
                && final(self).qualifiers@[p].0.0@ == lower_ascii_seq(key.text())
                && final(self).qualifiers@ == old(self).qualifiers@.insert(p, (final(self).qualifiers@[p].0, *final(r->Ok_0)))
            }),
{ unimplemented!() }
// ---- unit U-qmap.remove  <= purl/src/qualifiers.rs:261 ----
#[verifier::external_body]
pub fn remove<S>(&mut self, key: S) -> (r: Option<SmallString>)
where S: AsRef<str>,
        requires old(self).wf()
        ensures
            final(self).wf(),
            r is Some == (valid_key(key.text()) && has_key(old(self).qualifiers@, lower_ascii_seq(key.text()))),
            r is None ==> final(self).qualifiers@ == old(self).qualifiers@,
            r is Some ==> ({
                let p = pos_of(old(self).qualifiers@, lower_ascii_seq(key.text()));
                0 <= p < old(self).qualifiers@.len() && old(self).qualifiers@[p].0.0@ == lower_ascii_seq(key.text())
                && r->Some_0 == old(self).qualifiers@[p].1
                && final(self).qualifiers@ == old(self).qualifiers@.remove(p)
            }),
{ unimplemented!() }
// ---- unit U-qmap.clear  <= purl/src/qualifiers.rs:88 ----
#[verifier::external_body]
pub fn clear(&mut self)
        ensures final(self).qualifiers@.len() == 0, final(self).wf()
{ unimplemented!() }
// ---- unit U-qmap.insert_typed  <= purl/src/qualifiers.rs:232 ----
#[verifier::external_body]
pub fn insert_typed<Q>(&mut self, value: Q) where Q: KnownQualifierKey, SmallString: From<Q>,
        requires old(self).wf(), valid_key(Q::KEY@)
        ensures final(self).wf(),
            <SmallString as vstd::std_specs::convert::FromSpec<Q>>::obeys_from_spec() ==> ({
                let k = lower_ascii_seq(Q::KEY@);
                let p = pos_of(old(self).qualifiers@, k);
                let val = <SmallString as vstd::std_specs::convert::FromSpec<Q>>::from_spec(value);
                if has_key(old(self).qualifiers@, k) {
                    final(self).qualifiers@ == old(self).qualifiers@.update(p, (old(self).qualifiers@[p].0, val))
                } else {
                    final(self).qualifiers@.len() == old(self).qualifiers@.len() + 1 && final(self).qualifiers@[p].0.0@ == k
                    && final(self).qualifiers@ == old(self).qualifiers@.insert(p, (final(self).qualifiers@[p].0, val))
                }
            })
{ unimplemented!() }
// ---- unit U-qmap.remove_typed  <= purl/src/qualifiers.rs:273 ----
#[verifier::external_body]
pub fn remove_typed<Q>(&mut self) where Q: KnownQualifierKey,
        requires old(self).wf()
        ensures final(self).wf(),
            !(valid_key(Q::KEY@) && has_key(old(self).qualifiers@, lower_ascii_seq(Q::KEY@))) ==> final(self).qualifiers@ == old(self).qualifiers@,
            valid_key(Q::KEY@) && has_key(old(self).qualifiers@, lower_ascii_seq(Q::KEY@)) ==>
                final(self).qualifiers@ == old(self).qualifiers@.remove(pos_of(old(self).qualifiers@, lower_ascii_seq(Q::KEY@)))
{ unimplemented!() }
}
impl<T> GenericPurlBuilder<T> {
// ---- unit U-set.new  <= purl/src/builder.rs:34 ----
pub fn new<S>(package_type: T, name: S) -> (r: Self)
where SmallString: From<S>,
        ensures r.package_type == package_type,
            r.parts.namespace@.len() == 0, r.parts.version@.len() == 0, r.parts.subpath@.len() == 0,
            r.parts.qualifiers.qualifiers@.len() == 0,
            <SmallString as vstd::std_specs::convert::FromSpec<S>>::obeys_from_spec() ==> r.parts.name == <SmallString as vstd::std_specs::convert::FromSpec<S>>::from_spec(name)
{
        Self {
            package_type,
            parts: PurlParts { name: SmallString::from(name), ..Default::default() },
        }
    }
// ---- unit U-set.with_package_type  <= purl/src/builder.rs:45 ----
pub fn with_package_type(self, new: T) -> (r: Self)
        ensures r.package_type == new, r.parts == self.parts
{
    let mut this = self;
        this.package_type = new;
        this
    }
// ---- unit U-set.with_namespace  <= purl/src/builder.rs:53 ----
pub fn with_namespace<S>(self, new: S) -> (r: Self)
where SmallString: From<S>,
        ensures r.package_type == self.package_type, r.parts.name == self.parts.name, r.parts.version == self.parts.version, r.parts.qualifiers == self.parts.qualifiers, r.parts.subpath == self.parts.subpath,
            <SmallString as vstd::std_specs::convert::FromSpec<S>>::obeys_from_spec() ==> r.parts.namespace == <SmallString as vstd::std_specs::convert::FromSpec<S>>::from_spec(new)
{
    let mut this = self;
        this.parts.namespace = SmallString::from(new);
        this
    }
// ---- unit U-set.without_namespace  <= purl/src/builder.rs:64 ----
pub fn without_namespace(self) -> (r: Self)
        ensures r.package_type == self.package_type, r.parts.name == self.parts.name, r.parts.version == self.parts.version, r.parts.qualifiers == self.parts.qualifiers, r.parts.subpath == self.parts.subpath, r.parts.namespace@.len() == 0
{
    let mut this = self;
        this.parts.namespace = Default::default();
        this
    }
// ---- unit U-set.with_name  <= purl/src/builder.rs:70 ----
pub fn with_name<S>(self, new: S) -> (r: Self)
where SmallString: From<S>,
        ensures r.package_type == self.package_type, r.parts.namespace == self.parts.namespace, r.parts.version == self.parts.version, r.parts.qualifiers == self.parts.qualifiers, r.parts.subpath == self.parts.subpath,
            <SmallString as vstd::std_specs::convert::FromSpec<S>>::obeys_from_spec() ==> r.parts.name == <SmallString as vstd::std_specs::convert::FromSpec<S>>::from_spec(new)
{
    let mut this = self;
        this.parts.name = SmallString::from(new);
        this
    }
// ---- unit U-set.with_version  <= purl/src/builder.rs:81 ----
pub fn with_version<S>(self, new: S) -> (r: Self)
where SmallString: From<S>,
        ensures r.package_type == self.package_type, r.parts.namespace == self.parts.namespace, r.parts.name == self.parts.name, r.parts.qualifiers == self.parts.qualifiers, r.parts.subpath == self.parts.subpath,
            <SmallString as vstd::std_specs::convert::FromSpec<S>>::obeys_from_spec() ==> r.parts.version == <SmallString as vstd::std_specs::convert::FromSpec<S>>::from_spec(new)
{
    let mut this = self;
        this.parts.version = SmallString::from(new);
        this
    }
// ---- unit U-set.without_version  <= purl/src/builder.rs:92 ----
pub fn without_version(self) -> (r: Self)
        ensures r.package_type == self.package_type, r.parts.namespace == self.parts.namespace, r.parts.name == self.parts.name, r.parts.qualifiers == self.parts.qualifiers, r.parts.subpath == self.parts.subpath, r.parts.version@.len() == 0
{
    let mut this = self;
        this.parts.version = Default::default();
        this
    }
// ---- unit U-set.with_subpath  <= purl/src/builder.rs:170 ----
pub fn with_subpath<S>(self, new: S) -> (r: Self)
where SmallString: From<S>,
        ensures r.package_type == self.package_type, r.parts.namespace == self.parts.namespace, r.parts.name == self.parts.name, r.parts.version == self.parts.version, r.parts.qualifiers == self.parts.qualifiers,
            <SmallString as vstd::std_specs::convert::FromSpec<S>>::obeys_from_spec() ==> r.parts.subpath == <SmallString as vstd::std_specs::convert::FromSpec<S>>::from_spec(new)
{
    let mut this = self;
        this.parts.subpath = SmallString::from(new);
        this
    }
// ---- unit U-set.without_subpath  <= purl/src/builder.rs:181 ----
pub fn without_subpath(self) -> (r: Self)
        ensures r.package_type == self.package_type, r.parts.namespace == self.parts.namespace, r.parts.name == self.parts.name, r.parts.version == self.parts.version, r.parts.qualifiers == self.parts.qualifiers, r.parts.subpath@.len() == 0
{
    let mut this = self;
        this.parts.subpath = Default::default();
        this
    }
// ---- unit U-set.with_qualifier  <= purl/src/builder.rs:100 ----
pub fn with_qualifier<K, V>(self, k: K, v: V) -> (r: Result<Self, ParseError>)
where K: AsRef<str>, SmallString: From<K> + From<V>,
        requires self.parts.qualifiers.wf()
        ensures
            !valid_key(k.text()) ==> r is Err && r->Err_0 is InvalidQualifier,
            valid_key(k.text()) ==> r is Ok && r->Ok_0.package_type == self.package_type && r->Ok_0.parts.namespace == self.parts.namespace && r->Ok_0.parts.name == self.parts.name && r->Ok_0.parts.version == self.parts.version && r->Ok_0.parts.subpath == self.parts.subpath && r->Ok_0.parts.qualifiers.wf()
                && (<SmallString as vstd::std_specs::convert::FromSpec<V>>::obeys_from_spec() ==> ({
                    let kt = lower_ascii_seq(k.text());
                    let old_v = self.parts.qualifiers.qualifiers@;
                    let new_v = r->Ok_0.parts.qualifiers.qualifiers@;
                    let p = pos_of(old_v, kt);
                    let val = <SmallString as vstd::std_specs::convert::FromSpec<V>>::from_spec(v);
                    if has_key(old_v, kt) { new_v == old_v.update(p, (old_v[p].0, val)) }
                    else { new_v.len() == old_v.len() + 1 && new_v[p].0.0@ == kt && new_v == old_v.insert(p, (new_v[p].0, val)) }
                })),
{
    let mut this = self;
        this.parts.qualifiers.insert(k, v)?;
        Ok(this)
    }
// ---- unit U-set.without_qualifier  <= purl/src/builder.rs:153 ----
pub fn without_qualifier<S>(self, k: S) -> (r: Self)
where S: AsRef<str>,
        requires self.parts.qualifiers.wf()
        ensures r.package_type == self.package_type, r.parts.namespace == self.parts.namespace, r.parts.name == self.parts.name, r.parts.version == self.parts.version, r.parts.subpath == self.parts.subpath, r.parts.qualifiers.wf(),
            !(valid_key(k.text()) && has_key(self.parts.qualifiers.qualifiers@, lower_ascii_seq(k.text()))) ==>
                r.parts.qualifiers.qualifiers@ == self.parts.qualifiers.qualifiers@,
            valid_key(k.text()) && has_key(self.parts.qualifiers.qualifiers@, lower_ascii_seq(k.text())) ==>
                r.parts.qualifiers.qualifiers@ == self.parts.qualifiers.qualifiers@.remove(pos_of(self.parts.qualifiers.qualifiers@, lower_ascii_seq(k.text()))),
{
    let mut this = self;
        this.parts.qualifiers.remove(k);
        this
    }
// ---- unit U-set.without_qualifiers  <= purl/src/builder.rs:162 ----
pub fn without_qualifiers(self) -> (r: Self)
        ensures r.package_type == self.package_type, r.parts.namespace == self.parts.namespace, r.parts.name == self.parts.name, r.parts.version == self.parts.version, r.parts.subpath == self.parts.subpath, r.parts.qualifiers.qualifiers@.len() == 0, r.parts.qualifiers.wf()
{
    let mut this = self;
        this.parts.qualifiers.clear();
        this
    }
// ---- unit U-set.with_typed_qualifier  <= purl/src/builder.rs:112 ----
pub fn with_typed_qualifier<Q>(self, v: Option<Q>) -> (r: Self)
where Q: KnownQualifierKey, SmallString: From<Q>,
        requires self.parts.qualifiers.wf(), v is Some ==> valid_key(Q::KEY@)
        ensures r.package_type == self.package_type, r.parts.namespace == self.parts.namespace, r.parts.name == self.parts.name, r.parts.version == self.parts.version, r.parts.subpath == self.parts.subpath, r.parts.qualifiers.wf()
{
    let mut this = self;
        match v {
            Some(v) => {
                this.parts.qualifiers.insert_typed(v);
            },
            None => {
                this.parts.qualifiers.remove_typed::<Q>();
            },
        }
        this
    }
// ---- unit U-build.build  <= purl/src/builder.rs:190 ----
pub fn build(self) -> (r: Result<GenericPurl<T>, T::Error>)
where T: PurlShape,
        requires self.parts.qualifiers.wf()
        ensures
            // exactly one application of the hook to the initial state, then the generic checks (C14)
            exists|t1: T, p1: PurlParts, fr: Result<(), T::Error>|
                #[trigger] T::finish_rel(self.package_type, self.parts, t1, p1, fr) && build_post::<T>(t1, p1, fr, r),
            r is Ok ==> r->Ok_0.parts.qualifiers.wf() && r->Ok_0.parts.name@.len() > 0
                && forall|i: int| 0 <= i < r->Ok_0.parts.qualifiers.qualifiers@.len() ==> (#[trigger] r->Ok_0.parts.qualifiers.qualifiers@[i]).1@.len() > 0
                        || r->Ok_0.parts.qualifiers.qualifiers@[i].0.0@ == checksum_key(),
{
    let mut this = self;
        
        let ghost t0 = this.package_type;
        let ghost p0 = this.parts;
this.package_type.finish(&mut this.parts)?;
        
        let ghost t1 = this.package_type;
        let ghost p1 = this.parts;
        proof { lemma_nonempty_subset(p1.qualifiers.qualifiers@); lemma_nonempty_wf(p1.qualifiers.qualifiers@); lemma_checksum_key(); axiom_string_from(); }
if this.parts.name.is_empty() {
            return Err(T::Error::from(ParseError::MissingRequiredField(PurlField::Name)));
        }
        x_retain_nonempty(&mut this.parts.qualifiers);
        if let Some(checksum) = (match x_try_get_typed_checksum(&this.parts.qualifiers) { Ok(v_) => v_, Err(e_) => return Err(From::from(e_)) }) {
            this.parts.qualifiers.insert(Checksum::KEY, (match x_checksum_to_text(checksum) { Ok(v_) => v_, Err(e_) => return Err(From::from(e_)) }))?;
        }
        let GenericPurlBuilder { package_type, parts } = this;
        Ok(GenericPurl { package_type, parts })
    }
}

// ---- consistency canary: must be REJECTED; if it verifies the assumptions are contradictory ----
pub proof fn verif_canary_must_fail()
{
    axiom_string_from(); broadcast use axiom_ascii_to_lower; broadcast use axiom_view_of_str;
    assert(false);
}
} // verus!
fn main() {}
