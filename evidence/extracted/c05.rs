// GENERATED on every run by vlib/extract.py from /repo -- do not edit
#![allow(unused_imports, unused_variables, unused_mut, dead_code, unused_parens, unused_braces, non_snake_case)]
#![feature(allocator_api)]
use vstd::prelude::*;
use core::cmp::Ordering;
use core::marker::PhantomData;
verus! {

// ---- theory: base.rs ----
// Shared vocabulary. Strings are Seq<char>. Everything marked `uninterp` or `external_body` below is an
// ASSUMPTION about std / Unicode; each is listed in the trusted base and replayed against the real std by
// the A step (exhaustively per char, bounded per string).

pub type SmallString = String;   // R0: purl's own `#[cfg(not(feature = "smartstring"))] type SmallString = String;`

// ---- Unicode tables (uninterpreted) ----
pub uninterp spec fn u_to_lower(c: char) -> Seq<char>;      // char::to_lowercase, as a sequence

pub open spec fn is_ascii_c(c: char) -> bool { (c as u32) < 128 }
pub open spec fn ascii_upper_c(c: char) -> bool { 'A' <= c && c <= 'Z' }
pub open spec fn ascii_lower_c(c: char) -> bool { 'a' <= c && c <= 'z' }
pub open spec fn ascii_digit_c(c: char) -> bool { '0' <= c && c <= '9' }
pub open spec fn ascii_alnum_c(c: char) -> bool { ascii_upper_c(c) || ascii_lower_c(c) || ascii_digit_c(c) }
pub open spec fn ascii_hex_c(c: char) -> bool { ascii_digit_c(c) || ('a' <= c && c <= 'f') || ('A' <= c && c <= 'F') }
pub open spec fn ascii_lower(c: char) -> char { if ascii_upper_c(c) { ((c as u32 + 32) as char) } else { c } }

/// Unicode lower-casing of a string: each character replaced by its lower-case mapping (C08 wording).
pub open spec fn lower_seq(s: Seq<char>) -> Seq<char> decreases s.len()
{ if s.len() == 0 { seq![] } else { lower_seq(s.drop_last()) + u_to_lower(s.last()) } }

/// ASCII lower-casing (what make_ascii_lowercase / to_ascii_lowercase do).
pub open spec fn lower_ascii_seq(s: Seq<char>) -> Seq<char> { s.map_values(|c: char| ascii_lower(c)) }

pub open spec fn all_ascii_lower(s: Seq<char>) -> bool { forall|i: int| 0 <= i < s.len() ==> ascii_lower_c(#[trigger] s[i]) }

pub open spec fn has_char(s: Seq<char>, c: char) -> bool { exists|i: int| 0 <= i < s.len() && s[i] == c }

// A-validated fact (exhaustive over all 128 ASCII chars): on ASCII, Unicode lower-casing is ASCII lower-casing.
#[verifier::external_body]
pub broadcast proof fn axiom_ascii_to_lower(c: char)
    requires is_ascii_c(c)
    ensures #[trigger] u_to_lower(c) == seq![ascii_lower(c)]
{ }

// ---- char methods (assumed = their documented ASCII definitions; A: exhaustive over all scalar values) ----
pub assume_specification [char::is_ascii] (c: &char) -> (r: bool) ensures r == is_ascii_c(*c);
pub assume_specification [char::is_ascii_alphanumeric] (c: &char) -> (r: bool) ensures r == ascii_alnum_c(*c);
pub assume_specification [char::is_ascii_lowercase] (c: &char) -> (r: bool) ensures r == ascii_lower_c(*c);
pub assume_specification [char::is_ascii_hexdigit] (c: &char) -> (r: bool) ensures r == ascii_hex_c(*c);
pub assume_specification [char::is_ascii_uppercase] (c: &char) -> (r: bool) ensures r == ascii_upper_c(*c);
pub assume_specification [char::is_ascii_digit] (c: &char) -> (r: bool) ensures r == ascii_digit_c(*c);
pub assume_specification [char::is_ascii_alphabetic] (c: &char) -> (r: bool) ensures r == (ascii_upper_c(*c) || ascii_lower_c(*c));
pub assume_specification [char::to_ascii_lowercase] (c: &char) -> (r: char) ensures r == ascii_lower(*c);

/// byte length of the UTF-8 encoding (uninterpreted; only that it is a function of the text is used)
pub uninterp spec fn utf8_len(s: Seq<char>) -> nat;
pub assume_specification [String::len] (s: &String) -> (r: usize) ensures r == utf8_len(s@);

pub assume_specification [std::string::String::with_capacity] (n: usize) -> (r: String) ensures r@ == Seq::<char>::empty();

// ---- string wrappers (R3): body IS the original call; only the contract is assumed ----
#[verifier::external_body]
pub fn x_make_ascii_lowercase(s: &mut str)
    ensures final(s)@ == lower_ascii_seq(old(s)@)
{ s.make_ascii_lowercase() }

// `&mut String -> &mut str` deref coercion: same text, writes go through.
pub assume_specification [ <String as core::ops::DerefMut>::deref_mut ] (s: &mut String) -> (r: &mut str)
    ensures r@ == old(s)@, final(r)@ == final(s)@;

/// `<[char]>::contains`
#[verifier::external_body]
pub fn x_slice_contains(s: &[char], c: &char) -> (r: bool)
    ensures r == s@.contains(*c)
{ s.contains(c) }

#[verifier::external_body]
pub fn x_to_ascii_lowercase(s: &str) -> (r: String)
    ensures r@ == lower_ascii_seq(s@)
{ s.to_ascii_lowercase() }

/// `s.chars().flat_map(|c| c.to_lowercase()).collect()`
#[verifier::external_body]
pub fn x_lower_collect(s: &str) -> (r: String)
    ensures r@ == lower_seq(s@)
{ s.chars().flat_map(|c| c.to_lowercase()).collect() }

/// `c.to_lowercase().ne([c])`
#[verifier::external_body]
pub fn x_lower_changes(c: char) -> (r: bool)
    ensures r == (u_to_lower(c) != seq![c])
{ c.to_lowercase().ne([c]) }

/// `result.extend(c.to_lowercase())`
#[verifier::external_body]
pub fn x_extend_lower(s: &mut String, c: char)
    ensures final(s)@ == old(s)@ + u_to_lower(c)
{ s.extend(c.to_lowercase()) }

// String::from(&str) / String::from(String) / .into(): vstd ties From::from to FromSpec; the two instances used by
// purl (with SmallString = String) are assumed to copy / move the text.
#[verifier::external_body]
pub proof fn axiom_string_from()
    ensures
        <String as vstd::std_specs::convert::FromSpec<&str>>::obeys_from_spec(),
        forall|s: &str| (#[trigger] <String as vstd::std_specs::convert::FromSpec<&str>>::from_spec(s))@ == s@,
        <String as vstd::std_specs::convert::FromSpec<String>>::obeys_from_spec(),
        forall|s: String| (#[trigger] <String as vstd::std_specs::convert::FromSpec<String>>::from_spec(s)) == s,
{ }

// ---- lemmas over the vocabulary (proved) ----
pub proof fn lemma_lower_seq_identity(s: Seq<char>)
    requires forall|i: int| 0 <= i < s.len() ==> u_to_lower(#[trigger] s[i]) == seq![s[i]]
    ensures lower_seq(s) == s
    decreases s.len()
{
    if s.len() > 0 {
        lemma_lower_seq_identity(s.drop_last());
        assert(s.drop_last().push(s.last()) == s);
        assert(lower_seq(s) =~= s);
    }
}

pub proof fn lemma_lower_seq_ascii(s: Seq<char>)
    requires forall|i: int| 0 <= i < s.len() ==> (u_to_lower(#[trigger] s[i]) != seq![s[i]] ==> is_ascii_c(s[i]))
    ensures lower_seq(s) == lower_ascii_seq(s)
    decreases s.len()
{
    broadcast use axiom_ascii_to_lower;
    if s.len() > 0 {
        lemma_lower_seq_ascii(s.drop_last());
        let c = s.last();
        if is_ascii_c(c) {
            assert(u_to_lower(c) == seq![ascii_lower(c)]);
        } else {
            assert(u_to_lower(c) == seq![c]);
            assert(ascii_lower(c) == c);
        }
        assert(lower_ascii_seq(s.drop_last()) =~= lower_ascii_seq(s).drop_last());
        assert(lower_seq(s) =~= lower_ascii_seq(s));
    } else {
        assert(lower_seq(s) =~= lower_ascii_seq(s));
    }
}

pub proof fn lemma_lower_seq_push(s: Seq<char>, c: char)
    ensures lower_seq(s.push(c)) == lower_seq(s) + u_to_lower(c)
{
    assert(s.push(c).drop_last() == s);
}

pub proof fn lemma_lower_seq_take(s: Seq<char>, k: int)
    requires 0 <= k < s.len()
    ensures lower_seq(s.take(k + 1)) == lower_seq(s.take(k)) + u_to_lower(s[k])
{
    assert(s.take(k + 1).drop_last() == s.take(k));
}

// ---- trimming / splitting vocabulary (defined, so lemmas about it are proved) ----
pub open spec fn trim_start_spec(s: Seq<char>, c: char) -> Seq<char> decreases s.len()
{ if s.len() > 0 && s[0] == c { trim_start_spec(s.subrange(1, s.len() as int), c) } else { s } }
pub open spec fn trim_end_spec(s: Seq<char>, c: char) -> Seq<char> decreases s.len()
{ if s.len() > 0 && s.last() == c { trim_end_spec(s.drop_last(), c) } else { s } }
pub open spec fn trim_spec(s: Seq<char>, c: char) -> Seq<char> { trim_end_spec(trim_start_spec(s, c), c) }
pub open spec fn all_char(s: Seq<char>, c: char) -> bool { forall|i: int| 0 <= i < s.len() ==> #[trigger] s[i] == c }

/// `s.trim_matches(c)` for a char pattern
#[verifier::external_body]
pub fn x_trim_matches<'a>(s: &'a str, c: char) -> (r: &'a str)
    ensures r@ == trim_spec(s@, c)
{ s.trim_matches(c) }

/// `s.trim_start_matches(c)` for a char pattern
#[verifier::external_body]
pub fn x_trim_start_matches<'a>(s: &'a str, c: char) -> (r: &'a str)
    ensures r@ == trim_start_spec(s@, c)
{ s.trim_start_matches(c) }

/// `s.contains(set)` for a `&[char]` pattern
#[verifier::external_body]
pub fn x_str_contains_any(s: &str, set: &[char]) -> (r: bool)
    ensures r == exists|i: int| 0 <= i < s@.len() && set@.contains(#[trigger] s@[i])
{ s.contains(set) }

/// `s.contains(c)` for a char pattern
#[verifier::external_body]
pub fn x_str_contains_char(s: &str, c: char) -> (r: bool)
    ensures r == has_char(s@, c)
{ s.contains(c) }

pub proof fn lemma_trim_start_all(s: Seq<char>, c: char)
    ensures
        all_char(s, c) ==> trim_start_spec(s, c).len() == 0,
        !all_char(s, c) ==> trim_start_spec(s, c).len() > 0 && trim_start_spec(s, c)[0] != c && !all_char(trim_start_spec(s, c), c),
    decreases s.len()
{
    if s.len() > 0 && s[0] == c {
        let t = s.subrange(1, s.len() as int);
        lemma_trim_start_all(t, c);
        if all_char(s, c) {
            assert forall|i: int| 0 <= i < t.len() implies #[trigger] t[i] == c by { assert(t[i] == s[i + 1]); }
        } else {
            let j = choose|j: int| 0 <= j < s.len() && s[j] != c;
            assert(t[j - 1] == s[j]);
        }
    } else if s.len() > 0 {
        assert(s[0] != c);
    }
}

pub proof fn lemma_trim_end_all(s: Seq<char>, c: char)
    ensures
        all_char(s, c) ==> trim_end_spec(s, c).len() == 0,
        !all_char(s, c) ==> trim_end_spec(s, c).len() > 0,
    decreases s.len()
{
    if s.len() > 0 && s.last() == c {
        let t = s.drop_last();
        lemma_trim_end_all(t, c);
        if !all_char(s, c) {
            let j = choose|j: int| 0 <= j < s.len() && s[j] != c;
            assert(t[j] == s[j]);
        }
    } else if s.len() > 0 {
        assert(s[s.len() - 1] != c);
    }
}

/// trimming leaves nothing exactly when the string consists of the trimmed character only
pub proof fn lemma_trim_empty_iff_all(s: Seq<char>, c: char)
    ensures (trim_spec(s, c).len() == 0) == all_char(s, c)
{
    lemma_trim_start_all(s, c);
    lemma_trim_end_all(trim_start_spec(s, c), c);
}

pub proof fn lemma_lower_ascii_fixed(s: Seq<char>)
    requires forall|i: int| 0 <= i < s.len() ==> !ascii_upper_c(#[trigger] s[i])
    ensures lower_ascii_seq(s) == s
{
    assert(lower_ascii_seq(s) =~= s);
}

// ---- idempotence of lower-casing (C10, C12) ----
/// A-validated (exhaustive over all scalar values): lower-casing the lower-case mapping of a char changes nothing
#[verifier::external_body]
pub proof fn axiom_lower_idem_char(c: char)
    ensures lower_seq(u_to_lower(c)) == u_to_lower(c)
{ }

pub proof fn lemma_lower_seq_concat(a: Seq<char>, b: Seq<char>)
    ensures lower_seq(a + b) == lower_seq(a) + lower_seq(b)
    decreases b.len()
{
    if b.len() == 0 {
        assert(a + b =~= a);
        assert(lower_seq(a) + lower_seq(b) =~= lower_seq(a));
    } else {
        assert((a + b).drop_last() =~= a + b.drop_last());
        assert((a + b).last() == b.last());
        lemma_lower_seq_concat(a, b.drop_last());
        assert(lower_seq(a + b) =~= lower_seq(a) + lower_seq(b));
    }
}

/// lower-casing is a projection: applying it twice is applying it once
pub proof fn lemma_lower_seq_idem(s: Seq<char>)
    ensures lower_seq(lower_seq(s)) == lower_seq(s)
    decreases s.len()
{
    if s.len() > 0 {
        lemma_lower_seq_idem(s.drop_last());
        axiom_lower_idem_char(s.last());
        lemma_lower_seq_concat(lower_seq(s.drop_last()), u_to_lower(s.last()));
    }
}

// A-validated per char (exhaustive over all scalar values): lower-casing never yields the empty string
#[verifier::external_body]
pub proof fn axiom_lower_nonempty(c: char)
    ensures u_to_lower(c).len() > 0
{ }

// ---- theory: split.rs ----
// ---- splitting vocabulary (defined recursively, so the lemmas below are proved, not assumed) ----
pub open spec fn last_index_of(s: Seq<char>, c: char) -> int decreases s.len()
{ if s.len() == 0 { -1 } else if s.last() == c { s.len() - 1 } else { last_index_of(s.drop_last(), c) } }

pub open spec fn first_index_of(s: Seq<char>, c: char) -> int decreases s.len()
{ if s.len() == 0 { -1 } else if s[0] == c { 0 } else { let r = first_index_of(s.subrange(1, s.len() as int), c); if r < 0 { -1 } else { r + 1 } } }

pub proof fn lemma_last_index(s: Seq<char>, c: char)
    ensures
        has_char(s, c) <==> last_index_of(s, c) >= 0,
        last_index_of(s, c) >= 0 ==> last_index_of(s, c) < s.len() && s[last_index_of(s, c)] == c
            && forall|j: int| last_index_of(s, c) < j < s.len() ==> s[j] != c,
        last_index_of(s, c) >= -1,
    decreases s.len()
{
    if s.len() > 0 {
        let t = s.drop_last();
        lemma_last_index(t, c);
        if s.last() == c { assert(s[s.len() - 1] == c); }
        else {
            if has_char(s, c) { let i = choose|i: int| 0 <= i < s.len() && s[i] == c; assert(t[i] == c); }
            if has_char(t, c) { let i = choose|i: int| 0 <= i < t.len() && t[i] == c; assert(s[i] == c); }
            assert forall|j: int| last_index_of(s, c) < j < s.len() && last_index_of(s, c) >= 0 implies s[j] != c by {
                if j < t.len() { assert(t[j] == s[j]); }
            }
        }
    }
}

pub proof fn lemma_first_index(s: Seq<char>, c: char)
    ensures
        has_char(s, c) <==> first_index_of(s, c) >= 0,
        first_index_of(s, c) >= 0 ==> first_index_of(s, c) < s.len() && s[first_index_of(s, c)] == c
            && forall|j: int| 0 <= j < first_index_of(s, c) ==> s[j] != c,
        first_index_of(s, c) >= -1,
    decreases s.len()
{
    if s.len() > 0 {
        let t = s.subrange(1, s.len() as int);
        lemma_first_index(t, c);
        if s[0] == c { }
        else {
            if has_char(s, c) { let i = choose|i: int| 0 <= i < s.len() && s[i] == c; assert(t[i - 1] == c); }
            if has_char(t, c) { let i = choose|i: int| 0 <= i < t.len() && t[i] == c; assert(s[i + 1] == c); }
            if first_index_of(s, c) >= 0 {
                assert(s[first_index_of(t, c) + 1] == t[first_index_of(t, c)]);
                assert forall|j: int| 0 <= j < first_index_of(s, c) implies s[j] != c by {
                    if j > 0 { assert(t[j - 1] == s[j]); }
                }
            }
        }
    }
}

/// joining `ns`, separator, `name` and splitting at the LAST separator gives the pieces back when `name` has none
pub proof fn lemma_rsplit_join(ns: Seq<char>, name: Seq<char>, c: char)
    requires !has_char(name, c)
    ensures last_index_of(ns + seq![c] + name, c) == ns.len()
    decreases name.len()
{
    let s = ns + seq![c] + name;
    if name.len() == 0 {
        assert(s.last() == c);
    } else {
        assert(s.last() == name.last());
        assert(name[name.len() - 1] != c);
        assert(s.drop_last() =~= ns + seq![c] + name.drop_last());
        assert forall|i: int| 0 <= i < name.drop_last().len() implies name.drop_last()[i] != c by { assert(name[i] != c); }
        lemma_rsplit_join(ns, name.drop_last(), c);
    }
}

/// ... and at the FIRST separator when `ns` has none
pub proof fn lemma_split_join(ns: Seq<char>, name: Seq<char>, c: char)
    requires !has_char(ns, c)
    ensures first_index_of(ns + seq![c] + name, c) == ns.len()
    decreases ns.len()
{
    let s = ns + seq![c] + name;
    if ns.len() == 0 {
        assert(s[0] == c);
    } else {
        assert(s[0] == ns[0]);
        assert(ns[0] != c);
        let ns1 = ns.subrange(1, ns.len() as int);
        assert(s.subrange(1, s.len() as int) =~= ns1 + seq![c] + name);
        assert forall|i: int| 0 <= i < ns1.len() implies ns1[i] != c by { assert(ns[i + 1] != c); }
        lemma_split_join(ns1, name, c);
    }
}

/// `s.rsplit_once(c)` for a char pattern
#[verifier::external_body]
pub fn x_rsplit_once<'a>(s: &'a str, c: char) -> (r: Option<(&'a str, &'a str)>)
    ensures match r {
        None => last_index_of(s@, c) < 0,
        Some((a, b)) => last_index_of(s@, c) >= 0 && a@ == s@.subrange(0, last_index_of(s@, c))
            && b@ == s@.subrange(last_index_of(s@, c) + 1, s@.len() as int),
    }
{ s.rsplit_once(c) }

/// `s.split_once(c)` for a char pattern
#[verifier::external_body]
pub fn x_split_once<'a>(s: &'a str, c: char) -> (r: Option<(&'a str, &'a str)>)
    ensures match r {
        None => first_index_of(s@, c) < 0,
        Some((a, b)) => first_index_of(s@, c) >= 0 && a@ == s@.subrange(0, first_index_of(s@, c))
            && b@ == s@.subrange(first_index_of(s@, c) + 1, s@.len() as int),
    }
{ s.split_once(c) }

/// `Some(s).filter(|v| !v.is_empty())`
#[verifier::external_body]
pub fn x_some_nonempty<'a>(s: &'a str) -> (r: Option<&'a str>)
    ensures s@.len() == 0 ==> r is None, s@.len() > 0 ==> r is Some && r->Some_0@ == s@
{ Some(s).filter(|v| !v.is_empty()) }

/// `format!("{}<sep>{}", a, b)` for a one-character literal separator
#[verifier::external_body]
pub fn x_concat3(a: &str, sep: char, b: &str) -> (r: String)
    ensures r@ == a@ + seq![sep] + b@
{ let mut r = String::from(a); r.push(sep); r.push_str(b); r }

/// pieces between raw occurrences of `c`
pub open spec fn split_spec(s: Seq<char>, c: char) -> Seq<Seq<char>> decreases s.len()
{
    if first_index_of(s, c) < 0 || first_index_of(s, c) >= s.len() { seq![s] }
    else { seq![s.subrange(0, first_index_of(s, c))] + split_spec(s.subrange(first_index_of(s, c) + 1, s.len() as int), c) }
}


/// `s.split(c)` for a char pattern, collected (the loop below iterates over the collected pieces)
#[verifier::external_body]
pub fn x_split<'a>(s: &'a str, c: char) -> (r: Vec<&'a str>)
    ensures r@.len() == split_spec(s@, c).len(), forall|i: int| 0 <= i < r@.len() ==> (#[trigger] r@[i])@ == split_spec(s@, c)[i]
{ s.split(c).collect() }


// ---- generic facts about has_char (used by the inverse and checksum theories) ----
pub proof fn lemma_has_char_concat(a: Seq<char>, b: Seq<char>, c: char)
    ensures has_char(a + b, c) == (has_char(a, c) || has_char(b, c))
{
    if has_char(a, c) { let i = choose|i: int| 0 <= i < a.len() && a[i] == c; assert((a + b)[i] == c); }
    if has_char(b, c) { let i = choose|i: int| 0 <= i < b.len() && b[i] == c; assert((a + b)[a.len() + i] == c); }
    if has_char(a + b, c) {
        let i = choose|i: int| 0 <= i < (a + b).len() && (a + b)[i] == c;
        if i < a.len() { assert(a[i] == c); } else { assert(b[i - a.len()] == c); }
    }
}


pub proof fn lemma_single_excludes(c: char, x: char)
    requires c != x
    ensures !has_char(seq![c], x)
{
    if has_char(seq![c], x) { let i = choose|i: int| 0 <= i < seq![c].len() && seq![c][i] == x; }
}


pub proof fn lemma_split_pieces_no_sep(s: Seq<char>, c: char)
    ensures forall|i: int| 0 <= i < split_spec(s, c).len() ==> !has_char(#[trigger] split_spec(s, c)[i], c)
    decreases s.len()
{
    lemma_first_index(s, c);
    let f = first_index_of(s, c);
    if f < 0 || f >= s.len() {
        assert(split_spec(s, c) =~= seq![s]);
    } else {
        let head = s.subrange(0, f);
        let tail = s.subrange(f + 1, s.len() as int);
        lemma_split_pieces_no_sep(tail, c);
        if has_char(head, c) { let i = choose|i: int| 0 <= i < head.len() && head[i] == c; assert(s[i] == c); }
        let ps = split_spec(s, c);
        assert(ps =~= seq![head] + split_spec(tail, c));
        assert forall|i: int| 0 <= i < ps.len() implies !has_char(#[trigger] ps[i], c) by {
            if i == 0 { assert(ps[0] == head); } else { assert(ps[i] == split_spec(tail, c)[i - 1]); }
        }
    }
}


// ---- unit T.PurlField  <= purl/src/parse.rs:112 ----
#[derive(Debug, Clone, Copy)]
pub enum PurlField {
    PackageType,
    Namespace,
    Name,
    Version,
    Subpath,
}
// ---- unit T.ParseError  <= purl/src/parse.rs:17 ----
#[derive(Debug)]
pub enum ParseError {
    UnsupportedUrlScheme,
    MissingRequiredField(PurlField),
    InvalidPackageType,
    InvalidQualifier,
    InvalidEscape,
}
// ---- unit T.QualifierKey  <= purl/src/qualifiers.rs:319 ----
pub struct QualifierKey(pub SmallString);
// ---- unit T.Qualifiers  <= purl/src/qualifiers.rs:21 ----
pub struct Qualifiers {
    pub qualifiers: Vec<(QualifierKey, SmallString)>,
}
// ---- unit T.PurlParts  <= purl/src/lib.rs:212 ----
pub struct PurlParts {
    pub namespace: SmallString,
    pub name: SmallString,
    pub version: SmallString,
    pub qualifiers: Qualifiers,
    pub subpath: SmallString,
}
// ---- unit T.MixedQualifierKey  <= purl/src/qualifiers.rs:553 ----
pub enum MixedQualifierKey<S> {
    Lower(S),
    Mixed(S),
}
// ---- unit theory.qual  <= (contracts):0 ----
// ---- qualifier keys (C04, C05, C11: ASCII letters, digits, '.', '-', '_'; non-empty) ----
pub open spec fn key_char(c: char) -> bool { ascii_alnum_c(c) || c == '.' || c == '-' || c == '_' }
pub open spec fn valid_key(s: Seq<char>) -> bool { s.len() > 0 && forall|i: int| 0 <= i < s.len() ==> key_char(#[trigger] s[i]) }
/// canonical stored form: valid and free of ASCII upper-case
pub open spec fn canon_key(s: Seq<char>) -> bool { valid_key(s) && forall|i: int| 0 <= i < s.len() ==> !ascii_upper_c(#[trigger] s[i]) }

// ---- lexicographic order on Seq<char> by scalar value (= byte-wise order of the UTF-8 text, = str::cmp) ----
pub open spec fn lex_cmp(a: Seq<char>, b: Seq<char>) -> Ordering decreases a.len()
{
    if a.len() == 0 { if b.len() == 0 { Ordering::Equal } else { Ordering::Less } }
    else if b.len() == 0 { Ordering::Greater }
    else if (a[0] as u32) < (b[0] as u32) { Ordering::Less }
    else if (a[0] as u32) > (b[0] as u32) { Ordering::Greater }
    else { lex_cmp(a.subrange(1, a.len() as int), b.subrange(1, b.len() as int)) }
}
pub open spec fn str_lt(a: Seq<char>, b: Seq<char>) -> bool { lex_cmp(a, b) is Less }

pub proof fn lemma_lex_eq(a: Seq<char>, b: Seq<char>)
    ensures (lex_cmp(a, b) is Equal) == (a == b)
    decreases a.len()
{
    if a.len() > 0 && b.len() > 0 {
        if a[0] == b[0] {
            lemma_lex_eq(a.subrange(1, a.len() as int), b.subrange(1, b.len() as int));
            if a.subrange(1, a.len() as int) == b.subrange(1, b.len() as int) {
                assert(a =~= seq![a[0]] + a.subrange(1, a.len() as int));
                assert(b =~= seq![b[0]] + b.subrange(1, b.len() as int));
            }
        } else {
            assert((a[0] as u32) != (b[0] as u32));
        }
    } else {
        assert((a == b) == (a.len() == 0 && b.len() == 0)) by { if a.len() == 0 && b.len() == 0 { assert(a =~= b); } }
    }
}

pub proof fn lemma_lex_flip(a: Seq<char>, b: Seq<char>)
    ensures
        (lex_cmp(a, b) is Less) == (lex_cmp(b, a) is Greater),
        (lex_cmp(a, b) is Greater) == (lex_cmp(b, a) is Less),
    decreases a.len()
{
    if a.len() > 0 && b.len() > 0 && a[0] == b[0] {
        lemma_lex_flip(a.subrange(1, a.len() as int), b.subrange(1, b.len() as int));
    }
}

pub proof fn lemma_lex_trans(a: Seq<char>, b: Seq<char>, c: Seq<char>)
    requires str_lt(a, b), str_lt(b, c)
    ensures str_lt(a, c)
    decreases a.len()
{
    if a.len() > 0 && b.len() > 0 && c.len() > 0 && a[0] == b[0] && b[0] == c[0] {
        lemma_lex_trans(a.subrange(1, a.len() as int), b.subrange(1, b.len() as int), c.subrange(1, c.len() as int));
    }
}

pub proof fn lemma_lt_irrefl(a: Seq<char>)
    ensures !str_lt(a, a)
{
    lemma_lex_eq(a, a);
}

// ---- the representation invariant of Qualifiers (C04, C11): keys canonical, strictly ascending ----
pub open spec fn keys_sorted(v: Seq<(QualifierKey, SmallString)>) -> bool {
    forall|i: int, j: int| 0 <= i < j < v.len() ==> str_lt(#[trigger] v[i].0.0@, #[trigger] v[j].0.0@)
}
pub open spec fn keys_canon(v: Seq<(QualifierKey, SmallString)>) -> bool {
    forall|i: int| 0 <= i < v.len() ==> canon_key(#[trigger] v[i].0.0@)
}
pub open spec fn wf_seq(v: Seq<(QualifierKey, SmallString)>) -> bool { keys_sorted(v) && keys_canon(v) }

/// abstract content: key text -> value text (a function of the sequence; unique positions because keys are strictly ascending)
pub open spec fn has_key(v: Seq<(QualifierKey, SmallString)>, k: Seq<char>) -> bool {
    exists|i: int| 0 <= i < v.len() && #[trigger] v[i].0.0@ == k
}
pub open spec fn has_pair(v: Seq<(QualifierKey, SmallString)>, k: Seq<char>, val: Seq<char>) -> bool {
    exists|i: int| 0 <= i < v.len() && #[trigger] v[i].0.0@ == k && v[i].1@ == val
}

pub proof fn lemma_sorted_unique(v: Seq<(QualifierKey, SmallString)>, i: int, j: int)
    requires keys_sorted(v), 0 <= i < v.len(), 0 <= j < v.len(), v[i].0.0@ == v[j].0.0@
    ensures i == j
{
    lemma_lt_irrefl(v[i].0.0@);
    if i < j { assert(str_lt(v[i].0.0@, v[j].0.0@)); }
    if j < i { assert(str_lt(v[j].0.0@, v[i].0.0@)); }
}

/// the position of key `k` in a strictly ascending list = number of keys smaller than `k` (names the witness, so
/// whole-content postconditions need no existential)
pub open spec fn pos_of(v: Seq<(QualifierKey, SmallString)>, k: Seq<char>) -> int decreases v.len()
{
    if v.len() == 0 { 0 } else { pos_of(v.drop_last(), k) + if str_lt(v.last().0.0@, k) { 1int } else { 0int } }
}

pub proof fn lemma_pos_of(v: Seq<(QualifierKey, SmallString)>, k: Seq<char>, i: int)
    requires 0 <= i <= v.len(),
        forall|j: int| 0 <= j < i ==> str_lt(#[trigger] v[j].0.0@, k),
        forall|j: int| i <= j < v.len() ==> !str_lt(#[trigger] v[j].0.0@, k),
    ensures pos_of(v, k) == i
    decreases v.len()
{
    if v.len() > 0 {
        let w = v.drop_last();
        if i == v.len() {
            assert forall|j: int| 0 <= j < i - 1 implies str_lt(#[trigger] w[j].0.0@, k) by { assert(w[j] == v[j]); }
            lemma_pos_of(w, k, i - 1);
            assert(str_lt(v[v.len() - 1].0.0@, k));
        } else {
            assert forall|j: int| 0 <= j < i implies str_lt(#[trigger] w[j].0.0@, k) by { assert(w[j] == v[j]); }
            assert forall|j: int| i <= j < w.len() implies !str_lt(#[trigger] w[j].0.0@, k) by { assert(w[j] == v[j]); }
            lemma_pos_of(w, k, i);
            assert(!str_lt(v[v.len() - 1].0.0@, k));
        }
    }
}

pub proof fn lemma_lt_asym(a: Seq<char>, b: Seq<char>)
    requires str_lt(a, b)
    ensures !str_lt(b, a)
{
    lemma_lex_flip(a, b);
}

/// in a strictly ascending list, the value paired with key `k` is the one at `pos_of(k)`
pub proof fn lemma_has_pair_pos(v: Seq<(QualifierKey, SmallString)>, k: Seq<char>)
    requires keys_sorted(v)
    ensures forall|val: Seq<char>| has_pair(v, k, val) ==> 0 <= pos_of(v, k) < v.len() && v[pos_of(v, k)].0.0@ == k && v[pos_of(v, k)].1@ == val
{
    assert forall|val: Seq<char>| has_pair(v, k, val) implies 0 <= pos_of(v, k) < v.len() && v[pos_of(v, k)].0.0@ == k && v[pos_of(v, k)].1@ == val by {
        let i = choose|i: int| 0 <= i < v.len() && #[trigger] v[i].0.0@ == k && v[i].1@ == val;
        assert forall|j: int| 0 <= j < i implies str_lt(#[trigger] v[j].0.0@, k) by { assert(str_lt(v[j].0.0@, v[i].0.0@)); }
        assert forall|j: int| i <= j < v.len() implies !str_lt(#[trigger] v[j].0.0@, k) by {
            if j == i { lemma_lt_irrefl(k); } else { assert(str_lt(v[i].0.0@, v[j].0.0@)); lemma_lt_asym(k, v[j].0.0@); }
        }
        lemma_pos_of(v, k, i);
    }
}
// ---- R9: stub of std's AsRef, with a specification of the text it exposes ----
pub uninterp spec fn view_of<T: ?Sized>(t: &T) -> Seq<char>;
#[verifier::external_body]
pub broadcast proof fn axiom_view_of_str(s: &str)
    ensures #[trigger] view_of::<str>(s) == s@
{ }

pub trait AsRef<T: ?Sized> {
    spec fn text(&self) -> Seq<char>;
    fn as_ref(&self) -> (r: &T)
        ensures view_of(r) == self.text();
}
impl AsRef<str> for str {
    open spec fn text(&self) -> Seq<char> { self@ }
    fn as_ref(&self) -> (r: &str) { broadcast use axiom_view_of_str; self }
}
impl<T: ?Sized + AsRef<str>> AsRef<str> for &T {
    open spec fn text(&self) -> Seq<char> { (**self).text() }
    fn as_ref(&self) -> (r: &str) { (**self).as_ref() }
}
impl AsRef<str> for String {
    open spec fn text(&self) -> Seq<char> { self@ }
    fn as_ref(&self) -> (r: &str) { broadcast use axiom_view_of_str; self.as_str() }
}

/// ASSUMED coherence of std conversions: for every K that is both `AsRef<str>` and convertible into SmallString,
/// `SmallString::from(k)` has the text `k.as_ref()` (true for &str, String, SmallString, Cow<str>, Box<str>, ...).
#[verifier::external_body]
pub proof fn axiom_from_keeps_text<K: AsRef<str>>()
    where String: From<K>
    ensures
        <String as vstd::std_specs::convert::FromSpec<K>>::obeys_from_spec(),
        forall|k: K| (#[trigger] <String as vstd::std_specs::convert::FromSpec<K>>::from_spec(k))@ == k.text(),
{ }

pub assume_specification [std::cmp::Ordering::is_eq] (o: Ordering) -> (r: bool) ensures r == (o is Equal);

/// `a.chars().cmp(b.chars().flat_map(|c| c.to_lowercase()))`: Iterator::cmp is lexicographic by scalar value
#[verifier::external_body]
pub fn x_cmp_chars_lower(a: &str, b: &str) -> (r: Ordering)
    ensures r == lex_cmp(a@, lower_seq(b@))
{ a.chars().cmp(b.chars().flat_map(|c| c.to_lowercase())) }

pub open spec fn ord_rank(o: Ordering) -> int { match o { Ordering::Less => 0, Ordering::Equal => 1, Ordering::Greater => 2 } }

pub open spec fn key_cmp(kv: (QualifierKey, SmallString), t: Seq<char>) -> Ordering { lex_cmp(kv.0.0@, t) }

/// a strictly ascending key list is partitioned Less* Equal? Greater* by comparison with any target
pub proof fn lemma_sorted_partition(v: Seq<(QualifierKey, SmallString)>, t: Seq<char>)
    requires keys_sorted(v)
    ensures forall|i: int, j: int| 0 <= i < j < v.len() ==> ord_rank(key_cmp(#[trigger] v[i], t)) <= ord_rank(key_cmp(#[trigger] v[j], t))
{
    assert forall|i: int, j: int| 0 <= i < j < v.len() implies ord_rank(key_cmp(#[trigger] v[i], t)) <= ord_rank(key_cmp(#[trigger] v[j], t)) by {
        let a = v[i].0.0@;
        let b = v[j].0.0@;
        assert(str_lt(a, b));
        if lex_cmp(a, t) is Greater {
            lemma_lex_flip(a, t);
            lemma_lex_trans(t, a, b);
            lemma_lex_flip(t, b);
        } else if lex_cmp(a, t) is Equal {
            lemma_lex_eq(a, t);
            lemma_lex_flip(t, b);
        }
    }
}



/// documented panic: indexing a qualifier that is absent
#[verifier::external_body]
pub fn x_panic_absent() -> !
    requires false
{ panic!() }

impl<S: AsRef<str>> MixedQualifierKey<S> {
    pub open spec fn text(&self) -> Seq<char> {
        match self { MixedQualifierKey::Lower(s) => s.text(), MixedQualifierKey::Mixed(s) => s.text() }
    }
    /// valid key; the `Lower` tag promises there is nothing to lower-case
    pub open spec fn wf(&self) -> bool {
        valid_key(self.text()) && (self is Lower ==> all_ascii_lower(self.text()))
    }
    pub open spec fn canon(&self) -> Seq<char> { lower_ascii_seq(self.text()) }
}
pub proof fn lemma_canon_of_valid(s: Seq<char>)
    requires valid_key(s)
    ensures canon_key(lower_ascii_seq(s)), lower_seq(s) == lower_ascii_seq(s)
{
    let l = lower_ascii_seq(s);
    assert forall|i: int| 0 <= i < l.len() implies key_char(#[trigger] l[i]) && !ascii_upper_c(l[i]) by {
        assert(key_char(s[i]));
    }
    assert forall|i: int| 0 <= i < s.len() implies (u_to_lower(#[trigger] s[i]) != seq![s[i]] ==> is_ascii_c(s[i])) by {
        assert(key_char(s[i]));
    }
    lemma_lower_seq_ascii(s);
}

impl Qualifiers {
// ---- unit spec.Qualifiers  <= (contracts):0 ----
    /// representation invariant (C04, C11): keys valid, lower-case, strictly ascending
    pub open spec fn wf(&self) -> bool { wf_seq(self.qualifiers@) }
}
// ---- unit T.OccupiedEntry  <= purl/src/qualifiers.rs:421 ----
pub struct OccupiedEntry<'a, K> {
    pub qualifiers: &'a mut Vec<(QualifierKey, SmallString)>,
    pub index: usize,
    pub key: PhantomData<K>,
}
// ---- unit T.VacantEntry  <= purl/src/qualifiers.rs:470 ----
pub struct VacantEntry<'a, K> {
    pub qualifiers: &'a mut Vec<(QualifierKey, SmallString)>,
    pub index: usize,
    pub key: MixedQualifierKey<K>,
}
// ---- unit T.Entry  <= purl/src/qualifiers.rs:374 ----
pub enum Entry<'a, K> {
    Occupied(OccupiedEntry<'a, K>),
    Vacant(VacantEntry<'a, K>),
}
// ---- unit spec.entries  <= (contracts):0 ----

impl<'a, K> OccupiedEntry<'a, K> {
    pub open spec fn wf(&self) -> bool { wf_seq(self.qualifiers@) && self.index < self.qualifiers@.len() }
}
impl<'a, K: AsRef<str>> VacantEntry<'a, K> {
    /// `index` is the one position where `key` can be inserted keeping the list strictly ascending
    pub open spec fn wf(&self) -> bool {
        wf_seq(self.qualifiers@) && self.key.wf() && self.index <= self.qualifiers@.len()
        && (forall|j: int| 0 <= j < self.index ==> str_lt(#[trigger] self.qualifiers@[j].0.0@, self.key.canon()))
        && (forall|j: int| self.index <= j < self.qualifiers@.len() ==> str_lt(self.key.canon(), #[trigger] self.qualifiers@[j].0.0@))
    }
}
pub proof fn lemma_insert_keeps_wf(v: Seq<(QualifierKey, SmallString)>, i: int, kv: (QualifierKey, SmallString))
    requires wf_seq(v), 0 <= i <= v.len(), canon_key(kv.0.0@),
        forall|j: int| 0 <= j < i ==> str_lt(#[trigger] v[j].0.0@, kv.0.0@),
        forall|j: int| i <= j < v.len() ==> str_lt(kv.0.0@, #[trigger] v[j].0.0@),
    ensures wf_seq(v.insert(i, kv))
{
    let w = v.insert(i, kv);
    assert forall|a: int, b: int| 0 <= a < b < w.len() implies str_lt(#[trigger] w[a].0.0@, #[trigger] w[b].0.0@) by {
        if a < i && b == i { assert(w[a] == v[a]); }
        else if a < i && b > i { assert(w[a] == v[a]); assert(w[b] == v[b - 1]); }
        else if a == i { assert(w[b] == v[b - 1]); }
        else if a > i { assert(w[a] == v[a - 1]); assert(w[b] == v[b - 1]); }
        else { assert(w[a] == v[a]); assert(w[b] == v[b]); }
    }
    assert forall|a: int| 0 <= a < w.len() implies canon_key(#[trigger] w[a].0.0@) by {
        if a < i { assert(w[a] == v[a]); } else if a > i { assert(w[a] == v[a - 1]); }
    }
}
pub proof fn lemma_remove_keeps_wf(v: Seq<(QualifierKey, SmallString)>, i: int)
    requires wf_seq(v), 0 <= i < v.len()
    ensures wf_seq(v.remove(i))
{
    let w = v.remove(i);
    assert forall|a: int, b: int| 0 <= a < b < w.len() implies str_lt(#[trigger] w[a].0.0@, #[trigger] w[b].0.0@) by {
        let a0 = if a < i { a } else { a + 1 };
        let b0 = if b < i { b } else { b + 1 };
        assert(w[a] == v[a0]); assert(w[b] == v[b0]);
    }
    assert forall|a: int| 0 <= a < w.len() implies canon_key(#[trigger] w[a].0.0@) by {
        let a0 = if a < i { a } else { a + 1 };
        assert(w[a] == v[a0]);
    }
}
pub proof fn lemma_update_value_keeps_wf(v: Seq<(QualifierKey, SmallString)>, i: int, val: SmallString)
    requires wf_seq(v), 0 <= i < v.len()
    ensures wf_seq(v.update(i, (v[i].0, val)))
{
    let w = v.update(i, (v[i].0, val));
    assert forall|a: int, b: int| 0 <= a < b < w.len() implies str_lt(#[trigger] w[a].0.0@, #[trigger] w[b].0.0@) by {
        assert(w[a].0 == v[a].0); assert(w[b].0 == v[b].0);
    }
    assert forall|a: int| 0 <= a < w.len() implies canon_key(#[trigger] w[a].0.0@) by { assert(w[a].0 == v[a].0); }
}
/// a key that sorts strictly between its neighbours is not in the list
pub proof fn lemma_gap_not_present(v: Seq<(QualifierKey, SmallString)>, i: int, k: Seq<char>)
    requires 0 <= i <= v.len(),
        forall|j: int| 0 <= j < i ==> str_lt(#[trigger] v[j].0.0@, k),
        forall|j: int| i <= j < v.len() ==> str_lt(k, #[trigger] v[j].0.0@),
    ensures !has_key(v, k)
{
    lemma_lt_irrefl(k);
}

// ---- unit theory.types  <= (contracts):0 ----
// ---- R9: stub of std::borrow::Cow for B = str (two variants, same names) ----
pub enum Cow<'a, B: ?Sized> { Borrowed(&'a B), Owned(String) }

impl<'a> View for Cow<'a, str> {
    type V = Seq<char>;
    open spec fn view(&self) -> Seq<char> {
        match self { Cow::Borrowed(b) => b@, Cow::Owned(o) => o@ }
    }
}

impl<'a> core::ops::Deref for Cow<'a, str> {
    type Target = str;
    fn deref(&self) -> (r: &str)
        ensures r@ == self@
    {
        match self { Cow::Borrowed(b) => b, Cow::Owned(o) => o.as_str() }
    }
}

// R9: `String: From<Cow<str>>` for the stub Cow (std: the owned text, or a copy of the borrowed text)
pub uninterp spec fn string_of_cow<'a>(c: Cow<'a, str>) -> String;
#[verifier::external_body]
pub broadcast proof fn axiom_string_of_cow<'a>(c: Cow<'a, str>)
    ensures (#[trigger] string_of_cow(c))@ == c@
{ }
impl<'a> vstd::std_specs::convert::FromSpecImpl<Cow<'a, str>> for String {
    open spec fn obeys_from_spec() -> bool { true }
    open spec fn from_spec(c: Cow<'a, str>) -> String { string_of_cow(c) }
}
impl<'a> From<Cow<'a, str>> for String {
    #[verifier::external_body]
    fn from(c: Cow<'a, str>) -> (r: String)
    { match c { Cow::Borrowed(b) => b.to_string(), Cow::Owned(o) => o } }
}

// ---- vocabulary for package types (written from C02/C04/C05: letters, digits, '.', '+', '-'; non-empty) ----
pub open spec fn type_char(c: char) -> bool { ascii_alnum_c(c) || c == '.' || c == '+' || c == '-' }
pub open spec fn valid_type(s: Seq<char>) -> bool { s.len() > 0 && forall|i: int| 0 <= i < s.len() ==> type_char(#[trigger] s[i]) }

/// What every built-in string-like shape must do in `finish` (C04, C13): validate, then ASCII-lower-case; parts untouched.
pub open spec fn shape_rel(t0: Seq<char>, p0: PurlParts, t1: Seq<char>, p1: PurlParts, r: Result<(), ParseError>) -> bool {
    p1 == p0
    && (valid_type(t0) ==> r is Ok && t1 == lower_ascii_seq(t0))
    && (!valid_type(t0) ==> r == Err::<(), ParseError>(ParseError::InvalidPackageType))
}


/// C10 / C13 (type string): validating and ASCII-lower-casing twice is doing it once
pub proof fn lemma_shape_idem(t0: Seq<char>, p0: PurlParts, t1: Seq<char>, p1: PurlParts, t2: Seq<char>, p2: PurlParts, r2: Result<(), ParseError>)
    requires shape_rel(t0, p0, t1, p1, Ok::<(), ParseError>(())), shape_rel(t1, p1, t2, p2, r2)
    ensures r2 is Ok, t2 == t1, p2 == p1
{
    assert(valid_type(t0));
    let l = lower_ascii_seq(t0);
    assert(t1 == l);
    assert forall|i: int| 0 <= i < l.len() implies type_char(#[trigger] l[i]) && !ascii_upper_c(l[i]) by { assert(type_char(t0[i])); }
    assert(valid_type(l));
    lemma_lower_ascii_fixed(l);
}

// ---- unit theory.segs  <= (contracts):0 ----
// ---- percent-decoding (uninterpreted) and the segment folds, written from C02 / C05 / C07 ----
/// percent-decode + strict UTF-8 (the `percent-encoding` crate + `str::from_utf8`); None = refused
pub uninterp spec fn dec(s: Seq<char>) -> Option<Seq<char>>;

pub open spec fn is_dot(p: Seq<char>) -> bool { p == seq!['.'] }
pub open spec fn is_dotdot(p: Seq<char>) -> bool { p == seq!['.', '.'] }
pub open spec fn sub_skipped(p: Seq<char>) -> bool { p.len() == 0 || is_dot(p) || is_dotdot(p) }
pub open spec fn ns_skipped(p: Seq<char>) -> bool { p.len() == 0 }
pub open spec fn sub_bad(p: Seq<char>) -> bool {
    dec(p) is None || has_char(dec(p)->Some_0, '/') || is_dot(dec(p)->Some_0) || is_dotdot(dec(p)->Some_0)
}
pub open spec fn ns_bad(p: Seq<char>) -> bool { dec(p) is None || has_char(dec(p)->Some_0, '/') }
pub open spec fn join_push(acc: Seq<char>, seg: Seq<char>) -> Seq<char> { if acc.len() == 0 { seg } else { acc + seq!['/'] + seg } }

/// subpath: skip raw '', '.', '..'; refuse a piece that does not decode, or decodes to something containing '/' or to '.' / '..'
pub open spec fn sub_fold(pieces: Seq<Seq<char>>) -> Option<Seq<char>> decreases pieces.len() {
    if pieces.len() == 0 { Some(Seq::<char>::empty()) } else {
        match sub_fold(pieces.drop_last()) {
            None => None,
            Some(acc) => if sub_skipped(pieces.last()) { Some(acc) } else if sub_bad(pieces.last()) { None }
                         else { Some(join_push(acc, dec(pieces.last())->Some_0)) },
        }
    }
}
/// namespace: skip raw ''; refuse a piece that does not decode or decodes to something containing '/'
pub open spec fn ns_fold(pieces: Seq<Seq<char>>) -> Option<Seq<char>> decreases pieces.len() {
    if pieces.len() == 0 { Some(Seq::<char>::empty()) } else {
        match ns_fold(pieces.drop_last()) {
            None => None,
            Some(acc) => if ns_skipped(pieces.last()) { Some(acc) } else if ns_bad(pieces.last()) { None }
                         else { Some(join_push(acc, dec(pieces.last())->Some_0)) },
        }
    }
}

pub proof fn lemma_sub_fold_none(ps: Seq<Seq<char>>, k: int)
    requires 0 <= k <= ps.len(), sub_fold(ps.take(k)) is None
    ensures sub_fold(ps) is None
    decreases ps.len() - k
{
    if k < ps.len() {
        assert(ps.take(k + 1).drop_last() == ps.take(k));
        lemma_sub_fold_none(ps, k + 1);
    } else { assert(ps.take(k) == ps); }
}
pub proof fn lemma_ns_fold_none(ps: Seq<Seq<char>>, k: int)
    requires 0 <= k <= ps.len(), ns_fold(ps.take(k)) is None
    ensures ns_fold(ps) is None
    decreases ps.len() - k
{
    if k < ps.len() {
        assert(ps.take(k + 1).drop_last() == ps.take(k));
        lemma_ns_fold_none(ps, k + 1);
    } else { assert(ps.take(k) == ps); }
}

/// `[a, b, c].contains(&s)` on string slices
#[verifier::external_body]
pub fn x_is_one_of3(s: &str, a: &str, b: &str, c: &str) -> (r: bool)
    ensures r == (s@ == a@ || s@ == b@ || s@ == c@)
{ [a, b, c].contains(&s) }
#[verifier::external_body]
pub fn x_is_one_of2(s: &str, a: &str, b: &str) -> (r: bool)
    ensures r == (s@ == a@ || s@ == b@)
{ [a, b].contains(&s) }

/// `write!(w, "{}", d).unwrap()` on a String: appends the text (fmt::Write for String never fails)
#[verifier::external_body]
pub fn x_push_display(w: &mut String, d: &str)
    ensures final(w)@ == old(w)@ + d@
{ use std::fmt::Write; write!(w, "{}", d).unwrap() }

// ---- unit theory.dq  <= (contracts):0 ----
// ---- qualifiers part of the parser (C02, C05), written from the statements ----
pub type KV = Seq<(Seq<char>, Seq<char>)>;
pub open spec fn kvs(v: Seq<(QualifierKey, SmallString)>) -> KV { v.map_values(|e: (QualifierKey, SmallString)| (e.0.0@, e.1@)) }

pub open spec fn kv_has_key(v: KV, k: Seq<char>) -> bool { exists|i: int| 0 <= i < v.len() && (#[trigger] v[i]).0 == k }
pub open spec fn kv_pos_of(v: KV, k: Seq<char>) -> int decreases v.len()
{ if v.len() == 0 { 0 } else { kv_pos_of(v.drop_last(), k) + if str_lt(v.last().0, k) { 1int } else { 0int } } }

pub proof fn lemma_kvs_pos_of(v: Seq<(QualifierKey, SmallString)>, k: Seq<char>)
    ensures kv_pos_of(kvs(v), k) == pos_of(v, k), kv_has_key(kvs(v), k) == has_key(v, k)
    decreases v.len()
{
    if v.len() > 0 {
        assert(kvs(v).drop_last() =~= kvs(v.drop_last()));
        lemma_kvs_pos_of(v.drop_last(), k);
        assert(kvs(v).last().0 == v.last().0.0@);
    }
    if has_key(v, k) { let i = choose|i: int| 0 <= i < v.len() && #[trigger] v[i].0.0@ == k; assert(kvs(v)[i].0 == k); }
    if kv_has_key(kvs(v), k) { let i = choose|i: int| 0 <= i < kvs(v).len() && (#[trigger] kvs(v)[i]).0 == k; assert(v[i].0.0@ == k); }
}

pub enum DqErr { Qualifier, Escape }

/// one `key=value` item, in the order the statement lists the defects: no '=', invalid key, key already present,
/// value not decodable; an empty decoded value is skipped; otherwise the pair is inserted at its sorted position
pub open spec fn dq_step(acc: KV, item: Seq<char>) -> Result<KV, DqErr> {
    let i = first_index_of(item, '=');
    if i < 0 { Err(DqErr::Qualifier) } else {
        let k = item.subrange(0, i);
        let v = item.subrange(i + 1, item.len() as int);
        if !valid_key(k) { Err(DqErr::Qualifier) }
        else if kv_has_key(acc, lower_ascii_seq(k)) { Err(DqErr::Qualifier) }
        else if dec(v) is None { Err(DqErr::Escape) }
        else if dec(v)->Some_0.len() == 0 { Ok(acc) }
        else { Ok(acc.insert(kv_pos_of(acc, lower_ascii_seq(k)), (lower_ascii_seq(k), dec(v)->Some_0))) }
    }
}
pub open spec fn dq_fold(items: Seq<Seq<char>>, acc0: KV) -> Result<KV, DqErr> decreases items.len() {
    if items.len() == 0 { Ok(acc0) } else {
        match dq_fold(items.drop_last(), acc0) { Err(e) => Err(e), Ok(acc) => dq_step(acc, items.last()) }
    }
}
pub open spec fn dq_err(e: ParseError, d: DqErr) -> bool {
    match d { DqErr::Qualifier => e == ParseError::InvalidQualifier, DqErr::Escape => e == ParseError::InvalidEscape }
}
pub proof fn lemma_dq_fold_err(items: Seq<Seq<char>>, acc0: KV, k: int)
    requires 0 <= k <= items.len(), dq_fold(items.take(k), acc0) is Err
    ensures dq_fold(items, acc0) == dq_fold(items.take(k), acc0)
    decreases items.len() - k
{
    if k < items.len() {
        assert(items.take(k + 1).drop_last() == items.take(k));
        lemma_dq_fold_err(items, acc0, k + 1);
    } else { assert(items.take(k) == items); }
}

// ---- unit theory.cksum  <= (contracts):0 ----
// ---- checksum qualifier: typed value <-> text (C04, C12), written from the statements ----
// R9: stub of std::collections::HashMap as used by Checksum (String keys, Cow<str> values); every operation on it is an
// assumed wrapper (std HashMap semantics). Its iteration order is modelled as ARBITRARY.
#[verifier::external_body]
#[verifier::accept_recursive_types(K)]
#[verifier::accept_recursive_types(V)]
pub struct HashMap<K, V> { _k: core::marker::PhantomData<K>, _v: core::marker::PhantomData<V> }

pub uninterp spec fn hm_view<'a>(m: HashMap<SmallString, Cow<'a, str>>) -> Map<Seq<char>, Seq<char>>;

/// entries as text pairs (algorithm, hex)
pub type VS = Seq<(Seq<char>, Seq<char>)>;
/// the text pairs of a vector of owned entries
pub open spec fn ev<'a>(es: Seq<(SmallString, Cow<'a, str>)>) -> VS { es.map_values(|e: (SmallString, Cow<'a, str>)| (e.0@, e.1@)) }

/// `es` lists every entry of `m` exactly once (in any order)
#[verifier::opaque]
pub open spec fn is_listing(es: VS, m: Map<Seq<char>, Seq<char>>) -> bool {
    (forall|i: int| 0 <= i < es.len() ==> m.contains_key(#[trigger] es[i].0) && m[es[i].0] == es[i].1)
    && (forall|i: int, j: int| 0 <= i < j < es.len() ==> #[trigger] es[i].0 != #[trigger] es[j].0)
    && (forall|k: Seq<char>| m.contains_key(k) ==> exists|i: int| 0 <= i < es.len() && #[trigger] es[i].0 == k)
}
#[verifier::opaque]
pub open spec fn sorted_by_key(es: VS) -> bool {
    forall|i: int, j: int| 0 <= i < j < es.len() ==> str_lt(#[trigger] es[i].0, #[trigger] es[j].0)
}

pub open spec fn hex_ok(v: Seq<char>) -> bool { (forall|i: int| 0 <= i < v.len() ==> ascii_hex_c(#[trigger] v[i])) && v.len() % 2 == 0 }
pub open spec fn entry_text(k: Seq<char>, v: Seq<char>) -> Seq<char> { k + seq![':'] + lower_ascii_seq(v) }
/// "comma-separated list of algorithm:hex entries", in the order of `es`
pub open spec fn listing_text(es: VS) -> Seq<char> decreases es.len() {
    if es.len() == 0 { Seq::<char>::empty() }
    else if es.len() == 1 { entry_text(es[0].0, es[0].1) }
    else { listing_text(es.drop_last()) + seq![','] + entry_text(es.last().0, es.last().1) }
}
pub open spec fn all_hex_ok(es: VS) -> bool { forall|i: int| 0 <= i < es.len() ==> hex_ok(#[trigger] es[i].1) }

/// ASSUMED (UTF-8): an all-ASCII string has as many bytes as chars
#[verifier::external_body]
pub proof fn axiom_utf8_len_ascii(s: Seq<char>)
    requires forall|i: int| 0 <= i < s.len() ==> is_ascii_c(#[trigger] s[i])
    ensures utf8_len(s) == s.len()
{ }

#[verifier::external_body]
pub fn x_str_len(s: &str) -> (r: usize)
    ensures r == utf8_len(s@)
{ s.len() }

/// `value.chars().filter(|c| *c == ch).count()`; a str never has more than isize::MAX bytes
#[verifier::external_body]
pub fn x_count_char(s: &str, ch: char) -> (r: usize)
    ensures r < usize::MAX
{ s.chars().filter(|c| *c == ch).count() }

#[verifier::external_body]
pub fn x_hm_with_capacity<'a>(n: usize) -> (r: HashMap<SmallString, Cow<'a, str>>)
    ensures hm_view(r) == Map::<Seq<char>, Seq<char>>::empty()
{ unimplemented!() }

/// `m.insert(k, v)`
#[verifier::external_body]
pub fn x_hm_insert<'a>(m: &mut HashMap<SmallString, Cow<'a, str>>, k: SmallString, v: Cow<'a, str>) -> (r: Option<Cow<'a, str>>)
    ensures hm_view(*final(m)) == hm_view(*old(m)).insert(k@, v@), r is Some == hm_view(*old(m)).contains_key(k@)
{ unimplemented!() }

/// `m.into_iter().collect::<Vec<_>>()`: every entry once, in an ARBITRARY order (hash seed, insertion history)
#[verifier::external_body]
pub fn x_hm_into_vec<'a>(m: HashMap<SmallString, Cow<'a, str>>) -> (r: Vec<(SmallString, Cow<'a, str>)>)
    ensures is_listing(ev(r@), hm_view(m))
{ unimplemented!() }

/// what `sort_unstable_by(|a, b| a.0.cmp(&b.0))` does: a permutation, ordered (non-strictly) by the keys
/// (String::cmp = byte-wise = scalar-value order). Four separately opaque facts (revealing both inclusion directions at once
/// sends the solver into a matching loop).
#[verifier::opaque]
pub open spec fn perm_into(before: VS, after: VS) -> bool {
    forall|i: int| 0 <= i < before.len() ==> exists|j: int| 0 <= j < after.len() && after[j] == #[trigger] before[i]
}
#[verifier::opaque]
pub open spec fn perm_from(before: VS, after: VS) -> bool {
    forall|j: int| 0 <= j < after.len() ==> exists|i: int| 0 <= i < before.len() && before[i] == #[trigger] after[j]
}
#[verifier::opaque]
pub open spec fn ordered_by_key(after: VS) -> bool {
    forall|i: int, j: int| 0 <= i < j < after.len() ==> !str_lt(#[trigger] after[j].0, #[trigger] after[i].0)
}
pub open spec fn distinct_keys(es: VS) -> bool {
    forall|i: int, j: int| 0 <= i < j < es.len() ==> #[trigger] es[i].0 != #[trigger] es[j].0
}
pub open spec fn is_sorted_perm(before: VS, after: VS) -> bool {
    after.len() == before.len() && perm_into(before, after) && perm_from(before, after) && ordered_by_key(after)
    // a permutation keeps pairwise-distinct keys pairwise distinct
    && (distinct_keys(before) ==> distinct_keys(after))
}

/// `v.sort_unstable_by(|a, b| a.0.cmp(&b.0))`
#[verifier::external_body]
pub fn x_sort_by_key0<'a>(v: &mut Vec<(SmallString, Cow<'a, str>)>)
    ensures is_sorted_perm(ev(old(v)@), ev(final(v)@)), final(v)@.len() == old(v)@.len()
{ unimplemented!() }

/// `v.iter().map(|(k, v)| k.len() + 1 + v.len()).sum::<usize>()`; ASSUMED not to overflow (the strings are all in memory)
#[verifier::external_body]
pub fn x_sum_entry_lens<'a>(v: &Vec<(SmallString, Cow<'a, str>)>) -> (r: usize)
    ensures r + v@.len() <= usize::MAX
{ unimplemented!() }

/// `s.extend(t.chars().map(|c| c.to_ascii_lowercase()))`
#[verifier::external_body]
pub fn x_extend_ascii_lower(s: &mut String, t: &str)
    ensures final(s)@ == old(s)@ + lower_ascii_seq(t@)
{ s.extend(t.chars().map(|c| c.to_ascii_lowercase())) }

/// a permutation of a duplicate-free listing, ordered non-strictly, is ordered strictly and is still a listing
pub proof fn lemma_perm_members(before: VS, after: VS, m: Map<Seq<char>, Seq<char>>)
    requires is_listing(before, m), is_sorted_perm(before, after)
    ensures forall|i: int| 0 <= i < after.len() ==> m.contains_key(#[trigger] after[i].0) && m[after[i].0] == after[i].1
{
    reveal(is_listing); reveal(perm_from);
    assert forall|i: int| 0 <= i < after.len() implies m.contains_key(#[trigger] after[i].0) && m[after[i].0] == after[i].1 by {
        let k = choose|k: int| 0 <= k < before.len() && before[k] == after[i];
        assert(m.contains_key(before[k].0));
    }
}
pub proof fn lemma_perm_covers(before: VS, after: VS, m: Map<Seq<char>, Seq<char>>)
    requires is_listing(before, m), is_sorted_perm(before, after)
    ensures forall|k: Seq<char>| m.contains_key(k) ==> exists|i: int| 0 <= i < after.len() && #[trigger] after[i].0 == k
{
    reveal(is_listing); reveal(perm_into);
    assert forall|k: Seq<char>| m.contains_key(k) implies exists|i: int| 0 <= i < after.len() && #[trigger] after[i].0 == k by {
        let b = choose|b: int| 0 <= b < before.len() && #[trigger] before[b].0 == k;
        let j = choose|j: int| 0 <= j < after.len() && after[j] == before[b];
        assert(after[j].0 == k);
    }
}
pub proof fn lemma_perm_strict(before: VS, after: VS, m: Map<Seq<char>, Seq<char>>)
    requires is_listing(before, m), is_sorted_perm(before, after)
    ensures
        forall|i: int, j: int| 0 <= i < j < after.len() ==> #[trigger] after[i].0 != #[trigger] after[j].0,
        sorted_by_key(after),
{
    reveal(is_listing); reveal(ordered_by_key); reveal(sorted_by_key);
    assert forall|i: int, j: int| 0 <= i < j < after.len() implies str_lt(#[trigger] after[i].0, #[trigger] after[j].0) by {
        let (a, b) = (after[i].0, after[j].0);
        lemma_lex_eq(a, b);
        lemma_lex_flip(a, b);
    }
}
pub proof fn lemma_sorted_listing(before: VS, after: VS, m: Map<Seq<char>, Seq<char>>)
    requires is_listing(before, m), is_sorted_perm(before, after)
    ensures is_listing(after, m), sorted_by_key(after)
{
    lemma_perm_members(before, after, m);
    lemma_perm_covers(before, after, m);
    lemma_perm_strict(before, after, m);
    reveal(is_listing);
}

/// C12: the text does not depend on the order in which the map hands out its entries -- two strictly sorted listings of
/// the same map are the same sequence of (key text, value text)
pub proof fn lemma_sorted_listing_unique(a: VS, b: VS, m: Map<Seq<char>, Seq<char>>)
    requires is_listing(a, m), sorted_by_key(a), is_listing(b, m), sorted_by_key(b)
    ensures a.len() == b.len(), forall|i: int| 0 <= i < a.len() ==> (#[trigger] a[i]).0 == b[i].0 && a[i].1 == b[i].1
    decreases a.len()
{
    reveal(is_listing); reveal(sorted_by_key);
    if a.len() == 0 {
        if b.len() > 0 { assert(m.contains_key(b[0].0)); let i = choose|i: int| 0 <= i < a.len() && #[trigger] a[i].0 == b[0].0; }
    } else if b.len() == 0 {
        assert(m.contains_key(a[0].0)); let i = choose|i: int| 0 <= i < b.len() && #[trigger] b[i].0 == a[0].0;
    } else {
        // the largest key is last in both
        let ka = a.last().0;
        let kb = b.last().0;
        assert(m.contains_key(a[a.len() - 1].0));
        assert(m.contains_key(b[b.len() - 1].0));
        let ib = choose|i: int| 0 <= i < b.len() && #[trigger] b[i].0 == ka;
        let ia = choose|i: int| 0 <= i < a.len() && #[trigger] a[i].0 == kb;
        if ia < a.len() - 1 { assert(str_lt(a[ia].0, a[a.len() - 1].0)); }
        if ib < b.len() - 1 { assert(str_lt(b[ib].0, b[b.len() - 1].0)); }
        if ka != kb {
            // kb < ka (position in a) and ka < kb (position in b): contradiction
            lemma_lt_asym(kb, ka);
        }
        let m2 = m.remove(ka);
        let a2 = a.drop_last();
        let b2 = b.drop_last();
        assert(is_listing(a2, m2)) by {
            assert forall|i: int| 0 <= i < a2.len() implies m2.contains_key(#[trigger] a2[i].0) && m2[a2[i].0] == a2[i].1 by {
                assert(a2[i] == a[i]); assert(a[i].0 != a[a.len() - 1].0);
            }
            assert forall|k: Seq<char>| m2.contains_key(k) implies exists|i: int| 0 <= i < a2.len() && #[trigger] a2[i].0 == k by {
                let i = choose|i: int| 0 <= i < a.len() && #[trigger] a[i].0 == k;
                assert(a2[i] == a[i]);
            }
            assert forall|i: int, j: int| 0 <= i < j < a2.len() implies #[trigger] a2[i].0 != #[trigger] a2[j].0 by { assert(a2[i] == a[i]); assert(a2[j] == a[j]); }
        }
        assert(is_listing(b2, m2)) by {
            assert forall|i: int| 0 <= i < b2.len() implies m2.contains_key(#[trigger] b2[i].0) && m2[b2[i].0] == b2[i].1 by {
                assert(b2[i] == b[i]); assert(b[i].0 != b[b.len() - 1].0);
            }
            assert forall|k: Seq<char>| m2.contains_key(k) implies exists|i: int| 0 <= i < b2.len() && #[trigger] b2[i].0 == k by {
                let i = choose|i: int| 0 <= i < b.len() && #[trigger] b[i].0 == k;
                assert(b2[i] == b[i]);
            }
            assert forall|i: int, j: int| 0 <= i < j < b2.len() implies #[trigger] b2[i].0 != #[trigger] b2[j].0 by { assert(b2[i] == b[i]); assert(b2[j] == b[j]); }
        }
        assert(sorted_by_key(a2)) by { assert forall|i: int, j: int| 0 <= i < j < a2.len() implies str_lt(#[trigger] a2[i].0, #[trigger] a2[j].0) by { assert(a2[i] == a[i]); assert(a2[j] == a[j]); } }
        assert(sorted_by_key(b2)) by { assert forall|i: int, j: int| 0 <= i < j < b2.len() implies str_lt(#[trigger] b2[i].0, #[trigger] b2[j].0) by { assert(b2[i] == b[i]); assert(b2[j] == b[j]); } }
        lemma_sorted_listing_unique(a2, b2, m2);
        assert forall|i: int| 0 <= i < a.len() implies (#[trigger] a[i]).0 == b[i].0 && a[i].1 == b[i].1 by {
            if i < a.len() - 1 { assert(a2[i] == a[i]); assert(b2[i] == b[i]); }
        }
    }
}

pub proof fn lemma_bad_entry(es: VS, m: Map<Seq<char>, Seq<char>>, i: int)
    requires is_listing(es, m), 0 <= i < es.len(), !hex_ok(es[i].1)
    ensures exists|k: Seq<char>| m.contains_key(k) && !hex_ok(#[trigger] m[k])
{
    reveal(is_listing);
    assert(m.contains_key(es[i].0) && m[es[i].0] == es[i].1);
}
pub proof fn lemma_all_ok(es: VS, m: Map<Seq<char>, Seq<char>>)
    requires is_listing(es, m), forall|i: int| 0 <= i < es.len() ==> hex_ok(#[trigger] es[i].1)
    ensures forall|k: Seq<char>| m.contains_key(k) ==> hex_ok(#[trigger] m[k])
{
    reveal(is_listing);
    assert forall|k: Seq<char>| m.contains_key(k) implies hex_ok(#[trigger] m[k]) by {
        let i = choose|i: int| 0 <= i < es.len() && #[trigger] es[i].0 == k;
        assert(m[es[i].0] == es[i].1);
    }
}
pub proof fn lemma_listing_text_step(es: VS, i: int)
    requires 0 <= i < es.len()
    ensures listing_text(es.take(i + 1)) ==
        (if i == 0 { entry_text(es[i].0, es[i].1) } else { listing_text(es.take(i)) + seq![','] + entry_text(es[i].0, es[i].1) })
{
    assert(es.take(i + 1).drop_last() == es.take(i));
    assert(es.take(i + 1).last() == es[i]);
    if i == 0 { assert(es.take(1)[0] == es[0]); }
}
pub proof fn lemma_hex_is_ascii(v: Seq<char>)
    requires forall|i: int| 0 <= i < v.len() ==> ascii_hex_c(#[trigger] v[i])
    ensures utf8_len(v) == v.len()
{
    assert forall|i: int| 0 <= i < v.len() implies is_ascii_c(#[trigger] v[i]) by { assert(ascii_hex_c(v[i])); }
    axiom_utf8_len_ascii(v);
}
pub proof fn lemma_listing_text_nonempty_iff(es: VS)
    ensures (listing_text(es).len() == 0) ==> es.len() == 0
    decreases es.len()
{
    if es.len() == 1 { } else if es.len() > 1 { }
}

/// C04 / C12: THE text form of a set of entries: defined for maps whose every value is an even number of hex digits,
/// as the text of the strictly sorted listing (unique by lemma_sorted_listing_unique)
pub open spec fn all_values_hex(m: Map<Seq<char>, Seq<char>>) -> bool { forall|k: Seq<char>| m.contains_key(k) ==> hex_ok(#[trigger] m[k]) }
pub open spec fn canon_listing(m: Map<Seq<char>, Seq<char>>) -> VS { choose|vs: VS| is_listing(vs, m) && sorted_by_key(vs) }
pub open spec fn canon_text(m: Map<Seq<char>, Seq<char>>) -> Seq<char> { listing_text(canon_listing(m)) }

pub proof fn lemma_canon_listing(vs: VS, m: Map<Seq<char>, Seq<char>>)
    requires is_listing(vs, m), sorted_by_key(vs)
    ensures canon_listing(m) == vs
{
    let c = canon_listing(m);
    lemma_sorted_listing_unique(vs, c, m);
    assert(vs =~= c) by {
        assert forall|i: int| 0 <= i < vs.len() implies vs[i] == c[i] by { assert(vs[i].0 == c[i].0 && vs[i].1 == c[i].1); }
    }
}

// ---- text -> typed (C12): "split ',', rsplit_once ':', lower-case the algorithm, refuse duplicates" ----
pub open spec fn ck_fold(pieces: Seq<Seq<char>>) -> Option<Map<Seq<char>, Seq<char>>> decreases pieces.len() {
    if pieces.len() == 0 { Some(Map::<Seq<char>, Seq<char>>::empty()) } else {
        match ck_fold(pieces.drop_last()) {
            None => None,
            Some(m) => {
                let p = pieces.last();
                let i = last_index_of(p, ':');
                if i < 0 { None }                                             // entry without ':'
                else if m.contains_key(lower_seq(p.subrange(0, i))) { None }   // algorithm repeated in any case
                else { Some(m.insert(lower_seq(p.subrange(0, i)), p.subrange(i + 1, p.len() as int))) }
            },
        }
    }
}
pub open spec fn ck_parse(text: Seq<char>) -> Option<Map<Seq<char>, Seq<char>>> { ck_fold(split_spec(text, ',')) }

pub proof fn lemma_ck_fold_none(ps: Seq<Seq<char>>, k: int)
    requires 0 <= k <= ps.len(), ck_fold(ps.take(k)) is None
    ensures ck_fold(ps) is None
    decreases ps.len() - k
{
    if k < ps.len() {
        assert(ps.take(k + 1).drop_last() == ps.take(k));
        lemma_ck_fold_none(ps, k + 1);
    } else { assert(ps.take(k) == ps); }
}

/// the typed -> text conversion as a partial function of the entries (C04, C12)
pub open spec fn ck_text(m: Map<Seq<char>, Seq<char>>) -> Option<Seq<char>> { if all_values_hex(m) { Some(canon_text(m)) } else { None } }
pub open spec fn checksum_key() -> Seq<char> { seq!['c', 'h', 'e', 'c', 'k', 's', 'u', 'm'] }

/// a checksum parsed from any text has at least one entry, and the text form of a non-empty entry set is non-empty
pub proof fn lemma_ck_fold_nonempty(ps: Seq<Seq<char>>)
    requires ps.len() > 0, ck_fold(ps) is Some
    ensures exists|k: Seq<char>| (#[trigger] ck_fold(ps)->Some_0.contains_key(k))
{
    let p = ps.last();
    let i = last_index_of(p, ':');
    let m = ck_fold(ps.drop_last())->Some_0;
    let k = lower_seq(p.subrange(0, i));
    assert(ck_fold(ps)->Some_0 == m.insert(k, p.subrange(i + 1, p.len() as int)));
    assert(ck_fold(ps)->Some_0.contains_key(k));
}
pub proof fn lemma_split_nonempty(s: Seq<char>, c: char)
    ensures split_spec(s, c).len() > 0
    decreases s.len()
{
    if !(first_index_of(s, c) < 0 || first_index_of(s, c) >= s.len()) { }
}
pub proof fn lemma_listing_text_nonempty(es: VS)
    requires es.len() > 0
    ensures listing_text(es).len() > 0
    decreases es.len()
{
    if es.len() == 1 { assert(entry_text(es[0].0, es[0].1).len() >= 1); }
    else { assert(listing_text(es).len() >= 1); }
}
pub proof fn lemma_ck_parse_nonempty(text: Seq<char>)
    requires ck_parse(text) is Some
    ensures exists|k: Seq<char>| (#[trigger] ck_parse(text)->Some_0.contains_key(k))
{
    lemma_split_nonempty(text, ',');
    lemma_ck_fold_nonempty(split_spec(text, ','));
}
pub proof fn lemma_listing_covers(es: VS, m: Map<Seq<char>, Seq<char>>, k: Seq<char>)
    requires is_listing(es, m), m.contains_key(k)
    ensures es.len() > 0
{
    reveal(is_listing);
    let i = choose|i: int| 0 <= i < es.len() && #[trigger] es[i].0 == k;
}

// ---- typed accessors of Checksum (C12) ----
/// representation invariant of Checksum: every algorithm name is stored lower-cased
pub open spec fn keys_lower(m: Map<Seq<char>, Seq<char>>) -> bool { forall|k: Seq<char>| #[trigger] m.contains_key(k) ==> lower_seq(k) == k }

/// `m.get_mut(k)`
#[verifier::external_body]
pub fn x_hm_get_mut<'a, 'b>(m: &'b mut HashMap<SmallString, Cow<'a, str>>, k: &str) -> (r: Option<&'b mut Cow<'a, str>>)
    ensures match r {
        Some(v) => hm_view(*old(m)).contains_key(k@) && (*v)@ == hm_view(*old(m))[k@]
            && hm_view(*final(m)) == hm_view(*old(m)).insert(k@, (*final(v))@),
        None => !hm_view(*old(m)).contains_key(k@) && hm_view(*final(m)) == hm_view(*old(m)),
    }
{ unimplemented!() }
/// `m.get(k)`
#[verifier::external_body]
pub fn x_hm_get<'a, 'b>(m: &'b HashMap<SmallString, Cow<'a, str>>, k: &str) -> (r: Option<&'b Cow<'a, str>>)
    ensures match r {
        Some(v) => hm_view(*m).contains_key(k@) && (*v)@ == hm_view(*m)[k@],
        None => !hm_view(*m).contains_key(k@),
    }
{ unimplemented!() }
/// `m.remove(k)`
#[verifier::external_body]
pub fn x_hm_remove<'a>(m: &mut HashMap<SmallString, Cow<'a, str>>, k: &str) -> (r: Option<Cow<'a, str>>)
    ensures hm_view(*final(m)) == hm_view(*old(m)).remove(k@)
{ unimplemented!() }

pub proof fn lemma_ck_fold_keys_lower(ps: Seq<Seq<char>>)
    requires ck_fold(ps) is Some
    ensures keys_lower(ck_fold(ps)->Some_0)
    decreases ps.len()
{
    if ps.len() > 0 {
        lemma_ck_fold_keys_lower(ps.drop_last());
        let p = ps.last();
        let i = last_index_of(p, ':');
        lemma_lower_seq_idem(p.subrange(0, i));
    }
}

// ---- unit T.Checksum  <= purl/src/qualifiers/well_known.rs:99 ----
pub struct Checksum<'a> {
    pub algorithms: HashMap<SmallString, Cow<'a, str>>,
}
// ---- unit spec.Checksum  <= (contracts):0 ----

impl<'a> Checksum<'a> {
    /// the entries: lower-cased algorithm -> hex text as written
    pub open spec fn entries(&self) -> Map<Seq<char>, Seq<char>> { hm_view(self.algorithms) }
}

// ---- unit T.KnownQualifierKey  <= purl/src/qualifiers/well_known.rs:17 ----
pub trait KnownQualifierKey {
    const KEY: &'static str;
}
// ---- unit T.GenericPurlBuilder  <= purl/src/builder.rs:25 ----
pub struct GenericPurlBuilder<T> {
    pub package_type: T,
    pub parts: PurlParts,
}
// ---- unit T.GenericPurl  <= purl/src/lib.rs:251 ----
pub struct GenericPurl<T> {
    pub package_type: T,
    pub parts: PurlParts,
}
// ---- unit stub.builder  <= (contracts):0 ----

// R9: derive(Default) on PurlParts / Qualifiers (derive semantics, assumed): all fields empty
impl Default for PurlParts {
    fn default() -> (r: Self)
        ensures r.namespace@.len() == 0, r.name@.len() == 0, r.version@.len() == 0, r.subpath@.len() == 0, r.qualifiers.qualifiers@.len() == 0
    { PurlParts { namespace: String::new(), name: String::new(), version: String::new(),
                  qualifiers: Qualifiers { qualifiers: Vec::new() }, subpath: String::new() } }
}

// ---- unit T.PurlShape  <= purl/src/lib.rs:111 ----
pub trait PurlShape: Sized {
    type Error: From<ParseError>;
    spec fn type_text(&self) -> Seq<char>;
    fn package_type(&self) -> (r: Cow<str>)
        ensures r@ == self.type_text();
    spec fn finish_rel(t0: Self, p0: PurlParts, t1: Self, p1: PurlParts, r: Result<(), Self::Error>) -> bool;
    fn finish(&mut self, parts: &mut PurlParts) -> (r: Result<(), Self::Error>)
        ensures Self::finish_rel(*old(self), *old(parts), *final(self), *final(parts), r),
            // the hook can only reach the qualifier list through its public API, every mutator of which is
            // proved to preserve the representation invariant (group `qual`); assumed for user-written hooks
            wf_seq(old(parts).qualifiers.qualifiers@) ==> wf_seq(final(parts).qualifiers.qualifiers@);
}
// ---- unit theory.build  <= (contracts):0 ----
// ---- what build() must do after the hook (C04, C09, C14), written from the property statements ----

/// the sub-list of pairs whose value is non-empty, order kept ("empty-valued qualifiers are removed")
pub open spec fn nonempty_part(v: Seq<(QualifierKey, SmallString)>) -> Seq<(QualifierKey, SmallString)> decreases v.len()
{
    if v.len() == 0 { seq![] }
    else if v.last().1@.len() > 0 { nonempty_part(v.drop_last()).push(v.last()) }
    else { nonempty_part(v.drop_last()) }
}

pub proof fn lemma_nonempty_subset(v: Seq<(QualifierKey, SmallString)>)
    ensures
        forall|i: int| 0 <= i < nonempty_part(v).len() ==>
            (#[trigger] nonempty_part(v)[i]).1@.len() > 0 && exists|j: int| 0 <= j < v.len() && v[j] == nonempty_part(v)[i],
    decreases v.len()
{
    if v.len() > 0 {
        let w0 = v.drop_last();
        lemma_nonempty_subset(w0);
        let w = nonempty_part(w0);
        let n = nonempty_part(v);
        assert forall|i: int| 0 <= i < n.len() implies
            (#[trigger] n[i]).1@.len() > 0 && exists|j: int| 0 <= j < v.len() && v[j] == n[i] by {
            if i < w.len() {
                assert(n[i] == w[i]);
                let j = choose|j: int| 0 <= j < w0.len() && w0[j] == w[i];
                assert(v[j] == n[i]);
            } else {
                assert(n[i] == v[v.len() - 1]);
            }
        }
    }
}

pub proof fn lemma_wf_drop_last(v: Seq<(QualifierKey, SmallString)>)
    requires wf_seq(v), v.len() > 0
    ensures wf_seq(v.drop_last())
{
    let w0 = v.drop_last();
    assert forall|a: int, b: int| 0 <= a < b < w0.len() implies str_lt(#[trigger] w0[a].0.0@, #[trigger] w0[b].0.0@) by {
        assert(w0[a] == v[a]); assert(w0[b] == v[b]);
    }
    assert forall|a: int| 0 <= a < w0.len() implies canon_key(#[trigger] w0[a].0.0@) by { assert(w0[a] == v[a]); }
}

pub proof fn lemma_nonempty_wf(v: Seq<(QualifierKey, SmallString)>)
    requires wf_seq(v)
    ensures wf_seq(nonempty_part(v))
    decreases v.len()
{
    if v.len() > 0 {
        let w0 = v.drop_last();
        lemma_wf_drop_last(v);
        lemma_nonempty_wf(w0);
        lemma_nonempty_subset(w0);
        lemma_nonempty_subset(v);
        let w = nonempty_part(w0);
        let n = nonempty_part(v);
        assert forall|a: int, b: int| 0 <= a < b < n.len() implies str_lt(#[trigger] n[a].0.0@, #[trigger] n[b].0.0@) by {
            if b < w.len() { assert(n[a] == w[a]); assert(n[b] == w[b]); }
            else {
                assert(n[a] == w[a]);
                let j = choose|j: int| 0 <= j < w0.len() && w0[j] == w[a];
                assert(v[j] == w0[j]);
                assert(str_lt(v[j].0.0@, v[v.len() - 1].0.0@));
            }
        }
        assert forall|a: int| 0 <= a < n.len() implies canon_key(#[trigger] n[a].0.0@) by {
            let j = choose|j: int| 0 <= j < v.len() && v[j] == n[a];
            assert(canon_key(v[j].0.0@));
        }
    }
}

pub proof fn lemma_nonempty_id(v: Seq<(QualifierKey, SmallString)>)
    requires forall|j: int| 0 <= j < v.len() ==> (#[trigger] v[j]).1@.len() > 0
    ensures nonempty_part(v) == v
    decreases v.len()
{
    if v.len() > 0 {
        let w0 = v.drop_last();
        assert forall|j: int| 0 <= j < w0.len() implies (#[trigger] w0[j]).1@.len() > 0 by { assert(w0[j] == v[j]); }
        lemma_nonempty_id(w0);
        assert(v[v.len() - 1].1@.len() > 0);
        assert(nonempty_part(v) =~= v);
    }
}

/// `q.retain(|_, v| !v.is_empty())`  (ASSUMED: Vec::retain keeps exactly the elements the predicate accepts, in order)
#[verifier::external_body]
pub fn x_retain_nonempty(q: &mut Qualifiers)
    ensures final(q).qualifiers@ == nonempty_part(old(q).qualifiers@)
{ unimplemented!() }

pub proof fn lemma_checksum_key()
    ensures "checksum"@ == checksum_key(), valid_key(checksum_key()), lower_ascii_seq(checksum_key()) == checksum_key()
{
    reveal_strlit("checksum");
    assert("checksum"@ =~= checksum_key());
    let k = checksum_key();
    assert forall|i: int| 0 <= i < k.len() implies key_char(#[trigger] k[i]) && !ascii_upper_c(k[i]) by {
        if i == 0 {} else if i == 1 {} else if i == 2 {} else if i == 3 {} else if i == 4 {} else if i == 5 {} else if i == 6 {} else {}
    }
    lemma_lower_ascii_fixed(k);
}

pub open spec fn same_but_qualifiers<T>(g: GenericPurl<T>, t1: T, p1: PurlParts) -> bool {
    g.package_type == t1 && g.parts.namespace == p1.namespace && g.parts.name == p1.name
    && g.parts.version == p1.version && g.parts.subpath == p1.subpath
}

/// C04 / C09 / C14: the result of build() as a function of what the hook left behind (t1, p1, fr)
pub open spec fn build_post<T: PurlShape>(t1: T, p1: PurlParts, fr: Result<(), T::Error>, r: Result<GenericPurl<T>, T::Error>) -> bool {
    let conv = <T::Error as vstd::std_specs::convert::FromSpec<ParseError>>::obeys_from_spec();
    match fr {
        Err(e) => r == Err::<GenericPurl<T>, T::Error>(e),                       // an error from the hook is returned unchanged
        Ok(_) =>
            if p1.name@.len() == 0 {                                              // an emptied name is refused
                r is Err && (conv ==> r->Err_0 == <T::Error as vstd::std_specs::convert::FromSpec<ParseError>>::from_spec(
                    ParseError::MissingRequiredField(PurlField::Name)))
            } else {
                let q2 = nonempty_part(p1.qualifiers.qualifiers@);               // empty-valued qualifiers are removed
                if !has_key(q2, checksum_key()) {
                    r is Ok && same_but_qualifiers(r->Ok_0, t1, p1) && r->Ok_0.parts.qualifiers.qualifiers@ == q2
                } else {
                    let p = pos_of(q2, checksum_key());
                    let canon = match ck_parse(q2[p].1@) { None => None, Some(m) => ck_text(m) };
                    match canon {                                                 // a checksum is canonicalised or refused
                        None => r is Err && (conv ==> r->Err_0 == <T::Error as vstd::std_specs::convert::FromSpec<ParseError>>::from_spec(
                            ParseError::InvalidQualifier)),
                        Some(t) => r is Ok && same_but_qualifiers(r->Ok_0, t1, p1)
                            && r->Ok_0.parts.qualifiers.qualifiers@.len() == q2.len()
                            && r->Ok_0.parts.qualifiers.qualifiers@[p].1@ == t && t.len() > 0
                            && r->Ok_0.parts.qualifiers.qualifiers@ == q2.update(p, (q2[p].0, r->Ok_0.parts.qualifiers.qualifiers@[p].1)),
                    }
                }
            },
    }
}

// ---- unit theory.parse_phase  <= (contracts):0 ----
// ---- the parser's two phases as specification functions (C02, C05, C07, C14) ----
pub open spec fn has_prefix(s: Seq<char>, p: Seq<char>) -> bool { s.len() >= p.len() && s.subrange(0, p.len() as int) == p }

/// right-to-left split at the LAST occurrence of `c`: (left part, right part if `c` occurs)
pub open spec fn rsplit_at(s: Seq<char>, c: char) -> (Seq<char>, Option<Seq<char>>) {
    if last_index_of(s, c) < 0 { (s, None) }
    else { (s.subrange(0, last_index_of(s, c)), Some(s.subrange(last_index_of(s, c) + 1, s.len() as int))) }
}

pub struct PhaseA { pub ty: Seq<char>, pub rest: Seq<char>, pub sub: Seq<char>, pub kv: KV }
pub struct PhaseB { pub ns: Seq<char>, pub name: Seq<char>, pub version: Seq<char> }

pub open spec fn dq_parse_err(d: DqErr) -> ParseError { match d { DqErr::Qualifier => ParseError::InvalidQualifier, DqErr::Escape => ParseError::InvalidEscape } }

/// everything up to the type conversion: scheme, leading slashes, subpath after the last '#', qualifiers after the last '?',
/// type up to the first '/', type syntax
pub open spec fn phase_a(s: Seq<char>) -> Result<PhaseA, ParseError> {
    if !has_prefix(s, "pkg:"@) { Err(ParseError::UnsupportedUrlScheme) } else {
        let s1 = trim_start_spec(s.subrange("pkg:"@.len() as int, s.len() as int), '/');
        let (s2, sub_raw) = rsplit_at(s1, '#');
        let sub = match sub_raw { None => Some(Seq::<char>::empty()), Some(x) => sub_fold(split_spec(trim_spec(x, '/'), '/')) };
        if sub is None { Err(ParseError::InvalidEscape) } else {
            let (s3, q_raw) = rsplit_at(s2, '?');
            let kv = match q_raw { None => Ok::<KV, DqErr>(Seq::<(Seq<char>, Seq<char>)>::empty()), Some(x) => dq_fold(split_spec(x, '&'), Seq::<(Seq<char>, Seq<char>)>::empty()) };
            match kv {
                Err(d) => Err(dq_parse_err(d)),
                Ok(kvv) =>
                    if s3.len() == 0 { Err(ParseError::MissingRequiredField(PurlField::PackageType)) }
                    else if first_index_of(s3, '/') < 0 { Err(ParseError::MissingRequiredField(PurlField::Name)) }
                    else {
                        let ty = s3.subrange(0, first_index_of(s3, '/'));
                        if !valid_type(ty) { Err(ParseError::InvalidPackageType) }
                        else { Ok(PhaseA { ty, rest: s3.subrange(first_index_of(s3, '/') + 1, s3.len() as int), sub: sub->Some_0, kv: kvv }) }
                    },
            }
        }
    }
}

/// after the conversion: version after the last '@', namespace before the last '/', name
pub open spec fn phase_b(rest: Seq<char>) -> Result<PhaseB, ParseError> {
    let (r1, ver_raw) = rsplit_at(rest, '@');
    let version = match ver_raw { None => Some(Seq::<char>::empty()), Some(x) => dec(x) };
    if version is None { Err(ParseError::InvalidEscape) } else {
        let (ns_raw, name_raw) = if last_index_of(r1, '/') < 0 { (None::<Seq<char>>, r1) }
            else { (Some(r1.subrange(0, last_index_of(r1, '/'))), r1.subrange(last_index_of(r1, '/') + 1, r1.len() as int)) };
        let ns = match ns_raw { None => Some(Seq::<char>::empty()), Some(x) => ns_fold(split_spec(trim_spec(x, '/'), '/')) };
        if ns is None { Err(ParseError::InvalidEscape) }
        else if dec(name_raw) is None { Err(ParseError::InvalidEscape) }
        else { Ok(PhaseB { ns: ns->Some_0, name: dec(name_raw)->Some_0, version: version->Some_0 }) }
    }
}


// ---- unit theory.parse  <= (contracts):0 ----
// ---- the parser as a function of the text (C02, C05, C07, C14), written from the statements ----
// R9: stub of std::str::FromStr with a specification of what the (user-supplied) conversion may return
pub trait FromStr: Sized {
    type Err;
    /// what the conversion returns for a given text (any relation: user code)
    spec fn from_str_rel(s: Seq<char>, r: Result<Self, Self::Err>) -> bool;
    fn from_str(s: &str) -> (r: Result<Self, Self::Err>)
        ensures Self::from_str_rel(s@, r);
}

/// `s.strip_prefix(p)` for a string pattern
#[verifier::external_body]
pub fn x_strip_prefix<'a>(s: &'a str, p: &str) -> (r: Option<&'a str>)
    ensures match r {
        Some(t) => has_prefix(s@, p@) && t@ == s@.subrange(p@.len() as int, s@.len() as int),
        None => !has_prefix(s@, p@),
    }
{ s.strip_prefix(p) }

pub open spec fn parts_are(p: PurlParts, a: PhaseA, b: PhaseB) -> bool {
    p.namespace@ == b.ns && p.name@ == b.name && p.version@ == b.version && p.subpath@ == a.sub
    && kvs(p.qualifiers.qualifiers@) == a.kv && wf_seq(p.qualifiers.qualifiers@)
}

/// C02 / C05 / C14: the result of parsing as a function of the text, the conversion relation and the hook relation
pub open spec fn parse_post<T: FromStr + PurlShape>(s: Seq<char>, r: Result<GenericPurl<T>, <T as PurlShape>::Error>) -> bool
    where <T as PurlShape>::Error: From<<T as FromStr>::Err>
{
    let conv_p = <<T as PurlShape>::Error as vstd::std_specs::convert::FromSpec<ParseError>>::obeys_from_spec();
    let conv_e = <<T as PurlShape>::Error as vstd::std_specs::convert::FromSpec<<T as FromStr>::Err>>::obeys_from_spec();
    match phase_a(s) {
        // a defect before the conversion: the conversion is never consulted
        Err(e) => r is Err && (conv_p ==> r->Err_0 == <<T as PurlShape>::Error as vstd::std_specs::convert::FromSpec<ParseError>>::from_spec(e)),
        // the conversion sees exactly the (syntactically valid) type substring, once
        Ok(a) => exists|cr: Result<T, <T as FromStr>::Err>| #[trigger] T::from_str_rel(a.ty, cr) && match cr {
            Err(ce) => r is Err && (conv_e ==> r->Err_0 == <<T as PurlShape>::Error as vstd::std_specs::convert::FromSpec<<T as FromStr>::Err>>::from_spec(ce)),
            Ok(t0) => match phase_b(a.rest) {
                Err(e) => r is Err && (conv_p ==> r->Err_0 == <<T as PurlShape>::Error as vstd::std_specs::convert::FromSpec<ParseError>>::from_spec(e)),
                // ... and the tail is build(): one hook application, then the generic checks
                Ok(b) => exists|p0: PurlParts, t1: T, p1: PurlParts, fr: Result<(), <T as PurlShape>::Error>|
                    parts_are(p0, a, b) && #[trigger] T::finish_rel(t0, p0, t1, p1, fr) && build_post::<T>(t1, p1, fr, r),
            },
        },
    }
}

// ---- unit theory.segs_lemmas  <= (contracts):0 ----
// ---- C07 (L-seg): what a successful fold looks like ----
/// ASSUMED (A: bounded replay against the real decoder): a non-empty piece never decodes to the empty string
#[verifier::external_body]
pub proof fn axiom_dec_nonempty(p: Seq<char>)
    requires p.len() > 0, dec(p) is Some
    ensures dec(p)->Some_0.len() > 0
{ }

pub open spec fn join_segs(segs: Seq<Seq<char>>) -> Seq<char> decreases segs.len()
{ if segs.len() == 0 { Seq::<char>::empty() } else { join_push(join_segs(segs.drop_last()), segs.last()) } }

/// the decoded, non-skipped pieces of a subpath (meaningful when sub_fold is Some)
pub open spec fn sub_segs(pieces: Seq<Seq<char>>) -> Seq<Seq<char>> decreases pieces.len()
{
    if pieces.len() == 0 { Seq::<Seq<char>>::empty() }
    else if sub_skipped(pieces.last()) { sub_segs(pieces.drop_last()) }
    else { sub_segs(pieces.drop_last()).push(dec(pieces.last())->Some_0) }
}
pub open spec fn ns_segs(pieces: Seq<Seq<char>>) -> Seq<Seq<char>> decreases pieces.len()
{
    if pieces.len() == 0 { Seq::<Seq<char>>::empty() }
    else if ns_skipped(pieces.last()) { ns_segs(pieces.drop_last()) }
    else { ns_segs(pieces.drop_last()).push(dec(pieces.last())->Some_0) }
}

pub open spec fn clean_sub_seg(s: Seq<char>) -> bool { s.len() > 0 && !has_char(s, '/') && !is_dot(s) && !is_dotdot(s) }
pub open spec fn clean_ns_seg(s: Seq<char>) -> bool { s.len() > 0 && !has_char(s, '/') }

/// a successful subpath fold is the '/'-join of the decoded non-skipped pieces, every one of them clean
#[verifier::external_body] /* proved in group parse_seg */
pub proof fn lemma_sub_fold_shape(ps: Seq<Seq<char>>)
    requires sub_fold(ps) is Some
    ensures
        sub_fold(ps)->Some_0 == join_segs(sub_segs(ps)),
        forall|i: int| 0 <= i < sub_segs(ps).len() ==> clean_sub_seg(#[trigger] sub_segs(ps)[i]),
    decreases ps.len()
{ }
#[verifier::external_body] /* proved in group parse_seg */
pub proof fn lemma_ns_fold_shape(ps: Seq<Seq<char>>)
    requires ns_fold(ps) is Some
    ensures
        ns_fold(ps)->Some_0 == join_segs(ns_segs(ps)),
        forall|i: int| 0 <= i < ns_segs(ps).len() ==> clean_ns_seg(#[trigger] ns_segs(ps)[i]),
    decreases ps.len()
{ }

#[verifier::external_body] /* proved in group parse_seg */
pub proof fn lemma_first_index_prefix(a: Seq<char>, b: Seq<char>, c: char)
    requires has_char(a, c)
    ensures first_index_of(a + b, c) == first_index_of(a, c)
    decreases a.len()
{ }

#[verifier::external_body] /* proved in group parse_seg */
pub proof fn lemma_split_no_sep(s: Seq<char>, c: char)
    requires !has_char(s, c)
    ensures split_spec(s, c) == seq![s]
{ }

/// appending `c` and a `c`-free tail appends one piece
#[verifier::external_body] /* proved in group parse_seg */
pub proof fn lemma_split_append(a: Seq<char>, b: Seq<char>, c: char)
    requires !has_char(b, c)
    ensures split_spec(a + seq![c] + b, c) == split_spec(a, c).push(b)
    decreases a.len()
{ }

#[verifier::external_body] /* proved in group parse_seg */
pub proof fn lemma_join_nonempty(segs: Seq<Seq<char>>)
    requires segs.len() > 0, forall|i: int| 0 <= i < segs.len() ==> (#[trigger] segs[i]).len() > 0
    ensures join_segs(segs).len() > 0
{ }

/// C07: splitting the reported namespace / subpath at '/' gives back exactly the clean segments -- no empty
/// segment, hence no leading or trailing '/', and an escape neither split nor joined anything
#[verifier::external_body] /* proved in group parse_seg */
pub proof fn lemma_split_of_join(segs: Seq<Seq<char>>)
    requires segs.len() > 0, forall|i: int| 0 <= i < segs.len() ==> (#[trigger] segs[i]).len() > 0 && !has_char(segs[i], '/')
    ensures split_spec(join_segs(segs), '/') == segs
    decreases segs.len()
{ }

/// C07, as stated: for every accepted subpath text
#[verifier::external_body] /* proved in group parse_seg */
pub proof fn lemma_c07_subpath(ps: Seq<Seq<char>>)
    requires sub_fold(ps) is Some
    ensures ({
        let out = sub_fold(ps)->Some_0;
        if sub_segs(ps).len() == 0 { out.len() == 0 }      // reported as "no subpath"
        else {
            split_spec(out, '/') == sub_segs(ps)
            && forall|i: int| 0 <= i < sub_segs(ps).len() ==> clean_sub_seg(#[trigger] sub_segs(ps)[i])
        }
    })
{ }
#[verifier::external_body] /* proved in group parse_seg */
pub proof fn lemma_c07_namespace(ps: Seq<Seq<char>>)
    requires ns_fold(ps) is Some
    ensures ({
        let out = ns_fold(ps)->Some_0;
        if ns_segs(ps).len() == 0 { out.len() == 0 }
        else {
            split_spec(out, '/') == ns_segs(ps)
            && forall|i: int| 0 <= i < ns_segs(ps).len() ==> clean_ns_seg(#[trigger] ns_segs(ps)[i])
        }
    })
{ }

// ---- unit theory.c07  <= (contracts):0 ----

/// C07, as stated, for every string the two phases accept: the reported namespace and subpath are '/'-joins of clean segments
/// (none empty, none containing '/', subpath segments not '.' or '..'), or absent
#[verifier::external_body] /* proved in group parse */
pub proof fn lemma_c07_of_phases(s: Seq<char>)
    requires phase_a(s) is Ok, phase_b(phase_a(s)->Ok_0.rest) is Ok
    ensures ({
        let a = phase_a(s)->Ok_0;
        let b = phase_b(a.rest)->Ok_0;
        (b.ns.len() == 0 || exists|segs: Seq<Seq<char>>| #![auto] segs.len() > 0 && b.ns == join_segs(segs) && split_spec(b.ns, '/') == segs
            && forall|i: int| 0 <= i < segs.len() ==> clean_ns_seg(#[trigger] segs[i]))
        && (a.sub.len() == 0 || exists|segs: Seq<Seq<char>>| #![auto] segs.len() > 0 && a.sub == join_segs(segs) && split_spec(a.sub, '/') == segs
            && forall|i: int| 0 <= i < segs.len() ==> clean_sub_seg(#[trigger] segs[i]))
    })
{ }

// ---- unit theory.enc  <= (contracts):0 ----
// ---- percent-encoding as a specification function (C03): defined per character from the documented table ----
// What is ASSUMED about the dependency: `utf8_percent_encode(s, SET)` produces `enc(SET, s)` (its per-byte table is proved by
// Kani on the real constants; that it works char by char is replayed by A), and `dec(enc(set, s)) == Some(s)` (A).
#[derive(Clone, Copy)]
pub enum SetId { Path, Segment, Query, Fragment }
pub const PURL_PATH: SetId = SetId::Path;
pub const PURL_PATH_SEGMENT: SetId = SetId::Segment;
pub const PURL_QUERY: SetId = SetId::Query;
pub const PURL_FRAGMENT: SetId = SetId::Fragment;

/// C03's table: "every byte that is a control character, DEL, space, non-ASCII, '"', '<', '>', '%', '@', '?' or '#' - and
/// additionally '`', '{', '}' in namespace, name and version, '/' in the name, '+' and '&' in qualifier values, '`' in the subpath"
pub open spec fn escaped_c(set: SetId, c: char) -> bool {
    (c as u32) < 0x20 || (c as u32) >= 0x7f || c == ' ' || c == '"' || c == '<' || c == '>' || c == '%' || c == '@' || c == '?' || c == '#'
    || match set {
        SetId::Path => c == '`' || c == '{' || c == '}',
        SetId::Segment => c == '`' || c == '{' || c == '}' || c == '/',
        SetId::Query => c == '+' || c == '&',
        SetId::Fragment => c == '`',
    }
}
/// `%XX…` for the UTF-8 bytes of `c` (uninterpreted; only its alphabet is used)
pub uninterp spec fn pct(c: char) -> Seq<char>;
pub open spec fn pct_alphabet(x: char) -> bool { x == '%' || ('0' <= x && x <= '9') || ('A' <= x && x <= 'F') }
/// ASSUMED (definition of percent-encoding): non-empty, made of '%' and upper-case hex digits
#[verifier::external_body]
pub proof fn axiom_pct(c: char)
    ensures pct(c).len() > 0, forall|i: int| 0 <= i < pct(c).len() ==> pct_alphabet(#[trigger] pct(c)[i])
{ }

pub open spec fn enc_char(set: SetId, c: char) -> Seq<char> { if escaped_c(set, c) { pct(c) } else { seq![c] } }
pub open spec fn enc(set: SetId, s: Seq<char>) -> Seq<char> decreases s.len()
{ if s.len() == 0 { Seq::<char>::empty() } else { enc(set, s.drop_last()) + enc_char(set, s.last()) } }

// ---- unit theory.canon  <= (contracts):0 ----
// ---- the canonical string as a specification function, written from C03 ----
pub open spec fn opt_part(present: bool, s: Seq<char>) -> Seq<char> { if present { s } else { Seq::<char>::empty() } }

/// [`?` + key=value pairs joined by `&`, in storage order]
pub open spec fn quals_text(v: Seq<(QualifierKey, SmallString)>) -> Seq<char> decreases v.len() {
    if v.len() == 0 { Seq::<char>::empty() }
    else {
        quals_text(v.drop_last()) + seq![if v.len() == 1 { '?' } else { '&' }]
            + enc(SetId::Query, v.last().0.0@) + seq!['='] + enc(SetId::Query, v.last().1@)
    }
}

/// C03: `pkg:` + type + `/` + [namespace + `/`] + name + [`@` + version] + [`?` + pairs] + [`#` + subpath], absent parts omitted
pub open spec fn canon_spec(ty: Seq<char>, p: PurlParts) -> Seq<char> {
    "pkg:"@ + ty + "/"@
    + opt_part(p.namespace@.len() > 0, enc(SetId::Path, p.namespace@) + "/"@)
    + enc(SetId::Segment, p.name@)
    + opt_part(p.version@.len() > 0, "@"@ + enc(SetId::Path, p.version@))
    + quals_text(p.qualifiers.qualifiers@)
    + opt_part(p.subpath@.len() > 0, "#"@ + enc(SetId::Fragment, p.subpath@))
}

// staged prefixes of canon_spec (one per write group), so that each stage closes with one extensional equality
pub open spec fn cs1(ty: Seq<char>) -> Seq<char> { "pkg:"@ + ty + "/"@ }
pub open spec fn cs2(ty: Seq<char>, p: PurlParts) -> Seq<char> { cs1(ty) + opt_part(p.namespace@.len() > 0, enc(SetId::Path, p.namespace@) + "/"@) }
pub open spec fn cs3(ty: Seq<char>, p: PurlParts) -> Seq<char> { cs2(ty, p) + enc(SetId::Segment, p.name@) }
pub open spec fn cs4(ty: Seq<char>, p: PurlParts) -> Seq<char> { cs3(ty, p) + opt_part(p.version@.len() > 0, "@"@ + enc(SetId::Path, p.version@)) }
pub open spec fn cs5(ty: Seq<char>, p: PurlParts) -> Seq<char> { cs4(ty, p) + quals_text(p.qualifiers.qualifiers@) }
pub proof fn lemma_canon_stages(ty: Seq<char>, p: PurlParts)
    ensures canon_spec(ty, p) == cs5(ty, p) + opt_part(p.subpath@.len() > 0, "#"@ + enc(SetId::Fragment, p.subpath@))
{ }

// ---- unit theory.inverse1  <= (contracts):0 ----
// ---- C01 / C09 / C19: parsing the canonical string gives the parts back (the inverse direction), part 1: encoding lemmas ----
/// ASSUMED (A: bounded replay): percent-decoding inverts percent-encoding, for every escape set
#[verifier::external_body]
pub proof fn axiom_dec_enc(set: SetId, s: Seq<char>)
    ensures dec(enc(set, s)) == Some(s)
{ }

#[verifier::external_body] /* proved in group inverse */
pub proof fn lemma_enc_concat(set: SetId, a: Seq<char>, b: Seq<char>)
    ensures enc(set, a + b) == enc(set, a) + enc(set, b)
    decreases b.len()
{ }

#[verifier::external_body] /* proved in group inverse */
pub proof fn lemma_enc_single(set: SetId, c: char)
    ensures enc(set, seq![c]) == enc_char(set, c)
{ }

#[verifier::external_body] /* proved in group inverse */
pub proof fn lemma_enc_len(set: SetId, s: Seq<char>)
    ensures (enc(set, s).len() == 0) == (s.len() == 0), enc(set, s).len() >= s.len()
    decreases s.len()
{ }

/// a character that is escaped in `set` and is not in the %HEX alphabet never appears in an encoded string
#[verifier::external_body] /* proved in group inverse */
pub proof fn lemma_enc_excludes(set: SetId, s: Seq<char>, x: char)
    requires escaped_c(set, x), !pct_alphabet(x)
    ensures !has_char(enc(set, s), x)
    decreases s.len()
{ }

/// an unescaped character of the %HEX-free kind is preserved: it occurs in the encoding iff it occurs in the text
#[verifier::external_body] /* proved in group inverse */
pub proof fn lemma_enc_preserves(set: SetId, s: Seq<char>, x: char)
    requires !escaped_c(set, x), !pct_alphabet(x)
    ensures has_char(enc(set, s), x) == has_char(s, x)
    decreases s.len()
{ }

/// a string made of unescaped characters only is its own encoding (qualifier keys, '/', ...)
#[verifier::external_body] /* proved in group inverse */
pub proof fn lemma_enc_identity(set: SetId, s: Seq<char>)
    requires forall|i: int| 0 <= i < s.len() ==> !escaped_c(set, #[trigger] s[i])
    ensures enc(set, s) == s
    decreases s.len()
{ }

/// first / last character of an encoding is the separator `x` (unescaped, not %HEX) iff that of the text is
#[verifier::external_body] /* proved in group inverse */
pub proof fn lemma_enc_ends(set: SetId, s: Seq<char>, x: char)
    requires !escaped_c(set, x), !pct_alphabet(x), s.len() > 0
    ensures enc(set, s).len() > 0, (enc(set, s)[0] == x) == (s[0] == x), (enc(set, s).last() == x) == (s.last() == x)
    decreases s.len()
{ }

// ---- unit theory.inverse2  <= (contracts):0 ----
// ---- part 2: namespace / subpath text survives encode -> split -> decode ----
pub open spec fn enc_each(set: SetId, segs: Seq<Seq<char>>) -> Seq<Seq<char>> { segs.map_values(|s: Seq<char>| enc(set, s)) }

pub open spec fn slash_free_nonempty(segs: Seq<Seq<char>>) -> bool {
    forall|i: int| 0 <= i < segs.len() ==> (#[trigger] segs[i]).len() > 0 && !has_char(segs[i], '/')
}

#[verifier::external_body] /* proved in group inverse */
pub proof fn lemma_slash_unescaped()
    ensures !escaped_c(SetId::Path, '/'), !escaped_c(SetId::Fragment, '/'), !pct_alphabet('/'), !pct_alphabet('.'),
        !escaped_c(SetId::Path, '.'), !escaped_c(SetId::Fragment, '.')
{ }

/// encoding a '/'-join (with a set that leaves '/' alone) is the '/'-join of the encodings
#[verifier::external_body] /* proved in group inverse */
pub proof fn lemma_enc_join(set: SetId, segs: Seq<Seq<char>>)
    requires !escaped_c(set, '/'), slash_free_nonempty(segs)
    ensures enc(set, join_segs(segs)) == join_segs(enc_each(set, segs)), slash_free_nonempty(enc_each(set, segs))
    decreases segs.len()
{ }

/// folding the pieces enc(seg_i) with the namespace rule gives the '/'-join of the segments
#[verifier::external_body] /* proved in group inverse */
pub proof fn lemma_ns_fold_of_enc(set: SetId, segs: Seq<Seq<char>>)
    requires slash_free_nonempty(segs)
    ensures ns_fold(enc_each(set, segs)) == Some(join_segs(segs))
    decreases segs.len()
{ }

pub open spec fn clean_sub_segs(segs: Seq<Seq<char>>) -> bool {
    forall|i: int| 0 <= i < segs.len() ==> clean_sub_seg(#[trigger] segs[i])
}

/// an encoding equals "." / ".." only if the text does ('.' is never escaped, escapes contain '%')
#[verifier::external_body] /* proved in group inverse */
pub proof fn lemma_enc_dot(set: SetId, s: Seq<char>)
    requires !escaped_c(set, '.')
    ensures is_dot(enc(set, s)) ==> is_dot(s), is_dotdot(enc(set, s)) ==> is_dotdot(s)
{ }

#[verifier::external_body] /* proved in group inverse */
pub proof fn lemma_enc_all_dots(set: SetId, s: Seq<char>)
    requires forall|i: int| 0 <= i < enc(set, s).len() ==> #[trigger] enc(set, s)[i] == '.'
    ensures enc(set, s) == s
    decreases s.len()
{ }

#[verifier::external_body] /* proved in group inverse */
pub proof fn lemma_sub_fold_of_enc(set: SetId, segs: Seq<Seq<char>>)
    requires clean_sub_segs(segs), !escaped_c(set, '.')
    ensures sub_fold(enc_each(set, segs)) == Some(join_segs(segs))
    decreases segs.len()
{ }

/// trimming '/' does nothing to a text that neither starts nor ends with '/'
#[verifier::external_body] /* proved in group inverse */
pub proof fn lemma_trim_noop(s: Seq<char>, c: char)
    requires s.len() == 0 || (s[0] != c && s.last() != c)
    ensures trim_spec(s, c) == s
{ }

#[verifier::external_body] /* proved in group inverse */
pub proof fn lemma_join_ends(segs: Seq<Seq<char>>)
    requires segs.len() > 0, slash_free_nonempty(segs)
    ensures join_segs(segs).len() > 0, join_segs(segs)[0] != '/', join_segs(segs).last() != '/'
    decreases segs.len()
{ }

/// C07 / C01 (namespace): the printed namespace parses back to itself
#[verifier::external_body] /* proved in group inverse */
pub proof fn lemma_ns_roundtrip(segs: Seq<Seq<char>>)
    requires segs.len() > 0, slash_free_nonempty(segs)
    ensures ns_fold(split_spec(trim_spec(enc(SetId::Path, join_segs(segs)), '/'), '/')) == Some(join_segs(segs))
{ }

/// C07 / C01 (subpath)
#[verifier::external_body] /* proved in group inverse */
pub proof fn lemma_sub_roundtrip(segs: Seq<Seq<char>>)
    requires segs.len() > 0, clean_sub_segs(segs)
    ensures sub_fold(split_spec(trim_spec(enc(SetId::Fragment, join_segs(segs)), '/'), '/')) == Some(join_segs(segs))
{ }

// ---- unit theory.inverse3  <= (contracts):0 ----
// ---- part 3: the qualifier text survives print -> split -> decode ----
pub open spec fn join_with(items: Seq<Seq<char>>, c: char) -> Seq<char> decreases items.len() {
    if items.len() == 0 { Seq::<char>::empty() }
    else if items.len() == 1 { items[0] }
    else { join_with(items.drop_last(), c) + seq![c] + items.last() }
}
#[verifier::external_body] /* proved in group inverse */
pub proof fn lemma_split_of_join_with(items: Seq<Seq<char>>, c: char)
    requires items.len() > 0, forall|i: int| 0 <= i < items.len() ==> !has_char(#[trigger] items[i], c)
    ensures split_spec(join_with(items, c), c) == items
    decreases items.len()
{ }
#[verifier::external_body] /* proved in group inverse */
pub proof fn lemma_join_with_excludes(items: Seq<Seq<char>>, c: char, x: char)
    requires x != c, forall|i: int| 0 <= i < items.len() ==> !has_char(#[trigger] items[i], x)
    ensures !has_char(join_with(items, c), x)
    decreases items.len()
{ }

pub open spec fn q_item(kv: (QualifierKey, SmallString)) -> Seq<char> { enc(SetId::Query, kv.0.0@) + seq!['='] + enc(SetId::Query, kv.1@) }
pub open spec fn q_items(v: Seq<(QualifierKey, SmallString)>) -> Seq<Seq<char>> { v.map_values(|kv: (QualifierKey, SmallString)| q_item(kv)) }

#[verifier::external_body] /* proved in group inverse */
pub proof fn lemma_quals_text_shape(v: Seq<(QualifierKey, SmallString)>)
    requires v.len() > 0
    ensures quals_text(v) == seq!['?'] + join_with(q_items(v), '&')
    decreases v.len()
{ }

#[verifier::external_body] /* proved in group inverse */
pub proof fn lemma_key_chars(k: Seq<char>)
    requires canon_key(k)
    ensures enc(SetId::Query, k) == k, !has_char(k, '='), !has_char(k, '&'), !has_char(k, '?'), !has_char(k, '#'), lower_ascii_seq(k) == k
{ }

#[verifier::external_body] /* proved in group inverse */
pub proof fn lemma_q_item_chars(kv: (QualifierKey, SmallString))
    requires canon_key(kv.0.0@)
    ensures !has_char(q_item(kv), '&'), !has_char(q_item(kv), '?'), !has_char(q_item(kv), '#'),
        first_index_of(q_item(kv), '=') == kv.0.0@.len(),
        q_item(kv).subrange(0, kv.0.0@.len() as int) == kv.0.0@,
        q_item(kv).subrange(kv.0.0@.len() as int + 1, q_item(kv).len() as int) == enc(SetId::Query, kv.1@),
{ }

#[verifier::external_body] /* proved in group inverse */
pub proof fn lemma_kv_pos_end(acc: KV, k: Seq<char>)
    requires forall|i: int| 0 <= i < acc.len() ==> str_lt((#[trigger] acc[i]).0, k)
    ensures kv_pos_of(acc, k) == acc.len(), !kv_has_key(acc, k)
    decreases acc.len()
{ }

/// folding the printed items gives the pairs back
#[verifier::external_body] /* proved in group inverse */
pub proof fn lemma_dq_fold_items(v: Seq<(QualifierKey, SmallString)>)
    requires wf_seq(v), forall|i: int| 0 <= i < v.len() ==> (#[trigger] v[i]).1@.len() > 0
    ensures dq_fold(q_items(v), Seq::<(Seq<char>, Seq<char>)>::empty()) == Ok::<KV, DqErr>(kvs(v))
    decreases v.len()
{ }

// ---- unit theory.inverse4  <= (contracts):0 ----
// ---- part 4: phase_a / phase_b applied to canon_spec ----
pub open spec fn rest_of(p: PurlParts) -> Seq<char> {
    opt_part(p.namespace@.len() > 0, enc(SetId::Path, p.namespace@) + "/"@)
    + enc(SetId::Segment, p.name@)
    + opt_part(p.version@.len() > 0, "@"@ + enc(SetId::Path, p.version@))
}

/// the parts of a PURL handed out by the library (C04 / C07): what build() and the decoders guarantee
pub open spec fn norm_parts(p: PurlParts, ns_segs: Seq<Seq<char>>, sub_segs: Seq<Seq<char>>) -> bool {
    p.name@.len() > 0
    && (if p.namespace@.len() == 0 { ns_segs.len() == 0 } else { ns_segs.len() > 0 && slash_free_nonempty(ns_segs) && p.namespace@ == join_segs(ns_segs) })
    && (if p.subpath@.len() == 0 { sub_segs.len() == 0 } else { sub_segs.len() > 0 && clean_sub_segs(sub_segs) && p.subpath@ == join_segs(sub_segs) })
    && wf_seq(p.qualifiers.qualifiers@)
    && (forall|i: int| 0 <= i < p.qualifiers.qualifiers@.len() ==> (#[trigger] p.qualifiers.qualifiers@[i]).1@.len() > 0)
}

#[verifier::external_body] /* proved in group inverse */
pub proof fn lemma_lits()
    ensures "/"@ == seq!['/'], "@"@ == seq!['@'], "#"@ == seq!['#'], "pkg:"@.len() == 4
{ }

#[verifier::external_body] /* proved in group inverse */
pub proof fn lemma_type_excludes(ty: Seq<char>, x: char)
    requires valid_type(ty), x == '#' || x == '?' || x == '@' || x == '/'
    ensures !has_char(ty, x), ty.len() > 0, ty[0] != '/'
{ }

/// the path part after the type contains neither '#' nor '?'
#[verifier::external_body] /* proved in group inverse */
pub proof fn lemma_rest_excludes(p: PurlParts, x: char)
    requires x == '#' || x == '?'
    ensures !has_char(rest_of(p), x)
{ }

#[verifier::external_body] /* proved in group inverse */
pub proof fn lemma_quals_text_excludes_hash(v: Seq<(QualifierKey, SmallString)>)
    requires keys_canon(v)
    ensures !has_char(quals_text(v), '#')
    decreases v.len()
{ }

/// phase B on the path part
#[verifier::external_body] /* proved in group inverse */
pub proof fn lemma_phase_b_canon(p: PurlParts, ns_segs: Seq<Seq<char>>, sub_segs: Seq<Seq<char>>)
    requires norm_parts(p, ns_segs, sub_segs)
    ensures phase_b(rest_of(p)) == Ok::<PhaseB, ParseError>(PhaseB { ns: p.namespace@, name: p.name@, version: p.version@ })
{ }

pub open spec fn c_l2(ty: Seq<char>, p: PurlParts) -> Seq<char> { ty + seq!['/'] + rest_of(p) }
pub open spec fn c_l(ty: Seq<char>, p: PurlParts) -> Seq<char> { c_l2(ty, p) + quals_text(p.qualifiers.qualifiers@) }
pub open spec fn c_b(ty: Seq<char>, p: PurlParts) -> Seq<char> { c_l(ty, p) + opt_part(p.subpath@.len() > 0, seq!['#'] + enc(SetId::Fragment, p.subpath@)) }

/// stage 1: scheme and leading slashes
#[verifier::external_body] /* proved in group inverse */
pub proof fn lemma_pa_scheme(ty: Seq<char>, p: PurlParts)
    requires valid_type(ty)
    ensures
        has_prefix(canon_spec(ty, p), "pkg:"@),
        trim_start_spec(canon_spec(ty, p).subrange("pkg:"@.len() as int, canon_spec(ty, p).len() as int), '/') == c_b(ty, p),
{ }

/// stage 2: the subpath is what follows the last '#'
#[verifier::external_body] /* proved in group inverse */
pub proof fn lemma_pa_subpath(ty: Seq<char>, p: PurlParts, ns_segs: Seq<Seq<char>>, sub_segs: Seq<Seq<char>>)
    requires valid_type(ty), norm_parts(p, ns_segs, sub_segs)
    ensures
        rsplit_at(c_b(ty, p), '#').0 == c_l(ty, p),
        (match rsplit_at(c_b(ty, p), '#').1 { None => Some(Seq::<char>::empty()), Some(x) => sub_fold(split_spec(trim_spec(x, '/'), '/')) }) == Some(p.subpath@),
{ }

/// stage 3: the qualifiers are what follows the last '?'
#[verifier::external_body] /* proved in group inverse */
pub proof fn lemma_pa_quals(ty: Seq<char>, p: PurlParts, ns_segs: Seq<Seq<char>>, sub_segs: Seq<Seq<char>>)
    requires valid_type(ty), norm_parts(p, ns_segs, sub_segs)
    ensures
        rsplit_at(c_l(ty, p), '?').0 == c_l2(ty, p),
        (match rsplit_at(c_l(ty, p), '?').1 {
            None => Ok::<KV, DqErr>(Seq::<(Seq<char>, Seq<char>)>::empty()),
            Some(x) => dq_fold(split_spec(x, '&'), Seq::<(Seq<char>, Seq<char>)>::empty()),
        }) == Ok::<KV, DqErr>(kvs(p.qualifiers.qualifiers@)),
{ }

/// stage 4: the type is what precedes the first '/'
#[verifier::external_body] /* proved in group inverse */
pub proof fn lemma_pa_type(ty: Seq<char>, p: PurlParts)
    requires valid_type(ty)
    ensures
        c_l2(ty, p).len() > 0, first_index_of(c_l2(ty, p), '/') == ty.len(),
        c_l2(ty, p).subrange(0, ty.len() as int) == ty,
        c_l2(ty, p).subrange(ty.len() as int + 1, c_l2(ty, p).len() as int) == rest_of(p),
{ }

/// C01 / C09: phase A on the canonical string
#[verifier::external_body] /* proved in group inverse */
pub proof fn lemma_phase_a_canon(ty: Seq<char>, p: PurlParts, ns_segs: Seq<Seq<char>>, sub_segs: Seq<Seq<char>>)
    requires valid_type(ty), norm_parts(p, ns_segs, sub_segs)
    ensures phase_a(canon_spec(ty, p)) == Ok::<PhaseA, ParseError>(PhaseA { ty, rest: rest_of(p), sub: p.subpath@, kv: kvs(p.qualifiers.qualifiers@) })
{ }

/// C01 / C09 / C19, the inverse direction: parsing the canonical string of normalised parts yields exactly those parts
#[verifier::external_body] /* proved in group inverse */
pub proof fn lemma_parse_canon(ty: Seq<char>, p: PurlParts, ns_segs: Seq<Seq<char>>, sub_segs: Seq<Seq<char>>)
    requires valid_type(ty), norm_parts(p, ns_segs, sub_segs)
    ensures
        phase_a(canon_spec(ty, p)) == Ok::<PhaseA, ParseError>(PhaseA { ty, rest: rest_of(p), sub: p.subpath@, kv: kvs(p.qualifiers.qualifiers@) }),
        phase_b(rest_of(p)) == Ok::<PhaseB, ParseError>(PhaseB { ns: p.namespace@, name: p.name@, version: p.version@ }),
{ }

/// C19 (one direction): two normalised values with the same canonical string have the same fields
#[verifier::external_body] /* proved in group inverse */
pub proof fn lemma_canon_injective(ty1: Seq<char>, p1: PurlParts, n1: Seq<Seq<char>>, s1: Seq<Seq<char>>,
                                   ty2: Seq<char>, p2: PurlParts, n2: Seq<Seq<char>>, s2: Seq<Seq<char>>)
    requires valid_type(ty1), norm_parts(p1, n1, s1), valid_type(ty2), norm_parts(p2, n2, s2), canon_spec(ty1, p1) == canon_spec(ty2, p2)
    ensures ty1 == ty2, p1.namespace@ == p2.namespace@, p1.name@ == p2.name@, p1.version@ == p2.version@, p1.subpath@ == p2.subpath@,
        kvs(p1.qualifiers.qualifiers@) == kvs(p2.qualifiers.qualifiers@)
{ }

// ---- unit theory.inverse5  <= (contracts):0 ----
// ---- part 5 (C09): the inverse direction for ARBITRARY namespace / subpath texts ----
// A builder may put any text into namespace and subpath. Printing and parsing then gives back the text "after dropping
// insignificant segments": the non-empty '/'-pieces of the namespace, the pieces of the subpath that are not "", "." or "..".
pub open spec fn keep_ns(ps: Seq<Seq<char>>) -> Seq<Seq<char>> decreases ps.len() {
    if ps.len() == 0 { Seq::<Seq<char>>::empty() } else if ns_skipped(ps.last()) { keep_ns(ps.drop_last()) } else { keep_ns(ps.drop_last()).push(ps.last()) }
}
pub open spec fn keep_sub(ps: Seq<Seq<char>>) -> Seq<Seq<char>> decreases ps.len() {
    if ps.len() == 0 { Seq::<Seq<char>>::empty() } else if sub_skipped(ps.last()) { keep_sub(ps.drop_last()) } else { keep_sub(ps.drop_last()).push(ps.last()) }
}
/// C09: "namespace and subpath compared after dropping insignificant segments (empty ones, and '.'/'..' in the subpath)"
pub open spec fn sig_ns(n: Seq<char>) -> Seq<char> { join_segs(keep_ns(split_spec(n, '/'))) }
pub open spec fn sig_sub(s: Seq<char>) -> Seq<char> { join_segs(keep_sub(split_spec(s, '/'))) }

pub open spec fn slash_free(ps: Seq<Seq<char>>) -> bool { forall|i: int| 0 <= i < ps.len() ==> !has_char(#[trigger] ps[i], '/') }

/// folding the encoded pieces with the namespace rule: the '/'-join of the non-empty pieces
#[verifier::external_body] /* proved in group inverse */
pub proof fn lemma_ns_fold_of_enc_gen(set: SetId, ps: Seq<Seq<char>>)
    requires slash_free(ps)
    ensures ns_fold(enc_each(set, ps)) == Some(join_segs(keep_ns(ps)))
    decreases ps.len()
{ }

#[verifier::external_body] /* proved in group inverse */
pub proof fn lemma_dotdot_is_all_dots(s: Seq<char>)
    ensures is_dot(s) ==> (s.len() == 1 && s[0] == '.'), is_dotdot(s) ==> (s.len() == 2 && s[0] == '.' && s[1] == '.'),
        (s.len() == 1 && s[0] == '.') ==> is_dot(s), (s.len() == 2 && s[0] == '.' && s[1] == '.') ==> is_dotdot(s)
{ }

/// an encoding is "", "." or ".." exactly when the text is (no escape set touches '.', escapes contain '%')
#[verifier::external_body] /* proved in group inverse */
pub proof fn lemma_enc_skipped(set: SetId, s: Seq<char>)
    requires !escaped_c(set, '.')
    ensures sub_skipped(enc(set, s)) == sub_skipped(s)
{ }

/// folding the encoded pieces with the subpath rule: the '/'-join of the pieces that are not "", "." or ".."
#[verifier::external_body] /* proved in group inverse */
pub proof fn lemma_sub_fold_of_enc_gen(set: SetId, ps: Seq<Seq<char>>)
    requires slash_free(ps), !escaped_c(set, '.')
    ensures sub_fold(enc_each(set, ps)) == Some(join_segs(keep_sub(ps)))
    decreases ps.len()
{ }

/// encoding with a set that leaves '/' alone commutes with splitting at '/'
#[verifier::external_body] /* proved in group inverse */
pub proof fn lemma_split_of_enc(set: SetId, s: Seq<char>)
    requires !escaped_c(set, '/')
    ensures split_spec(enc(set, s), '/') == enc_each(set, split_spec(s, '/'))
    decreases s.len()
{ }

/// a skipped first piece does not change the fold
#[verifier::external_body] /* proved in group inverse */
pub proof fn lemma_ns_fold_prepend(e: Seq<char>, ps: Seq<Seq<char>>)
    requires ns_skipped(e)
    ensures ns_fold(seq![e] + ps) == ns_fold(ps)
    decreases ps.len()
{ }
#[verifier::external_body] /* proved in group inverse */
pub proof fn lemma_sub_fold_prepend(e: Seq<char>, ps: Seq<Seq<char>>)
    requires sub_skipped(e)
    ensures sub_fold(seq![e] + ps) == sub_fold(ps)
    decreases ps.len()
{ }

/// trimming '/' at both ends only removes empty pieces, which both folds skip
#[verifier::external_body] /* proved in group inverse */
pub proof fn lemma_fold_trim_start(x: Seq<char>)
    ensures ns_fold(split_spec(trim_start_spec(x, '/'), '/')) == ns_fold(split_spec(x, '/')),
        sub_fold(split_spec(trim_start_spec(x, '/'), '/')) == sub_fold(split_spec(x, '/')),
    decreases x.len()
{ }
#[verifier::external_body] /* proved in group inverse */
pub proof fn lemma_fold_trim_end(x: Seq<char>)
    ensures ns_fold(split_spec(trim_end_spec(x, '/'), '/')) == ns_fold(split_spec(x, '/')),
        sub_fold(split_spec(trim_end_spec(x, '/'), '/')) == sub_fold(split_spec(x, '/')),
    decreases x.len()
{ }

/// C09 (namespace): print -> split -> decode gives the text after dropping empty segments
#[verifier::external_body] /* proved in group inverse */
pub proof fn lemma_ns_roundtrip_gen(n: Seq<char>)
    ensures ns_fold(split_spec(trim_spec(enc(SetId::Path, n), '/'), '/')) == Some(sig_ns(n))
{ }
/// C09 (subpath): ... after dropping "", "." and ".." segments
#[verifier::external_body] /* proved in group inverse */
pub proof fn lemma_sub_roundtrip_gen(s: Seq<char>)
    ensures sub_fold(split_spec(trim_spec(enc(SetId::Fragment, s), '/'), '/')) == Some(sig_sub(s))
{ }

// ---- a namespace with a significant segment keeps one (C08: the maven rule is stable under print -> parse) ----
#[verifier::external_body] /* proved in group inverse */
pub proof fn lemma_split_has_nonempty(n: Seq<char>)
    requires !all_char(n, '/')
    ensures exists|j: int| 0 <= j < split_spec(n, '/').len() && (#[trigger] split_spec(n, '/')[j]).len() > 0
    decreases n.len()
{ }

#[verifier::external_body] /* proved in group inverse */
pub proof fn lemma_keep_ns_props(ps: Seq<Seq<char>>)
    requires slash_free(ps)
    ensures slash_free_nonempty(keep_ns(ps)),
        (exists|j: int| 0 <= j < ps.len() && (#[trigger] ps[j]).len() > 0) ==> keep_ns(ps).len() > 0
    decreases ps.len()
{ }

#[verifier::external_body] /* proved in group inverse */
pub proof fn lemma_sig_ns_all_slash(n: Seq<char>)
    requires !all_char(n, '/')
    ensures sig_ns(n).len() > 0, !all_char(sig_ns(n), '/')
{ }

// ---- for clean segments nothing is dropped ----
#[verifier::external_body] /* proved in group inverse */
pub proof fn lemma_keep_ns_all(segs: Seq<Seq<char>>)
    requires slash_free_nonempty(segs)
    ensures keep_ns(segs) == segs
    decreases segs.len()
{ }
#[verifier::external_body] /* proved in group inverse */
pub proof fn lemma_sig_ns_normal(segs: Seq<Seq<char>>)
    requires segs.len() > 0, slash_free_nonempty(segs)
    ensures sig_ns(join_segs(segs)) == join_segs(segs)
{ }

// ---- unit theory.inverse6  <= (contracts):0 ----
// ---- part 6 (C09): phase_a / phase_b applied to canon_spec of ARBITRARY handed-out parts ----
// (derived from part 4 by replacing the two round-trip steps with their general versions; the raw splits are exposed as well,
// for the injectivity theorem of C19)
/// what build() guarantees of the parts whatever the builder was given: a name, the qualifier invariant, no empty value
pub open spec fn gen_parts(p: PurlParts) -> bool {
    p.name@.len() > 0 && wf_seq(p.qualifiers.qualifiers@)
    && (forall|i: int| 0 <= i < p.qualifiers.qualifiers@.len() ==> (#[trigger] p.qualifiers.qualifiers@[i]).1@.len() > 0)
}

#[verifier::external_body] /* proved in group inverse */
pub proof fn lemma_sig_empty()
    ensures sig_ns(Seq::<char>::empty()) == Seq::<char>::empty(), sig_sub(Seq::<char>::empty()) == Seq::<char>::empty()
{ }

pub open spec fn r1_of(p: PurlParts) -> Seq<char> {
    opt_part(p.namespace@.len() > 0, enc(SetId::Path, p.namespace@) + seq!['/']) + enc(SetId::Segment, p.name@)
}

/// the version is what follows the last '@' of the path part
#[verifier::external_body] /* proved in group inverse */
pub proof fn lemma_pb_version_gen(p: PurlParts)
    ensures
        rsplit_at(rest_of(p), '@').0 == r1_of(p),
        (match rsplit_at(rest_of(p), '@').1 { None => Some(Seq::<char>::empty()), Some(x) => dec(x) }) == Some(p.version@),
        rsplit_at(rest_of(p), '@').1 == (if p.version@.len() > 0 { Some(enc(SetId::Path, p.version@)) } else { None::<Seq<char>> }),
{ }

/// the name is what follows the last '/' of what precedes the version; the namespace is what precedes it
#[verifier::external_body] /* proved in group inverse */
pub proof fn lemma_pb_ns_name_gen(p: PurlParts)
    ensures ({
        let r1 = r1_of(p);
        let ns_raw = if last_index_of(r1, '/') < 0 { None::<Seq<char>> } else { Some(r1.subrange(0, last_index_of(r1, '/'))) };
        let name_raw = if last_index_of(r1, '/') < 0 { r1 } else { r1.subrange(last_index_of(r1, '/') + 1, r1.len() as int) };
        (match ns_raw { None => Some(Seq::<char>::empty()), Some(x) => ns_fold(split_spec(trim_spec(x, '/'), '/')) }) == Some(sig_ns(p.namespace@))
        && dec(name_raw) == Some(p.name@)
        && ns_raw == (if p.namespace@.len() > 0 { Some(enc(SetId::Path, p.namespace@)) } else { None::<Seq<char>> })
        && name_raw == enc(SetId::Segment, p.name@)
    })
{ }

/// C09: phase B on the path part of the canonical string of arbitrary parts
#[verifier::external_body] /* proved in group inverse */
pub proof fn lemma_phase_b_canon_gen(p: PurlParts)
    requires gen_parts(p)
    ensures phase_b(rest_of(p)) == Ok::<PhaseB, ParseError>(PhaseB { ns: sig_ns(p.namespace@), name: p.name@, version: p.version@ })
{ }

/// stage 2: the subpath is what follows the last '#'
#[verifier::external_body] /* proved in group inverse */
pub proof fn lemma_pa_subpath_gen(ty: Seq<char>, p: PurlParts)
    requires valid_type(ty), gen_parts(p)
    ensures
        rsplit_at(c_b(ty, p), '#').0 == c_l(ty, p),
        (match rsplit_at(c_b(ty, p), '#').1 { None => Some(Seq::<char>::empty()), Some(x) => sub_fold(split_spec(trim_spec(x, '/'), '/')) }) == Some(sig_sub(p.subpath@)),
        rsplit_at(c_b(ty, p), '#').1 == (if p.subpath@.len() > 0 { Some(enc(SetId::Fragment, p.subpath@)) } else { None::<Seq<char>> }),
{ }

/// stage 3: the qualifiers are what follows the last '?'
#[verifier::external_body] /* proved in group inverse */
pub proof fn lemma_pa_quals_gen(ty: Seq<char>, p: PurlParts)
    requires valid_type(ty), gen_parts(p)
    ensures
        rsplit_at(c_l(ty, p), '?').0 == c_l2(ty, p),
        (match rsplit_at(c_l(ty, p), '?').1 {
            None => Ok::<KV, DqErr>(Seq::<(Seq<char>, Seq<char>)>::empty()),
            Some(x) => dq_fold(split_spec(x, '&'), Seq::<(Seq<char>, Seq<char>)>::empty()),
        }) == Ok::<KV, DqErr>(kvs(p.qualifiers.qualifiers@)),
{ }

/// C01 / C09: phase A on the canonical string
#[verifier::external_body] /* proved in group inverse */
pub proof fn lemma_phase_a_canon_gen(ty: Seq<char>, p: PurlParts)
    requires valid_type(ty), gen_parts(p)
    ensures phase_a(canon_spec(ty, p)) == Ok::<PhaseA, ParseError>(PhaseA { ty, rest: rest_of(p), sub: sig_sub(p.subpath@), kv: kvs(p.qualifiers.qualifiers@) })
{ }

/// C01 / C09 / C19, the inverse direction: parsing the canonical string of normalised parts yields exactly those parts
#[verifier::external_body] /* proved in group inverse */
pub proof fn lemma_parse_canon_gen(ty: Seq<char>, p: PurlParts)
    requires valid_type(ty), gen_parts(p)
    ensures
        phase_a(canon_spec(ty, p)) == Ok::<PhaseA, ParseError>(PhaseA { ty, rest: rest_of(p), sub: sig_sub(p.subpath@), kv: kvs(p.qualifiers.qualifiers@) }),
        phase_b(rest_of(p)) == Ok::<PhaseB, ParseError>(PhaseB { ns: sig_ns(p.namespace@), name: p.name@, version: p.version@ }),
{ }

/// equal encodings come from equal texts (decoding inverts encoding)
#[verifier::external_body] /* proved in group inverse */
pub proof fn lemma_enc_injective(set: SetId, a: Seq<char>, b: Seq<char>)
    requires enc(set, a) == enc(set, b)
    ensures a == b
{ }

/// C19 ("equal exactly when their canonical strings are equal", the hard direction): two handed-out values -- ANY namespace,
/// version and subpath texts, a name, the qualifier invariant -- with the same canonical string have the same type text and
/// the same field texts
#[verifier::external_body] /* proved in group inverse */
pub proof fn theorem_c19_injective(ty1: Seq<char>, p1: PurlParts, ty2: Seq<char>, p2: PurlParts)
    requires valid_type(ty1), gen_parts(p1), valid_type(ty2), gen_parts(p2), canon_spec(ty1, p1) == canon_spec(ty2, p2)
    ensures ty1 == ty2, p1.namespace@ == p2.namespace@, p1.name@ == p2.name@, p1.version@ == p2.version@, p1.subpath@ == p2.subpath@,
        kvs(p1.qualifiers.qualifiers@) == kvs(p2.qualifiers.qualifiers@)
{ }

// ---- unit theory.ckfix  <= (contracts):0 ----
// ---- the checksum text is a fixpoint of parse + serialise (C01 / C10 / C12) ----
// A-validated per char (exhaustive over all scalar values): lower-casing never produces ',' from another character
#[verifier::external_body]
pub proof fn axiom_lower_no_comma(c: char)
    requires c != ','
    ensures !has_char(u_to_lower(c), ',')
{ }

#[verifier::external_body] /* proved in group ckfix */
pub proof fn lemma_lower_seq_no_comma(s: Seq<char>)
    requires !has_char(s, ',')
    ensures !has_char(lower_seq(s), ',')
    decreases s.len()
{ }

pub open spec fn lower_vals(es: VS) -> VS { es.map_values(|e: (Seq<char>, Seq<char>)| (e.0, lower_ascii_seq(e.1))) }
pub open spec fn pieces_of(es: VS) -> Seq<Seq<char>> { es.map_values(|e: (Seq<char>, Seq<char>)| entry_text(e.0, e.1)) }
/// the map a listing denotes
pub open spec fn map_of(es: VS) -> Map<Seq<char>, Seq<char>> decreases es.len() {
    if es.len() == 0 { Map::<Seq<char>, Seq<char>>::empty() } else { map_of(es.drop_last()).insert(es.last().0, es.last().1) }
}
pub open spec fn keys_distinct(es: VS) -> bool { forall|i: int, j: int| 0 <= i < j < es.len() ==> #[trigger] es[i].0 != #[trigger] es[j].0 }
pub open spec fn keys_fixed(es: VS) -> bool { forall|i: int| 0 <= i < es.len() ==> lower_seq(#[trigger] es[i].0) == es[i].0 && !has_char(es[i].0, ',') }

#[verifier::external_body] /* proved in group ckfix */
pub proof fn lemma_hex_lower(v: Seq<char>)
    requires hex_ok(v)
    ensures hex_ok(lower_ascii_seq(v)), lower_ascii_seq(lower_ascii_seq(v)) == lower_ascii_seq(v),
        !has_char(lower_ascii_seq(v), ':'), !has_char(lower_ascii_seq(v), ',')
{ }

#[verifier::external_body] /* proved in group ckfix */
pub proof fn lemma_map_of_keys(es: VS, k: Seq<char>)
    ensures map_of(es).contains_key(k) <==> exists|i: int| 0 <= i < es.len() && #[trigger] es[i].0 == k
    decreases es.len()
{ }

#[verifier::external_body] /* proved in group ckfix */
pub proof fn lemma_map_of_is_listing(es: VS)
    requires keys_distinct(es)
    ensures is_listing(es, map_of(es))
    decreases es.len()
{ }

/// splitting the text of a non-empty listing at ',' gives back the entry texts (no key, no hex value contains ',')
#[verifier::external_body] /* proved in group ckfix */
pub proof fn lemma_split_listing(es: VS)
    requires es.len() > 0, keys_fixed(es), all_hex_ok(es)
    ensures split_spec(listing_text(es), ',') == pieces_of(es)
    decreases es.len()
{ }

/// folding the entry texts of a listing with distinct lower-case keys gives the map of the listing with lower-cased hex
#[verifier::external_body] /* proved in group ckfix */
pub proof fn lemma_fold_listing(es: VS)
    requires keys_fixed(es), keys_distinct(es), all_hex_ok(es)
    ensures ck_fold(pieces_of(es)) == Some(map_of(lower_vals(es)))
    decreases es.len()
{ }

#[verifier::external_body] /* proved in group ckfix */
pub proof fn lemma_lower_vals_text(es: VS)
    requires all_hex_ok(es)
    ensures listing_text(lower_vals(es)) == listing_text(es), all_hex_ok(lower_vals(es))
    decreases es.len()
{ }

/// C12 / C01: for entries `es` in ascending key order with lower-case, comma-free keys and hex values, the text parses
/// back to the same keys with lower-cased hex, and that map's canonical text is the same text
#[verifier::external_body] /* proved in group ckfix */
pub proof fn theorem_checksum_text_fixpoint(es: VS, m: Map<Seq<char>, Seq<char>>)
    requires es.len() > 0, is_listing(es, m), sorted_by_key(es), keys_fixed(es), all_hex_ok(es)
    ensures
        canon_text(m) == listing_text(es),
        ck_parse(canon_text(m)) is Some,
        ck_text(ck_parse(canon_text(m))->Some_0) == Some(canon_text(m)),
{ }

// ---- every map ck_parse returns has a sorted listing with lower-case, comma-free keys ----
#[verifier::external_body] /* proved in group ckfix */
pub proof fn lemma_lt_trichotomy(a: Seq<char>, b: Seq<char>)
    ensures str_lt(a, b) || a == b || str_lt(b, a)
{ }

pub open spec fn ins_pos(es: VS, k: Seq<char>) -> int decreases es.len() {
    if es.len() == 0 { 0 } else { ins_pos(es.drop_last(), k) + if str_lt(es.last().0, k) { 1int } else { 0int } }
}

#[verifier::external_body] /* proved in group ckfix */
pub proof fn lemma_ins_pos(es: VS, k: Seq<char>)
    requires sorted_by_key(es), forall|i: int| 0 <= i < es.len() ==> (#[trigger] es[i]).0 != k
    ensures 0 <= ins_pos(es, k) <= es.len(),
        forall|j: int| 0 <= j < ins_pos(es, k) ==> str_lt(#[trigger] es[j].0, k),
        forall|j: int| ins_pos(es, k) <= j < es.len() ==> str_lt(k, #[trigger] es[j].0),
    decreases es.len()
{ }

#[verifier::external_body] /* proved in group ckfix */
pub proof fn lemma_sorted_insert(es: VS, m: Map<Seq<char>, Seq<char>>, k: Seq<char>, v: Seq<char>)
    requires is_listing(es, m), sorted_by_key(es), !m.contains_key(k)
    ensures is_listing(es.insert(ins_pos(es, k), (k, v)), m.insert(k, v)), sorted_by_key(es.insert(ins_pos(es, k), (k, v)))
{ }

#[verifier::external_body] /* proved in group ckfix */
pub proof fn lemma_ck_fold_sorted_listing(ps: Seq<Seq<char>>)
    requires ck_fold(ps) is Some, forall|i: int| 0 <= i < ps.len() ==> !has_char(#[trigger] ps[i], ',')
    ensures exists|es: VS| #![auto] is_listing(es, ck_fold(ps)->Some_0) && sorted_by_key(es) && keys_fixed(es) && es.len() == ps.len()
    decreases ps.len()
{ }

/// C12 / C01 / C10, as used by build(): the text build() stores for a checksum is a fixpoint of what build() does to it
#[verifier::external_body] /* proved in group ckfix */
pub proof fn theorem_checksum_rebuild(x: Seq<char>)
    requires ck_parse(x) is Some, ck_text(ck_parse(x)->Some_0) is Some
    ensures ({
        let t = ck_text(ck_parse(x)->Some_0)->Some_0;
        t.len() > 0 && ck_parse(t) is Some && ck_text(ck_parse(t)->Some_0) == Some(t)
    })
{ }

// ---- C04: the stored checksum text is free of ASCII upper-case letters ----
#[verifier::external_body] /* proved in group ckfix */
pub proof fn lemma_lower_seq_len(s: Seq<char>)
    ensures lower_seq(s).len() >= s.len()
    decreases s.len()
{ }

/// a text that lower-casing leaves alone contains no ASCII upper-case letter
#[verifier::external_body] /* proved in group ckfix */
pub proof fn lemma_lower_fixed_no_upper(k: Seq<char>)
    requires lower_seq(k) == k
    ensures forall|i: int| 0 <= i < k.len() ==> !ascii_upper_c(#[trigger] k[i])
    decreases k.len()
{ }

pub open spec fn no_ascii_upper(s: Seq<char>) -> bool { forall|i: int| 0 <= i < s.len() ==> !ascii_upper_c(#[trigger] s[i]) }

#[verifier::external_body] /* proved in group ckfix */
pub proof fn lemma_no_upper_concat(a: Seq<char>, b: Seq<char>)
    requires no_ascii_upper(a), no_ascii_upper(b)
    ensures no_ascii_upper(a + b)
{ }

#[verifier::external_body] /* proved in group ckfix */
pub proof fn lemma_listing_text_no_upper(es: VS)
    requires keys_fixed(es), all_hex_ok(es)
    ensures no_ascii_upper(listing_text(es))
    decreases es.len()
{ }

/// C04 (checksum clause): the text build() stores is the ','-joined listing `algorithm:hex` of entries in strictly ascending
/// algorithm order, each with an even number of (lower-case) hex digits, and contains no ASCII upper-case letter
#[verifier::external_body] /* proved in group ckfix */
pub proof fn theorem_checksum_text_shape(x: Seq<char>)
    requires ck_parse(x) is Some, ck_text(ck_parse(x)->Some_0) is Some
    ensures exists|es: VS| #![auto] es.len() > 0 && sorted_by_key(es) && all_hex_ok(es) && is_listing(es, ck_parse(x)->Some_0)
        && ck_text(ck_parse(x)->Some_0)->Some_0 == listing_text(es) && no_ascii_upper(listing_text(es))
{ }

// ---- unit theory.c01  <= (contracts):0 ----
// ---- C01 / C10 for the type-agnostic PURL, as a theorem over the specification functions ----
// from_str is proved to satisfy parse_post (group parse), Display::fmt to write canon_spec (group fmt), the three built-in
// string shapes to satisfy shape_rel (group lib_shape). What is proved here: every value parse_post allows for a string,
// printed by canon_spec, is accepted again by parse_post with the same type text and the same field texts, and prints the
// same. Excluded (left to the bounded suites): values carrying a `checksum` qualifier (the text fixpoint of
// ck_parse / ck_text is not proved) and the PackageType instance.

/// a type parameter that behaves like the built-in string shapes:
///  (H1) the conversion accepts every text and the value reports that text    [std: String::from_str, Cow::from, SmartString::from]
///  (H2) the hook validates and ASCII-lower-cases the type text and leaves the parts alone   [proved: group lib_shape, shape_rel]
pub open spec fn plain_shape<T: FromStr + PurlShape>() -> bool {
    (forall|s: Seq<char>, cr: Result<T, <T as FromStr>::Err>| #[trigger] T::from_str_rel(s, cr) ==> cr is Ok && cr->Ok_0.type_text() == s)
    && (forall|t0: T, p0: PurlParts, t1: T, p1: PurlParts, fr: Result<(), <T as PurlShape>::Error>| #[trigger] T::finish_rel(t0, p0, t1, p1, fr) ==>
            p1 == p0 && (valid_type(t0.type_text()) ==> fr is Ok && t1.type_text() == lower_ascii_seq(t0.type_text()))
            && (!valid_type(t0.type_text()) ==> fr is Err))
}

pub open spec fn same_texts(p: PurlParts, q: PurlParts) -> bool {
    p.namespace@ == q.namespace@ && p.name@ == q.name@ && p.version@ == q.version@ && p.subpath@ == q.subpath@
    && kvs(p.qualifiers.qualifiers@) == kvs(q.qualifiers.qualifiers@)
}

#[verifier::external_body] /* proved in group c01 */
pub proof fn lemma_quals_text_congr(v: Seq<(QualifierKey, SmallString)>, w: Seq<(QualifierKey, SmallString)>)
    requires kvs(v) == kvs(w)
    ensures quals_text(v) == quals_text(w)
    decreases v.len()
{ }

/// the canonical string depends on the texts only
#[verifier::external_body] /* proved in group c01 */
pub proof fn lemma_canon_congr(ty: Seq<char>, p: PurlParts, q: PurlParts)
    requires same_texts(p, q)
    ensures canon_spec(ty, p) == canon_spec(ty, q)
{ }

#[verifier::external_body] /* proved in group c01 */
pub proof fn lemma_valid_type_lower(t: Seq<char>)
    requires valid_type(t)
    ensures valid_type(lower_ascii_seq(t)), lower_ascii_seq(lower_ascii_seq(t)) == lower_ascii_seq(t)
{ }

#[verifier::external_body] /* proved in group c01 */
pub proof fn lemma_kvs_no_key(v: Seq<(QualifierKey, SmallString)>, w: Seq<(QualifierKey, SmallString)>, k: Seq<char>)
    requires kvs(v) == kvs(w), !has_key(v, k)
    ensures !has_key(w, k)
{ }

#[verifier::external_body] /* proved in group c01 */
pub proof fn lemma_kvs_values_nonempty(v: Seq<(QualifierKey, SmallString)>, w: Seq<(QualifierKey, SmallString)>)
    requires kvs(v) == kvs(w), forall|j: int| 0 <= j < v.len() ==> (#[trigger] v[j]).1@.len() > 0
    ensures forall|j: int| 0 <= j < w.len() ==> (#[trigger] w[j]).1@.len() > 0
{ }


/// the checksum text, if there is one, is a fixpoint of build()'s canonicalisation
pub open spec fn ck_stable(q: Seq<(QualifierKey, SmallString)>) -> bool {
    has_key(q, checksum_key()) ==> ({
        let t = q[pos_of(q, checksum_key())].1@;
        t.len() > 0 && ck_parse(t) is Some && ck_text(ck_parse(t)->Some_0) == Some(t)
    })
}
/// the qualifiers of a value handed out (C04): invariant, no empty value, canonical checksum
pub open spec fn normal_quals(q: Seq<(QualifierKey, SmallString)>) -> bool {
    wf_seq(q) && (forall|i: int| 0 <= i < q.len() ==> (#[trigger] q[i]).1@.len() > 0) && ck_stable(q)
}

/// a key that is present sits at its sorted position
#[verifier::external_body] /* proved in group c01 */
pub proof fn lemma_has_pair_pos_key(v: Seq<(QualifierKey, SmallString)>, k: Seq<char>)
    requires keys_sorted(v), has_key(v, k)
    ensures 0 <= pos_of(v, k) < v.len(), v[pos_of(v, k)].0.0@ == k
{ }

#[verifier::external_body] /* proved in group c01 */
pub proof fn lemma_normal_quals_congr(a: Seq<(QualifierKey, SmallString)>, b: Seq<(QualifierKey, SmallString)>)
    requires kvs(a) == kvs(b), wf_seq(b), normal_quals(a)
    ensures normal_quals(b)
{ }

/// what build() hands out when the hook succeeded (from build_post alone): the fields the hook left, normal qualifiers
#[verifier::external_body] /* proved in group c01 */
pub proof fn lemma_first_build<T: PurlShape>(t1: T, p1: PurlParts, fr: Result<(), T::Error>, g: GenericPurl<T>)
    requires fr is Ok, wf_seq(p1.qualifiers.qualifiers@), build_post::<T>(t1, p1, fr, Ok::<GenericPurl<T>, T::Error>(g)),
    ensures
        g.package_type == t1,
        g.parts.namespace == p1.namespace, g.parts.name == p1.name, g.parts.version == p1.version, g.parts.subpath == p1.subpath,
        g.parts.name@.len() > 0, normal_quals(g.parts.qualifiers.qualifiers@),
{ }

/// build() applied to parts whose qualifiers are already normal: accepted, nothing changes (texts)
#[verifier::external_body] /* proved in group c01 */
pub proof fn lemma_rebuild<T: PurlShape>(u1: T, q1: PurlParts, fr2: Result<(), T::Error>, r2: Result<GenericPurl<T>, T::Error>)
    requires fr2 is Ok, q1.name@.len() > 0, normal_quals(q1.qualifiers.qualifiers@), build_post::<T>(u1, q1, fr2, r2),
    ensures
        r2 is Ok, r2->Ok_0.package_type == u1,
        r2->Ok_0.parts.namespace == q1.namespace, r2->Ok_0.parts.name == q1.name, r2->Ok_0.parts.version == q1.version, r2->Ok_0.parts.subpath == q1.subpath,
        kvs(r2->Ok_0.parts.qualifiers.qualifiers@) == kvs(q1.qualifiers.qualifiers@),
        wf_seq(r2->Ok_0.parts.qualifiers.qualifiers@),
{ }

pub open spec fn seg_shape(ns: Seq<char>, sub: Seq<char>, ns_segs: Seq<Seq<char>>, sub_segs: Seq<Seq<char>>) -> bool {
    (if ns.len() == 0 { ns_segs.len() == 0 } else { ns_segs.len() > 0 && slash_free_nonempty(ns_segs) && ns == join_segs(ns_segs) })
    && (if sub.len() == 0 { sub_segs.len() == 0 } else { sub_segs.len() > 0 && clean_sub_segs(sub_segs) && sub == join_segs(sub_segs) })
}

/// the decoders' segment structure of a parsed value, in the form the inverse theorem wants
#[verifier::external_body] /* proved in group c01 */
pub proof fn lemma_parsed_segments(s: Seq<char>)
    requires phase_a(s) is Ok, phase_b(phase_a(s)->Ok_0.rest) is Ok
    ensures exists|ns_segs: Seq<Seq<char>>, sub_segs: Seq<Seq<char>>|
        #[trigger] seg_shape(phase_b(phase_a(s)->Ok_0.rest)->Ok_0.ns, phase_a(s)->Ok_0.sub, ns_segs, sub_segs)
{ }

/// C01 (type-agnostic instance): print -> parse is accepted, gives the same type text and the same field texts, and prints
/// the identical string again
#[verifier::external_body] /* proved in group c01 */
pub proof fn theorem_c01_plain<T: FromStr + PurlShape>(s: Seq<char>, g: GenericPurl<T>, r2: Result<GenericPurl<T>, <T as PurlShape>::Error>)
    where <T as PurlShape>::Error: From<<T as FromStr>::Err>
    requires
        plain_shape::<T>(),
        parse_post::<T>(s, Ok::<GenericPurl<T>, <T as PurlShape>::Error>(g)),
        parse_post::<T>(canon_spec(g.package_type.type_text(), g.parts), r2),
    ensures
        r2 is Ok,
        r2->Ok_0.package_type.type_text() == g.package_type.type_text(),
        same_texts(r2->Ok_0.parts, g.parts),
        canon_spec(r2->Ok_0.package_type.type_text(), r2->Ok_0.parts) == canon_spec(g.package_type.type_text(), g.parts),
{ }

/// what C04 says of every value handed out with a built-in string shape (each conjunct is a postcondition of build(),
/// of the shape hooks or of the decoders)
pub open spec fn handed_out_plain<T: PurlShape>(g: GenericPurl<T>) -> bool {
    valid_type(g.package_type.type_text()) && lower_ascii_seq(g.package_type.type_text()) == g.package_type.type_text()
    && g.parts.name@.len() > 0 && normal_quals(g.parts.qualifiers.qualifiers@)
}

/// C10 (built-in string shapes): into_builder().build() is the identity -- build() applied to the value's own type and
/// parts succeeds and returns the same type text, the same field texts and the same canonical string
#[verifier::external_body] /* proved in group c01 */
pub proof fn theorem_c10_plain<T: FromStr + PurlShape>(g: GenericPurl<T>, t1: T, p1: PurlParts, fr: Result<(), <T as PurlShape>::Error>,
                                                        r: Result<GenericPurl<T>, <T as PurlShape>::Error>)
    where <T as PurlShape>::Error: From<<T as FromStr>::Err>
    requires
        plain_shape::<T>(), handed_out_plain(g),
        // build() on GenericPurlBuilder { package_type: g.package_type, parts: g.parts }  (into_builder is proved to produce exactly that)
        T::finish_rel(g.package_type, g.parts, t1, p1, fr), build_post::<T>(t1, p1, fr, r),
    ensures
        r is Ok,
        r->Ok_0.package_type.type_text() == g.package_type.type_text(),
        same_texts(r->Ok_0.parts, g.parts),
        canon_spec(r->Ok_0.package_type.type_text(), r->Ok_0.parts) == canon_spec(g.package_type.type_text(), g.parts),
{ }

/// the value the parser hands out satisfies handed_out_plain (C04 for the string shapes, from parse_post alone)
#[verifier::external_body] /* proved in group c01 */
pub proof fn lemma_parsed_is_handed_out<T: FromStr + PurlShape>(s: Seq<char>, g: GenericPurl<T>)
    where <T as PurlShape>::Error: From<<T as FromStr>::Err>
    requires plain_shape::<T>(), parse_post::<T>(s, Ok::<GenericPurl<T>, <T as PurlShape>::Error>(g)),
    ensures handed_out_plain(g)
{ }

/// ... and so does every value build() returns for a built-in string shape (from the hook relation and build_post alone)
#[verifier::external_body] /* proved in group c01 */
pub proof fn lemma_built_is_handed_out_plain<T: FromStr + PurlShape>(t0: T, p0: PurlParts, t1: T, p1: PurlParts, fr: Result<(), <T as PurlShape>::Error>, g: GenericPurl<T>)
    where <T as PurlShape>::Error: From<<T as FromStr>::Err>
    requires plain_shape::<T>(), wf_seq(p0.qualifiers.qualifiers@), T::finish_rel(t0, p0, t1, p1, fr),
        build_post::<T>(t1, p1, fr, Ok::<GenericPurl<T>, <T as PurlShape>::Error>(g)),
    ensures handed_out_plain(g)
{ }

/// C04 (checksum clause) for every value build() hands out: the checksum text is the sorted, lower-case, even-hex listing
#[verifier::external_body] /* proved in group c01 */
pub proof fn theorem_c04_checksum<T: PurlShape>(t1: T, p1: PurlParts, fr: Result<(), T::Error>, g: GenericPurl<T>)
    requires fr is Ok, wf_seq(p1.qualifiers.qualifiers@), build_post::<T>(t1, p1, fr, Ok::<GenericPurl<T>, T::Error>(g)),
        has_key(g.parts.qualifiers.qualifiers@, checksum_key()),
    ensures exists|es: VS| #![auto] es.len() > 0 && sorted_by_key(es) && all_hex_ok(es)
        && g.parts.qualifiers.qualifiers@[pos_of(g.parts.qualifiers.qualifiers@, checksum_key())].1@ == listing_text(es)
        && no_ascii_upper(listing_text(es))
{ }

// ---- unit T.PackageType  <= purl/src/package_type.rs:143 ----
#[derive(Clone, Copy)]
pub enum PackageType {
    Cargo,
    Gem,
    Golang,
    Maven,
    Npm,
    NuGet,
    PyPI,
}
// ---- unit T.PackageError  <= purl/src/package_type.rs:212 ----
pub enum PackageError {
    MissingRequiredField(PurlField),
    Parse( ParseError),
    UnsupportedType,
}
// ---- unit T.UnsupportedPackageType  <= purl/src/package_type.rs:200 ----
pub struct UnsupportedPackageType;
// ---- unit theory.pkgtype  <= (contracts):0 ----
// ---- vocabulary for the package-type rules, written from C08's wording ----
pub open spec fn dash(c: char) -> bool { c == '-' || c == '_' || c == '.' }

/// "lower-cased with every maximal run of '-', '_' and '.' replaced by a single '-'"
pub open spec fn pypi_norm(s: Seq<char>) -> Seq<char> decreases s.len() {
    if s.len() == 0 { seq![] }
    else if dash(s.last()) {
        if s.len() >= 2 && dash(s[s.len() - 2]) { pypi_norm(s.drop_last()) } else { pypi_norm(s.drop_last()).push('-') }
    } else { pypi_norm(s.drop_last()) + u_to_lower(s.last()) }
}

pub proof fn lemma_pypi_no_dash(s: Seq<char>)
    requires forall|i: int| 0 <= i < s.len() ==> !dash(#[trigger] s[i])
    ensures pypi_norm(s) == lower_seq(s)
    decreases s.len()
{
    if s.len() > 0 { lemma_pypi_no_dash(s.drop_last()); }
}

pub open spec fn type_name(t: PackageType) -> Seq<char> {
    match t {
        PackageType::Cargo => seq!['c', 'a', 'r', 'g', 'o'],
        PackageType::Gem => seq!['g', 'e', 'm'],
        PackageType::Golang => seq!['g', 'o', 'l', 'a', 'n', 'g'],
        PackageType::Maven => seq!['m', 'a', 'v', 'e', 'n'],
        PackageType::Npm => seq!['n', 'p', 'm'],
        PackageType::NuGet => seq!['n', 'u', 'g', 'e', 't'],
        PackageType::PyPI => seq!['p', 'y', 'p', 'i'],
    }
}

/// What PackageType::finish may do (C08): the per-type name rule, the maven namespace rule, nothing else touched.
pub open spec fn pkg_finish_rel(t0: PackageType, p0: PurlParts, t1: PackageType, p1: PurlParts, r: Result<(), PackageError>) -> bool {
    t1 == t0
    && p1.namespace == p0.namespace && p1.version == p0.version && p1.qualifiers == p0.qualifiers && p1.subpath == p0.subpath
    && match t0 {
        PackageType::Maven =>
            if all_char(p0.namespace@, '/') { r == Err::<(), PackageError>(PackageError::MissingRequiredField(PurlField::Namespace)) }
            else { r is Ok && p1.name == p0.name },
        PackageType::NuGet => r is Ok && p1.name@ == lower_seq(p0.name@),
        PackageType::PyPI => r is Ok && p1.name@ == pypi_norm(p0.name@),
        _ => r is Ok && p1.name == p0.name,
    }
}

/// `Cow::from(&'static str)` (std: `Cow::Borrowed(s)`), for the stub Cow
pub fn x_cow_from_str<'a>(s: &'a str) -> (r: Cow<'a, str>)
    ensures r@ == s@
{ Cow::Borrowed(s) }

// R9: what thiserror's `#[from]` on `PackageError::Parse` generates (derive semantics, assumed)
impl vstd::std_specs::convert::FromSpecImpl<ParseError> for PackageError {
    open spec fn obeys_from_spec() -> bool { true }
    open spec fn from_spec(e: ParseError) -> Self { PackageError::Parse(e) }
}
impl From<ParseError> for PackageError {
    fn from(e: ParseError) -> (r: Self)
    { PackageError::Parse(e) }
}


// ---- unit spec.From.UnsupportedPackageType  <= (contracts):0 ----

// the specification side of `impl From<UnsupportedPackageType> for PackageError` (the real body below is checked against it)
impl vstd::std_specs::convert::FromSpecImpl<UnsupportedPackageType> for PackageError {
    open spec fn obeys_from_spec() -> bool { true }
    open spec fn from_spec(e: UnsupportedPackageType) -> Self { PackageError::UnsupportedType }
}

// ---- unit T.From.UnsupportedPackageType  <= purl/src/package_type.rs:237 ----
impl From<UnsupportedPackageType> for PackageError {
    fn from(_e: UnsupportedPackageType) -> Self {
        PackageError::UnsupportedType
    }
}
impl PurlShape for PackageType {
// ---- unit spec.PackageType  <= (contracts):0 ----
    type Error = PackageError;
    open spec fn type_text(&self) -> Seq<char> { type_name(*self) }
    open spec fn finish_rel(t0: Self, p0: PurlParts, t1: Self, p1: PurlParts, r: Result<(), PackageError>) -> bool {
        pkg_finish_rel(t0, p0, t1, p1, r)
    }
// ---- unit U-ptname.package_type  <= purl/src/package_type.rs:246 ----
#[verifier::external_body]
fn package_type(&self) -> (r: Cow<str>)

{ unimplemented!() }
// ---- unit U-ptfin.finish  <= purl/src/package_type.rs:250 ----
#[verifier::external_body]
fn finish(&mut self, parts: &mut PurlParts) -> (r: Result<(), Self::Error>)

{ unimplemented!() }
}
// ---- unit theory.pypi_idem  <= (contracts):0 ----
// ---- C10: the pypi rule is a projection (pypi_norm(pypi_norm(s)) == pypi_norm(s)) ----
// A-validated per char (exhaustive over all scalar values):
// (axiom_lower_nonempty: see base.rs)
#[verifier::external_body]
pub proof fn axiom_lower_no_dash(c: char)
    requires !dash(c)
    ensures forall|i: int| 0 <= i < u_to_lower(c).len() ==> !dash(#[trigger] u_to_lower(c)[i])
{ }

/// forward formulation of the rule: `d` = "the previous input character was one of - _ ."
pub open spec fn pn(d: bool, s: Seq<char>) -> Seq<char> decreases s.len() {
    if s.len() == 0 { Seq::<char>::empty() }
    else if dash(s[0]) { (if d { Seq::<char>::empty() } else { seq!['-'] }) + pn(true, s.subrange(1, s.len() as int)) }
    else { u_to_lower(s[0]) + pn(false, s.subrange(1, s.len() as int)) }
}
pub open spec fn no_dash(s: Seq<char>) -> bool { forall|i: int| 0 <= i < s.len() ==> !dash(#[trigger] s[i]) }
pub open spec fn end_state(d: bool, s: Seq<char>) -> bool { if s.len() == 0 { d } else { dash(s.last()) } }

#[verifier::external_body] /* proved in group c01 */
pub proof fn lemma_pn_snoc(d: bool, s: Seq<char>, c: char)
    ensures pn(d, s.push(c)) == pn(d, s) + (if dash(c) { if end_state(d, s) { Seq::<char>::empty() } else { seq!['-'] } } else { u_to_lower(c) })
    decreases s.len()
{ }

/// the statement-level definition (look-behind) and the forward one agree
#[verifier::external_body] /* proved in group c01 */
pub proof fn lemma_pypi_norm_is_pn(s: Seq<char>)
    ensures pypi_norm(s) == pn(false, s)
    decreases s.len()
{ }

#[verifier::external_body] /* proved in group c01 */
pub proof fn lemma_pn_block(d: bool, l: Seq<char>, y: Seq<char>)
    requires no_dash(l), l.len() > 0
    ensures pn(d, l + y) == lower_seq(l) + pn(false, y)
    decreases l.len()
{ }

#[verifier::external_body] /* proved in group c01 */
pub proof fn lemma_pn_idem(d: bool, s: Seq<char>)
    ensures pn(d, pn(d, s)) == pn(d, s)
    decreases s.len()
{ }

/// C10: normalising a pypi name twice is normalising it once
#[verifier::external_body] /* proved in group c01 */
pub proof fn lemma_pypi_norm_idem(s: Seq<char>)
    ensures pypi_norm(pypi_norm(s)) == pypi_norm(s)
{ }

/// C10 (type rules): applying PackageType's hook to its own output succeeds and changes nothing observable
#[verifier::external_body] /* proved in group c01 */
pub proof fn lemma_pkg_finish_idem(t0: PackageType, p0: PurlParts, t1: PackageType, p1: PurlParts, t2: PackageType, p2: PurlParts, r2: Result<(), PackageError>)
    requires pkg_finish_rel(t0, p0, t1, p1, Ok::<(), PackageError>(())), pkg_finish_rel(t1, p1, t2, p2, r2)
    ensures r2 is Ok, t2 == t1, p2.name@ == p1.name@, p2.namespace == p1.namespace, p2.version == p1.version,
        p2.qualifiers == p1.qualifiers, p2.subpath == p1.subpath
{ }

// ---- unit theory.c01_typed  <= (contracts):0 ----
// ---- C01 / C10 for the PURL with the built-in package-type enum (values without a checksum qualifier) ----
// R2: `impl FromStr for PackageType { fn from_str }` is the hoisted `package_type_from_str` proved in group pkgtype; its contract is
// restated here as the relation of the (stub) trait impl. `impl PurlShape for PackageType` is imported with the contracts proved there.
impl FromStr for PackageType {
    type Err = UnsupportedPackageType;
    open spec fn from_str_rel(s: Seq<char>, r: Result<PackageType, UnsupportedPackageType>) -> bool {
        (r is Ok ==> lower_ascii_seq(s) == type_name(r->Ok_0))
        && ((exists|t: PackageType| lower_ascii_seq(s) == type_name(t)) ==> r is Ok)
    }
    #[verifier::external_body]
    fn from_str(s: &str) -> (r: Result<PackageType, UnsupportedPackageType>) { unimplemented!() }
}

#[verifier::external_body] /* proved in group c01 */
pub proof fn lemma_type_name_facts(t: PackageType, u: PackageType)
    ensures
        valid_type(type_name(t)), lower_ascii_seq(type_name(t)) == type_name(t),
        type_name(t) == type_name(u) ==> t == u,
{ }

#[verifier::external_body] /* proved in group c01 */
pub proof fn lemma_pypi_norm_nonempty(s: Seq<char>)
    requires s.len() > 0
    ensures pypi_norm(s).len() > 0
    decreases s.len()
{ }

/// C01 (PackageType instance)
#[verifier::external_body] /* proved in group c01 */
pub proof fn theorem_c01_typed(s: Seq<char>, g: GenericPurl<PackageType>, r2: Result<GenericPurl<PackageType>, PackageError>)
    requires
        parse_post::<PackageType>(s, Ok::<GenericPurl<PackageType>, PackageError>(g)),
        parse_post::<PackageType>(canon_spec(g.package_type.type_text(), g.parts), r2),
    ensures
        r2 is Ok,
        r2->Ok_0.package_type == g.package_type,
        same_texts(r2->Ok_0.parts, g.parts),
        canon_spec(r2->Ok_0.package_type.type_text(), r2->Ok_0.parts) == canon_spec(g.package_type.type_text(), g.parts),
{ }

/// what C04 / C08 say of every typed value handed out: the name already obeys the type's rule, maven has a namespace
pub open spec fn handed_out_typed(g: GenericPurl<PackageType>) -> bool {
    g.parts.name@.len() > 0 && normal_quals(g.parts.qualifiers.qualifiers@)
    && match g.package_type {
        PackageType::NuGet => lower_seq(g.parts.name@) == g.parts.name@,
        PackageType::PyPI => pypi_norm(g.parts.name@) == g.parts.name@,
        PackageType::Maven => !all_char(g.parts.namespace@, '/'),
        _ => true,
    }
}

/// every value build() returns after PackageType's hook is handed_out_typed (from build_post and pkg_finish_rel alone)
#[verifier::external_body] /* proved in group c01 */
pub proof fn lemma_built_is_handed_out_typed(t0: PackageType, p0: PurlParts, t1: PackageType, p1: PurlParts, fr: Result<(), PackageError>, g: GenericPurl<PackageType>)
    requires wf_seq(p0.qualifiers.qualifiers@), pkg_finish_rel(t0, p0, t1, p1, fr),
        build_post::<PackageType>(t1, p1, fr, Ok::<GenericPurl<PackageType>, PackageError>(g)),
    ensures handed_out_typed(g)
{ }

/// C10 (PackageType): build() applied to the value's own type and parts succeeds and returns the same type, the same texts
/// and the same canonical string
#[verifier::external_body] /* proved in group c01 */
pub proof fn theorem_c10_typed(g: GenericPurl<PackageType>, t1: PackageType, p1: PurlParts, fr: Result<(), PackageError>, r: Result<GenericPurl<PackageType>, PackageError>)
    requires
        handed_out_typed(g),
        PackageType::finish_rel(g.package_type, g.parts, t1, p1, fr), build_post::<PackageType>(t1, p1, fr, r),
    ensures
        r is Ok, r->Ok_0.package_type == g.package_type, same_texts(r->Ok_0.parts, g.parts),
        canon_spec(r->Ok_0.package_type.type_text(), r->Ok_0.parts) == canon_spec(g.package_type.type_text(), g.parts),
{ }

// ---- unit theory.c09  <= (contracts):0 ----
// ---- C09 ("the string form of that PURL is accepted by the parser and yields those same field values") as a theorem ----
// For ANY builder state whose build() succeeded with value g: parse_post applied to canon_spec(g) allows only Ok values, with the
// same type text, name, version and qualifier pairs, the namespace after dropping empty segments and the subpath after dropping
// "", "." and ".." segments. (That build() succeeds exactly when ..., and that the accessors return what was last set, are the
// contracts of build() and of the setters themselves: build_post, the setter frames.)
#[verifier::external_body] /* proved in group c01 */
pub proof fn theorem_c09_plain<T: FromStr + PurlShape>(t0: T, p0: PurlParts, t1: T, p1: PurlParts, fr: Result<(), <T as PurlShape>::Error>,
                                                        g: GenericPurl<T>, r2: Result<GenericPurl<T>, <T as PurlShape>::Error>)
    where <T as PurlShape>::Error: From<<T as FromStr>::Err>
    requires
        plain_shape::<T>(),
        wf_seq(p0.qualifiers.qualifiers@),                      // the builder's qualifier list: invariant kept by every verified mutator
        T::finish_rel(t0, p0, t1, p1, fr), build_post::<T>(t1, p1, fr, Ok::<GenericPurl<T>, <T as PurlShape>::Error>(g)),
        parse_post::<T>(canon_spec(g.package_type.type_text(), g.parts), r2),
    ensures
        r2 is Ok,
        r2->Ok_0.package_type.type_text() == g.package_type.type_text(),
        r2->Ok_0.parts.name@ == g.parts.name@, r2->Ok_0.parts.version@ == g.parts.version@,
        r2->Ok_0.parts.namespace@ == sig_ns(g.parts.namespace@), r2->Ok_0.parts.subpath@ == sig_sub(g.parts.subpath@),
        kvs(r2->Ok_0.parts.qualifiers.qualifiers@) == kvs(g.parts.qualifiers.qualifiers@),
{ }

/// the same for the PackageType enum
#[verifier::external_body] /* proved in group c01 */
pub proof fn theorem_c09_typed(t0: PackageType, p0: PurlParts, t1: PackageType, p1: PurlParts, fr: Result<(), PackageError>,
                               g: GenericPurl<PackageType>, r2: Result<GenericPurl<PackageType>, PackageError>)
    requires
        wf_seq(p0.qualifiers.qualifiers@),
        PackageType::finish_rel(t0, p0, t1, p1, fr), build_post::<PackageType>(t1, p1, fr, Ok::<GenericPurl<PackageType>, PackageError>(g)),
        parse_post::<PackageType>(canon_spec(g.package_type.type_text(), g.parts), r2),
    ensures
        r2 is Ok,
        r2->Ok_0.package_type == g.package_type,
        r2->Ok_0.parts.name@ == g.parts.name@, r2->Ok_0.parts.version@ == g.parts.version@,
        r2->Ok_0.parts.namespace@ == sig_ns(g.parts.namespace@), r2->Ok_0.parts.subpath@ == sig_sub(g.parts.subpath@),
        kvs(r2->Ok_0.parts.qualifiers.qualifiers@) == kvs(g.parts.qualifiers.qualifiers@),
{ }

// ---- unit theory.c08  <= (contracts):0 ----
// ---- C08 as theorems relating the typed and the type-agnostic parser on the SAME string ----
#[verifier::external_body] /* proved in group c01 */
pub proof fn lemma_nonempty_part_congr(a: Seq<(QualifierKey, SmallString)>, b: Seq<(QualifierKey, SmallString)>)
    requires kvs(a) == kvs(b)
    ensures kvs(nonempty_part(a)) == kvs(nonempty_part(b))
    decreases a.len()
{ }

/// two builds of parts with the same name text and the same qualifier texts (whatever the type parameters): if the first is
/// accepted so is the second, and the qualifier texts of the results agree
#[verifier::external_body] /* proved in group c01 */
pub proof fn lemma_build_agree<T1: PurlShape, T2: PurlShape>(t1: T1, p1: PurlParts, f1: Result<(), T1::Error>, g1: GenericPurl<T1>,
                                                              t2: T2, p2: PurlParts, f2: Result<(), T2::Error>, r2: Result<GenericPurl<T2>, T2::Error>)
    requires
        f1 is Ok, f2 is Ok, wf_seq(p1.qualifiers.qualifiers@), wf_seq(p2.qualifiers.qualifiers@),
        kvs(p1.qualifiers.qualifiers@) == kvs(p2.qualifiers.qualifiers@), p2.name@.len() > 0,
        build_post::<T1>(t1, p1, f1, Ok::<GenericPurl<T1>, T1::Error>(g1)), build_post::<T2>(t2, p2, f2, r2),
    ensures
        r2 is Ok, kvs(r2->Ok_0.parts.qualifiers.qualifiers@) == kvs(g1.parts.qualifiers.qualifiers@),
        r2->Ok_0.package_type == t2, r2->Ok_0.parts.namespace == p2.namespace, r2->Ok_0.parts.name == p2.name,
        r2->Ok_0.parts.version == p2.version, r2->Ok_0.parts.subpath == p2.subpath,
{ }

/// C08: on the same string the typed PURL and a type-agnostic PURL agree on namespace, version, qualifiers and subpath; the
/// typed name is the type's rule applied to the type-agnostic name; whenever the typed PURL accepts, so does the type-agnostic one
#[verifier::external_body] /* proved in group c01 */
pub proof fn theorem_c08_agree<T: FromStr + PurlShape>(s: Seq<char>, gt: GenericPurl<PackageType>, r: Result<GenericPurl<T>, <T as PurlShape>::Error>)
    where <T as PurlShape>::Error: From<<T as FromStr>::Err>
    requires plain_shape::<T>(), parse_post::<PackageType>(s, Ok::<GenericPurl<PackageType>, PackageError>(gt)), parse_post::<T>(s, r),
    ensures
        r is Ok,
        r->Ok_0.package_type.type_text() == type_name(gt.package_type),
        gt.parts.namespace@ == r->Ok_0.parts.namespace@, gt.parts.version@ == r->Ok_0.parts.version@, gt.parts.subpath@ == r->Ok_0.parts.subpath@,
        kvs(gt.parts.qualifiers.qualifiers@) == kvs(r->Ok_0.parts.qualifiers.qualifiers@),
        match gt.package_type {
            PackageType::NuGet => gt.parts.name@ == lower_seq(r->Ok_0.parts.name@),
            PackageType::PyPI => gt.parts.name@ == pypi_norm(r->Ok_0.parts.name@),
            _ => gt.parts.name@ == r->Ok_0.parts.name@,
        },
        gt.package_type == PackageType::Maven ==> !all_char(gt.parts.namespace@, '/'),
{ }

/// C08: a well-formed type other than the seven known ones is refused by the typed PURL with UnsupportedType
#[verifier::external_body] /* proved in group c01 */
pub proof fn theorem_c08_unknown(s: Seq<char>, rt: Result<GenericPurl<PackageType>, PackageError>)
    requires phase_a(s) is Ok, forall|t: PackageType| lower_ascii_seq(phase_a(s)->Ok_0.ty) != #[trigger] type_name(t),
        parse_post::<PackageType>(s, rt),
    ensures rt == Err::<GenericPurl<PackageType>, PackageError>(PackageError::UnsupportedType)
{ }

// ---- unit theory.serde_post  <= (contracts):0 ----
// ---- R9 (continued): the error side of the serde stubs and the deserialising postcondition (shared by group `serde`, where the
// three impl blocks are verified against it, and group `c01`, where the round-trip theorems are stated over it) ----
pub trait Error: Sized {
    spec fn custom_spec<M>(msg: M) -> Self;
    fn custom<M>(msg: M) -> (r: Self)
        ensures r == Self::custom_spec(msg);
}

/// C16, deserialising side: a string value is accepted exactly when the parser accepts it, with the parser's value;
/// the parser's error is handed to the format unchanged; anything that is not a string is refused
pub open spec fn de_post<T, E: Error>(v: Seq<char>, r: Result<GenericPurl<T>, E>) -> bool
    where T: FromStr + PurlShape, <T as PurlShape>::Error: From<<T as FromStr>::Err>
{
    exists|pr: Result<GenericPurl<T>, <T as PurlShape>::Error>| #[trigger] parse_post::<T>(v, pr) && match pr {
        Ok(p) => r == Ok::<GenericPurl<T>, E>(p),
        Err(e) => r == Err::<GenericPurl<T>, E>(E::custom_spec(e)),
    }
}

// ---- unit theory.c16  <= (contracts):0 ----
// ---- C16: the serde form is the string form -- round trip as a theorem over the contracts of the three impl blocks ----
// `serialize` hands the format exactly `canon_spec(type, parts)` as one string value (contract `ser_text`, group `serde`);
// `deserialize` answers a string value `v` with `de_post(v, r)` (group `serde`). What the FORMAT does with that one string value
// (quoting, escaping, reading it back as the same string) is the data format's business: dependency, exercised by B with serde_json.

/// a value the parser returned, serialised, the string handed back unchanged to `deserialize`: accepted, same type, same field
/// texts, same canonical string
#[verifier::external_body] /* proved in group c01 */
pub proof fn theorem_c16_plain<T: FromStr + PurlShape, E: Error>(s: Seq<char>, g: GenericPurl<T>, r: Result<GenericPurl<T>, E>)
    where <T as PurlShape>::Error: From<<T as FromStr>::Err>
    requires
        plain_shape::<T>(),
        parse_post::<T>(s, Ok::<GenericPurl<T>, <T as PurlShape>::Error>(g)),
        de_post::<T, E>(canon_spec(g.package_type.type_text(), g.parts), r),
    ensures
        r is Ok,
        r->Ok_0.package_type.type_text() == g.package_type.type_text(),
        same_texts(r->Ok_0.parts, g.parts),
        canon_spec(r->Ok_0.package_type.type_text(), r->Ok_0.parts) == canon_spec(g.package_type.type_text(), g.parts),
{ }

#[verifier::external_body] /* proved in group c01 */
pub proof fn theorem_c16_typed<E: Error>(s: Seq<char>, g: GenericPurl<PackageType>, r: Result<GenericPurl<PackageType>, E>)
    requires
        parse_post::<PackageType>(s, Ok::<GenericPurl<PackageType>, PackageError>(g)),
        de_post::<PackageType, E>(canon_spec(g.package_type.type_text(), g.parts), r),
    ensures
        r is Ok,
        r->Ok_0.package_type == g.package_type,
        same_texts(r->Ok_0.parts, g.parts),
        canon_spec(r->Ok_0.package_type.type_text(), r->Ok_0.parts) == canon_spec(g.package_type.type_text(), g.parts),
{ }

/// a value the builder returned: accepted, and equal up to the insignificant segments the builder does not remove itself (C09)
#[verifier::external_body] /* proved in group c01 */
pub proof fn theorem_c16_built_plain<T: FromStr + PurlShape, E: Error>(t0: T, p0: PurlParts, t1: T, p1: PurlParts, fr: Result<(), <T as PurlShape>::Error>,
                                                                        g: GenericPurl<T>, r: Result<GenericPurl<T>, E>)
    where <T as PurlShape>::Error: From<<T as FromStr>::Err>
    requires
        plain_shape::<T>(),
        wf_seq(p0.qualifiers.qualifiers@),
        T::finish_rel(t0, p0, t1, p1, fr), build_post::<T>(t1, p1, fr, Ok::<GenericPurl<T>, <T as PurlShape>::Error>(g)),
        de_post::<T, E>(canon_spec(g.package_type.type_text(), g.parts), r),
    ensures
        r is Ok,
        r->Ok_0.package_type.type_text() == g.package_type.type_text(),
        r->Ok_0.parts.name@ == g.parts.name@, r->Ok_0.parts.version@ == g.parts.version@,
        r->Ok_0.parts.namespace@ == sig_ns(g.parts.namespace@), r->Ok_0.parts.subpath@ == sig_sub(g.parts.subpath@),
        kvs(r->Ok_0.parts.qualifiers.qualifiers@) == kvs(g.parts.qualifiers.qualifiers@),
{ }

#[verifier::external_body] /* proved in group c01 */
pub proof fn theorem_c16_built_typed<E: Error>(t0: PackageType, p0: PurlParts, t1: PackageType, p1: PurlParts, fr: Result<(), PackageError>,
                                               g: GenericPurl<PackageType>, r: Result<GenericPurl<PackageType>, E>)
    requires
        wf_seq(p0.qualifiers.qualifiers@),
        PackageType::finish_rel(t0, p0, t1, p1, fr), build_post::<PackageType>(t1, p1, fr, Ok::<GenericPurl<PackageType>, PackageError>(g)),
        de_post::<PackageType, E>(canon_spec(g.package_type.type_text(), g.parts), r),
    ensures
        r is Ok,
        r->Ok_0.package_type == g.package_type,
        r->Ok_0.parts.name@ == g.parts.name@, r->Ok_0.parts.version@ == g.parts.version@,
        r->Ok_0.parts.namespace@ == sig_ns(g.parts.namespace@), r->Ok_0.parts.subpath@ == sig_sub(g.parts.subpath@),
        kvs(r->Ok_0.parts.qualifiers.qualifiers@) == kvs(g.parts.qualifiers.qualifiers@),
{ }

/// the refusing side: a string the parser refuses is refused by `deserialize`, with the parser's error handed to the format
#[verifier::external_body] /* proved in group c01 */
pub proof fn theorem_c16_refused<T: FromStr + PurlShape, E: Error>(v: Seq<char>, pr: Result<GenericPurl<T>, <T as PurlShape>::Error>, r: Result<GenericPurl<T>, E>)
    where <T as PurlShape>::Error: From<<T as FromStr>::Err>
    requires
        de_post::<T, E>(v, r),
        r is Err,
    ensures
        exists|pr: Result<GenericPurl<T>, <T as PurlShape>::Error>| #[trigger] parse_post::<T>(v, pr) && pr is Err && r == Err::<GenericPurl<T>, E>(E::custom_spec(pr->Err_0)),
{ }

// ---- unit theory.qualuniq  <= (contracts):0 ----
// ---- C11, last sentence: "Two collections with the same content are equal ... regardless of insertion order and key case" ----
// The representation is canonical: the invariant (lower-case keys, strictly ascending) leaves exactly one sequence per content.
pub open spec fn same_content(a: Seq<(QualifierKey, SmallString)>, b: Seq<(QualifierKey, SmallString)>) -> bool {
    forall|k: Seq<char>, v: Seq<char>| has_pair(a, k, v) <==> has_pair(b, k, v)
}

#[verifier::external_body] /* proved in group qual */
pub proof fn lemma_wf_content_unique(a: Seq<(QualifierKey, SmallString)>, b: Seq<(QualifierKey, SmallString)>)
    requires keys_sorted(a), keys_sorted(b), same_content(a, b)
    ensures a.len() == b.len(), forall|i: int| 0 <= i < a.len() ==> (#[trigger] a[i]).0.0@ == b[i].0.0@ && a[i].1@ == b[i].1@
    decreases a.len() + b.len()
{ }

// ---- unit theory.c02a  <= (contracts):0 ----
// ---- C02, part 1: the designated separators -- the two parser phases on a string assembled from raw component texts ----
// The statement's spelling freedoms concern (i) what may stand BETWEEN the separators (part 2: pieces, escapes, order) and
// (ii) which occurrence of '#', '?', '@', '/' IS the separator ("an unescaped '@', '?' or '#' to the left of the occurrence that
// right-to-left splitting designates"). This part is (ii): for ANY raw texts obeying the stated discipline, phase_a / phase_b
// hand each text, unchanged, to the decoder of its component.
pub open spec fn slashes(n: nat) -> Seq<char> { Seq::new(n, |i: int| '/') }

/// the raw texts of one spelling: extra slashes after `pkg:`, type as written, text before the last '/' of the path (None: the path
/// has no '/'), name, text after the last '@', text after the last '?', text after the last '#'
pub struct Raw { pub lead: nat, pub ty: Seq<char>, pub ns: Option<Seq<char>>, pub name: Seq<char>, pub ver: Option<Seq<char>>, pub q: Option<Seq<char>>, pub sub: Option<Seq<char>> }

pub open spec fn opt_pre(c: char, x: Option<Seq<char>>) -> Seq<char> { match x { None => Seq::<char>::empty(), Some(t) => seq![c] + t } }
pub open spec fn r1_raw(w: Raw) -> Seq<char> { (match w.ns { None => Seq::<char>::empty(), Some(x) => x + seq!['/'] }) + w.name }
pub open spec fn path_raw(w: Raw) -> Seq<char> { r1_raw(w) + opt_pre('@', w.ver) }
pub open spec fn l2_raw(w: Raw) -> Seq<char> { w.ty + seq!['/'] + path_raw(w) }
pub open spec fn l_raw(w: Raw) -> Seq<char> { l2_raw(w) + opt_pre('?', w.q) }
pub open spec fn b_raw(w: Raw) -> Seq<char> { l_raw(w) + opt_pre('#', w.sub) }
pub open spec fn text_raw(w: Raw) -> Seq<char> { "pkg:"@ + slashes(w.lead) + b_raw(w) }

/// the discipline of the statement: the type is a type; the name holds no raw '/'; the LAST '@' / '?' / '#' of the respective
/// stretch is the separator (so the text to its right holds none, and when a component is absent nothing to the left holds one)
pub open spec fn raw_ok(w: Raw) -> bool {
    valid_type(w.ty)
    && !has_char(w.name, '/')
    && (match w.ver { Some(v) => !has_char(v, '@'), None => !has_char(r1_raw(w), '@') })
    && (match w.q { Some(q) => !has_char(q, '?'), None => !has_char(path_raw(w), '?') })
    && (match w.sub { Some(s) => !has_char(s, '#'), None => !has_char(l_raw(w), '#') })
}

/// what phase_a must return: each raw text handed to its decoder
pub open spec fn phase_a_raw(w: Raw) -> Result<PhaseA, ParseError> {
    let sub = match w.sub { None => Some(Seq::<char>::empty()), Some(x) => sub_fold(split_spec(trim_spec(x, '/'), '/')) };
    if sub is None { Err(ParseError::InvalidEscape) } else {
        let kv = match w.q { None => Ok::<KV, DqErr>(Seq::<(Seq<char>, Seq<char>)>::empty()), Some(x) => dq_fold(split_spec(x, '&'), Seq::<(Seq<char>, Seq<char>)>::empty()) };
        match kv {
            Err(d) => Err(dq_parse_err(d)),
            Ok(kvv) => Ok(PhaseA { ty: w.ty, rest: path_raw(w), sub: sub->Some_0, kv: kvv }),
        }
    }
}
pub open spec fn phase_b_raw(w: Raw) -> Result<PhaseB, ParseError> {
    let version = match w.ver { None => Some(Seq::<char>::empty()), Some(x) => dec(x) };
    if version is None { Err(ParseError::InvalidEscape) } else {
        let ns = match w.ns { None => Some(Seq::<char>::empty()), Some(x) => ns_fold(split_spec(trim_spec(x, '/'), '/')) };
        if ns is None { Err(ParseError::InvalidEscape) }
        else if dec(w.name) is None { Err(ParseError::InvalidEscape) }
        else { Ok(PhaseB { ns: ns->Some_0, name: dec(w.name)->Some_0, version: version->Some_0 }) }
    }
}

#[verifier::external_body] /* proved in group c02 */
pub proof fn lemma_trim_slashes(n: nat, b: Seq<char>)
    requires b.len() > 0, b[0] != '/'
    ensures trim_start_spec(slashes(n) + b, '/') == b
    decreases n
{ }

/// rsplit at the last `c`: the right text holds none
#[verifier::external_body] /* proved in group c02 */
pub proof fn lemma_rsplit_some(l: Seq<char>, r: Seq<char>, c: char)
    requires !has_char(r, c)
    ensures rsplit_at(l + seq![c] + r, c) == (l, Some(r))
{ }
#[verifier::external_body] /* proved in group c02 */
pub proof fn lemma_rsplit_none(l: Seq<char>, c: char)
    requires !has_char(l, c)
    ensures rsplit_at(l, c) == (l, None::<Seq<char>>)
{ }

#[verifier::external_body] /* proved in group c02 */
pub proof fn theorem_raw_phase_a(w: Raw)
    requires raw_ok(w)
    ensures phase_a(text_raw(w)) == phase_a_raw(w)
{ }

#[verifier::external_body] /* proved in group c02 */
pub proof fn theorem_raw_phase_b(w: Raw)
    requires raw_ok(w)
    ensures phase_b(path_raw(w)) == phase_b_raw(w)
{ }

// ---- unit theory.c02b  <= (contracts):0 ----
// ---- C02, part 2: what may stand between the separators ----
// Namespace and subpath texts are '/'-joins of pieces: an empty piece is an extra '/', a raw "." / ".." piece of the subpath is
// skipped, every other piece is ANY text that decodes (raw characters, raw UTF-8, escapes in either hex case -- `dec` is the
// percent-decoder) to a segment without '/'. The qualifier text is the '&'-join of `key=value` items in ANY order, keys in any
// letter case, values any text that decodes; an item whose value decodes to nothing is skipped.

pub open spec fn ns_pieces_ok(ps: Seq<Seq<char>>) -> bool {
    slash_free(ps) && forall|i: int| 0 <= i < ps.len() ==> (!ns_skipped(#[trigger] ps[i]) ==> !ns_bad(ps[i]))
}
pub open spec fn sub_pieces_ok(ps: Seq<Seq<char>>) -> bool {
    slash_free(ps) && forall|i: int| 0 <= i < ps.len() ==> (!sub_skipped(#[trigger] ps[i]) ==> !sub_bad(ps[i]))
}

#[verifier::external_body] /* proved in group c02 */
pub proof fn lemma_ns_fold_ok(ps: Seq<Seq<char>>)
    requires forall|i: int| 0 <= i < ps.len() ==> (!ns_skipped(#[trigger] ps[i]) ==> !ns_bad(ps[i]))
    ensures ns_fold(ps) is Some
    decreases ps.len()
{ }
#[verifier::external_body] /* proved in group c02 */
pub proof fn lemma_sub_fold_ok(ps: Seq<Seq<char>>)
    requires forall|i: int| 0 <= i < ps.len() ==> (!sub_skipped(#[trigger] ps[i]) ==> !sub_bad(ps[i]))
    ensures sub_fold(ps) is Some
    decreases ps.len()
{ }

/// extra '/' around namespace segments, any spelling of each segment: the decoder returns the '/'-join of the decoded segments
#[verifier::external_body] /* proved in group c02 */
pub proof fn lemma_ns_spelled(ps: Seq<Seq<char>>)
    requires ps.len() > 0, ns_pieces_ok(ps)
    ensures
        ns_fold(split_spec(trim_spec(join_with(ps, '/'), '/'), '/')) == Some(join_segs(ns_segs(ps))),
        forall|i: int| 0 <= i < ns_segs(ps).len() ==> clean_ns_seg(#[trigger] ns_segs(ps)[i]),
{ }
/// the same for the subpath, raw "." and ".." pieces skipped as well
#[verifier::external_body] /* proved in group c02 */
pub proof fn lemma_sub_spelled(ps: Seq<Seq<char>>)
    requires ps.len() > 0, sub_pieces_ok(ps)
    ensures
        sub_fold(split_spec(trim_spec(join_with(ps, '/'), '/'), '/')) == Some(join_segs(sub_segs(ps))),
        forall|i: int| 0 <= i < sub_segs(ps).len() ==> clean_sub_seg(#[trigger] sub_segs(ps)[i]),
{ }

// ---- qualifiers: any order, any key case, empty-valued items interleaved ----
pub open spec fn kv_sorted(v: KV) -> bool { forall|i: int, j: int| 0 <= i < j < v.len() ==> str_lt((#[trigger] v[i]).0, (#[trigger] v[j]).0) }
pub open spec fn kv_has_pair(v: KV, k: Seq<char>, val: Seq<char>) -> bool { exists|i: int| 0 <= i < v.len() && #[trigger] v[i] == (k, val) }

/// in a strictly ascending list the insertion position splits it into smaller keys and not-smaller keys
#[verifier::external_body] /* proved in group c02 */
pub proof fn lemma_kv_pos_partition(acc: KV, k: Seq<char>)
    requires kv_sorted(acc)
    ensures
        0 <= kv_pos_of(acc, k) <= acc.len(),
        forall|j: int| 0 <= j < kv_pos_of(acc, k) ==> str_lt((#[trigger] acc[j]).0, k),
        forall|j: int| kv_pos_of(acc, k) <= j < acc.len() ==> !str_lt((#[trigger] acc[j]).0, k),
    decreases acc.len()
{ }

/// the order is total: a key that is neither smaller nor equal is larger
#[verifier::external_body] /* proved in group c02 */
pub proof fn lemma_lt_total(a: Seq<char>, b: Seq<char>)
    requires !str_lt(a, b), a != b
    ensures str_lt(b, a)
{ }

/// sorted insertion of a new key: still strictly ascending, content = old content plus the pair
#[verifier::external_body] /* proved in group c02 */
pub proof fn lemma_kv_insert(acc: KV, k: Seq<char>, v: Seq<char>)
    requires kv_sorted(acc), !kv_has_key(acc, k)
    ensures ({
        let r = acc.insert(kv_pos_of(acc, k), (k, v));
        kv_sorted(r)
        && (forall|kk: Seq<char>, vv: Seq<char>| kv_has_pair(r, kk, vv) <==> (kv_has_pair(acc, kk, vv) || (kk == k && vv == v)))
        && (forall|kk: Seq<char>| kv_has_key(r, kk) <==> (kv_has_key(acc, kk) || kk == k))
    })
{ }

/// one written item `key=value`
pub open spec fn item_text(it: (Seq<char>, Seq<char>)) -> Seq<char> { it.0 + seq!['='] + it.1 }
pub open spec fn item_texts(items: Seq<(Seq<char>, Seq<char>)>) -> Seq<Seq<char>> { items.map_values(|it: (Seq<char>, Seq<char>)| item_text(it)) }

/// the written items: keys legal in any letter case and pairwise different ignoring case, values any text that decodes and
/// holds no raw '&'
pub open spec fn items_ok(items: Seq<(Seq<char>, Seq<char>)>) -> bool {
    (forall|j: int| 0 <= j < items.len() ==> valid_key((#[trigger] items[j]).0) && !has_char(items[j].1, '&') && dec(items[j].1) is Some)
    && (forall|i: int, j: int| 0 <= i < j < items.len() ==> lower_ascii_seq((#[trigger] items[i]).0) != lower_ascii_seq((#[trigger] items[j]).0))
}
/// the qualifier (k, v) of the component tuple is written by one of the items: key up to letter case, value decoded, not empty
pub open spec fn written_pair(items: Seq<(Seq<char>, Seq<char>)>, k: Seq<char>, v: Seq<char>) -> bool {
    exists|j: int| 0 <= j < items.len() && lower_ascii_seq((#[trigger] items[j]).0) == k && dec(items[j].1) == Some(v) && v.len() > 0
}
pub open spec fn written_key(items: Seq<(Seq<char>, Seq<char>)>, k: Seq<char>) -> bool {
    exists|j: int| 0 <= j < items.len() && lower_ascii_seq((#[trigger] items[j]).0) == k
}

#[verifier::external_body] /* proved in group c02 */
pub proof fn lemma_valid_key_chars(k: Seq<char>)
    requires valid_key(k)
    ensures !has_char(k, '='), !has_char(k, '&'), !has_char(k, '?'), !has_char(k, '#'),
        canon_key(lower_ascii_seq(k)),
{ }

/// items in ANY order: the fold accepts them and returns the strictly ascending list of exactly the written non-empty pairs,
/// keys lower-cased
#[verifier::external_body] /* proved in group c02 */
pub proof fn lemma_dq_spelled(items: Seq<(Seq<char>, Seq<char>)>)
    requires items_ok(items)
    ensures ({
        let r = dq_fold(item_texts(items), Seq::<(Seq<char>, Seq<char>)>::empty());
        r is Ok && kv_sorted(r->Ok_0)
        && (forall|i: int| 0 <= i < r->Ok_0.len() ==> canon_key((#[trigger] r->Ok_0[i]).0) && r->Ok_0[i].1.len() > 0)
        && (forall|k: Seq<char>, v: Seq<char>| kv_has_pair(r->Ok_0, k, v) <==> written_pair(items, k, v))
        && (forall|k: Seq<char>| kv_has_key(r->Ok_0, k) ==> written_key(items, k))
    })
    decreases items.len()
{ }

// ---- unit theory.c02c  <= (contracts):0 ----
// ---- C02, part 3: every permitted spelling of a component tuple parses to the tuple ----
/// one spelling, as the statement lists the freedoms:
///  * `lead` extra '/' after `pkg:`;
///  * the type in any letter case;
///  * the namespace as '/'-separated pieces: an empty piece is an extra '/', any other piece any text that decodes to a segment;
///  * name / version: any text that decodes (raw characters, raw UTF-8, escapes in either hex case: `dec`);
///  * the qualifier items in any order, keys in any letter case, empty-valued items interleaved;
///  * the subpath as pieces: "", "." and ".." are skipped, any other piece any text that decodes to a segment;
///  * raw '@', '?', '#' anywhere to the left of the designated separator (`raw_ok`).
pub struct Spelling {
    pub lead: nat,
    pub ty: Seq<char>,
    pub ns_pieces: Seq<Seq<char>>,
    pub name: Seq<char>,
    pub ver: Option<Seq<char>>,
    pub items: Option<Seq<(Seq<char>, Seq<char>)>>,
    pub sub_pieces: Option<Seq<Seq<char>>>,
}
pub open spec fn raw_of(sp: Spelling) -> Raw {
    Raw {
        lead: sp.lead, ty: sp.ty,
        ns: if sp.ns_pieces.len() == 0 { None } else { Some(join_with(sp.ns_pieces, '/')) },
        name: sp.name, ver: sp.ver,
        q: match sp.items { None => None, Some(it) => Some(join_with(item_texts(it), '&')) },
        sub: match sp.sub_pieces { None => None, Some(ps) => Some(join_with(ps, '/')) },
    }
}
pub open spec fn spelled(sp: Spelling) -> Seq<char> { text_raw(raw_of(sp)) }

/// the components a spelling denotes
pub open spec fn sp_type(sp: Spelling) -> Seq<char> { lower_ascii_seq(sp.ty) }
pub open spec fn sp_ns(sp: Spelling) -> Seq<Seq<char>> { ns_segs(sp.ns_pieces) }
pub open spec fn sp_name(sp: Spelling) -> Seq<char> { dec(sp.name)->Some_0 }
pub open spec fn sp_version(sp: Spelling) -> Seq<char> { match sp.ver { None => Seq::<char>::empty(), Some(v) => dec(v)->Some_0 } }
pub open spec fn sp_sub(sp: Spelling) -> Seq<Seq<char>> { match sp.sub_pieces { None => Seq::<Seq<char>>::empty(), Some(ps) => sub_segs(ps) } }
pub open spec fn sp_pair(sp: Spelling, k: Seq<char>, v: Seq<char>) -> bool { match sp.items { None => false, Some(it) => written_pair(it, k, v) } }

pub open spec fn ck_canon(x: Seq<char>) -> Option<Seq<char>> { match ck_parse(x) { None => None, Some(m) => ck_text(m) } }

/// a spelling the grammar permits
pub open spec fn spelling_ok(sp: Spelling) -> bool {
    raw_ok(raw_of(sp))
    && ns_pieces_ok(sp.ns_pieces)
    && dec(sp.name) is Some && dec(sp.name)->Some_0.len() > 0
    && (match sp.ver { None => true, Some(v) => dec(v) is Some })
    && (match sp.items { None => true, Some(it) => it.len() > 0 && items_ok(it) })
    && (match sp.sub_pieces { None => true, Some(ps) => ps.len() > 0 && sub_pieces_ok(ps) })
    // a checksum, if one is written, is well-formed (C05 is about the others)
    && (forall|x: Seq<char>| #[trigger] sp_pair(sp, checksum_key(), x) ==> ck_canon(x) is Some)
}

#[verifier::external_body] /* proved in group c02 */
pub proof fn lemma_kvs_has_pair(q: Seq<(QualifierKey, SmallString)>, k: Seq<char>, v: Seq<char>)
    ensures has_pair(q, k, v) <==> kv_has_pair(kvs(q), k, v), has_key(q, k) <==> kv_has_key(kvs(q), k)
{ }

/// the two phases on a permitted spelling: accepted, each component as the spelling denotes it
#[verifier::external_body] /* proved in group c02 */
pub proof fn theorem_c02_phases(sp: Spelling)
    requires spelling_ok(sp)
    ensures
        phase_a(spelled(sp)) is Ok,
        phase_a(spelled(sp))->Ok_0.ty == sp.ty,
        phase_a(spelled(sp))->Ok_0.rest == path_raw(raw_of(sp)),
        phase_a(spelled(sp))->Ok_0.sub == join_segs(sp_sub(sp)),
        kv_sorted(phase_a(spelled(sp))->Ok_0.kv),
        forall|i: int| 0 <= i < phase_a(spelled(sp))->Ok_0.kv.len() ==> (#[trigger] phase_a(spelled(sp))->Ok_0.kv[i]).1.len() > 0,
        forall|k: Seq<char>, v: Seq<char>| kv_has_pair(phase_a(spelled(sp))->Ok_0.kv, k, v) <==> sp_pair(sp, k, v),
        phase_b(path_raw(raw_of(sp))) == Ok::<PhaseB, ParseError>(PhaseB { ns: join_segs(sp_ns(sp)), name: sp_name(sp), version: sp_version(sp) }),
        forall|i: int| 0 <= i < sp_ns(sp).len() ==> clean_ns_seg(#[trigger] sp_ns(sp)[i]),
        forall|i: int| 0 <= i < sp_sub(sp).len() ==> clean_sub_seg(#[trigger] sp_sub(sp)[i]),
{ }

/// the qualifiers of the result are exactly the written non-empty pairs with lower-cased keys, each once, in ascending key order;
/// the checksum value in its canonical text
pub open spec fn quals_as_written(sp: Spelling, gq: Seq<(QualifierKey, SmallString)>) -> bool {
    wf_seq(gq)
    && (forall|k: Seq<char>, v: Seq<char>| k != checksum_key() ==> (has_pair(gq, k, v) <==> sp_pair(sp, k, v)))
    && (forall|c: Seq<char>| has_pair(gq, checksum_key(), c) <==> exists|x: Seq<char>| #[trigger] sp_pair(sp, checksum_key(), x) && ck_canon(x) == Some(c))
}

/// the tail of the parse: build() on the parsed parts (after a hook that succeeded and left qualifiers and a name)
#[verifier::external_body] /* proved in group c02 */
pub proof fn lemma_c02_build<T: PurlShape>(sp: Spelling, t1: T, p1: PurlParts, fr: Result<(), T::Error>, r: Result<GenericPurl<T>, T::Error>)
    requires
        fr is Ok, p1.name@.len() > 0, wf_seq(p1.qualifiers.qualifiers@),
        forall|i: int| 0 <= i < kvs(p1.qualifiers.qualifiers@).len() ==> (#[trigger] kvs(p1.qualifiers.qualifiers@)[i]).1.len() > 0,
        forall|k: Seq<char>, v: Seq<char>| kv_has_pair(kvs(p1.qualifiers.qualifiers@), k, v) <==> sp_pair(sp, k, v),
        forall|x: Seq<char>| #[trigger] sp_pair(sp, checksum_key(), x) ==> ck_canon(x) is Some,
        build_post::<T>(t1, p1, fr, r),
    ensures
        r is Ok, same_but_qualifiers(r->Ok_0, t1, p1), quals_as_written(sp, r->Ok_0.parts.qualifiers.qualifiers@),
{ }

/// C02 for the type-agnostic PURL: whatever `from_str` returns for a permitted spelling (parse_post) is `Ok` with exactly the
/// components the spelling denotes -- type lower-cased, namespace and subpath the '/'-joins of the decoded segments, name and version
/// decoded, the qualifiers as written
#[verifier::external_body] /* proved in group c02 */
pub proof fn theorem_c02_plain<T: FromStr + PurlShape>(sp: Spelling, r: Result<GenericPurl<T>, <T as PurlShape>::Error>)
    where <T as PurlShape>::Error: From<<T as FromStr>::Err>
    requires plain_shape::<T>(), spelling_ok(sp), parse_post::<T>(spelled(sp), r),
    ensures
        r is Ok,
        r->Ok_0.package_type.type_text() == sp_type(sp),
        r->Ok_0.parts.namespace@ == join_segs(sp_ns(sp)),
        r->Ok_0.parts.name@ == sp_name(sp),
        r->Ok_0.parts.version@ == sp_version(sp),
        r->Ok_0.parts.subpath@ == join_segs(sp_sub(sp)),
        quals_as_written(sp, r->Ok_0.parts.qualifiers.qualifiers@),
{ }

#[verifier::external_body] /* proved in group c02 */
pub proof fn lemma_join_segs_first(segs: Seq<Seq<char>>)
    requires segs.len() > 0, forall|i: int| 0 <= i < segs.len() ==> clean_ns_seg(#[trigger] segs[i])
    ensures join_segs(segs).len() > 0, join_segs(segs)[0] == segs[0][0], segs[0][0] != '/'
    decreases segs.len()
{ }

/// the type's own name rule (C08 wording)
pub open spec fn name_rule(t: PackageType, n: Seq<char>) -> Seq<char> {
    match t { PackageType::NuGet => lower_seq(n), PackageType::PyPI => pypi_norm(n), _ => n }
}

#[verifier::external_body] /* proved in group c02 */
pub proof fn lemma_lower_seq_nonempty(s: Seq<char>)
    requires s.len() > 0
    ensures lower_seq(s).len() > 0
{ }

/// C02 for the PURL with the built-in package types: a permitted spelling whose type is (in any letter case) the name of `t` --
/// with a namespace, if `t` is Maven -- is accepted with type `t` and exactly the components the spelling denotes, the name after
/// the type's own name rule
#[verifier::external_body] /* proved in group c02 */
pub proof fn theorem_c02_typed(sp: Spelling, t: PackageType, r: Result<GenericPurl<PackageType>, PackageError>)
    requires
        spelling_ok(sp), sp_type(sp) == type_name(t),
        t == PackageType::Maven ==> sp_ns(sp).len() > 0,
        parse_post::<PackageType>(spelled(sp), r),
    ensures
        r is Ok,
        r->Ok_0.package_type == t,
        r->Ok_0.parts.namespace@ == join_segs(sp_ns(sp)),
        r->Ok_0.parts.name@ == name_rule(t, sp_name(sp)),
        r->Ok_0.parts.version@ == sp_version(sp),
        r->Ok_0.parts.subpath@ == join_segs(sp_sub(sp)),
        quals_as_written(sp, r->Ok_0.parts.qualifiers.qualifiers@),
{ }

/// "Consequently any two spellings of the same components give equal PURLs with identical canonical strings"
pub open spec fn same_components(s1: Spelling, s2: Spelling) -> bool {
    sp_type(s1) == sp_type(s2) && sp_ns(s1) == sp_ns(s2) && sp_name(s1) == sp_name(s2) && sp_version(s1) == sp_version(s2)
    && sp_sub(s1) == sp_sub(s2)
    && (forall|k: Seq<char>, v: Seq<char>| k != checksum_key() ==> (sp_pair(s1, k, v) <==> sp_pair(s2, k, v)))
    // the checksum: the same entries up to order, letter case of the algorithm names and of the hex digits, i.e. (by
    // theorem_checksum_spellings, group ckfix) the same canonical text
    && (forall|c: Seq<char>| ck_written(s1, c) <==> ck_written(s2, c))
}
pub open spec fn ck_written(sp: Spelling, c: Seq<char>) -> bool { exists|x: Seq<char>| #[trigger] sp_pair(sp, checksum_key(), x) && ck_canon(x) == Some(c) }

#[verifier::external_body] /* proved in group c02 */
pub proof fn lemma_quals_as_written_unique(s1: Spelling, s2: Spelling, q1: Seq<(QualifierKey, SmallString)>, q2: Seq<(QualifierKey, SmallString)>)
    requires quals_as_written(s1, q1), quals_as_written(s2, q2), same_components(s1, s2)
    ensures kvs(q1) == kvs(q2)
{ }

#[verifier::external_body] /* proved in group c02 */
pub proof fn theorem_c02_same_plain<T: FromStr + PurlShape>(s1: Spelling, s2: Spelling, r1: Result<GenericPurl<T>, <T as PurlShape>::Error>, r2: Result<GenericPurl<T>, <T as PurlShape>::Error>)
    where <T as PurlShape>::Error: From<<T as FromStr>::Err>
    requires plain_shape::<T>(), spelling_ok(s1), spelling_ok(s2), same_components(s1, s2),
        parse_post::<T>(spelled(s1), r1), parse_post::<T>(spelled(s2), r2),
    ensures
        r1 is Ok, r2 is Ok,
        r1->Ok_0.package_type.type_text() == r2->Ok_0.package_type.type_text(),
        same_texts(r1->Ok_0.parts, r2->Ok_0.parts),
        canon_spec(r1->Ok_0.package_type.type_text(), r1->Ok_0.parts) == canon_spec(r2->Ok_0.package_type.type_text(), r2->Ok_0.parts),
{ }

#[verifier::external_body] /* proved in group c02 */
pub proof fn theorem_c02_same_typed(s1: Spelling, s2: Spelling, t: PackageType, r1: Result<GenericPurl<PackageType>, PackageError>, r2: Result<GenericPurl<PackageType>, PackageError>)
    requires spelling_ok(s1), spelling_ok(s2), same_components(s1, s2), sp_type(s1) == type_name(t),
        t == PackageType::Maven ==> sp_ns(s1).len() > 0,
        parse_post::<PackageType>(spelled(s1), r1), parse_post::<PackageType>(spelled(s2), r2),
    ensures
        r1 is Ok, r2 is Ok,
        r1->Ok_0.package_type == r2->Ok_0.package_type,
        same_texts(r1->Ok_0.parts, r2->Ok_0.parts),
        canon_spec(r1->Ok_0.package_type.type_text(), r1->Ok_0.parts) == canon_spec(r2->Ok_0.package_type.type_text(), r2->Ok_0.parts),
{ }

// ---- unit theory.ckspell  <= (contracts):0 ----
// ---- C12: "any equivalent spelling (order, case ...) carries that one canonical text" ----
pub open spec fn piece_ok(p: Seq<char>) -> bool { last_index_of(p, ':') >= 0 }
pub open spec fn piece_key(p: Seq<char>) -> Seq<char> { lower_seq(p.subrange(0, last_index_of(p, ':'))) }
pub open spec fn piece_val(p: Seq<char>) -> Seq<char> { p.subrange(last_index_of(p, ':') + 1, p.len() as int) }
pub open spec fn pieces_ok(ps: Seq<Seq<char>>) -> bool { forall|i: int| 0 <= i < ps.len() ==> piece_ok(#[trigger] ps[i]) }
pub open spec fn pieces_distinct(ps: Seq<Seq<char>>) -> bool {
    forall|i: int, j: int| 0 <= i < j < ps.len() ==> piece_key(#[trigger] ps[i]) != piece_key(#[trigger] ps[j])
}
/// m is exactly the map {algorithm (lower-cased) -> hex as written} of the pieces
pub open spec fn map_is(ps: Seq<Seq<char>>, m: Map<Seq<char>, Seq<char>>) -> bool {
    (forall|k: Seq<char>| m.contains_key(k) <==> exists|i: int| 0 <= i < ps.len() && piece_key(#[trigger] ps[i]) == k)
    && (forall|i: int| 0 <= i < ps.len() ==> m.contains_key(piece_key(#[trigger] ps[i])) && m[piece_key(ps[i])] == piece_val(ps[i]))
}

/// what ck_fold computes, independent of the order of the pieces
#[verifier::external_body] /* proved in group ckfix */
pub proof fn lemma_ck_fold_char(ps: Seq<Seq<char>>)
    ensures
        (ck_fold(ps) is Some) == (pieces_ok(ps) && pieces_distinct(ps)),
        ck_fold(ps) is Some ==> map_is(ps, ck_fold(ps)->Some_0),
    decreases ps.len()
{ }

/// two maps with the same algorithms whose hex values agree up to ASCII case
pub open spec fn same_up_to_hex_case(m1: Map<Seq<char>, Seq<char>>, m2: Map<Seq<char>, Seq<char>>) -> bool {
    (forall|k: Seq<char>| m1.contains_key(k) <==> m2.contains_key(k))
    && (forall|k: Seq<char>| #[trigger] m1.contains_key(k) ==> lower_ascii_seq(m1[k]) == lower_ascii_seq(m2[k]))
}

#[verifier::external_body] /* proved in group ckfix */
pub proof fn lemma_hex_case(a: Seq<char>, b: Seq<char>)
    requires hex_ok(a), lower_ascii_seq(a) == lower_ascii_seq(b)
    ensures hex_ok(b)
{ }

pub open spec fn with_vals(es: VS, m: Map<Seq<char>, Seq<char>>) -> VS { es.map_values(|e: (Seq<char>, Seq<char>)| (e.0, m[e.0])) }

#[verifier::external_body] /* proved in group ckfix */
pub proof fn lemma_listing_text_vals(es: VS, m2: Map<Seq<char>, Seq<char>>)
    requires forall|i: int| 0 <= i < es.len() ==> lower_ascii_seq((#[trigger] es[i]).1) == lower_ascii_seq(m2[es[i].0])
    ensures listing_text(with_vals(es, m2)) == listing_text(es)
    decreases es.len()
{ }

/// the canonical text depends on the algorithms and on the hex values up to ASCII case only
#[verifier::external_body] /* proved in group ckfix */
pub proof fn lemma_canon_text_hex_case(es: VS, m1: Map<Seq<char>, Seq<char>>, m2: Map<Seq<char>, Seq<char>>)
    requires is_listing(es, m1), sorted_by_key(es), same_up_to_hex_case(m1, m2), all_values_hex(m1)
    ensures canon_text(m2) == canon_text(m1), all_values_hex(m2)
{ }

/// C12: two checksum texts whose entries are the same up to order, letter case of the algorithm names and letter case of the
/// hex digits -- if build() accepts the first it accepts the second and stores the SAME canonical text for both
#[verifier::external_body] /* proved in group ckfix */
pub proof fn theorem_checksum_spellings(x1: Seq<char>, x2: Seq<char>)
    requires
        ck_parse(x1) is Some, ck_text(ck_parse(x1)->Some_0) is Some,
        ({
            let ps1 = split_spec(x1, ','); let ps2 = split_spec(x2, ',');
            pieces_ok(ps2) && pieces_distinct(ps2)
            && (forall|i: int| 0 <= i < ps2.len() ==> exists|j: int| 0 <= j < ps1.len() && piece_key(#[trigger] ps2[i]) == piece_key(#[trigger] ps1[j])
                    && lower_ascii_seq(piece_val(ps2[i])) == lower_ascii_seq(piece_val(ps1[j])))
            && (forall|j: int| 0 <= j < ps1.len() ==> exists|i: int| 0 <= i < ps2.len() && piece_key(#[trigger] ps2[i]) == piece_key(#[trigger] ps1[j]))
        }),
    ensures ck_parse(x2) is Some, ck_text(ck_parse(x2)->Some_0) == ck_text(ck_parse(x1)->Some_0)
{ }

// ---- unit theory.c05a  <= (contracts):0 ----
// ---- C05: invalid input is refused with the matching error -- as theorems over parse_post ----
// Part 1: the error as a function of the raw texts, by precedence (the order in which the parser examines the components):
// scheme; subpath; qualifiers; missing type / missing name separator / type syntax; [conversion]; version; namespace; name;
// then build(): empty name, malformed checksum. "When that defect is the only one" the precedence does not matter; the theorem
// is stronger: it gives the error for ANY combination.

/// the separator discipline without assuming the type is valid (a type substring is whatever stands before the first '/')
pub open spec fn raw_ok_gen(w: Raw) -> bool {
    w.ty.len() > 0 && !has_char(w.ty, '/')
    && !has_char(w.name, '/')
    && (match w.ver { Some(v) => !has_char(v, '@'), None => !has_char(r1_raw(w), '@') })
    && (match w.q { Some(q) => !has_char(q, '?'), None => !has_char(l2_raw(w), '?') })
    && (match w.sub { Some(s) => !has_char(s, '#'), None => !has_char(l_raw(w), '#') })
}
pub open spec fn phase_a_raw_gen(w: Raw) -> Result<PhaseA, ParseError> {
    let sub = match w.sub { None => Some(Seq::<char>::empty()), Some(x) => sub_fold(split_spec(trim_spec(x, '/'), '/')) };
    if sub is None { Err(ParseError::InvalidEscape) } else {
        let kv = match w.q { None => Ok::<KV, DqErr>(Seq::<(Seq<char>, Seq<char>)>::empty()), Some(x) => dq_fold(split_spec(x, '&'), Seq::<(Seq<char>, Seq<char>)>::empty()) };
        match kv {
            Err(d) => Err(dq_parse_err(d)),
            Ok(kvv) => if !valid_type(w.ty) { Err(ParseError::InvalidPackageType) }
                       else { Ok(PhaseA { ty: w.ty, rest: path_raw(w), sub: sub->Some_0, kv: kvv }) },
        }
    }
}

pub proof fn theorem_raw_phase_a_gen(w: Raw)
    requires raw_ok_gen(w)
    ensures phase_a(text_raw(w)) == phase_a_raw_gen(w)
{
    lemma_lits();
    let s = text_raw(w);
    let b = b_raw(w);
    let l = l_raw(w);
    let l2 = l2_raw(w);
    assert(s.subrange(0, "pkg:"@.len() as int) =~= "pkg:"@);
    assert(s.subrange("pkg:"@.len() as int, s.len() as int) =~= slashes(w.lead) + b);
    assert(b[0] == w.ty[0]);
    if w.ty[0] == '/' { assert(has_char(w.ty, '/')); }
    lemma_trim_slashes(w.lead, b);
    match w.sub {
        Some(x) => { assert(b =~= l + seq!['#'] + x); lemma_rsplit_some(l, x, '#'); },
        None => { assert(b =~= l); lemma_rsplit_none(l, '#'); },
    }
    match w.q {
        Some(x) => { assert(l =~= l2 + seq!['?'] + x); lemma_rsplit_some(l2, x, '?'); },
        None => { assert(l =~= l2); lemma_rsplit_none(l2, '?'); },
    }
    lemma_split_join(w.ty, path_raw(w), '/');
    assert(l2.subrange(0, w.ty.len() as int) =~= w.ty);
    assert(l2.subrange(w.ty.len() as int + 1, l2.len() as int) =~= path_raw(w));
    assert(l2.len() > 0);
}

/// a malformed checksum among the parsed pairs
pub open spec fn ck_defect(kv: KV) -> bool { exists|x: Seq<char>| #[trigger] kv_has_pair(kv, checksum_key(), x) && ck_canon(x) is None }

/// the error for the raw texts, by precedence; None: accepted
pub open spec fn raw_error(w: Raw) -> Option<ParseError> {
    match phase_a_raw_gen(w) {
        Err(e) => Some(e),
        Ok(a) => match phase_b_raw(w) {
            Err(e) => Some(e),
            Ok(b) =>
                if b.name.len() == 0 { Some(ParseError::MissingRequiredField(PurlField::Name)) }
                else if ck_defect(a.kv) { Some(ParseError::InvalidQualifier) }
                else { None },
        },
    }
}

pub open spec fn refused_with<T: PurlShape>(r: Result<GenericPurl<T>, T::Error>, e: ParseError) -> bool {
    r is Err && (<T::Error as vstd::std_specs::convert::FromSpec<ParseError>>::obeys_from_spec()
                 ==> r->Err_0 == <T::Error as vstd::std_specs::convert::FromSpec<ParseError>>::from_spec(e))
}

/// dq_fold keeps the list strictly ascending, with non-empty values
pub proof fn lemma_dq_fold_sorted(items: Seq<Seq<char>>)
    requires dq_fold(items, Seq::<(Seq<char>, Seq<char>)>::empty()) is Ok
    ensures kv_sorted(dq_fold(items, Seq::<(Seq<char>, Seq<char>)>::empty())->Ok_0),
        forall|i: int| 0 <= i < dq_fold(items, Seq::<(Seq<char>, Seq<char>)>::empty())->Ok_0.len() ==> (#[trigger] dq_fold(items, Seq::<(Seq<char>, Seq<char>)>::empty())->Ok_0[i]).1.len() > 0
    decreases items.len()
{
    let e = Seq::<(Seq<char>, Seq<char>)>::empty();
    if items.len() > 0 {
        let init = items.drop_last();
        lemma_dq_fold_sorted(init);
        let acc = dq_fold(init, e)->Ok_0;
        let item = items.last();
        let i = first_index_of(item, '=');
        let k = item.subrange(0, i);
        let v = item.subrange(i + 1, item.len() as int);
        let r = dq_fold(items, e)->Ok_0;
        if dec(v)->Some_0.len() > 0 {
            let lk = lower_ascii_seq(k);
            lemma_kv_insert(acc, lk, dec(v)->Some_0);
            lemma_kv_pos_partition(acc, lk);
            let p = kv_pos_of(acc, lk);
            assert forall|j: int| 0 <= j < r.len() implies (#[trigger] r[j]).1.len() > 0 by {
                if j < p { assert(r[j] == acc[j]); } else if j > p { assert(r[j] == acc[j - 1]); }
            }
        }
    }
}

/// C05 for the type-agnostic PURL, every combination of defects in the components: refused exactly when `raw_error` says so,
/// with that error (passed through From)
pub proof fn theorem_c05_raw<T: FromStr + PurlShape>(w: Raw, r: Result<GenericPurl<T>, <T as PurlShape>::Error>)
    where <T as PurlShape>::Error: From<<T as FromStr>::Err>
    requires plain_shape::<T>(), raw_ok_gen(w), parse_post::<T>(text_raw(w), r),
    ensures match raw_error(w) { Some(e) => refused_with::<T>(r, e), None => r is Ok }
{
    let s = text_raw(w);
    theorem_raw_phase_a_gen(w);
    if phase_a(s) is Ok {
        lemma_has_char_concat(w.ty + seq!['/'], path_raw(w), '?');
        assert(raw_ok(w));
        theorem_raw_phase_b(w);
        let a = phase_a(s)->Ok_0;
        let cr = choose|cr: Result<T, <T as FromStr>::Err>| #[trigger] T::from_str_rel(a.ty, cr) && match cr {
            Err(ce) => r is Err,
            Ok(t0) => match phase_b(a.rest) {
                Err(e) => refused_with::<T>(r, e),
                Ok(b) => exists|p0: PurlParts, t1: T, p1: PurlParts, fr: Result<(), <T as PurlShape>::Error>|
                    parts_are(p0, a, b) && #[trigger] T::finish_rel(t0, p0, t1, p1, fr) && build_post::<T>(t1, p1, fr, r),
            },
        };
        let t0 = cr->Ok_0;
        if phase_b(a.rest) is Ok {
            let b = phase_b(a.rest)->Ok_0;
            let (p0, t1, p1, fr) = choose|p0: PurlParts, t1: T, p1: PurlParts, fr: Result<(), <T as PurlShape>::Error>|
                parts_are(p0, a, b) && #[trigger] T::finish_rel(t0, p0, t1, p1, fr) && build_post::<T>(t1, p1, fr, r);
            assert(p1 == p0 && fr is Ok);
            if b.name.len() > 0 {
                let q = p1.qualifiers.qualifiers@;
                assert(kvs(q).len() == q.len());
                match w.q {
                    Some(x) => { lemma_dq_fold_sorted(split_spec(x, '&')); },
                    None => {},
                }
                assert forall|j: int| 0 <= j < q.len() implies (#[trigger] q[j]).1@.len() > 0 by { assert(kvs(q)[j] == (q[j].0.0@, q[j].1@)); }
                lemma_nonempty_id(q);
                lemma_checksum_key();
                let ck = checksum_key();
                if has_key(q, ck) {
                    let p = pos_of(q, ck);
                    lemma_has_pair_pos_key(q, ck);
                    let x = q[p].1@;
                    assert(has_pair(q, ck, x));
                    lemma_kvs_has_pair(q, ck, x);
                    if ck_canon(x) is None {
                        assert(ck_defect(a.kv));
                    } else {
                        if ck_defect(a.kv) {
                            let y = choose|y: Seq<char>| #[trigger] kv_has_pair(a.kv, ck, y) && ck_canon(y) is None;
                            lemma_kvs_has_pair(q, ck, y);
                            let i = choose|i: int| 0 <= i < q.len() && #[trigger] q[i].0.0@ == ck && q[i].1@ == y;
                            lemma_sorted_unique(q, i, p);
                        }
                    }
                } else {
                    if ck_defect(a.kv) {
                        let y = choose|y: Seq<char>| #[trigger] kv_has_pair(a.kv, ck, y) && ck_canon(y) is None;
                        lemma_kvs_has_pair(q, ck, y);
                        let i = choose|i: int| 0 <= i < q.len() && #[trigger] q[i].0.0@ == ck && q[i].1@ == y;
                    }
                }
            }
        }
    }
}

// ---- unit theory.c05b  <= (contracts):0 ----
// ---- C05, part 2: each listed defect, spelled in any way, at any position ----

/// scheme: a string that does not begin with `pkg:` is refused with UnsupportedUrlScheme, for every type parameter
pub proof fn theorem_c05_scheme<T: FromStr + PurlShape>(s: Seq<char>, r: Result<GenericPurl<T>, <T as PurlShape>::Error>)
    where <T as PurlShape>::Error: From<<T as FromStr>::Err>
    requires !has_prefix(s, "pkg:"@), parse_post::<T>(s, r),
    ensures refused_with::<T>(r, ParseError::UnsupportedUrlScheme)
{ }

/// no type: nothing (but optional qualifiers / subpath) follows `pkg:` and its slashes
pub open spec fn text_no_type(lead: nat, q: Option<Seq<char>>, sub: Option<Seq<char>>) -> Seq<char> {
    "pkg:"@ + slashes(lead) + opt_pre('?', q) + opt_pre('#', sub)
}
pub proof fn lemma_trim_slashes_stop(n: nat, b: Seq<char>)
    requires b.len() == 0 || b[0] != '/'
    ensures trim_start_spec(slashes(n) + b, '/') == b
    decreases n
{
    let s = slashes(n) + b;
    if n == 0 { assert(s =~= b); }
    else {
        assert(s[0] == '/');
        assert(s.subrange(1, s.len() as int) =~= slashes((n - 1) as nat) + b);
        lemma_trim_slashes_stop((n - 1) as nat, b);
    }
}
pub proof fn theorem_c05_no_type<T: FromStr + PurlShape>(lead: nat, q: Option<Seq<char>>, sub: Option<Seq<char>>, r: Result<GenericPurl<T>, <T as PurlShape>::Error>)
    where <T as PurlShape>::Error: From<<T as FromStr>::Err>
    requires
        (match sub { Some(x) => !has_char(x, '#') && sub_fold(split_spec(trim_spec(x, '/'), '/')) is Some, None => !has_char(opt_pre('?', q), '#') }),
        (match q { Some(x) => !has_char(x, '?') && dq_fold(split_spec(x, '&'), Seq::<(Seq<char>, Seq<char>)>::empty()) is Ok, None => true }),
        parse_post::<T>(text_no_type(lead, q, sub), r),
    ensures refused_with::<T>(r, ParseError::MissingRequiredField(PurlField::PackageType))
{
    lemma_lits();
    let s = text_no_type(lead, q, sub);
    let l = opt_pre('?', q);
    let b = l + opt_pre('#', sub);
    let e = Seq::<char>::empty();
    assert(s.subrange(0, "pkg:"@.len() as int) =~= "pkg:"@);
    assert(s.subrange("pkg:"@.len() as int, s.len() as int) =~= slashes(lead) + b);
    assert(b.len() == 0 || b[0] != '/') by {
        if b.len() > 0 { match q { Some(x) => { assert(b[0] == '?'); }, None => { match sub { Some(y) => { assert(b[0] == '#'); }, None => {} } } } }
    }
    lemma_trim_slashes_stop(lead, b);
    match sub {
        Some(x) => { assert(b =~= l + seq!['#'] + x); lemma_rsplit_some(l, x, '#'); },
        None => { assert(b =~= l); lemma_rsplit_none(l, '#'); },
    }
    match q {
        Some(x) => { assert(l =~= e + seq!['?'] + x); lemma_rsplit_some(e, x, '?'); },
        None => { assert(l =~= e); assert(!has_char(e, '?')); lemma_rsplit_none(e, '?'); },
    }
}

/// no name: the type is not followed by any '/'
pub open spec fn text_no_name(lead: nat, ty: Seq<char>, q: Option<Seq<char>>, sub: Option<Seq<char>>) -> Seq<char> {
    "pkg:"@ + slashes(lead) + ty + opt_pre('?', q) + opt_pre('#', sub)
}
pub proof fn theorem_c05_no_name_separator<T: FromStr + PurlShape>(lead: nat, ty: Seq<char>, q: Option<Seq<char>>, sub: Option<Seq<char>>, r: Result<GenericPurl<T>, <T as PurlShape>::Error>)
    where <T as PurlShape>::Error: From<<T as FromStr>::Err>
    requires
        ty.len() > 0, !has_char(ty, '/'),
        (match sub { Some(x) => !has_char(x, '#') && sub_fold(split_spec(trim_spec(x, '/'), '/')) is Some, None => !has_char(ty + opt_pre('?', q), '#') }),
        (match q { Some(x) => !has_char(x, '?') && dq_fold(split_spec(x, '&'), Seq::<(Seq<char>, Seq<char>)>::empty()) is Ok, None => !has_char(ty, '?') }),
        parse_post::<T>(text_no_name(lead, ty, q, sub), r),
    ensures refused_with::<T>(r, ParseError::MissingRequiredField(PurlField::Name))
{
    lemma_lits();
    let s = text_no_name(lead, ty, q, sub);
    let l = ty + opt_pre('?', q);
    let b = l + opt_pre('#', sub);
    assert(s.subrange(0, "pkg:"@.len() as int) =~= "pkg:"@);
    assert(s.subrange("pkg:"@.len() as int, s.len() as int) =~= slashes(lead) + b);
    assert(b[0] == ty[0]);
    if ty[0] == '/' { assert(has_char(ty, '/')); }
    lemma_trim_slashes(lead, b);
    match sub {
        Some(x) => { assert(b =~= l + seq!['#'] + x); lemma_rsplit_some(l, x, '#'); },
        None => { assert(b =~= l); lemma_rsplit_none(l, '#'); },
    }
    match q {
        Some(x) => { assert(l =~= ty + seq!['?'] + x); lemma_rsplit_some(ty, x, '?'); },
        None => { assert(l =~= ty); lemma_rsplit_none(ty, '?'); },
    }
    lemma_first_index(ty, '/');
}

// ---- the components, one defect each, everything else fine ----
pub open spec fn sub_fine(w: Raw) -> bool { match w.sub { None => true, Some(x) => sub_fold(split_spec(trim_spec(x, '/'), '/')) is Some } }
pub open spec fn q_fine(w: Raw) -> bool { match w.q { None => true, Some(x) => dq_fold(split_spec(x, '&'), Seq::<(Seq<char>, Seq<char>)>::empty()) is Ok } }
pub open spec fn ver_fine(w: Raw) -> bool { match w.ver { None => true, Some(x) => dec(x) is Some } }
pub open spec fn ns_fine(w: Raw) -> bool { match w.ns { None => true, Some(x) => ns_fold(split_spec(trim_spec(x, '/'), '/')) is Some } }

/// a type that is syntactically invalid (percent-encoded included: '%' is not a type character)
pub proof fn theorem_c05_bad_type(w: Raw)
    requires raw_ok_gen(w), !valid_type(w.ty), sub_fine(w), q_fine(w)
    ensures raw_error(w) == Some(ParseError::InvalidPackageType)
{ }
pub proof fn lemma_encoded_type_invalid(ty: Seq<char>)
    requires has_char(ty, '%')
    ensures !valid_type(ty)
{
    let i = choose|i: int| 0 <= i < ty.len() && ty[i] == '%';
    assert(!type_char(ty[i]));
}
/// a bad escape (or a hidden '/') in the subpath: reported whatever else is wrong
pub proof fn theorem_c05_bad_subpath(w: Raw)
    requires raw_ok_gen(w), !sub_fine(w)
    ensures raw_error(w) == Some(ParseError::InvalidEscape)
{ }
/// a defect among the qualifiers
pub proof fn theorem_c05_bad_qualifiers(w: Raw, d: DqErr)
    requires raw_ok_gen(w), sub_fine(w), w.q is Some, dq_fold(split_spec(w.q->Some_0, '&'), Seq::<(Seq<char>, Seq<char>)>::empty()) == Err::<KV, DqErr>(d)
    ensures raw_error(w) == Some(dq_parse_err(d))
{ }
pub proof fn theorem_c05_bad_version(w: Raw)
    requires raw_ok_gen(w), valid_type(w.ty), sub_fine(w), q_fine(w), !ver_fine(w)
    ensures raw_error(w) == Some(ParseError::InvalidEscape)
{ }
pub proof fn theorem_c05_bad_namespace(w: Raw)
    requires raw_ok_gen(w), valid_type(w.ty), sub_fine(w), q_fine(w), ver_fine(w), !ns_fine(w)
    ensures raw_error(w) == Some(ParseError::InvalidEscape)
{ }
pub proof fn theorem_c05_bad_name(w: Raw)
    requires raw_ok_gen(w), valid_type(w.ty), sub_fine(w), q_fine(w), ver_fine(w), ns_fine(w), dec(w.name) is None
    ensures raw_error(w) == Some(ParseError::InvalidEscape)
{ }
/// no name: the name text decodes to nothing (`pkg:t/`, `pkg:t/ns/`, `pkg:t/@1`)
pub proof fn theorem_c05_empty_name(w: Raw)
    requires raw_ok_gen(w), valid_type(w.ty), sub_fine(w), q_fine(w), ver_fine(w), ns_fine(w), dec(w.name) == Some(Seq::<char>::empty())
    ensures raw_error(w) == Some(ParseError::MissingRequiredField(PurlField::Name))
{ }
pub proof fn theorem_c05_bad_checksum(w: Raw)
    requires raw_ok_gen(w), valid_type(w.ty), sub_fine(w), q_fine(w), ver_fine(w), ns_fine(w), dec(w.name) is Some, dec(w.name)->Some_0.len() > 0,
        ck_defect(phase_a_raw_gen(w)->Ok_0.kv)
    ensures raw_error(w) == Some(ParseError::InvalidQualifier)
{ }

// ---- what makes a component defective: pieces and items ----
/// a namespace piece that does not decode, or hides a '/' behind an escape, at ANY position among ANY other pieces
pub proof fn lemma_c05_ns_piece(ps: Seq<Seq<char>>, i: int)
    requires slash_free(ps), 0 <= i < ps.len(), !ns_skipped(ps[i]), ns_bad(ps[i])
    ensures ns_fold(split_spec(trim_spec(join_with(ps, '/'), '/'), '/')) is None
{
    let x = join_with(ps, '/');
    lemma_split_of_join_with(ps, '/');
    lemma_fold_trim_end(trim_start_spec(x, '/'));
    lemma_fold_trim_start(x);
    let t = ps.take(i + 1);
    assert(t.last() == ps[i]);
    lemma_ns_fold_none(ps, i + 1);
}
/// the same for the subpath; an escaped '.' or '..' segment is refused as well
pub proof fn lemma_c05_sub_piece(ps: Seq<Seq<char>>, i: int)
    requires slash_free(ps), 0 <= i < ps.len(), !sub_skipped(ps[i]), sub_bad(ps[i])
    ensures sub_fold(split_spec(trim_spec(join_with(ps, '/'), '/'), '/')) is None
{
    let x = join_with(ps, '/');
    lemma_split_of_join_with(ps, '/');
    lemma_fold_trim_end(trim_start_spec(x, '/'));
    lemma_fold_trim_start(x);
    let t = ps.take(i + 1);
    assert(t.last() == ps[i]);
    lemma_sub_fold_none(ps, i + 1);
}

/// one defective item after any well-formed items and before anything at all: the fold reports that item's defect
pub proof fn lemma_c05_item(pre: Seq<(Seq<char>, Seq<char>)>, bad: Seq<char>, post: Seq<Seq<char>>, d: DqErr)
    requires items_ok(pre),
        dq_step(dq_fold(item_texts(pre), Seq::<(Seq<char>, Seq<char>)>::empty())->Ok_0, bad) == Err::<KV, DqErr>(d),
    ensures dq_fold(item_texts(pre) + seq![bad] + post, Seq::<(Seq<char>, Seq<char>)>::empty()) == Err::<KV, DqErr>(d)
{
    let e = Seq::<(Seq<char>, Seq<char>)>::empty();
    let all = item_texts(pre) + seq![bad] + post;
    let k = pre.len() as int + 1;
    lemma_dq_spelled(pre);
    assert(all.take(k) =~= item_texts(pre).push(bad));
    assert(all.take(k).drop_last() =~= item_texts(pre));
    assert(all.take(k).last() == bad);
    lemma_dq_fold_err(all, e, k);
}
/// the defects of one item, as the statement lists them
pub proof fn lemma_c05_item_kinds(acc: KV, k: Seq<char>, v: Seq<char>, bad: Seq<char>)
    ensures
        // no '='
        !has_char(bad, '=') ==> dq_step(acc, bad) == Err::<KV, DqErr>(DqErr::Qualifier),
        // an invalid key: empty, percent-encoded, any character outside the key alphabet
        !has_char(k, '=') && !valid_key(k) ==> dq_step(acc, item_text((k, v))) == Err::<KV, DqErr>(DqErr::Qualifier),
        // a key already present, in any letter case
        valid_key(k) && kv_has_key(acc, lower_ascii_seq(k)) ==> dq_step(acc, item_text((k, v))) == Err::<KV, DqErr>(DqErr::Qualifier),
        // a value that does not decode
        valid_key(k) && !kv_has_key(acc, lower_ascii_seq(k)) && dec(v) is None ==> dq_step(acc, item_text((k, v))) == Err::<KV, DqErr>(DqErr::Escape),
        // the forms of an invalid key named in the statement
        k.len() == 0 ==> !valid_key(k), has_char(k, '%') ==> !valid_key(k),
{
    lemma_first_index(bad, '=');
    let t = item_text((k, v));
    if !has_char(k, '=') {
        lemma_split_join(k, v, '=');
        assert(t.subrange(0, k.len() as int) =~= k);
        assert(t.subrange(k.len() as int + 1, t.len() as int) =~= v);
    }
    if valid_key(k) { lemma_valid_key_chars(k); }
    if has_char(k, '%') { let i = choose|i: int| 0 <= i < k.len() && k[i] == '%'; assert(!key_char(k[i])); }
}

// ---- the typed PURL: errors wrapped in PackageError::Parse; unknown type; Maven without a namespace ----
pub open spec fn raw_error_typed(w: Raw, t: PackageType) -> Option<PackageError> {
    match phase_a_raw_gen(w) {
        Err(e) => Some(PackageError::Parse(e)),
        Ok(a) => match phase_b_raw(w) {
            Err(e) => Some(PackageError::Parse(e)),
            Ok(b) =>
                if t == PackageType::Maven && all_char(b.ns, '/') { Some(PackageError::MissingRequiredField(PurlField::Namespace)) }
                else if b.name.len() == 0 { Some(PackageError::Parse(ParseError::MissingRequiredField(PurlField::Name))) }
                else if ck_defect(a.kv) { Some(PackageError::Parse(ParseError::InvalidQualifier)) }
                else { None },
        },
    }
}

pub proof fn theorem_c05_raw_typed(w: Raw, t: PackageType, r: Result<GenericPurl<PackageType>, PackageError>)
    requires raw_ok_gen(w), lower_ascii_seq(w.ty) == type_name(t), parse_post::<PackageType>(text_raw(w), r),
    ensures match raw_error_typed(w, t) { Some(e) => r == Err::<GenericPurl<PackageType>, PackageError>(e), None => r is Ok }
{
    let s = text_raw(w);
    theorem_raw_phase_a_gen(w);
    if phase_a(s) is Ok {
        lemma_has_char_concat(w.ty + seq!['/'], path_raw(w), '?');
        assert(raw_ok(w));
        theorem_raw_phase_b(w);
        let a = phase_a(s)->Ok_0;
        let cr = choose|cr: Result<PackageType, UnsupportedPackageType>| #[trigger] PackageType::from_str_rel(a.ty, cr) && match cr {
            Err(ce) => r is Err,
            Ok(t0) => match phase_b(a.rest) {
                Err(e) => r == Err::<GenericPurl<PackageType>, PackageError>(PackageError::Parse(e)),
                Ok(b) => exists|p0: PurlParts, t1: PackageType, p1: PurlParts, fr: Result<(), PackageError>|
                    parts_are(p0, a, b) && #[trigger] PackageType::finish_rel(t0, p0, t1, p1, fr) && build_post::<PackageType>(t1, p1, fr, r),
            },
        };
        assert(cr is Ok);
        let t0 = cr->Ok_0;
        lemma_type_name_facts(t0, t);
        assert(t0 == t);
        if phase_b(a.rest) is Ok {
            let b = phase_b(a.rest)->Ok_0;
            let (p0, t1, p1, fr) = choose|p0: PurlParts, t1: PackageType, p1: PurlParts, fr: Result<(), PackageError>|
                parts_are(p0, a, b) && #[trigger] PackageType::finish_rel(t0, p0, t1, p1, fr) && build_post::<PackageType>(t1, p1, fr, r);
            assert(pkg_finish_rel(t0, p0, t1, p1, fr));
            if t == PackageType::Maven && all_char(b.ns, '/') {
            } else {
                assert(fr is Ok);
                if b.name.len() > 0 {
                    match t {
                        PackageType::NuGet => { lemma_lower_seq_nonempty(p0.name@); },
                        PackageType::PyPI => { lemma_pypi_norm_nonempty(p0.name@); },
                        _ => {},
                    }
                    assert(p1.name@.len() > 0);
                    let q = p1.qualifiers.qualifiers@;
                    assert(kvs(q).len() == q.len());
                    match w.q { Some(x) => { lemma_dq_fold_sorted(split_spec(x, '&')); }, None => {}, }
                    assert forall|j: int| 0 <= j < q.len() implies (#[trigger] q[j]).1@.len() > 0 by { assert(kvs(q)[j] == (q[j].0.0@, q[j].1@)); }
                    lemma_nonempty_id(q);
                    lemma_checksum_key();
                    let ck = checksum_key();
                    if has_key(q, ck) {
                        let p = pos_of(q, ck);
                        lemma_has_pair_pos_key(q, ck);
                        let x = q[p].1@;
                        assert(has_pair(q, ck, x));
                        lemma_kvs_has_pair(q, ck, x);
                        if ck_canon(x) is None { assert(ck_defect(a.kv)); }
                        else if ck_defect(a.kv) {
                            let y = choose|y: Seq<char>| #[trigger] kv_has_pair(a.kv, ck, y) && ck_canon(y) is None;
                            lemma_kvs_has_pair(q, ck, y);
                            let i = choose|i: int| 0 <= i < q.len() && #[trigger] q[i].0.0@ == ck && q[i].1@ == y;
                            lemma_sorted_unique(q, i, p);
                        }
                    } else if ck_defect(a.kv) {
                        let y = choose|y: Seq<char>| #[trigger] kv_has_pair(a.kv, ck, y) && ck_canon(y) is None;
                        lemma_kvs_has_pair(q, ck, y);
                        let i = choose|i: int| 0 <= i < q.len() && #[trigger] q[i].0.0@ == ck && q[i].1@ == y;
                    }
                } else {
                    match t {
                        PackageType::NuGet => { assert(lower_seq(p0.name@) =~= Seq::<char>::empty()); },
                        PackageType::PyPI => { assert(pypi_norm(p0.name@) =~= Seq::<char>::empty()); },
                        _ => {},
                    }
                    assert(p1.name@.len() == 0);
                }
            }
        }
    }
}

/// a well-formed type other than the seven known ones: UnsupportedType, whatever follows the type
pub proof fn theorem_c05_unknown_type(w: Raw, r: Result<GenericPurl<PackageType>, PackageError>)
    requires raw_ok_gen(w), valid_type(w.ty), sub_fine(w), q_fine(w),
        forall|t: PackageType| lower_ascii_seq(w.ty) != #[trigger] type_name(t),
        parse_post::<PackageType>(text_raw(w), r),
    ensures r == Err::<GenericPurl<PackageType>, PackageError>(PackageError::UnsupportedType)
{
    theorem_raw_phase_a_gen(w);
    theorem_c08_unknown(text_raw(w), r);
}

/// the malformations of a checksum the statement lists: an entry without ':', an algorithm repeated in any letter case, a value
/// with an odd number of digits or a digit that is not hexadecimal -- each makes the canonicalisation fail
pub proof fn lemma_c05_checksum_kinds(x: Seq<char>)
    ensures ({
        let ps = split_spec(x, ',');
        ((exists|i: int| 0 <= i < ps.len() && !piece_ok(#[trigger] ps[i])) ==> ck_canon(x) is None)
        && ((exists|i: int, j: int| 0 <= i < j < ps.len() && piece_key(#[trigger] ps[i]) == piece_key(#[trigger] ps[j])) ==> ck_canon(x) is None)
        && ((exists|i: int| 0 <= i < ps.len() && !hex_ok(piece_val(#[trigger] ps[i]))) ==> ck_canon(x) is None)
    })
{
    let ps = split_spec(x, ',');
    lemma_ck_fold_char(ps);
    if ck_fold(ps) is Some {
        let m = ck_fold(ps)->Some_0;
        if exists|i: int| 0 <= i < ps.len() && !hex_ok(piece_val(#[trigger] ps[i])) {
            let i = choose|i: int| 0 <= i < ps.len() && !hex_ok(piece_val(#[trigger] ps[i]));
            assert(m.contains_key(piece_key(ps[i])) && m[piece_key(ps[i])] == piece_val(ps[i]));
            assert(!all_values_hex(m));
        }
    }
}


// ---- consistency canary: must be REJECTED; if it verifies the assumptions are contradictory ----
pub proof fn verif_canary_must_fail()
{
    axiom_string_from(); broadcast use axiom_ascii_to_lower; axiom_pct('a'); axiom_dec_enc(SetId::Path, seq!['a']); axiom_lower_no_comma('a');
    assert(false);
}

pub proof fn verif_vacuity_c05_raw_must_fail<T: FromStr + PurlShape>(w: Raw, r: Result<GenericPurl<T>, <T as PurlShape>::Error>)
    where <T as PurlShape>::Error: From<<T as FromStr>::Err>
    requires plain_shape::<T>(), raw_ok_gen(w), raw_error(w) is Some, parse_post::<T>(text_raw(w), r),
    ensures false
{ }
pub proof fn verif_vacuity_c05_typed_must_fail(w: Raw, t: PackageType, r: Result<GenericPurl<PackageType>, PackageError>)
    requires raw_ok_gen(w), lower_ascii_seq(w.ty) == type_name(t), raw_error_typed(w, t) is Some, parse_post::<PackageType>(text_raw(w), r),
    ensures false
{ }
pub proof fn verif_vacuity_c05_no_type_must_fail<T: FromStr + PurlShape>(lead: nat, q: Option<Seq<char>>, sub: Option<Seq<char>>, r: Result<GenericPurl<T>, <T as PurlShape>::Error>)
    where <T as PurlShape>::Error: From<<T as FromStr>::Err>
    requires
        (match sub { Some(x) => !has_char(x, '#') && sub_fold(split_spec(trim_spec(x, '/'), '/')) is Some, None => !has_char(opt_pre('?', q), '#') }),
        (match q { Some(x) => !has_char(x, '?') && dq_fold(split_spec(x, '&'), Seq::<(Seq<char>, Seq<char>)>::empty()) is Ok, None => true }),
        parse_post::<T>(text_no_type(lead, q, sub), r),
    ensures false
{ }
pub proof fn verif_vacuity_c05_components_must_fail(w: Raw)
    requires raw_ok_gen(w), valid_type(w.ty), sub_fine(w), q_fine(w), ver_fine(w), ns_fine(w), dec(w.name) is Some, dec(w.name)->Some_0.len() > 0,
        ck_defect(phase_a_raw_gen(w)->Ok_0.kv)
    ensures false
{ }
pub proof fn verif_vacuity_c05_unknown_must_fail(w: Raw, r: Result<GenericPurl<PackageType>, PackageError>)
    requires raw_ok_gen(w), valid_type(w.ty), sub_fine(w), q_fine(w),
        forall|t: PackageType| lower_ascii_seq(w.ty) != #[trigger] type_name(t),
        parse_post::<PackageType>(text_raw(w), r),
    ensures false
{ }
} // verus!
fn main() {}
