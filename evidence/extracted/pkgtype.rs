// GENERATED on every run by vlib/extract.py from /repo -- do not edit
#![allow(unused_imports, unused_variables, unused_mut, dead_code, unused_parens, unused_braces, non_snake_case)]
#![feature(allocator_api)]
use vstd::prelude::*;
use core::cmp::Ordering;
verus! {

// ---- theory: base.rs ----
// Shared vocabulary. Strings are Seq<char>. Everything marked `uninterp` or `external_body` below is an
// ASSUMPTION about std / Unicode; each is listed in the trusted base and replayed against the real std by
// the A step (exhaustively per char, bounded per string).

pub type SmallString = String;   // R0: purl's own `#[cfg(not(feature = "smartstring"))] type SmallString = String;`

// ---- Unicode tables (uninterpreted) ----
pub uninterp spec fn u_to_lower(c: char) -> Seq<char>;      // char::to_lowercase, as a sequence

pub open spec fn is_ascii_c(c: char) -> bool { (c as u32) < 128 }
pub open spec fn ascii_upper_c(c: char) -> bool { 'A' <= c && c <= 'Z' }
pub open spec fn ascii_lower_c(c: char) -> bool { 'a' <= c && c <= 'z' }
pub open spec fn ascii_digit_c(c: char) -> bool { '0' <= c && c <= '9' }
pub open spec fn ascii_alnum_c(c: char) -> bool { ascii_upper_c(c) || ascii_lower_c(c) || ascii_digit_c(c) }
pub open spec fn ascii_hex_c(c: char) -> bool { ascii_digit_c(c) || ('a' <= c && c <= 'f') || ('A' <= c && c <= 'F') }
pub open spec fn ascii_lower(c: char) -> char { if ascii_upper_c(c) { ((c as u32 + 32) as char) } else { c } }

/// Unicode lower-casing of a string: each character replaced by its lower-case mapping (C08 wording).
pub open spec fn lower_seq(s: Seq<char>) -> Seq<char> decreases s.len()
{ if s.len() == 0 { seq![] } else { lower_seq(s.drop_last()) + u_to_lower(s.last()) } }

/// ASCII lower-casing (what make_ascii_lowercase / to_ascii_lowercase do).
pub open spec fn lower_ascii_seq(s: Seq<char>) -> Seq<char> { s.map_values(|c: char| ascii_lower(c)) }

pub open spec fn all_ascii_lower(s: Seq<char>) -> bool { forall|i: int| 0 <= i < s.len() ==> ascii_lower_c(#[trigger] s[i]) }

pub open spec fn has_char(s: Seq<char>, c: char) -> bool { exists|i: int| 0 <= i < s.len() && s[i] == c }

// A-validated fact (exhaustive over all 128 ASCII chars): on ASCII, Unicode lower-casing is ASCII lower-casing.
#[verifier::external_body]
pub broadcast proof fn axiom_ascii_to_lower(c: char)
    requires is_ascii_c(c)
    ensures #[trigger] u_to_lower(c) == seq![ascii_lower(c)]
{ }

// ---- char methods (assumed = their documented ASCII definitions; A: exhaustive over all scalar values) ----
pub assume_specification [char::is_ascii] (c: &char) -> (r: bool) ensures r == is_ascii_c(*c);
pub assume_specification [char::is_ascii_alphanumeric] (c: &char) -> (r: bool) ensures r == ascii_alnum_c(*c);
pub assume_specification [char::is_ascii_lowercase] (c: &char) -> (r: bool) ensures r == ascii_lower_c(*c);
pub assume_specification [char::is_ascii_hexdigit] (c: &char) -> (r: bool) ensures r == ascii_hex_c(*c);
pub assume_specification [char::is_ascii_uppercase] (c: &char) -> (r: bool) ensures r == ascii_upper_c(*c);
pub assume_specification [char::is_ascii_digit] (c: &char) -> (r: bool) ensures r == ascii_digit_c(*c);
pub assume_specification [char::is_ascii_alphabetic] (c: &char) -> (r: bool) ensures r == (ascii_upper_c(*c) || ascii_lower_c(*c));
pub assume_specification [char::to_ascii_lowercase] (c: &char) -> (r: char) ensures r == ascii_lower(*c);

/// byte length of the UTF-8 encoding (uninterpreted; only that it is a function of the text is used)
pub uninterp spec fn utf8_len(s: Seq<char>) -> nat;
pub assume_specification [String::len] (s: &String) -> (r: usize) ensures r == utf8_len(s@);

pub assume_specification [std::string::String::with_capacity] (n: usize) -> (r: String) ensures r@ == Seq::<char>::empty();

// ---- string wrappers (R3): body IS the original call; only the contract is assumed ----
#[verifier::external_body]
pub fn x_make_ascii_lowercase(s: &mut str)
    ensures final(s)@ == lower_ascii_seq(old(s)@)
{ s.make_ascii_lowercase() }

// `&mut String -> &mut str` deref coercion: same text, writes go through.
pub assume_specification [ <String as core::ops::DerefMut>::deref_mut ] (s: &mut String) -> (r: &mut str)
    ensures r@ == old(s)@, final(r)@ == final(s)@;

/// `<[char]>::contains`
#[verifier::external_body]
pub fn x_slice_contains(s: &[char], c: &char) -> (r: bool)
    ensures r == s@.contains(*c)
{ s.contains(c) }

#[verifier::external_body]
pub fn x_to_ascii_lowercase(s: &str) -> (r: String)
    ensures r@ == lower_ascii_seq(s@)
{ s.to_ascii_lowercase() }

/// `s.chars().flat_map(|c| c.to_lowercase()).collect()`
#[verifier::external_body]
pub fn x_lower_collect(s: &str) -> (r: String)
    ensures r@ == lower_seq(s@)
{ s.chars().flat_map(|c| c.to_lowercase()).collect() }

/// `c.to_lowercase().ne([c])`
#[verifier::external_body]
pub fn x_lower_changes(c: char) -> (r: bool)
    ensures r == (u_to_lower(c) != seq![c])
{ c.to_lowercase().ne([c]) }

/// `result.extend(c.to_lowercase())`
#[verifier::external_body]
pub fn x_extend_lower(s: &mut String, c: char)
    ensures final(s)@ == old(s)@ + u_to_lower(c)
{ s.extend(c.to_lowercase()) }

// String::from(&str) / String::from(String) / .into(): vstd ties From::from to FromSpec; the two instances used by
// purl (with SmallString = String) are assumed to copy / move the text.
#[verifier::external_body]
pub proof fn axiom_string_from()
    ensures
        <String as vstd::std_specs::convert::FromSpec<&str>>::obeys_from_spec(),
        forall|s: &str| (#[trigger] <String as vstd::std_specs::convert::FromSpec<&str>>::from_spec(s))@ == s@,
        <String as vstd::std_specs::convert::FromSpec<String>>::obeys_from_spec(),
        forall|s: String| (#[trigger] <String as vstd::std_specs::convert::FromSpec<String>>::from_spec(s)) == s,
{ }

// ---- lemmas over the vocabulary (proved) ----
pub proof fn lemma_lower_seq_identity(s: Seq<char>)
    requires forall|i: int| 0 <= i < s.len() ==> u_to_lower(#[trigger] s[i]) == seq![s[i]]
    ensures lower_seq(s) == s
    decreases s.len()
{
    if s.len() > 0 {
        lemma_lower_seq_identity(s.drop_last());
        assert(s.drop_last().push(s.last()) == s);
        assert(lower_seq(s) =~= s);
    }
}

pub proof fn lemma_lower_seq_ascii(s: Seq<char>)
    requires forall|i: int| 0 <= i < s.len() ==> (u_to_lower(#[trigger] s[i]) != seq![s[i]] ==> is_ascii_c(s[i]))
    ensures lower_seq(s) == lower_ascii_seq(s)
    decreases s.len()
{
    broadcast use axiom_ascii_to_lower;
    if s.len() > 0 {
        lemma_lower_seq_ascii(s.drop_last());
        let c = s.last();
        if is_ascii_c(c) {
            assert(u_to_lower(c) == seq![ascii_lower(c)]);
        } else {
            assert(u_to_lower(c) == seq![c]);
            assert(ascii_lower(c) == c);
        }
        assert(lower_ascii_seq(s.drop_last()) =~= lower_ascii_seq(s).drop_last());
        assert(lower_seq(s) =~= lower_ascii_seq(s));
    } else {
        assert(lower_seq(s) =~= lower_ascii_seq(s));
    }
}

pub proof fn lemma_lower_seq_push(s: Seq<char>, c: char)
    ensures lower_seq(s.push(c)) == lower_seq(s) + u_to_lower(c)
{
    assert(s.push(c).drop_last() == s);
}

pub proof fn lemma_lower_seq_take(s: Seq<char>, k: int)
    requires 0 <= k < s.len()
    ensures lower_seq(s.take(k + 1)) == lower_seq(s.take(k)) + u_to_lower(s[k])
{
    assert(s.take(k + 1).drop_last() == s.take(k));
}

// ---- trimming / splitting vocabulary (defined, so lemmas about it are proved) ----
pub open spec fn trim_start_spec(s: Seq<char>, c: char) -> Seq<char> decreases s.len()
{ if s.len() > 0 && s[0] == c { trim_start_spec(s.subrange(1, s.len() as int), c) } else { s } }
pub open spec fn trim_end_spec(s: Seq<char>, c: char) -> Seq<char> decreases s.len()
{ if s.len() > 0 && s.last() == c { trim_end_spec(s.drop_last(), c) } else { s } }
pub open spec fn trim_spec(s: Seq<char>, c: char) -> Seq<char> { trim_end_spec(trim_start_spec(s, c), c) }
pub open spec fn all_char(s: Seq<char>, c: char) -> bool { forall|i: int| 0 <= i < s.len() ==> #[trigger] s[i] == c }

/// `s.trim_matches(c)` for a char pattern
#[verifier::external_body]
pub fn x_trim_matches<'a>(s: &'a str, c: char) -> (r: &'a str)
    ensures r@ == trim_spec(s@, c)
{ s.trim_matches(c) }

/// `s.trim_start_matches(c)` for a char pattern
#[verifier::external_body]
pub fn x_trim_start_matches<'a>(s: &'a str, c: char) -> (r: &'a str)
    ensures r@ == trim_start_spec(s@, c)
{ s.trim_start_matches(c) }

/// `s.contains(set)` for a `&[char]` pattern
#[verifier::external_body]
pub fn x_str_contains_any(s: &str, set: &[char]) -> (r: bool)
    ensures r == exists|i: int| 0 <= i < s@.len() && set@.contains(#[trigger] s@[i])
{ s.contains(set) }

/// `s.contains(c)` for a char pattern
#[verifier::external_body]
pub fn x_str_contains_char(s: &str, c: char) -> (r: bool)
    ensures r == has_char(s@, c)
{ s.contains(c) }

pub proof fn lemma_trim_start_all(s: Seq<char>, c: char)
    ensures
        all_char(s, c) ==> trim_start_spec(s, c).len() == 0,
        !all_char(s, c) ==> trim_start_spec(s, c).len() > 0 && trim_start_spec(s, c)[0] != c && !all_char(trim_start_spec(s, c), c),
    decreases s.len()
{
    if s.len() > 0 && s[0] == c {
        let t = s.subrange(1, s.len() as int);
        lemma_trim_start_all(t, c);
        if all_char(s, c) {
            assert forall|i: int| 0 <= i < t.len() implies #[trigger] t[i] == c by { assert(t[i] == s[i + 1]); }
        } else {
            let j = choose|j: int| 0 <= j < s.len() && s[j] != c;
            assert(t[j - 1] == s[j]);
        }
    } else if s.len() > 0 {
        assert(s[0] != c);
    }
}

pub proof fn lemma_trim_end_all(s: Seq<char>, c: char)
    ensures
        all_char(s, c) ==> trim_end_spec(s, c).len() == 0,
        !all_char(s, c) ==> trim_end_spec(s, c).len() > 0,
    decreases s.len()
{
    if s.len() > 0 && s.last() == c {
        let t = s.drop_last();
        lemma_trim_end_all(t, c);
        if !all_char(s, c) {
            let j = choose|j: int| 0 <= j < s.len() && s[j] != c;
            assert(t[j] == s[j]);
        }
    } else if s.len() > 0 {
        assert(s[s.len() - 1] != c);
    }
}

/// trimming leaves nothing exactly when the string consists of the trimmed character only
pub proof fn lemma_trim_empty_iff_all(s: Seq<char>, c: char)
    ensures (trim_spec(s, c).len() == 0) == all_char(s, c)
{
    lemma_trim_start_all(s, c);
    lemma_trim_end_all(trim_start_spec(s, c), c);
}

pub proof fn lemma_lower_ascii_fixed(s: Seq<char>)
    requires forall|i: int| 0 <= i < s.len() ==> !ascii_upper_c(#[trigger] s[i])
    ensures lower_ascii_seq(s) == s
{
    assert(lower_ascii_seq(s) =~= s);
}

// ---- idempotence of lower-casing (C10, C12) ----
/// A-validated (exhaustive over all scalar values): lower-casing the lower-case mapping of a char changes nothing
#[verifier::external_body]
pub proof fn axiom_lower_idem_char(c: char)
    ensures lower_seq(u_to_lower(c)) == u_to_lower(c)
{ }

pub proof fn lemma_lower_seq_concat(a: Seq<char>, b: Seq<char>)
    ensures lower_seq(a + b) == lower_seq(a) + lower_seq(b)
    decreases b.len()
{
    if b.len() == 0 {
        assert(a + b =~= a);
        assert(lower_seq(a) + lower_seq(b) =~= lower_seq(a));
    } else {
        assert((a + b).drop_last() =~= a + b.drop_last());
        assert((a + b).last() == b.last());
        lemma_lower_seq_concat(a, b.drop_last());
        assert(lower_seq(a + b) =~= lower_seq(a) + lower_seq(b));
    }
}

/// lower-casing is a projection: applying it twice is applying it once
pub proof fn lemma_lower_seq_idem(s: Seq<char>)
    ensures lower_seq(lower_seq(s)) == lower_seq(s)
    decreases s.len()
{
    if s.len() > 0 {
        lemma_lower_seq_idem(s.drop_last());
        axiom_lower_idem_char(s.last());
        lemma_lower_seq_concat(lower_seq(s.drop_last()), u_to_lower(s.last()));
    }
}

// A-validated per char (exhaustive over all scalar values): lower-casing never yields the empty string
#[verifier::external_body]
pub proof fn axiom_lower_nonempty(c: char)
    ensures u_to_lower(c).len() > 0
{ }

// ---- unit T.PurlField  <= purl/src/parse.rs:112 ----
#[derive(Debug, Clone, Copy)]
pub enum PurlField {
    PackageType,
    Namespace,
    Name,
    Version,
    Subpath,
}
// ---- unit T.ParseError  <= purl/src/parse.rs:17 ----
#[derive(Debug)]
pub enum ParseError {
    UnsupportedUrlScheme,
    MissingRequiredField(PurlField),
    InvalidPackageType,
    InvalidQualifier,
    InvalidEscape,
}
// ---- unit T.QualifierKey  <= purl/src/qualifiers.rs:319 ----
pub struct QualifierKey(pub SmallString);
// ---- unit T.Qualifiers  <= purl/src/qualifiers.rs:21 ----
pub struct Qualifiers {
    pub qualifiers: Vec<(QualifierKey, SmallString)>,
}
// ---- unit T.PurlParts  <= purl/src/lib.rs:212 ----
pub struct PurlParts {
    pub namespace: SmallString,
    pub name: SmallString,
    pub version: SmallString,
    pub qualifiers: Qualifiers,
    pub subpath: SmallString,
}
// ---- unit T.PackageType  <= purl/src/package_type.rs:143 ----
#[derive(Clone, Copy)]
pub enum PackageType {
    Cargo,
    Gem,
    Golang,
    Maven,
    Npm,
    NuGet,
    PyPI,
}
// ---- unit T.PackageError  <= purl/src/package_type.rs:212 ----
pub enum PackageError {
    MissingRequiredField(PurlField),
    Parse( ParseError),
    UnsupportedType,
}
// ---- unit theory.qualkeys  <= (contracts):0 ----
// ---- qualifier keys (C04, C05, C11: ASCII letters, digits, '.', '-', '_'; non-empty) ----
pub open spec fn key_char(c: char) -> bool { ascii_alnum_c(c) || c == '.' || c == '-' || c == '_' }
pub open spec fn valid_key(s: Seq<char>) -> bool { s.len() > 0 && forall|i: int| 0 <= i < s.len() ==> key_char(#[trigger] s[i]) }
/// canonical stored form: valid and free of ASCII upper-case
pub open spec fn canon_key(s: Seq<char>) -> bool { valid_key(s) && forall|i: int| 0 <= i < s.len() ==> !ascii_upper_c(#[trigger] s[i]) }

// ---- lexicographic order on Seq<char> by scalar value (= byte-wise order of the UTF-8 text, = str::cmp) ----
pub open spec fn lex_cmp(a: Seq<char>, b: Seq<char>) -> Ordering decreases a.len()
{
    if a.len() == 0 { if b.len() == 0 { Ordering::Equal } else { Ordering::Less } }
    else if b.len() == 0 { Ordering::Greater }
    else if (a[0] as u32) < (b[0] as u32) { Ordering::Less }
    else if (a[0] as u32) > (b[0] as u32) { Ordering::Greater }
    else { lex_cmp(a.subrange(1, a.len() as int), b.subrange(1, b.len() as int)) }
}
pub open spec fn str_lt(a: Seq<char>, b: Seq<char>) -> bool { lex_cmp(a, b) is Less }

pub proof fn lemma_lex_eq(a: Seq<char>, b: Seq<char>)
    ensures (lex_cmp(a, b) is Equal) == (a == b)
    decreases a.len()
{
    if a.len() > 0 && b.len() > 0 {
        if a[0] == b[0] {
            lemma_lex_eq(a.subrange(1, a.len() as int), b.subrange(1, b.len() as int));
            if a.subrange(1, a.len() as int) == b.subrange(1, b.len() as int) {
                assert(a =~= seq![a[0]] + a.subrange(1, a.len() as int));
                assert(b =~= seq![b[0]] + b.subrange(1, b.len() as int));
            }
        } else {
            assert((a[0] as u32) != (b[0] as u32));
        }
    } else {
        assert((a == b) == (a.len() == 0 && b.len() == 0)) by { if a.len() == 0 && b.len() == 0 { assert(a =~= b); } }
    }
}

pub proof fn lemma_lex_flip(a: Seq<char>, b: Seq<char>)
    ensures
        (lex_cmp(a, b) is Less) == (lex_cmp(b, a) is Greater),
        (lex_cmp(a, b) is Greater) == (lex_cmp(b, a) is Less),
    decreases a.len()
{
    if a.len() > 0 && b.len() > 0 && a[0] == b[0] {
        lemma_lex_flip(a.subrange(1, a.len() as int), b.subrange(1, b.len() as int));
    }
}

pub proof fn lemma_lex_trans(a: Seq<char>, b: Seq<char>, c: Seq<char>)
    requires str_lt(a, b), str_lt(b, c)
    ensures str_lt(a, c)
    decreases a.len()
{
    if a.len() > 0 && b.len() > 0 && c.len() > 0 && a[0] == b[0] && b[0] == c[0] {
        lemma_lex_trans(a.subrange(1, a.len() as int), b.subrange(1, b.len() as int), c.subrange(1, c.len() as int));
    }
}

pub proof fn lemma_lt_irrefl(a: Seq<char>)
    ensures !str_lt(a, a)
{
    lemma_lex_eq(a, a);
}

// ---- the representation invariant of Qualifiers (C04, C11): keys canonical, strictly ascending ----
pub open spec fn keys_sorted(v: Seq<(QualifierKey, SmallString)>) -> bool {
    forall|i: int, j: int| 0 <= i < j < v.len() ==> str_lt(#[trigger] v[i].0.0@, #[trigger] v[j].0.0@)
}
pub open spec fn keys_canon(v: Seq<(QualifierKey, SmallString)>) -> bool {
    forall|i: int| 0 <= i < v.len() ==> canon_key(#[trigger] v[i].0.0@)
}
pub open spec fn wf_seq(v: Seq<(QualifierKey, SmallString)>) -> bool { keys_sorted(v) && keys_canon(v) }

/// abstract content: key text -> value text (a function of the sequence; unique positions because keys are strictly ascending)
pub open spec fn has_key(v: Seq<(QualifierKey, SmallString)>, k: Seq<char>) -> bool {
    exists|i: int| 0 <= i < v.len() && #[trigger] v[i].0.0@ == k
}
pub open spec fn has_pair(v: Seq<(QualifierKey, SmallString)>, k: Seq<char>, val: Seq<char>) -> bool {
    exists|i: int| 0 <= i < v.len() && #[trigger] v[i].0.0@ == k && v[i].1@ == val
}

pub proof fn lemma_sorted_unique(v: Seq<(QualifierKey, SmallString)>, i: int, j: int)
    requires keys_sorted(v), 0 <= i < v.len(), 0 <= j < v.len(), v[i].0.0@ == v[j].0.0@
    ensures i == j
{
    lemma_lt_irrefl(v[i].0.0@);
    if i < j { assert(str_lt(v[i].0.0@, v[j].0.0@)); }
    if j < i { assert(str_lt(v[j].0.0@, v[i].0.0@)); }
}

/// the position of key `k` in a strictly ascending list = number of keys smaller than `k` (names the witness, so
/// whole-content postconditions need no existential)
pub open spec fn pos_of(v: Seq<(QualifierKey, SmallString)>, k: Seq<char>) -> int decreases v.len()
{
    if v.len() == 0 { 0 } else { pos_of(v.drop_last(), k) + if str_lt(v.last().0.0@, k) { 1int } else { 0int } }
}

pub proof fn lemma_pos_of(v: Seq<(QualifierKey, SmallString)>, k: Seq<char>, i: int)
    requires 0 <= i <= v.len(),
        forall|j: int| 0 <= j < i ==> str_lt(#[trigger] v[j].0.0@, k),
        forall|j: int| i <= j < v.len() ==> !str_lt(#[trigger] v[j].0.0@, k),
    ensures pos_of(v, k) == i
    decreases v.len()
{
    if v.len() > 0 {
        let w = v.drop_last();
        if i == v.len() {
            assert forall|j: int| 0 <= j < i - 1 implies str_lt(#[trigger] w[j].0.0@, k) by { assert(w[j] == v[j]); }
            lemma_pos_of(w, k, i - 1);
            assert(str_lt(v[v.len() - 1].0.0@, k));
        } else {
            assert forall|j: int| 0 <= j < i implies str_lt(#[trigger] w[j].0.0@, k) by { assert(w[j] == v[j]); }
            assert forall|j: int| i <= j < w.len() implies !str_lt(#[trigger] w[j].0.0@, k) by { assert(w[j] == v[j]); }
            lemma_pos_of(w, k, i);
            assert(!str_lt(v[v.len() - 1].0.0@, k));
        }
    }
}

pub proof fn lemma_lt_asym(a: Seq<char>, b: Seq<char>)
    requires str_lt(a, b)
    ensures !str_lt(b, a)
{
    lemma_lex_flip(a, b);
}

/// in a strictly ascending list, the value paired with key `k` is the one at `pos_of(k)`
pub proof fn lemma_has_pair_pos(v: Seq<(QualifierKey, SmallString)>, k: Seq<char>)
    requires keys_sorted(v)
    ensures forall|val: Seq<char>| has_pair(v, k, val) ==> 0 <= pos_of(v, k) < v.len() && v[pos_of(v, k)].0.0@ == k && v[pos_of(v, k)].1@ == val
{
    assert forall|val: Seq<char>| has_pair(v, k, val) implies 0 <= pos_of(v, k) < v.len() && v[pos_of(v, k)].0.0@ == k && v[pos_of(v, k)].1@ == val by {
        let i = choose|i: int| 0 <= i < v.len() && #[trigger] v[i].0.0@ == k && v[i].1@ == val;
        assert forall|j: int| 0 <= j < i implies str_lt(#[trigger] v[j].0.0@, k) by { assert(str_lt(v[j].0.0@, v[i].0.0@)); }
        assert forall|j: int| i <= j < v.len() implies !str_lt(#[trigger] v[j].0.0@, k) by {
            if j == i { lemma_lt_irrefl(k); } else { assert(str_lt(v[i].0.0@, v[j].0.0@)); lemma_lt_asym(k, v[j].0.0@); }
        }
        lemma_pos_of(v, k, i);
    }
}

// ---- unit theory.types  <= (contracts):0 ----
// ---- R9: stub of std::borrow::Cow for B = str (two variants, same names) ----
pub enum Cow<'a, B: ?Sized> { Borrowed(&'a B), Owned(String) }

impl<'a> View for Cow<'a, str> {
    type V = Seq<char>;
    open spec fn view(&self) -> Seq<char> {
        match self { Cow::Borrowed(b) => b@, Cow::Owned(o) => o@ }
    }
}

impl<'a> core::ops::Deref for Cow<'a, str> {
    type Target = str;
    fn deref(&self) -> (r: &str)
        ensures r@ == self@
    {
        match self { Cow::Borrowed(b) => b, Cow::Owned(o) => o.as_str() }
    }
}

// R9: `String: From<Cow<str>>` for the stub Cow (std: the owned text, or a copy of the borrowed text)
pub uninterp spec fn string_of_cow<'a>(c: Cow<'a, str>) -> String;
#[verifier::external_body]
pub broadcast proof fn axiom_string_of_cow<'a>(c: Cow<'a, str>)
    ensures (#[trigger] string_of_cow(c))@ == c@
{ }
impl<'a> vstd::std_specs::convert::FromSpecImpl<Cow<'a, str>> for String {
    open spec fn obeys_from_spec() -> bool { true }
    open spec fn from_spec(c: Cow<'a, str>) -> String { string_of_cow(c) }
}
impl<'a> From<Cow<'a, str>> for String {
    #[verifier::external_body]
    fn from(c: Cow<'a, str>) -> (r: String)
    { match c { Cow::Borrowed(b) => b.to_string(), Cow::Owned(o) => o } }
}

// ---- vocabulary for package types (written from C02/C04/C05: letters, digits, '.', '+', '-'; non-empty) ----
pub open spec fn type_char(c: char) -> bool { ascii_alnum_c(c) || c == '.' || c == '+' || c == '-' }
pub open spec fn valid_type(s: Seq<char>) -> bool { s.len() > 0 && forall|i: int| 0 <= i < s.len() ==> type_char(#[trigger] s[i]) }

/// What every built-in string-like shape must do in `finish` (C04, C13): validate, then ASCII-lower-case; parts untouched.
pub open spec fn shape_rel(t0: Seq<char>, p0: PurlParts, t1: Seq<char>, p1: PurlParts, r: Result<(), ParseError>) -> bool {
    p1 == p0
    && (valid_type(t0) ==> r is Ok && t1 == lower_ascii_seq(t0))
    && (!valid_type(t0) ==> r == Err::<(), ParseError>(ParseError::InvalidPackageType))
}


/// C10 / C13 (type string): validating and ASCII-lower-casing twice is doing it once
pub proof fn lemma_shape_idem(t0: Seq<char>, p0: PurlParts, t1: Seq<char>, p1: PurlParts, t2: Seq<char>, p2: PurlParts, r2: Result<(), ParseError>)
    requires shape_rel(t0, p0, t1, p1, Ok::<(), ParseError>(())), shape_rel(t1, p1, t2, p2, r2)
    ensures r2 is Ok, t2 == t1, p2 == p1
{
    assert(valid_type(t0));
    let l = lower_ascii_seq(t0);
    assert(t1 == l);
    assert forall|i: int| 0 <= i < l.len() implies type_char(#[trigger] l[i]) && !ascii_upper_c(l[i]) by { assert(type_char(t0[i])); }
    assert(valid_type(l));
    lemma_lower_ascii_fixed(l);
}

// ---- unit theory.pkgtype  <= (contracts):0 ----
// ---- vocabulary for the package-type rules, written from C08's wording ----
pub open spec fn dash(c: char) -> bool { c == '-' || c == '_' || c == '.' }

/// "lower-cased with every maximal run of '-', '_' and '.' replaced by a single '-'"
pub open spec fn pypi_norm(s: Seq<char>) -> Seq<char> decreases s.len() {
    if s.len() == 0 { seq![] }
    else if dash(s.last()) {
        if s.len() >= 2 && dash(s[s.len() - 2]) { pypi_norm(s.drop_last()) } else { pypi_norm(s.drop_last()).push('-') }
    } else { pypi_norm(s.drop_last()) + u_to_lower(s.last()) }
}

pub proof fn lemma_pypi_no_dash(s: Seq<char>)
    requires forall|i: int| 0 <= i < s.len() ==> !dash(#[trigger] s[i])
    ensures pypi_norm(s) == lower_seq(s)
    decreases s.len()
{
    if s.len() > 0 { lemma_pypi_no_dash(s.drop_last()); }
}

pub open spec fn type_name(t: PackageType) -> Seq<char> {
    match t {
        PackageType::Cargo => seq!['c', 'a', 'r', 'g', 'o'],
        PackageType::Gem => seq!['g', 'e', 'm'],
        PackageType::Golang => seq!['g', 'o', 'l', 'a', 'n', 'g'],
        PackageType::Maven => seq!['m', 'a', 'v', 'e', 'n'],
        PackageType::Npm => seq!['n', 'p', 'm'],
        PackageType::NuGet => seq!['n', 'u', 'g', 'e', 't'],
        PackageType::PyPI => seq!['p', 'y', 'p', 'i'],
    }
}

/// What PackageType::finish may do (C08): the per-type name rule, the maven namespace rule, nothing else touched.
pub open spec fn pkg_finish_rel(t0: PackageType, p0: PurlParts, t1: PackageType, p1: PurlParts, r: Result<(), PackageError>) -> bool {
    t1 == t0
    && p1.namespace == p0.namespace && p1.version == p0.version && p1.qualifiers == p0.qualifiers && p1.subpath == p0.subpath
    && match t0 {
        PackageType::Maven =>
            if all_char(p0.namespace@, '/') { r == Err::<(), PackageError>(PackageError::MissingRequiredField(PurlField::Namespace)) }
            else { r is Ok && p1.name == p0.name },
        PackageType::NuGet => r is Ok && p1.name@ == lower_seq(p0.name@),
        PackageType::PyPI => r is Ok && p1.name@ == pypi_norm(p0.name@),
        _ => r is Ok && p1.name == p0.name,
    }
}

/// `Cow::from(&'static str)` (std: `Cow::Borrowed(s)`), for the stub Cow
pub fn x_cow_from_str<'a>(s: &'a str) -> (r: Cow<'a, str>)
    ensures r@ == s@
{ Cow::Borrowed(s) }

// R9: what thiserror's `#[from]` on `PackageError::Parse` generates (derive semantics, assumed)
impl vstd::std_specs::convert::FromSpecImpl<ParseError> for PackageError {
    open spec fn obeys_from_spec() -> bool { true }
    open spec fn from_spec(e: ParseError) -> Self { PackageError::Parse(e) }
}
impl From<ParseError> for PackageError {
    fn from(e: ParseError) -> (r: Self)
    { PackageError::Parse(e) }
}

// ---- the static name table (C15) ----
/// a table entry: a key text mapped to a variant; the entries are exactly the (name, variant) pairs
pub open spec fn table_entry(k: Seq<char>, t: PackageType) -> bool { k == type_name(t) }
pub open spec fn table_has(t: PackageType) -> bool { table_entry(type_name(t), t) }

/// `PACKAGE_TYPES.get(&UniCase::new(s)).copied()`: ASSUMED contract of phf + unicase for a table whose keys are the variant
/// names (proved entry by entry in package_types_table): a hit means the probe equals that key ignoring ASCII case, and every
/// probe that equals a key ignoring ASCII case hits. (B: all 192 case variants, look-alikes and one-edit neighbours.)
#[verifier::external_body]
pub fn x_table_lookup(s: &str) -> (r: Option<PackageType>)
    ensures
        r is Some ==> lower_ascii_seq(s@) == type_name(r->Some_0),
        (exists|t: PackageType| lower_ascii_seq(s@) == type_name(t)) ==> r is Some,
{ unimplemented!() }

// ---- unit T.PurlShape  <= purl/src/lib.rs:111 ----
pub trait PurlShape: Sized {
    type Error: From<ParseError>;
    spec fn type_text(&self) -> Seq<char>;
    fn package_type(&self) -> (r: Cow<str>)
        ensures r@ == self.type_text();
    spec fn finish_rel(t0: Self, p0: PurlParts, t1: Self, p1: PurlParts, r: Result<(), Self::Error>) -> bool;
    fn finish(&mut self, parts: &mut PurlParts) -> (r: Result<(), Self::Error>)
        ensures Self::finish_rel(*old(self), *old(parts), *final(self), *final(parts), r),
            // the hook can only reach the qualifier list through its public API, every mutator of which is
            // proved to preserve the representation invariant (group `qual`); assumed for user-written hooks
            wf_seq(old(parts).qualifiers.qualifiers@) ==> wf_seq(final(parts).qualifiers.qualifiers@);
}
// ---- unit U-lower.lowercase_in_place  <= purl/src/lib.rs:390 ----
#[verifier::external_body]
pub fn lowercase_in_place(s: &mut SmallString)
    ensures final(s)@ == lower_seq(old(s)@)
{ unimplemented!() }
// ---- unit U-pypi.fix_pypi_name  <= purl/src/package_type.rs:271 ----
exec const DASH_CHARACTERS: &'static [char] ensures DASH_CHARACTERS@ =~= seq!['-', '_', '.'] { &['-', '_', '.'] }
pub fn fix_pypi_name(name: &mut SmallString)
    ensures final(name)@ == pypi_norm(old(name)@)
{
    
    if x_str_contains_any(name.as_str(), DASH_CHARACTERS) {
        let mut result = SmallString::new();
        let mut in_dash = false;
        for c in it: name.chars() 

    invariant
        name@ == old(name)@, it.seq() == name@,
        result@ == pypi_norm(name@.take(it.index@ as int)),
        in_dash == (it.index@ > 0 && dash(name@[it.index@ - 1])),
{
            
            proof {
                let nxt = name@.take(it.index@ + 1);
                assert(nxt.drop_last() == name@.take(it.index@ as int));
                assert(nxt.last() == c);
                if it.index@ > 0 { assert(nxt[nxt.len() - 2] == name@[it.index@ - 1]); }
            }
if x_slice_contains(DASH_CHARACTERS, &c) {
                if !in_dash {
                    result.push('-');
                    in_dash = true;
                }
            } else {
                in_dash = false;
                x_extend_lower(&mut result, c);
            }
        }
        
        proof { assert(name@.take(name@.len() as int) == name@); }
*name = result;
    } else {
        
        proof { lemma_pypi_no_dash(name@); }
lowercase_in_place(name)
    }
}
impl PackageType {
// ---- unit U-ptname.name  <= purl/src/package_type.rs:166 ----
pub const fn name(&self) -> (r: &'static str)
        ensures r@ == type_name(*self)
{
        proof { reveal_strlit("cargo"); reveal_strlit("gem"); reveal_strlit("golang"); reveal_strlit("maven");
                reveal_strlit("npm"); reveal_strlit("nuget"); reveal_strlit("pypi"); }

        match self {
            PackageType::Cargo => "cargo",
            PackageType::Gem => "gem",
            PackageType::Golang => "golang",
            PackageType::Maven => "maven",
            PackageType::Npm => "npm",
            PackageType::NuGet => "nuget",
            PackageType::PyPI => "pypi",
        }
    }
}
// ---- unit U-ptname.table  <= purl/src/package_type.rs:153 ----
pub proof fn package_types_table()
    ensures forall|t: PackageType| #[trigger] table_has(t)
{
    let mut seen: Set<PackageType> = Set::empty();
        reveal_strlit("cargo"); assert("cargo"@ =~= type_name(PackageType::Cargo)); assert(table_entry("cargo"@, PackageType::Cargo)); seen = seen.insert(PackageType::Cargo);
        reveal_strlit("gem"); assert("gem"@ =~= type_name(PackageType::Gem)); assert(table_entry("gem"@, PackageType::Gem)); seen = seen.insert(PackageType::Gem);
        reveal_strlit("golang"); assert("golang"@ =~= type_name(PackageType::Golang)); assert(table_entry("golang"@, PackageType::Golang)); seen = seen.insert(PackageType::Golang);
        reveal_strlit("maven"); assert("maven"@ =~= type_name(PackageType::Maven)); assert(table_entry("maven"@, PackageType::Maven)); seen = seen.insert(PackageType::Maven);
        reveal_strlit("npm"); assert("npm"@ =~= type_name(PackageType::Npm)); assert(table_entry("npm"@, PackageType::Npm)); seen = seen.insert(PackageType::Npm);
        reveal_strlit("nuget"); assert("nuget"@ =~= type_name(PackageType::NuGet)); assert(table_entry("nuget"@, PackageType::NuGet)); seen = seen.insert(PackageType::NuGet);
        reveal_strlit("pypi"); assert("pypi"@ =~= type_name(PackageType::PyPI)); assert(table_entry("pypi"@, PackageType::PyPI)); seen = seen.insert(PackageType::PyPI);
    assert forall|t: PackageType| #[trigger] table_has(t) by {
        match t {
            PackageType::Cargo => { assert(seen.contains(PackageType::Cargo)); },
            PackageType::Gem => { assert(seen.contains(PackageType::Gem)); },
            PackageType::Golang => { assert(seen.contains(PackageType::Golang)); },
            PackageType::Maven => { assert(seen.contains(PackageType::Maven)); },
            PackageType::Npm => { assert(seen.contains(PackageType::Npm)); },
            PackageType::NuGet => { assert(seen.contains(PackageType::NuGet)); },
            PackageType::PyPI => { assert(seen.contains(PackageType::PyPI)); },
        }
    }
}
// ---- unit theory.formatter  <= (contracts):0 ----
// ---- R9: stub of fmt::Formatter (ghost output) and of the escape sets; the canonical shape written from C03 ----
#[verifier::external_body]
pub struct Formatter { _p: core::marker::PhantomData<u8> }
impl Formatter { pub uninterp spec fn out(&self) -> Seq<char>; }
pub struct FmtError;
pub type FmtResult = Result<(), FmtError>;

#[verifier::external_body]
pub fn x_write_str(f: &mut Formatter, s: &str) -> (r: FmtResult)
    ensures r is Ok ==> final(f).out() == old(f).out() + s@
{ unimplemented!() }

// ---- unit U-ptname.into_str  <= purl/src/package_type.rs:180 ----
pub fn package_type_into_str(value: PackageType) -> (r: &'static str)
    ensures r@ == type_name(value)
{
        value.name()
    }
// ---- unit U-ptname.as_ref  <= purl/src/package_type.rs:186 ----
pub fn package_type_as_ref(this: &PackageType) -> (r: &str)
    ensures r@ == type_name(*this)
{
        this.name()
    }
// ---- unit U-ptname.display  <= purl/src/package_type.rs:192 ----
pub fn package_type_fmt(this: &PackageType, f: &mut Formatter) -> (r: FmtResult)
    ensures r is Ok ==> final(f).out() == old(f).out() + type_name(*this)
{
        x_write_str(f, this.name())
    }
// ---- unit T.UnsupportedPackageType  <= purl/src/package_type.rs:200 ----
pub struct UnsupportedPackageType;
// ---- unit U-ptname.from_str  <= purl/src/package_type.rs:205 ----
pub fn package_type_from_str(s: &str) -> (r: Result<PackageType, UnsupportedPackageType>)
    ensures
        r is Ok ==> lower_ascii_seq(s@) == type_name(r->Ok_0),
        (exists|t: PackageType| lower_ascii_seq(s@) == type_name(t)) ==> r is Ok
{
        x_table_lookup(s).ok_or(UnsupportedPackageType)
    }
impl PurlShape for PackageType {
// ---- unit spec.PackageType  <= (contracts):0 ----
    type Error = PackageError;
    open spec fn type_text(&self) -> Seq<char> { type_name(*self) }
    open spec fn finish_rel(t0: Self, p0: PurlParts, t1: Self, p1: PurlParts, r: Result<(), PackageError>) -> bool {
        pkg_finish_rel(t0, p0, t1, p1, r)
    }
// ---- unit U-ptname.package_type  <= purl/src/package_type.rs:246 ----
fn package_type(&self) -> (r: Cow<str>)
{
        x_cow_from_str(self.name())
    }
// ---- unit U-ptfin.finish  <= purl/src/package_type.rs:250 ----
fn finish(&mut self, parts: &mut PurlParts) -> (r: Result<(), Self::Error>)
{
        proof { lemma_trim_empty_iff_all(parts.namespace@, '/'); }

        match self {
            PackageType::Cargo | PackageType::Gem | PackageType::Npm | PackageType::Golang => {},
            PackageType::Maven => {
                if x_trim_matches(parts.namespace.as_str(), '/').is_empty() {
                    return Err(PackageError::MissingRequiredField(PurlField::Namespace));
                }
            },
            PackageType::NuGet => {
                lowercase_in_place(&mut parts.name);
            },
            PackageType::PyPI => {
                fix_pypi_name(&mut parts.name);
            },
        }
        Ok(())
    }
}
// ---- property lemmas ----
// ---- C10: the pypi rule is a projection (pypi_norm(pypi_norm(s)) == pypi_norm(s)) ----
// A-validated per char (exhaustive over all scalar values):
// (axiom_lower_nonempty: see base.rs)
#[verifier::external_body]
pub proof fn axiom_lower_no_dash(c: char)
    requires !dash(c)
    ensures forall|i: int| 0 <= i < u_to_lower(c).len() ==> !dash(#[trigger] u_to_lower(c)[i])
{ }

/// forward formulation of the rule: `d` = "the previous input character was one of - _ ."
pub open spec fn pn(d: bool, s: Seq<char>) -> Seq<char> decreases s.len() {
    if s.len() == 0 { Seq::<char>::empty() }
    else if dash(s[0]) { (if d { Seq::<char>::empty() } else { seq!['-'] }) + pn(true, s.subrange(1, s.len() as int)) }
    else { u_to_lower(s[0]) + pn(false, s.subrange(1, s.len() as int)) }
}
pub open spec fn no_dash(s: Seq<char>) -> bool { forall|i: int| 0 <= i < s.len() ==> !dash(#[trigger] s[i]) }
pub open spec fn end_state(d: bool, s: Seq<char>) -> bool { if s.len() == 0 { d } else { dash(s.last()) } }

pub proof fn lemma_pn_snoc(d: bool, s: Seq<char>, c: char)
    ensures pn(d, s.push(c)) == pn(d, s) + (if dash(c) { if end_state(d, s) { Seq::<char>::empty() } else { seq!['-'] } } else { u_to_lower(c) })
    decreases s.len()
{
    let t = s.push(c);
    if s.len() == 0 {
        let e = t.subrange(1, t.len() as int);
        assert(e.len() == 0);
        assert(pn(true, e) =~= Seq::<char>::empty());
        assert(pn(false, e) =~= Seq::<char>::empty());
        assert(pn(d, s) =~= Seq::<char>::empty());
        assert(t[0] == c);
        assert(pn(d, t) =~= pn(d, s) + (if dash(c) { if d { Seq::<char>::empty() } else { seq!['-'] } } else { u_to_lower(c) }));
    } else {
        let s1 = s.subrange(1, s.len() as int);
        assert(t.subrange(1, t.len() as int) =~= s1.push(c));
        let d1 = dash(s[0]);
        lemma_pn_snoc(d1, s1, c);
        assert(end_state(d1, s1) == end_state(d, s)) by { if s1.len() > 0 { assert(s1.last() == s.last()); } }
        assert(t[0] == s[0]);
        assert(pn(d, t) =~= pn(d, s) + (if dash(c) { if end_state(d, s) { Seq::<char>::empty() } else { seq!['-'] } } else { u_to_lower(c) }));
    }
}

/// the statement-level definition (look-behind) and the forward one agree
pub proof fn lemma_pypi_norm_is_pn(s: Seq<char>)
    ensures pypi_norm(s) == pn(false, s)
    decreases s.len()
{
    if s.len() > 0 {
        let init = s.drop_last();
        lemma_pypi_norm_is_pn(init);
        lemma_pn_snoc(false, init, s.last());
        assert(init.push(s.last()) =~= s);
        if init.len() > 0 { assert(init.last() == s[s.len() - 2]); }
        if dash(s.last()) && !(s.len() >= 2 && dash(s[s.len() - 2])) {
            assert(pypi_norm(init).push('-') =~= pypi_norm(init) + seq!['-']);
        }
        assert(pypi_norm(init) + Seq::<char>::empty() =~= pypi_norm(init));
    }
}

pub proof fn lemma_pn_block(d: bool, l: Seq<char>, y: Seq<char>)
    requires no_dash(l), l.len() > 0
    ensures pn(d, l + y) == lower_seq(l) + pn(false, y)
    decreases l.len()
{
    let t = l + y;
    assert(t[0] == l[0]);
    let l1 = l.subrange(1, l.len() as int);
    assert(t.subrange(1, t.len() as int) =~= l1 + y);
    assert(l =~= seq![l[0]] + l1);
    lemma_lower_seq_concat(seq![l[0]], l1);
    assert(lower_seq(seq![l[0]]) =~= u_to_lower(l[0])) by {
        assert(seq![l[0]].drop_last() =~= Seq::<char>::empty());
        assert(lower_seq(Seq::<char>::empty()) =~= Seq::<char>::empty());
    }
    if l1.len() == 0 {
        assert(l1 + y =~= y);
        assert(lower_seq(l1) =~= Seq::<char>::empty());
        assert(pn(d, t) =~= lower_seq(l) + pn(false, y));
    } else {
        assert forall|i: int| 0 <= i < l1.len() implies !dash(#[trigger] l1[i]) by { assert(l1[i] == l[i + 1]); }
        lemma_pn_block(false, l1, y);
        assert(pn(d, t) =~= lower_seq(l) + pn(false, y));
    }
}

pub proof fn lemma_pn_idem(d: bool, s: Seq<char>)
    ensures pn(d, pn(d, s)) == pn(d, s)
    decreases s.len()
{
    if s.len() > 0 {
        let rest = s.subrange(1, s.len() as int);
        if dash(s[0]) {
            lemma_pn_idem(true, rest);
            if !d {
                let x = pn(true, rest);
                let o = seq!['-'] + x;
                assert(o[0] == '-');
                assert(o.subrange(1, o.len() as int) =~= x);
                assert(pn(false, o) =~= seq!['-'] + pn(true, x));
            } else {
                assert(Seq::<char>::empty() + pn(true, rest) =~= pn(true, rest));
            }
        } else {
            lemma_pn_idem(false, rest);
            let l = u_to_lower(s[0]);
            axiom_lower_nonempty(s[0]);
            axiom_lower_no_dash(s[0]);
            axiom_lower_idem_char(s[0]);
            lemma_pn_block(d, l, pn(false, rest));
        }
    }
}

/// C10: normalising a pypi name twice is normalising it once
pub proof fn lemma_pypi_norm_idem(s: Seq<char>)
    ensures pypi_norm(pypi_norm(s)) == pypi_norm(s)
{
    lemma_pypi_norm_is_pn(s);
    lemma_pypi_norm_is_pn(pypi_norm(s));
    lemma_pn_idem(false, s);
}

/// C10 (type rules): applying PackageType's hook to its own output succeeds and changes nothing observable
pub proof fn lemma_pkg_finish_idem(t0: PackageType, p0: PurlParts, t1: PackageType, p1: PurlParts, t2: PackageType, p2: PurlParts, r2: Result<(), PackageError>)
    requires pkg_finish_rel(t0, p0, t1, p1, Ok::<(), PackageError>(())), pkg_finish_rel(t1, p1, t2, p2, r2)
    ensures r2 is Ok, t2 == t1, p2.name@ == p1.name@, p2.namespace == p1.namespace, p2.version == p1.version,
        p2.qualifiers == p1.qualifiers, p2.subpath == p1.subpath
{
    match t0 {
        PackageType::NuGet => { lemma_lower_seq_idem(p0.name@); },
        PackageType::PyPI => { lemma_pypi_norm_idem(p0.name@); },
        _ => {},
    }
}


// ---- consistency canary: must be REJECTED; if it verifies the assumptions are contradictory ----
pub proof fn verif_canary_must_fail()
{
    axiom_string_from(); broadcast use axiom_ascii_to_lower; axiom_lower_nonempty('a'); axiom_lower_no_dash('a'); axiom_lower_idem_char('a');
    assert(false);
}
} // verus!
fn main() {}
