// GENERATED on every run by vlib/extract.py from /repo -- do not edit
#![allow(unused_imports, unused_variables, unused_mut, dead_code, unused_parens, unused_braces, non_snake_case)]
#![feature(allocator_api)]
use vstd::prelude::*;
use core::cmp::Ordering;
use core::marker::PhantomData;
use core::mem;
use core::slice;
verus! {

// ---- theory: base.rs ----
// Shared vocabulary. Strings are Seq<char>. Everything marked `uninterp` or `external_body` below is an
// ASSUMPTION about std / Unicode; each is listed in the trusted base and replayed against the real std by
// the A step (exhaustively per char, bounded per string).

pub type SmallString = String;   // R0: purl's own `#[cfg(not(feature = "smartstring"))] type SmallString = String;`

// ---- Unicode tables (uninterpreted) ----
pub uninterp spec fn u_to_lower(c: char) -> Seq<char>;      // char::to_lowercase, as a sequence

pub open spec fn is_ascii_c(c: char) -> bool { (c as u32) < 128 }
pub open spec fn ascii_upper_c(c: char) -> bool { 'A' <= c && c <= 'Z' }
pub open spec fn ascii_lower_c(c: char) -> bool { 'a' <= c && c <= 'z' }
pub open spec fn ascii_digit_c(c: char) -> bool { '0' <= c && c <= '9' }
pub open spec fn ascii_alnum_c(c: char) -> bool { ascii_upper_c(c) || ascii_lower_c(c) || ascii_digit_c(c) }
pub open spec fn ascii_hex_c(c: char) -> bool { ascii_digit_c(c) || ('a' <= c && c <= 'f') || ('A' <= c && c <= 'F') }
pub open spec fn ascii_lower(c: char) -> char { if ascii_upper_c(c) { ((c as u32 + 32) as char) } else { c } }

/// Unicode lower-casing of a string: each character replaced by its lower-case mapping (C08 wording).
pub open spec fn lower_seq(s: Seq<char>) -> Seq<char> decreases s.len()
{ if s.len() == 0 { seq![] } else { lower_seq(s.drop_last()) + u_to_lower(s.last()) } }

/// ASCII lower-casing (what make_ascii_lowercase / to_ascii_lowercase do).
pub open spec fn lower_ascii_seq(s: Seq<char>) -> Seq<char> { s.map_values(|c: char| ascii_lower(c)) }

pub open spec fn all_ascii_lower(s: Seq<char>) -> bool { forall|i: int| 0 <= i < s.len() ==> ascii_lower_c(#[trigger] s[i]) }

pub open spec fn has_char(s: Seq<char>, c: char) -> bool { exists|i: int| 0 <= i < s.len() && s[i] == c }

// A-validated fact (exhaustive over all 128 ASCII chars): on ASCII, Unicode lower-casing is ASCII lower-casing.
#[verifier::external_body]
pub broadcast proof fn axiom_ascii_to_lower(c: char)
    requires is_ascii_c(c)
    ensures #[trigger] u_to_lower(c) == seq![ascii_lower(c)]
{ }

// ---- char methods (assumed = their documented ASCII definitions; A: exhaustive over all scalar values) ----
pub assume_specification [char::is_ascii] (c: &char) -> (r: bool) ensures r == is_ascii_c(*c);
pub assume_specification [char::is_ascii_alphanumeric] (c: &char) -> (r: bool) ensures r == ascii_alnum_c(*c);
pub assume_specification [char::is_ascii_lowercase] (c: &char) -> (r: bool) ensures r == ascii_lower_c(*c);
pub assume_specification [char::is_ascii_hexdigit] (c: &char) -> (r: bool) ensures r == ascii_hex_c(*c);
pub assume_specification [char::is_ascii_uppercase] (c: &char) -> (r: bool) ensures r == ascii_upper_c(*c);
pub assume_specification [char::is_ascii_digit] (c: &char) -> (r: bool) ensures r == ascii_digit_c(*c);
pub assume_specification [char::is_ascii_alphabetic] (c: &char) -> (r: bool) ensures r == (ascii_upper_c(*c) || ascii_lower_c(*c));
pub assume_specification [char::to_ascii_lowercase] (c: &char) -> (r: char) ensures r == ascii_lower(*c);

/// byte length of the UTF-8 encoding (uninterpreted; only that it is a function of the text is used)
pub uninterp spec fn utf8_len(s: Seq<char>) -> nat;
pub assume_specification [String::len] (s: &String) -> (r: usize) ensures r == utf8_len(s@);

pub assume_specification [std::string::String::with_capacity] (n: usize) -> (r: String) ensures r@ == Seq::<char>::empty();

// ---- string wrappers (R3): body IS the original call; only the contract is assumed ----
#[verifier::external_body]
pub fn x_make_ascii_lowercase(s: &mut str)
    ensures final(s)@ == lower_ascii_seq(old(s)@)
{ s.make_ascii_lowercase() }

// `&mut String -> &mut str` deref coercion: same text, writes go through.
pub assume_specification [ <String as core::ops::DerefMut>::deref_mut ] (s: &mut String) -> (r: &mut str)
    ensures r@ == old(s)@, final(r)@ == final(s)@;

/// `<[char]>::contains`
#[verifier::external_body]
pub fn x_slice_contains(s: &[char], c: &char) -> (r: bool)
    ensures r == s@.contains(*c)
{ s.contains(c) }

#[verifier::external_body]
pub fn x_to_ascii_lowercase(s: &str) -> (r: String)
    ensures r@ == lower_ascii_seq(s@)
{ s.to_ascii_lowercase() }

/// `s.chars().flat_map(|c| c.to_lowercase()).collect()`
#[verifier::external_body]
pub fn x_lower_collect(s: &str) -> (r: String)
    ensures r@ == lower_seq(s@)
{ s.chars().flat_map(|c| c.to_lowercase()).collect() }

/// `c.to_lowercase().ne([c])`
#[verifier::external_body]
pub fn x_lower_changes(c: char) -> (r: bool)
    ensures r == (u_to_lower(c) != seq![c])
{ c.to_lowercase().ne([c]) }

/// `result.extend(c.to_lowercase())`
#[verifier::external_body]
pub fn x_extend_lower(s: &mut String, c: char)
    ensures final(s)@ == old(s)@ + u_to_lower(c)
{ s.extend(c.to_lowercase()) }

// String::from(&str) / String::from(String) / .into(): vstd ties From::from to FromSpec; the two instances used by
// purl (with SmallString = String) are assumed to copy / move the text.
#[verifier::external_body]
pub proof fn axiom_string_from()
    ensures
        <String as vstd::std_specs::convert::FromSpec<&str>>::obeys_from_spec(),
        forall|s: &str| (#[trigger] <String as vstd::std_specs::convert::FromSpec<&str>>::from_spec(s))@ == s@,
        <String as vstd::std_specs::convert::FromSpec<String>>::obeys_from_spec(),
        forall|s: String| (#[trigger] <String as vstd::std_specs::convert::FromSpec<String>>::from_spec(s)) == s,
{ }

// ---- lemmas over the vocabulary (proved) ----
pub proof fn lemma_lower_seq_identity(s: Seq<char>)
    requires forall|i: int| 0 <= i < s.len() ==> u_to_lower(#[trigger] s[i]) == seq![s[i]]
    ensures lower_seq(s) == s
    decreases s.len()
{
    if s.len() > 0 {
        lemma_lower_seq_identity(s.drop_last());
        assert(s.drop_last().push(s.last()) == s);
        assert(lower_seq(s) =~= s);
    }
}

pub proof fn lemma_lower_seq_ascii(s: Seq<char>)
    requires forall|i: int| 0 <= i < s.len() ==> (u_to_lower(#[trigger] s[i]) != seq![s[i]] ==> is_ascii_c(s[i]))
    ensures lower_seq(s) == lower_ascii_seq(s)
    decreases s.len()
{
    broadcast use axiom_ascii_to_lower;
    if s.len() > 0 {
        lemma_lower_seq_ascii(s.drop_last());
        let c = s.last();
        if is_ascii_c(c) {
            assert(u_to_lower(c) == seq![ascii_lower(c)]);
        } else {
            assert(u_to_lower(c) == seq![c]);
            assert(ascii_lower(c) == c);
        }
        assert(lower_ascii_seq(s.drop_last()) =~= lower_ascii_seq(s).drop_last());
        assert(lower_seq(s) =~= lower_ascii_seq(s));
    } else {
        assert(lower_seq(s) =~= lower_ascii_seq(s));
    }
}

pub proof fn lemma_lower_seq_push(s: Seq<char>, c: char)
    ensures lower_seq(s.push(c)) == lower_seq(s) + u_to_lower(c)
{
    assert(s.push(c).drop_last() == s);
}

pub proof fn lemma_lower_seq_take(s: Seq<char>, k: int)
    requires 0 <= k < s.len()
    ensures lower_seq(s.take(k + 1)) == lower_seq(s.take(k)) + u_to_lower(s[k])
{
    assert(s.take(k + 1).drop_last() == s.take(k));
}

// ---- trimming / splitting vocabulary (defined, so lemmas about it are proved) ----
pub open spec fn trim_start_spec(s: Seq<char>, c: char) -> Seq<char> decreases s.len()
{ if s.len() > 0 && s[0] == c { trim_start_spec(s.subrange(1, s.len() as int), c) } else { s } }
pub open spec fn trim_end_spec(s: Seq<char>, c: char) -> Seq<char> decreases s.len()
{ if s.len() > 0 && s.last() == c { trim_end_spec(s.drop_last(), c) } else { s } }
pub open spec fn trim_spec(s: Seq<char>, c: char) -> Seq<char> { trim_end_spec(trim_start_spec(s, c), c) }
pub open spec fn all_char(s: Seq<char>, c: char) -> bool { forall|i: int| 0 <= i < s.len() ==> #[trigger] s[i] == c }

/// `s.trim_matches(c)` for a char pattern
#[verifier::external_body]
pub fn x_trim_matches<'a>(s: &'a str, c: char) -> (r: &'a str)
    ensures r@ == trim_spec(s@, c)
{ s.trim_matches(c) }

/// `s.trim_start_matches(c)` for a char pattern
#[verifier::external_body]
pub fn x_trim_start_matches<'a>(s: &'a str, c: char) -> (r: &'a str)
    ensures r@ == trim_start_spec(s@, c)
{ s.trim_start_matches(c) }

/// `s.contains(set)` for a `&[char]` pattern
#[verifier::external_body]
pub fn x_str_contains_any(s: &str, set: &[char]) -> (r: bool)
    ensures r == exists|i: int| 0 <= i < s@.len() && set@.contains(#[trigger] s@[i])
{ s.contains(set) }

/// `s.contains(c)` for a char pattern
#[verifier::external_body]
pub fn x_str_contains_char(s: &str, c: char) -> (r: bool)
    ensures r == has_char(s@, c)
{ s.contains(c) }

pub proof fn lemma_trim_start_all(s: Seq<char>, c: char)
    ensures
        all_char(s, c) ==> trim_start_spec(s, c).len() == 0,
        !all_char(s, c) ==> trim_start_spec(s, c).len() > 0 && trim_start_spec(s, c)[0] != c && !all_char(trim_start_spec(s, c), c),
    decreases s.len()
{
    if s.len() > 0 && s[0] == c {
        let t = s.subrange(1, s.len() as int);
        lemma_trim_start_all(t, c);
        if all_char(s, c) {
            assert forall|i: int| 0 <= i < t.len() implies #[trigger] t[i] == c by { assert(t[i] == s[i + 1]); }
        } else {
            let j = choose|j: int| 0 <= j < s.len() && s[j] != c;
            assert(t[j - 1] == s[j]);
        }
    } else if s.len() > 0 {
        assert(s[0] != c);
    }
}

pub proof fn lemma_trim_end_all(s: Seq<char>, c: char)
    ensures
        all_char(s, c) ==> trim_end_spec(s, c).len() == 0,
        !all_char(s, c) ==> trim_end_spec(s, c).len() > 0,
    decreases s.len()
{
    if s.len() > 0 && s.last() == c {
        let t = s.drop_last();
        lemma_trim_end_all(t, c);
        if !all_char(s, c) {
            let j = choose|j: int| 0 <= j < s.len() && s[j] != c;
            assert(t[j] == s[j]);
        }
    } else if s.len() > 0 {
        assert(s[s.len() - 1] != c);
    }
}

/// trimming leaves nothing exactly when the string consists of the trimmed character only
pub proof fn lemma_trim_empty_iff_all(s: Seq<char>, c: char)
    ensures (trim_spec(s, c).len() == 0) == all_char(s, c)
{
    lemma_trim_start_all(s, c);
    lemma_trim_end_all(trim_start_spec(s, c), c);
}

pub proof fn lemma_lower_ascii_fixed(s: Seq<char>)
    requires forall|i: int| 0 <= i < s.len() ==> !ascii_upper_c(#[trigger] s[i])
    ensures lower_ascii_seq(s) == s
{
    assert(lower_ascii_seq(s) =~= s);
}

// ---- idempotence of lower-casing (C10, C12) ----
/// A-validated (exhaustive over all scalar values): lower-casing the lower-case mapping of a char changes nothing
#[verifier::external_body]
pub proof fn axiom_lower_idem_char(c: char)
    ensures lower_seq(u_to_lower(c)) == u_to_lower(c)
{ }

pub proof fn lemma_lower_seq_concat(a: Seq<char>, b: Seq<char>)
    ensures lower_seq(a + b) == lower_seq(a) + lower_seq(b)
    decreases b.len()
{
    if b.len() == 0 {
        assert(a + b =~= a);
        assert(lower_seq(a) + lower_seq(b) =~= lower_seq(a));
    } else {
        assert((a + b).drop_last() =~= a + b.drop_last());
        assert((a + b).last() == b.last());
        lemma_lower_seq_concat(a, b.drop_last());
        assert(lower_seq(a + b) =~= lower_seq(a) + lower_seq(b));
    }
}

/// lower-casing is a projection: applying it twice is applying it once
pub proof fn lemma_lower_seq_idem(s: Seq<char>)
    ensures lower_seq(lower_seq(s)) == lower_seq(s)
    decreases s.len()
{
    if s.len() > 0 {
        lemma_lower_seq_idem(s.drop_last());
        axiom_lower_idem_char(s.last());
        lemma_lower_seq_concat(lower_seq(s.drop_last()), u_to_lower(s.last()));
    }
}

// A-validated per char (exhaustive over all scalar values): lower-casing never yields the empty string
#[verifier::external_body]
pub proof fn axiom_lower_nonempty(c: char)
    ensures u_to_lower(c).len() > 0
{ }

// ---- unit T.PurlField  <= purl/src/parse.rs:112 ----
#[derive(Debug, Clone, Copy)]
pub enum PurlField {
    PackageType,
    Namespace,
    Name,
    Version,
    Subpath,
}
// ---- unit T.ParseError  <= purl/src/parse.rs:17 ----
#[derive(Debug)]
pub enum ParseError {
    UnsupportedUrlScheme,
    MissingRequiredField(PurlField),
    InvalidPackageType,
    InvalidQualifier,
    InvalidEscape,
}
// ---- unit T.QualifierKey  <= purl/src/qualifiers.rs:319 ----
pub struct QualifierKey(pub SmallString);
// ---- unit T.Qualifiers  <= purl/src/qualifiers.rs:21 ----
pub struct Qualifiers {
    pub qualifiers: Vec<(QualifierKey, SmallString)>,
}
// ---- unit T.MixedQualifierKey  <= purl/src/qualifiers.rs:553 ----
pub enum MixedQualifierKey<S> {
    Lower(S),
    Mixed(S),
}
// ---- unit theory.qual  <= (contracts):0 ----
// ---- qualifier keys (C04, C05, C11: ASCII letters, digits, '.', '-', '_'; non-empty) ----
pub open spec fn key_char(c: char) -> bool { ascii_alnum_c(c) || c == '.' || c == '-' || c == '_' }
pub open spec fn valid_key(s: Seq<char>) -> bool { s.len() > 0 && forall|i: int| 0 <= i < s.len() ==> key_char(#[trigger] s[i]) }
/// canonical stored form: valid and free of ASCII upper-case
pub open spec fn canon_key(s: Seq<char>) -> bool { valid_key(s) && forall|i: int| 0 <= i < s.len() ==> !ascii_upper_c(#[trigger] s[i]) }

// ---- lexicographic order on Seq<char> by scalar value (= byte-wise order of the UTF-8 text, = str::cmp) ----
pub open spec fn lex_cmp(a: Seq<char>, b: Seq<char>) -> Ordering decreases a.len()
{
    if a.len() == 0 { if b.len() == 0 { Ordering::Equal } else { Ordering::Less } }
    else if b.len() == 0 { Ordering::Greater }
    else if (a[0] as u32) < (b[0] as u32) { Ordering::Less }
    else if (a[0] as u32) > (b[0] as u32) { Ordering::Greater }
    else { lex_cmp(a.subrange(1, a.len() as int), b.subrange(1, b.len() as int)) }
}
pub open spec fn str_lt(a: Seq<char>, b: Seq<char>) -> bool { lex_cmp(a, b) is Less }

pub proof fn lemma_lex_eq(a: Seq<char>, b: Seq<char>)
    ensures (lex_cmp(a, b) is Equal) == (a == b)
    decreases a.len()
{
    if a.len() > 0 && b.len() > 0 {
        if a[0] == b[0] {
            lemma_lex_eq(a.subrange(1, a.len() as int), b.subrange(1, b.len() as int));
            if a.subrange(1, a.len() as int) == b.subrange(1, b.len() as int) {
                assert(a =~= seq![a[0]] + a.subrange(1, a.len() as int));
                assert(b =~= seq![b[0]] + b.subrange(1, b.len() as int));
            }
        } else {
            assert((a[0] as u32) != (b[0] as u32));
        }
    } else {
        assert((a == b) == (a.len() == 0 && b.len() == 0)) by { if a.len() == 0 && b.len() == 0 { assert(a =~= b); } }
    }
}

pub proof fn lemma_lex_flip(a: Seq<char>, b: Seq<char>)
    ensures
        (lex_cmp(a, b) is Less) == (lex_cmp(b, a) is Greater),
        (lex_cmp(a, b) is Greater) == (lex_cmp(b, a) is Less),
    decreases a.len()
{
    if a.len() > 0 && b.len() > 0 && a[0] == b[0] {
        lemma_lex_flip(a.subrange(1, a.len() as int), b.subrange(1, b.len() as int));
    }
}

pub proof fn lemma_lex_trans(a: Seq<char>, b: Seq<char>, c: Seq<char>)
    requires str_lt(a, b), str_lt(b, c)
    ensures str_lt(a, c)
    decreases a.len()
{
    if a.len() > 0 && b.len() > 0 && c.len() > 0 && a[0] == b[0] && b[0] == c[0] {
        lemma_lex_trans(a.subrange(1, a.len() as int), b.subrange(1, b.len() as int), c.subrange(1, c.len() as int));
    }
}

pub proof fn lemma_lt_irrefl(a: Seq<char>)
    ensures !str_lt(a, a)
{
    lemma_lex_eq(a, a);
}

// ---- the representation invariant of Qualifiers (C04, C11): keys canonical, strictly ascending ----
pub open spec fn keys_sorted(v: Seq<(QualifierKey, SmallString)>) -> bool {
    forall|i: int, j: int| 0 <= i < j < v.len() ==> str_lt(#[trigger] v[i].0.0@, #[trigger] v[j].0.0@)
}
pub open spec fn keys_canon(v: Seq<(QualifierKey, SmallString)>) -> bool {
    forall|i: int| 0 <= i < v.len() ==> canon_key(#[trigger] v[i].0.0@)
}
pub open spec fn wf_seq(v: Seq<(QualifierKey, SmallString)>) -> bool { keys_sorted(v) && keys_canon(v) }

/// abstract content: key text -> value text (a function of the sequence; unique positions because keys are strictly ascending)
pub open spec fn has_key(v: Seq<(QualifierKey, SmallString)>, k: Seq<char>) -> bool {
    exists|i: int| 0 <= i < v.len() && #[trigger] v[i].0.0@ == k
}
pub open spec fn has_pair(v: Seq<(QualifierKey, SmallString)>, k: Seq<char>, val: Seq<char>) -> bool {
    exists|i: int| 0 <= i < v.len() && #[trigger] v[i].0.0@ == k && v[i].1@ == val
}

pub proof fn lemma_sorted_unique(v: Seq<(QualifierKey, SmallString)>, i: int, j: int)
    requires keys_sorted(v), 0 <= i < v.len(), 0 <= j < v.len(), v[i].0.0@ == v[j].0.0@
    ensures i == j
{
    lemma_lt_irrefl(v[i].0.0@);
    if i < j { assert(str_lt(v[i].0.0@, v[j].0.0@)); }
    if j < i { assert(str_lt(v[j].0.0@, v[i].0.0@)); }
}

/// the position of key `k` in a strictly ascending list = number of keys smaller than `k` (names the witness, so
/// whole-content postconditions need no existential)
pub open spec fn pos_of(v: Seq<(QualifierKey, SmallString)>, k: Seq<char>) -> int decreases v.len()
{
    if v.len() == 0 { 0 } else { pos_of(v.drop_last(), k) + if str_lt(v.last().0.0@, k) { 1int } else { 0int } }
}

pub proof fn lemma_pos_of(v: Seq<(QualifierKey, SmallString)>, k: Seq<char>, i: int)
    requires 0 <= i <= v.len(),
        forall|j: int| 0 <= j < i ==> str_lt(#[trigger] v[j].0.0@, k),
        forall|j: int| i <= j < v.len() ==> !str_lt(#[trigger] v[j].0.0@, k),
    ensures pos_of(v, k) == i
    decreases v.len()
{
    if v.len() > 0 {
        let w = v.drop_last();
        if i == v.len() {
            assert forall|j: int| 0 <= j < i - 1 implies str_lt(#[trigger] w[j].0.0@, k) by { assert(w[j] == v[j]); }
            lemma_pos_of(w, k, i - 1);
            assert(str_lt(v[v.len() - 1].0.0@, k));
        } else {
            assert forall|j: int| 0 <= j < i implies str_lt(#[trigger] w[j].0.0@, k) by { assert(w[j] == v[j]); }
            assert forall|j: int| i <= j < w.len() implies !str_lt(#[trigger] w[j].0.0@, k) by { assert(w[j] == v[j]); }
            lemma_pos_of(w, k, i);
            assert(!str_lt(v[v.len() - 1].0.0@, k));
        }
    }
}

pub proof fn lemma_lt_asym(a: Seq<char>, b: Seq<char>)
    requires str_lt(a, b)
    ensures !str_lt(b, a)
{
    lemma_lex_flip(a, b);
}

/// in a strictly ascending list, the value paired with key `k` is the one at `pos_of(k)`
pub proof fn lemma_has_pair_pos(v: Seq<(QualifierKey, SmallString)>, k: Seq<char>)
    requires keys_sorted(v)
    ensures forall|val: Seq<char>| has_pair(v, k, val) ==> 0 <= pos_of(v, k) < v.len() && v[pos_of(v, k)].0.0@ == k && v[pos_of(v, k)].1@ == val
{
    assert forall|val: Seq<char>| has_pair(v, k, val) implies 0 <= pos_of(v, k) < v.len() && v[pos_of(v, k)].0.0@ == k && v[pos_of(v, k)].1@ == val by {
        let i = choose|i: int| 0 <= i < v.len() && #[trigger] v[i].0.0@ == k && v[i].1@ == val;
        assert forall|j: int| 0 <= j < i implies str_lt(#[trigger] v[j].0.0@, k) by { assert(str_lt(v[j].0.0@, v[i].0.0@)); }
        assert forall|j: int| i <= j < v.len() implies !str_lt(#[trigger] v[j].0.0@, k) by {
            if j == i { lemma_lt_irrefl(k); } else { assert(str_lt(v[i].0.0@, v[j].0.0@)); lemma_lt_asym(k, v[j].0.0@); }
        }
        lemma_pos_of(v, k, i);
    }
}
// ---- R9: stub of std's AsRef, with a specification of the text it exposes ----
pub uninterp spec fn view_of<T: ?Sized>(t: &T) -> Seq<char>;
#[verifier::external_body]
pub broadcast proof fn axiom_view_of_str(s: &str)
    ensures #[trigger] view_of::<str>(s) == s@
{ }

pub trait AsRef<T: ?Sized> {
    spec fn text(&self) -> Seq<char>;
    fn as_ref(&self) -> (r: &T)
        ensures view_of(r) == self.text();
}
impl AsRef<str> for str {
    open spec fn text(&self) -> Seq<char> { self@ }
    fn as_ref(&self) -> (r: &str) { broadcast use axiom_view_of_str; self }
}
impl<T: ?Sized + AsRef<str>> AsRef<str> for &T {
    open spec fn text(&self) -> Seq<char> { (**self).text() }
    fn as_ref(&self) -> (r: &str) { (**self).as_ref() }
}
impl AsRef<str> for String {
    open spec fn text(&self) -> Seq<char> { self@ }
    fn as_ref(&self) -> (r: &str) { broadcast use axiom_view_of_str; self.as_str() }
}

/// ASSUMED coherence of std conversions: for every K that is both `AsRef<str>` and convertible into SmallString,
/// `SmallString::from(k)` has the text `k.as_ref()` (true for &str, String, SmallString, Cow<str>, Box<str>, ...).
#[verifier::external_body]
pub proof fn axiom_from_keeps_text<K: AsRef<str>>()
    where String: From<K>
    ensures
        <String as vstd::std_specs::convert::FromSpec<K>>::obeys_from_spec(),
        forall|k: K| (#[trigger] <String as vstd::std_specs::convert::FromSpec<K>>::from_spec(k))@ == k.text(),
{ }

pub assume_specification [std::cmp::Ordering::is_eq] (o: Ordering) -> (r: bool) ensures r == (o is Equal);

/// `a.chars().cmp(b.chars().flat_map(|c| c.to_lowercase()))`: Iterator::cmp is lexicographic by scalar value
#[verifier::external_body]
pub fn x_cmp_chars_lower(a: &str, b: &str) -> (r: Ordering)
    ensures r == lex_cmp(a@, lower_seq(b@))
{ a.chars().cmp(b.chars().flat_map(|c| c.to_lowercase())) }

pub open spec fn ord_rank(o: Ordering) -> int { match o { Ordering::Less => 0, Ordering::Equal => 1, Ordering::Greater => 2 } }

pub open spec fn key_cmp(kv: (QualifierKey, SmallString), t: Seq<char>) -> Ordering { lex_cmp(kv.0.0@, t) }

/// a strictly ascending key list is partitioned Less* Equal? Greater* by comparison with any target
pub proof fn lemma_sorted_partition(v: Seq<(QualifierKey, SmallString)>, t: Seq<char>)
    requires keys_sorted(v)
    ensures forall|i: int, j: int| 0 <= i < j < v.len() ==> ord_rank(key_cmp(#[trigger] v[i], t)) <= ord_rank(key_cmp(#[trigger] v[j], t))
{
    assert forall|i: int, j: int| 0 <= i < j < v.len() implies ord_rank(key_cmp(#[trigger] v[i], t)) <= ord_rank(key_cmp(#[trigger] v[j], t)) by {
        let a = v[i].0.0@;
        let b = v[j].0.0@;
        assert(str_lt(a, b));
        if lex_cmp(a, t) is Greater {
            lemma_lex_flip(a, t);
            lemma_lex_trans(t, a, b);
            lemma_lex_flip(t, b);
        } else if lex_cmp(a, t) is Equal {
            lemma_lex_eq(a, t);
            lemma_lex_flip(t, b);
        }
    }
}



/// documented panic: indexing a qualifier that is absent
#[verifier::external_body]
pub fn x_panic_absent() -> !
    requires false
{ panic!() }

impl<S: AsRef<str>> MixedQualifierKey<S> {
    pub open spec fn text(&self) -> Seq<char> {
        match self { MixedQualifierKey::Lower(s) => s.text(), MixedQualifierKey::Mixed(s) => s.text() }
    }
    /// valid key; the `Lower` tag promises there is nothing to lower-case
    pub open spec fn wf(&self) -> bool {
        valid_key(self.text()) && (self is Lower ==> all_ascii_lower(self.text()))
    }
    pub open spec fn canon(&self) -> Seq<char> { lower_ascii_seq(self.text()) }
}
pub proof fn lemma_canon_of_valid(s: Seq<char>)
    requires valid_key(s)
    ensures canon_key(lower_ascii_seq(s)), lower_seq(s) == lower_ascii_seq(s)
{
    let l = lower_ascii_seq(s);
    assert forall|i: int| 0 <= i < l.len() implies key_char(#[trigger] l[i]) && !ascii_upper_c(l[i]) by {
        assert(key_char(s[i]));
    }
    assert forall|i: int| 0 <= i < s.len() implies (u_to_lower(#[trigger] s[i]) != seq![s[i]] ==> is_ascii_c(s[i])) by {
        assert(key_char(s[i]));
    }
    lemma_lower_seq_ascii(s);
}

// ---- unit U-qkey.is_valid_qualifier_name  <= purl/src/qualifiers.rs:513 ----
exec const ALLOWED_SPECIAL_CHARS: &'static [char] ensures ALLOWED_SPECIAL_CHARS@ =~= seq!['.', '-', '_'] { &['.', '-', '_'] }
pub fn is_valid_qualifier_name(k: &str) -> (r: bool)
    ensures r == valid_key(k@)
{
    
    !k.is_empty()
        && ({ let mut all_ok0 = true; for c in it: k.chars() 

    invariant_except_break
        all_ok0,
        forall|i: int| 0 <= i < it.index@ ==> key_char(#[trigger] k@[i]),
    invariant
        it.seq() == k@,
    ensures
        all_ok0 ==> forall|i: int| 0 <= i < k@.len() ==> key_char(#[trigger] k@[i]),
        !all_ok0 ==> exists|i: int| 0 <= i < k@.len() && !key_char(#[trigger] k@[i]),
{ if !(c.is_ascii_alphanumeric() || x_slice_contains(ALLOWED_SPECIAL_CHARS, &c)) { all_ok0 = false; break; } } all_ok0 })
}
// ---- unit U-qkey.check_qualifier_key  <= purl/src/qualifiers.rs:593 ----
pub fn check_qualifier_key<S>(k: S) -> (r: Result<MixedQualifierKey<S>, ParseError>)
where S: AsRef<str>,
    ensures
        !valid_key(k.text()) ==> r is Err && r->Err_0 is InvalidQualifier,
        valid_key(k.text()) ==> r is Ok && r->Ok_0.wf() && r->Ok_0.text() == k.text(),
{
    broadcast use axiom_view_of_str;

    let ks = k.as_ref();
    if !is_valid_qualifier_name(ks) {
        return Err(ParseError::InvalidQualifier);
    }
    if ({ let mut all_ok0 = true; for c in it: ks.chars() 

    invariant_except_break
        all_ok0,
        forall|i: int| 0 <= i < it.index@ ==> ascii_lower_c(#[trigger] ks@[i]),
    invariant
        it.seq() == ks@,
    ensures
        all_ok0 ==> all_ascii_lower(ks@),
{ if !(c.is_ascii_lowercase()) { all_ok0 = false; break; } } all_ok0 }) {
        Ok(MixedQualifierKey::Lower(k))
    } else {
        Ok(MixedQualifierKey::Mixed(k))
    }
}
impl<S: AsRef<str>> MixedQualifierKey<S> {
// ---- unit U-qkey.into_key  <= purl/src/qualifiers.rs:566 ----
pub fn into_key(self) -> (r: QualifierKey)
where SmallString: From<S>,
        requires self.wf()
        ensures r.0@ == self.canon(), canon_key(r.0@)
{
        proof {
            axiom_from_keeps_text::<S>();
            lemma_canon_of_valid(self.text());
            if self is Lower { lemma_lower_ascii_fixed(self.text()); }
        }

        QualifierKey(match self {
            MixedQualifierKey::Lower(s) => SmallString::from(s),
            MixedQualifierKey::Mixed(s) => {
                let mut s = SmallString::from(s);
                x_make_ascii_lowercase(&mut s);
                s
            },
        })
    }
}
impl<S: AsRef<str>> AsRef<str> for MixedQualifierKey<S> {
// ---- unit U-qkey.as_ref  <= purl/src/qualifiers.rs:585 ----
    open spec fn text(&self) -> Seq<char> {
        match self { MixedQualifierKey::Lower(s) => s.text(), MixedQualifierKey::Mixed(s) => s.text() }
    }
fn as_ref(&self) -> (r: &str)
{
        match self {
            MixedQualifierKey::Lower(s) => s.as_ref(),
            MixedQualifierKey::Mixed(s) => s.as_ref(),
        }
    }
}
impl QualifierKey {
// ---- unit U-qcmp.partial_cmp  <= purl/src/qualifiers.rs:334 ----
pub fn partial_cmp<S: AsRef<str> + ?Sized>(&self, other: &S) -> (r: Option<Ordering>)
        ensures r == Some(lex_cmp(self.0@, lower_seq(other.text())))
{
        broadcast use axiom_view_of_str;

        Some(x_cmp_chars_lower(self.0.as_str(), other.as_ref()))
    }
// ---- unit U-qcmp.eq  <= purl/src/qualifiers.rs:325 ----
pub fn eq<S: AsRef<str> + ?Sized>(&self, other: &S) -> (r: bool)
        ensures r == (self.0@ == lower_seq(other.text()))
{
        proof { lemma_lex_eq(self.0@, lower_seq(other.text())); }

        self.partial_cmp(other).map(|o: Ordering| -> (b: bool) ensures b == (o is Equal) { o.is_eq() }).unwrap_or_default()
    }
}
impl Qualifiers {
// ---- unit spec.Qualifiers  <= (contracts):0 ----
    /// representation invariant (C04, C11): keys valid, lower-case, strictly ascending
    pub open spec fn wf(&self) -> bool { wf_seq(self.qualifiers@) }
}
pub fn search_cmp<K: AsRef<str>>(qk: &QualifierKey, key: &MixedQualifierKey<K>) -> (r: Ordering)
    ensures r == lex_cmp(qk.0@, lower_seq(key.text()))
{ qk.partial_cmp(&key).unwrap() }
/// `v.binary_search_by(|(qk, _qv)| search_cmp(qk, key))` -- std's documented contract for a partitioned slice
#[verifier::external_body]
pub fn x_binary_search_keys<K: AsRef<str>>(v: &Vec<(QualifierKey, SmallString)>, key: &MixedQualifierKey<K>) -> (r: Result<usize, usize>)
    requires
        forall|i: int, j: int| 0 <= i < j < v.len() ==>
            ord_rank(key_cmp(#[trigger] v[i], lower_seq(key.text()))) <= ord_rank(key_cmp(#[trigger] v[j], lower_seq(key.text()))),
    ensures
        match r {
            Ok(i) => i < v.len() && key_cmp(v[i as int], lower_seq(key.text())) is Equal,
            Err(i) => i <= v.len()
                && (forall|j: int| 0 <= j < i ==> key_cmp(#[trigger] v[j], lower_seq(key.text())) is Less)
                && (forall|j: int| i <= j < v.len() ==> key_cmp(#[trigger] v[j], lower_seq(key.text())) is Greater),
        },
{ v.binary_search_by(|(qk, _qv)| search_cmp(qk, key)) }

impl Qualifiers {
// ---- unit U-qmap.search  <= purl/src/qualifiers.rs:150 ----
pub fn search<K>(&self, key: &MixedQualifierKey<K>) -> (r: Result<usize, usize>)
where K: AsRef<str>,
        requires self.wf(), key.wf()
        ensures match r {
            Ok(i) => i < self.qualifiers@.len() && self.qualifiers@[i as int].0.0@ == key.canon()
                && i == pos_of(self.qualifiers@, key.canon()),
            Err(i) => i <= self.qualifiers@.len() && i == pos_of(self.qualifiers@, key.canon())
                && (forall|j: int| 0 <= j < i ==> str_lt(#[trigger] self.qualifiers@[j].0.0@, key.canon()))
                && (forall|j: int| i <= j < self.qualifiers@.len() ==> str_lt(key.canon(), #[trigger] self.qualifiers@[j].0.0@))
                && !has_key(self.qualifiers@, key.canon()),
        }
{
        proof {
            lemma_canon_of_valid(key.text());
            lemma_lt_irrefl(key.canon());
            lemma_sorted_partition(self.qualifiers@, lower_seq(key.text()));
            assert forall|j: int| 0 <= j < self.qualifiers@.len() implies
                ((key_cmp(#[trigger] self.qualifiers@[j], key.canon()) is Greater) == str_lt(key.canon(), self.qualifiers@[j].0.0@)) by {
                lemma_lex_flip(self.qualifiers@[j].0.0@, key.canon());
            }
            assert forall|j: int| 0 <= j < self.qualifiers@.len() implies
                ((key_cmp(#[trigger] self.qualifiers@[j], key.canon()) is Equal) == (self.qualifiers@[j].0.0@ == key.canon())) by {
                lemma_lex_eq(self.qualifiers@[j].0.0@, key.canon());
            }
        }

        
        let res =
x_binary_search_keys(&self.qualifiers, key)
        ;
        proof {
            let v = self.qualifiers@;
            let k = key.canon();
            let i: int = match res { Ok(i) => i as int, Err(i) => i as int };
            assert forall|j: int| 0 <= j < i implies str_lt(#[trigger] v[j].0.0@, k) by {
                if res is Ok { assert(str_lt(v[j].0.0@, v[i].0.0@)); }
            }
            assert forall|j: int| i <= j < v.len() implies !str_lt(#[trigger] v[j].0.0@, k) by {
                if res is Ok {
                    if j == i { lemma_lt_irrefl(k); } else { assert(str_lt(v[i].0.0@, v[j].0.0@)); lemma_lt_asym(k, v[j].0.0@); }
                } else { lemma_lt_asym(k, v[j].0.0@); }
            }
            lemma_pos_of(v, k, i);
        }
        res

    }
}
// ---- unit T.OccupiedEntry  <= purl/src/qualifiers.rs:421 ----
pub struct OccupiedEntry<'a, K> {
    pub qualifiers: &'a mut Vec<(QualifierKey, SmallString)>,
    pub index: usize,
    pub key: PhantomData<K>,
}
// ---- unit T.VacantEntry  <= purl/src/qualifiers.rs:470 ----
pub struct VacantEntry<'a, K> {
    pub qualifiers: &'a mut Vec<(QualifierKey, SmallString)>,
    pub index: usize,
    pub key: MixedQualifierKey<K>,
}
// ---- unit T.Entry  <= purl/src/qualifiers.rs:374 ----
pub enum Entry<'a, K> {
    Occupied(OccupiedEntry<'a, K>),
    Vacant(VacantEntry<'a, K>),
}
// ---- unit spec.entries  <= (contracts):0 ----

impl<'a, K> OccupiedEntry<'a, K> {
    pub open spec fn wf(&self) -> bool { wf_seq(self.qualifiers@) && self.index < self.qualifiers@.len() }
}
impl<'a, K: AsRef<str>> VacantEntry<'a, K> {
    /// `index` is the one position where `key` can be inserted keeping the list strictly ascending
    pub open spec fn wf(&self) -> bool {
        wf_seq(self.qualifiers@) && self.key.wf() && self.index <= self.qualifiers@.len()
        && (forall|j: int| 0 <= j < self.index ==> str_lt(#[trigger] self.qualifiers@[j].0.0@, self.key.canon()))
        && (forall|j: int| self.index <= j < self.qualifiers@.len() ==> str_lt(self.key.canon(), #[trigger] self.qualifiers@[j].0.0@))
    }
}
pub proof fn lemma_insert_keeps_wf(v: Seq<(QualifierKey, SmallString)>, i: int, kv: (QualifierKey, SmallString))
    requires wf_seq(v), 0 <= i <= v.len(), canon_key(kv.0.0@),
        forall|j: int| 0 <= j < i ==> str_lt(#[trigger] v[j].0.0@, kv.0.0@),
        forall|j: int| i <= j < v.len() ==> str_lt(kv.0.0@, #[trigger] v[j].0.0@),
    ensures wf_seq(v.insert(i, kv))
{
    let w = v.insert(i, kv);
    assert forall|a: int, b: int| 0 <= a < b < w.len() implies str_lt(#[trigger] w[a].0.0@, #[trigger] w[b].0.0@) by {
        if a < i && b == i { assert(w[a] == v[a]); }
        else if a < i && b > i { assert(w[a] == v[a]); assert(w[b] == v[b - 1]); }
        else if a == i { assert(w[b] == v[b - 1]); }
        else if a > i { assert(w[a] == v[a - 1]); assert(w[b] == v[b - 1]); }
        else { assert(w[a] == v[a]); assert(w[b] == v[b]); }
    }
    assert forall|a: int| 0 <= a < w.len() implies canon_key(#[trigger] w[a].0.0@) by {
        if a < i { assert(w[a] == v[a]); } else if a > i { assert(w[a] == v[a - 1]); }
    }
}
pub proof fn lemma_remove_keeps_wf(v: Seq<(QualifierKey, SmallString)>, i: int)
    requires wf_seq(v), 0 <= i < v.len()
    ensures wf_seq(v.remove(i))
{
    let w = v.remove(i);
    assert forall|a: int, b: int| 0 <= a < b < w.len() implies str_lt(#[trigger] w[a].0.0@, #[trigger] w[b].0.0@) by {
        let a0 = if a < i { a } else { a + 1 };
        let b0 = if b < i { b } else { b + 1 };
        assert(w[a] == v[a0]); assert(w[b] == v[b0]);
    }
    assert forall|a: int| 0 <= a < w.len() implies canon_key(#[trigger] w[a].0.0@) by {
        let a0 = if a < i { a } else { a + 1 };
        assert(w[a] == v[a0]);
    }
}
pub proof fn lemma_update_value_keeps_wf(v: Seq<(QualifierKey, SmallString)>, i: int, val: SmallString)
    requires wf_seq(v), 0 <= i < v.len()
    ensures wf_seq(v.update(i, (v[i].0, val)))
{
    let w = v.update(i, (v[i].0, val));
    assert forall|a: int, b: int| 0 <= a < b < w.len() implies str_lt(#[trigger] w[a].0.0@, #[trigger] w[b].0.0@) by {
        assert(w[a].0 == v[a].0); assert(w[b].0 == v[b].0);
    }
    assert forall|a: int| 0 <= a < w.len() implies canon_key(#[trigger] w[a].0.0@) by { assert(w[a].0 == v[a].0); }
}
/// a key that sorts strictly between its neighbours is not in the list
pub proof fn lemma_gap_not_present(v: Seq<(QualifierKey, SmallString)>, i: int, k: Seq<char>)
    requires 0 <= i <= v.len(),
        forall|j: int| 0 <= j < i ==> str_lt(#[trigger] v[j].0.0@, k),
        forall|j: int| i <= j < v.len() ==> str_lt(k, #[trigger] v[j].0.0@),
    ensures !has_key(v, k)
{
    lemma_lt_irrefl(k);
}

impl Qualifiers {
// ---- unit U-qmap.len  <= purl/src/qualifiers.rs:78 ----
pub fn len(&self) -> (r: usize)
        ensures r == self.qualifiers@.len()
{
        self.qualifiers.len()
    }
// ---- unit U-qmap.is_empty  <= purl/src/qualifiers.rs:83 ----
pub fn is_empty(&self) -> (r: bool)
        ensures r == (self.qualifiers@.len() == 0)
{
        self.qualifiers.is_empty()
    }
// ---- unit U-qmap.clear  <= purl/src/qualifiers.rs:88 ----
pub fn clear(&mut self)
        ensures final(self).qualifiers@.len() == 0, final(self).wf()
{
        self.qualifiers.clear()
    }
// ---- unit U-qmap.get_index  <= purl/src/qualifiers.rs:141 ----
pub fn get_index<K>(&self, key: K) -> (r: Option<usize>)
where K: AsRef<str>,
        requires self.wf()
        ensures match r {
            Some(i) => valid_key(key.text()) && i < self.qualifiers@.len() && self.qualifiers@[i as int].0.0@ == lower_ascii_seq(key.text())
                && i == pos_of(self.qualifiers@, lower_ascii_seq(key.text())),
            None => !valid_key(key.text()) || !has_key(self.qualifiers@, lower_ascii_seq(key.text())),
        }
{
        let key = check_qualifier_key(key).ok()?;
        self.search(&key).ok()
    }
// ---- unit U-qmap.get  <= purl/src/qualifiers.rs:114 ----
pub fn get<K>(&self, key: K) -> (r: Option<&str>)
where K: AsRef<str>,
        requires self.wf()
        ensures
            r is Some == (valid_key(key.text()) && has_key(self.qualifiers@, lower_ascii_seq(key.text()))),
            r is Some ==> has_pair(self.qualifiers@, lower_ascii_seq(key.text()), r->Some_0@),
{
        self.get_index(key).map(|i: usize| -> (s: &str) requires i < self.qualifiers@.len() ensures s@ == self.qualifiers@[i as int].1@ { self.qualifiers[i].1.as_str() })
    }
// ---- unit U-qmap.contains_key  <= purl/src/qualifiers.rs:191 ----
pub fn contains_key<K>(&self, key: K) -> (r: bool)
where K: AsRef<str>,
        requires self.wf()
        ensures r == (valid_key(key.text()) && has_key(self.qualifiers@, lower_ascii_seq(key.text())))
{
        self.get_index(key).is_some()
    }
// ---- unit U-qmap.insert  <= purl/src/qualifiers.rs:207 ----
pub fn insert<K, V>(&mut self, key: K, v: V) -> (r: Result<&mut SmallString, ParseError>)
where K: AsRef<str>, SmallString: From<K> + From<V>,
        requires old(self).wf()
        ensures
            final(self).wf(),
            !valid_key(key.text()) ==> r is Err && r->Err_0 is InvalidQualifier && final(self).qualifiers@ == old(self).qualifiers@,
            valid_key(key.text()) ==> r is Ok
                && (<SmallString as vstd::std_specs::convert::FromSpec<V>>::obeys_from_spec() ==>
                        *(r->Ok_0) == <SmallString as vstd::std_specs::convert::FromSpec<V>>::from_spec(v)),
            // whole-content postcondition (p names the position of the key = number of smaller keys):
            // an existing key keeps its position and only its value changes ...
            valid_key(key.text()) && has_key(old(self).qualifiers@, lower_ascii_seq(key.text())) ==> ({
                let p = pos_of(old(self).qualifiers@, lower_ascii_seq(key.text()));
                0 <= p < old(self).qualifiers@.len() && old(self).qualifiers@[p].0.0@ == lower_ascii_seq(key.text())
                && final(self).qualifiers@ == old(self).qualifiers@.update(p, (old(self).qualifiers@[p].0, *final(r->Ok_0)))
            }),
            // ... a new key is spliced in at p, every other pair untouched and in the same order
            valid_key(key.text()) && !has_key(old(self).qualifiers@, lower_ascii_seq(key.text())) ==> ({
                let p = pos_of(old(self).qualifiers@, lower_ascii_seq(key.text()));
                0 <= p <= old(self).qualifiers@.len()
                && final(self).qualifiers@.len() == old(self).qualifiers@.len() + 1
                && final(self).qualifiers@[p].0.0@ == lower_ascii_seq(key.text())
                && final(self).qualifiers@ == old(self).qualifiers@.insert(p, (final(self).qualifiers@[p].0, *final(r->Ok_0)))
            }),
{
        let key = check_qualifier_key(key)?;
        let ghost kt = key.canon();
        let ghost old_v = self.qualifiers@;

        let index = match self.search(&key) {
            Ok(i) => {
                self.qualifiers[i].1 = SmallString::from(v);
                proof { lemma_update_value_keeps_wf(old_v, i as int, self.qualifiers@[i as int].1); assert(old_v[i as int].0.0@ == kt); assert(has_key(old_v, kt)); }

                i
            },
            Err(i) => {
                self.qualifiers.insert(i, (key.into_key(), SmallString::from(v)));
                proof { lemma_insert_keeps_wf(old_v, i as int, self.qualifiers@[i as int]); assert(!has_key(old_v, kt)); assert(self.qualifiers@[i as int].0.0@ == kt); }

                i
            },
        };
        
        proof {
            let mid = self.qualifiers@;
            let ix = index as int;
            assert forall|x: SmallString| wf_seq(#[trigger] mid.update(ix, (mid[ix].0, x))) by {
                lemma_update_value_keeps_wf(mid, ix, x);
            }
            if has_key(old_v, kt) {
                assert forall|x: SmallString| #[trigger] mid.update(ix, (mid[ix].0, x)) == old_v.update(ix, (old_v[ix].0, x)) by {
                    assert(mid.update(ix, (mid[ix].0, x)) =~= old_v.update(ix, (old_v[ix].0, x)));
                }
            } else {
                assert(mid.len() == old_v.len() + 1);
                assert(mid[ix].0.0@ == kt);
                assert forall|x: SmallString| {
                    let w = #[trigger] mid.update(ix, (mid[ix].0, x));
                    w == old_v.insert(ix, (w[ix].0, x)) && w[ix].0.0@ == kt && w.len() == old_v.len() + 1
                } by {
                    assert(mid.update(ix, (mid[ix].0, x)) =~= old_v.insert(ix, (mid[ix].0, x)));
                }
            }
        }
Ok(&mut self.qualifiers[index].1)
    }
// ---- unit U-qmap.remove  <= purl/src/qualifiers.rs:261 ----
pub fn remove<S>(&mut self, key: S) -> (r: Option<SmallString>)
where S: AsRef<str>,
        requires old(self).wf()
        ensures
            final(self).wf(),
            r is Some == (valid_key(key.text()) && has_key(old(self).qualifiers@, lower_ascii_seq(key.text()))),
            r is None ==> final(self).qualifiers@ == old(self).qualifiers@,
            r is Some ==> ({
                let p = pos_of(old(self).qualifiers@, lower_ascii_seq(key.text()));
                0 <= p < old(self).qualifiers@.len() && old(self).qualifiers@[p].0.0@ == lower_ascii_seq(key.text())
                && r->Some_0 == old(self).qualifiers@[p].1
                && final(self).qualifiers@ == old(self).qualifiers@.remove(p)
            }),
{
        if let Some(index) = self.get_index(key) {
            Some(self.qualifiers.remove(index).1)
        } else {
            None
        }
    }
// ---- unit U-qmap.entry  <= purl/src/qualifiers.rs:162 ----
pub fn entry<K>(&mut self, key: K) -> (r: Result<Entry<K>, ParseError>)
where K: AsRef<str>,
        requires old(self).wf()
        ensures
            !valid_key(key.text()) ==> r is Err && r->Err_0 is InvalidQualifier && final(self).qualifiers@ == old(self).qualifiers@,
            valid_key(key.text()) ==> r is Ok && match r->Ok_0 {
                Entry::Occupied(o) => o.wf() && *o.qualifiers == old(self).qualifiers && *final(o.qualifiers) == final(self).qualifiers
                    && o.index == pos_of(old(self).qualifiers@, lower_ascii_seq(key.text()))
                    && old(self).qualifiers@[o.index as int].0.0@ == lower_ascii_seq(key.text()),
                Entry::Vacant(v) => v.wf() && *v.qualifiers == old(self).qualifiers && *final(v.qualifiers) == final(self).qualifiers
                    && v.index == pos_of(old(self).qualifiers@, lower_ascii_seq(key.text()))
                    && v.key.text() == key.text()
                    && !has_key(old(self).qualifiers@, lower_ascii_seq(key.text())),
            },
{
        let key = check_qualifier_key(key)?;
        Ok(match self.search(&key) {
            Ok(index) => Entry::Occupied(OccupiedEntry {
                qualifiers: &mut self.qualifiers,
                index,
                key: PhantomData,
            }),
            Err(index) => {
                Entry::Vacant(VacantEntry { qualifiers: &mut self.qualifiers, index, key })
            },
        })
    }
}
impl<'a, K: AsRef<str>> VacantEntry<'a, K> {
// ---- unit U-qmap.VacantEntry.insert  <= purl/src/qualifiers.rs:478 ----
pub fn insert<V>(self, value: V) -> (r: &'a mut SmallString)
where SmallString: From<K> + From<V>,
        requires self.wf()
        ensures
            <SmallString as vstd::std_specs::convert::FromSpec<V>>::obeys_from_spec() ==>
                *r == <SmallString as vstd::std_specs::convert::FromSpec<V>>::from_spec(value),
            wf_seq(final(self.qualifiers)@),
            final(self.qualifiers)@.len() == old(self.qualifiers)@.len() + 1,
            final(self.qualifiers)@[self.index as int].0.0@ == self.key.canon(),
            final(self.qualifiers)@ == old(self.qualifiers)@.insert(self.index as int, (final(self.qualifiers)@[self.index as int].0, *final(r))),
{
        
        let ghost old_v = self.qualifiers@;
        let ghost ix = self.index as int;
        let ghost kt = self.key.canon();
self.qualifiers.insert(self.index, (self.key.into_key(), SmallString::from(value)));
        proof {
            lemma_insert_keeps_wf(old_v, ix, self.qualifiers@[ix]);
            let mid = self.qualifiers@;
            assert forall|x: SmallString| wf_seq(#[trigger] mid.update(ix, (mid[ix].0, x))) by { lemma_update_value_keeps_wf(mid, ix, x); }
            assert forall|x: SmallString| {
                let w = #[trigger] mid.update(ix, (mid[ix].0, x));
                w == old_v.insert(ix, (w[ix].0, x))
            } by { assert(mid.update(ix, (mid[ix].0, x)) =~= old_v.insert(ix, (mid[ix].0, x))); }
        }

        &mut self.qualifiers[self.index].1
    }
}
impl<'a, K> OccupiedEntry<'a, K> {
// ---- unit U-qmap.OccupiedEntry.remove_entry  <= purl/src/qualifiers.rs:429 ----
pub fn remove_entry(self) -> (r: (SmallString, SmallString))
        requires self.wf()
        ensures wf_seq(final(self.qualifiers)@), final(self.qualifiers)@ == old(self.qualifiers)@.remove(self.index as int),
            r.0 == old(self.qualifiers)@[self.index as int].0.0, r.1 == old(self.qualifiers)@[self.index as int].1
{
        proof { lemma_remove_keeps_wf(self.qualifiers@, self.index as int); }

        let (k, v) = self.qualifiers.remove(self.index);
        (k.0, v)
    }
// ---- unit U-qmap.OccupiedEntry.get  <= purl/src/qualifiers.rs:435 ----
pub fn get(&self) -> (r: &str)
        requires self.wf()
        ensures r@ == old(self.qualifiers)@[self.index as int].1@
{
        &self.qualifiers[self.index].1
    }
// ---- unit U-qmap.OccupiedEntry.get_mut  <= purl/src/qualifiers.rs:440 ----
pub fn get_mut(&mut self) -> (r: &mut SmallString)
        requires old(self).wf()
        ensures *r == old(self).qualifiers@[old(self).index as int].1, final(self).index == old(self).index,
            final(self).qualifiers@ == old(self).qualifiers@.update(old(self).index as int, (old(self).qualifiers@[old(self).index as int].0, *final(r))),
            // the entry still refers to the same list
            final(final(self).qualifiers)@ == final(old(self).qualifiers)@,
            final(self).wf()
{
        proof { let v = self.qualifiers@; let ix = self.index as int;
            assert forall|x: SmallString| wf_seq(#[trigger] v.update(ix, (v[ix].0, x))) by { lemma_update_value_keeps_wf(v, ix, x); } }

        &mut self.qualifiers[self.index].1
    }
// ---- unit U-qmap.OccupiedEntry.into_mut  <= purl/src/qualifiers.rs:447 ----
pub fn into_mut(self) -> (r: &'a mut SmallString)
        requires self.wf()
        ensures *r == old(self.qualifiers)@[self.index as int].1,
            final(self.qualifiers)@ == old(self.qualifiers)@.update(self.index as int, (old(self.qualifiers)@[self.index as int].0, *final(r))),
            wf_seq(final(self.qualifiers)@)
{
        proof { let v = self.qualifiers@; let ix = self.index as int;
            assert forall|x: SmallString| wf_seq(#[trigger] v.update(ix, (v[ix].0, x))) by { lemma_update_value_keeps_wf(v, ix, x); } }

        &mut self.qualifiers[self.index].1
    }
// ---- unit U-qmap.OccupiedEntry.insert  <= purl/src/qualifiers.rs:454 ----
pub fn insert<V>(&mut self, value: V) -> (r: SmallString)
where SmallString: From<V>,
        requires old(self).wf()
        ensures final(self).wf(), final(self).index == old(self).index,
            r == old(self).qualifiers@[old(self).index as int].1,
            <SmallString as vstd::std_specs::convert::FromSpec<V>>::obeys_from_spec() ==>
                final(self).qualifiers@ == old(self).qualifiers@.update(old(self).index as int,
                    (old(self).qualifiers@[old(self).index as int].0, <SmallString as vstd::std_specs::convert::FromSpec<V>>::from_spec(value))),
{
        let mut v = SmallString::from(value);
        mem::swap(&mut v, &mut self.qualifiers[self.index].1);
        proof { lemma_update_value_keeps_wf(old(self).qualifiers@, self.index as int, self.qualifiers@[self.index as int].1);
            assert(self.qualifiers@ =~= old(self).qualifiers@.update(self.index as int, (old(self).qualifiers@[self.index as int].0, self.qualifiers@[self.index as int].1))); }

        v
    }
// ---- unit U-qmap.OccupiedEntry.remove  <= purl/src/qualifiers.rs:464 ----
pub fn remove(self) -> (r: SmallString)
        requires self.wf()
        ensures wf_seq(final(self.qualifiers)@), final(self.qualifiers)@ == old(self.qualifiers)@.remove(self.index as int),
            r == old(self.qualifiers)@[self.index as int].1
{
        proof { lemma_remove_keeps_wf(self.qualifiers@, self.index as int); }

        self.qualifiers.remove(self.index).1
    }
}
impl Qualifiers {
// ---- unit U-qmap.get_mut  <= purl/src/qualifiers.rs:180 ----
pub fn get_mut<K>(&mut self, key: K) -> (r: Option<&mut SmallString>)
where K: AsRef<str>,
        requires old(self).wf()
        ensures
            final(self).wf(),
            r is Some == (valid_key(key.text()) && has_key(old(self).qualifiers@, lower_ascii_seq(key.text()))),
            r is None ==> final(self).qualifiers@ == old(self).qualifiers@,
            r is Some ==> ({
                let p = pos_of(old(self).qualifiers@, lower_ascii_seq(key.text()));
                0 <= p < old(self).qualifiers@.len() && *(r->Some_0) == old(self).qualifiers@[p].1
                && final(self).qualifiers@ == old(self).qualifiers@.update(p, (old(self).qualifiers@[p].0, *final(r->Some_0)))
            }),
{
        match self.entry(key) {
            Ok(Entry::Occupied(o)) => Some(o.into_mut()),
            _ => None,
        }
    }
}
// ---- unit T.KnownQualifierKey  <= purl/src/qualifiers/well_known.rs:17 ----
pub trait KnownQualifierKey {
    const KEY: &'static str;
}
// ---- unit theory.tryfrom  <= (contracts):0 ----
// ---- R9: stub of std's TryFrom with a relation describing what an implementation returns ----
pub trait TryFrom<T>: Sized {
    type Error;
    spec fn try_from_rel(t: T, r: Result<Self, Self::Error>) -> bool;
    fn try_from(t: T) -> (r: Result<Self, Self::Error>)
        ensures Self::try_from_rel(t, r);
}
pub assume_specification<T, E> [Option::<Result<T, E>>::transpose] (o: Option<Result<T, E>>) -> (r: Result<Option<T>, E>)
    ensures match o {
        None => r == Ok::<Option<T>, E>(None),
        Some(Ok(x)) => r == Ok::<Option<T>, E>(Some(x)),
        Some(Err(e)) => r == Err::<Option<T>, E>(e),
    };

impl Qualifiers {
// ---- unit U-qmap.try_get_typed  <= purl/src/qualifiers.rs:134 ----
pub fn try_get_typed<'a, Q>(&'a self) -> (r: Result<Option<Q>, Q::Error>)
where Q: TryFrom<&'a str> + KnownQualifierKey,
        requires self.wf()
        ensures
            // absent (or undeclarable) key: nothing to convert
            !(valid_key(Q::KEY@) && has_key(self.qualifiers@, lower_ascii_seq(Q::KEY@))) ==> r is Ok && r->Ok_0 is None,
            // present: exactly one conversion of the stored text, its outcome passed through
            valid_key(Q::KEY@) && has_key(self.qualifiers@, lower_ascii_seq(Q::KEY@)) ==>
                exists|s: &'a str, x: Result<Q, Q::Error>|
                    s@ == self.qualifiers@[pos_of(self.qualifiers@, lower_ascii_seq(Q::KEY@))].1@ && #[trigger] Q::try_from_rel(s, x)
                    && match x { Ok(q) => r == Ok::<Option<Q>, Q::Error>(Some(q)), Err(e) => r == Err::<Option<Q>, Q::Error>(e) },
{
        
        proof { lemma_has_pair_pos(self.qualifiers@, lower_ascii_seq(Q::KEY@)); }
self.get(Q::KEY).map(Q::try_from).transpose()
    }
// ---- unit U-qmap.insert_typed  <= purl/src/qualifiers.rs:232 ----
pub fn insert_typed<Q>(&mut self, value: Q) where Q: KnownQualifierKey, SmallString: From<Q>,
        requires old(self).wf(), valid_key(Q::KEY@)
        ensures final(self).wf(),
            <SmallString as vstd::std_specs::convert::FromSpec<Q>>::obeys_from_spec() ==> ({
                let k = lower_ascii_seq(Q::KEY@);
                let p = pos_of(old(self).qualifiers@, k);
                let val = <SmallString as vstd::std_specs::convert::FromSpec<Q>>::from_spec(value);
                if has_key(old(self).qualifiers@, k) {
                    final(self).qualifiers@ == old(self).qualifiers@.update(p, (old(self).qualifiers@[p].0, val))
                } else {
                    final(self).qualifiers@.len() == old(self).qualifiers@.len() + 1 && final(self).qualifiers@[p].0.0@ == k
                    && final(self).qualifiers@ == old(self).qualifiers@.insert(p, (final(self).qualifiers@[p].0, val))
                }
            })
{
        self.insert::<&'static str, _>(Q::KEY, value).unwrap();
    }
// ---- unit U-qmap.remove_typed  <= purl/src/qualifiers.rs:273 ----
pub fn remove_typed<Q>(&mut self) where Q: KnownQualifierKey,
        requires old(self).wf()
        ensures final(self).wf(),
            !(valid_key(Q::KEY@) && has_key(old(self).qualifiers@, lower_ascii_seq(Q::KEY@))) ==> final(self).qualifiers@ == old(self).qualifiers@,
            valid_key(Q::KEY@) && has_key(old(self).qualifiers@, lower_ascii_seq(Q::KEY@)) ==>
                final(self).qualifiers@ == old(self).qualifiers@.remove(pos_of(old(self).qualifiers@, lower_ascii_seq(Q::KEY@)))
{
        self.remove(Q::KEY);
    }
}
// ---- unit T.Iter  <= purl/src/qualifiers.rs:489 ----
pub struct Iter<'a>(pub slice::Iter<'a, (QualifierKey, SmallString)>);
// ---- unit spec.Iter  <= (contracts):0 ----

impl<'a> Iter<'a> {
    /// the pairs still to be yielded
    #[verifier::prophetic]
    pub open spec fn rem(&self) -> Seq<&'a (QualifierKey, SmallString)> { vstd::std_specs::iter::IteratorSpec::remaining(&self.0) }
}

impl Qualifiers {
// ---- unit U-qmap.iter  <= purl/src/qualifiers.rs:66 ----
pub fn iter(&self) -> (r: Iter)
        ensures r.rem().len() == self.qualifiers@.len(),
            forall|i: int| 0 <= i < self.qualifiers@.len() ==> *(#[trigger] r.rem()[i]) == self.qualifiers@[i]
{
        Iter(self.qualifiers.iter())
    }
// ---- unit U-qmap.into_iter  <= purl/src/qualifiers.rs:301 ----
pub fn into_iter(&self) -> (r: Iter<'_>)
        ensures r.rem().len() == self.qualifiers@.len(),
            forall|i: int| 0 <= i < self.qualifiers@.len() ==> *(#[trigger] r.rem()[i]) == self.qualifiers@[i]
{
        self.iter()
    }
}
impl<'a> Iter<'a> {
// ---- unit U-qmap.Iter.next  <= purl/src/qualifiers.rs:494 ----
pub fn next(&mut self) -> (r: Option<(&'a QualifierKey, &'a str)>)
        ensures
            old(self).rem().len() == 0 ==> r is None,
            old(self).rem().len() > 0 ==> r is Some
                && r->Some_0.0.0@ == old(self).rem()[0].0.0@ && r->Some_0.1@ == old(self).rem()[0].1@
                && final(self).rem() == old(self).rem().skip(1),
{
        let (k, v) = self.0.next()?;
        Some((k, v.as_str()))
    }
}
impl Qualifiers {
// ---- unit U-qmap.contains_typed  <= purl/src/qualifiers.rs:199 ----
pub fn contains_typed<Q>(&self) -> (r: bool)
where Q: KnownQualifierKey,
        requires self.wf()
        ensures r == (valid_key(Q::KEY@) && has_key(self.qualifiers@, lower_ascii_seq(Q::KEY@)))
{
        self.contains_key(Q::KEY)
    }
// ---- unit U-qmap.get_typed  <= purl/src/qualifiers.rs:124 ----
pub fn get_typed<'a, Q>(&'a self) -> (r: Option<Q>)
where Q: From<&'a str> + KnownQualifierKey,
        requires self.wf()
        ensures r is Some == (valid_key(Q::KEY@) && has_key(self.qualifiers@, lower_ascii_seq(Q::KEY@)))
{
        self.get(Q::KEY).map(Q::from)
    }
// ---- unit U-qmap.try_insert_typed  <= purl/src/qualifiers.rs:247 ----
pub fn try_insert_typed<Q>( &mut self, value: Q, ) -> (r: Result<(), <SmallString as TryFrom<Q>>::Error>)
where Q: KnownQualifierKey, SmallString: TryFrom<Q>,
        requires old(self).wf(), valid_key(Q::KEY@)
        ensures final(self).wf(),
            exists|x: Result<SmallString, <SmallString as TryFrom<Q>>::Error>| #[trigger] <SmallString as TryFrom<Q>>::try_from_rel(value, x) && match x {
                Err(e) => r == Err::<(), <SmallString as TryFrom<Q>>::Error>(e) && final(self).qualifiers@ == old(self).qualifiers@,
                Ok(val) => r is Ok && ({
                    let k = lower_ascii_seq(Q::KEY@);
                    let p = pos_of(old(self).qualifiers@, k);
                    if has_key(old(self).qualifiers@, k) {
                        final(self).qualifiers@ == old(self).qualifiers@.update(p, (old(self).qualifiers@[p].0, val))
                    } else {
                        final(self).qualifiers@.len() == old(self).qualifiers@.len() + 1 && final(self).qualifiers@[p].0.0@ == k
                        && final(self).qualifiers@ == old(self).qualifiers@.insert(p, (final(self).qualifiers@[p].0, val))
                    }
                }),
            }
{
        proof { axiom_string_from(); }

        let value = <SmallString as TryFrom<Q>>::try_from(value)?;
        self.insert(Q::KEY, value).unwrap();
        Ok(())
    }
}
impl<'a, K: AsRef<str>> Entry<'a, K> {
// ---- unit U-qmap.Entry.or_insert  <= purl/src/qualifiers.rs:383 ----
pub fn or_insert<V>(self, default: V) -> (r: &'a mut SmallString)
where SmallString: From<K> + From<V>,
        requires match self { Entry::Occupied(o) => o.wf(), Entry::Vacant(v) => v.wf() }
        ensures
            self is Occupied ==> ({
                let ix = self->Occupied_0.index as int;
                *r == old(self->Occupied_0.qualifiers)@[ix].1
                && final(self->Occupied_0.qualifiers)@ == old(self->Occupied_0.qualifiers)@.update(ix, (old(self->Occupied_0.qualifiers)@[ix].0, *final(r)))
                && wf_seq(final(self->Occupied_0.qualifiers)@)
            }),
            self is Vacant ==> ({
                let ix = self->Vacant_0.index as int;
                wf_seq(final(self->Vacant_0.qualifiers)@)
                && final(self->Vacant_0.qualifiers)@.len() == old(self->Vacant_0.qualifiers)@.len() + 1
                && final(self->Vacant_0.qualifiers)@[ix].0.0@ == self->Vacant_0.key.canon()
                && final(self->Vacant_0.qualifiers)@ == old(self->Vacant_0.qualifiers)@.insert(ix, (final(self->Vacant_0.qualifiers)@[ix].0, *final(r)))
                && (<SmallString as vstd::std_specs::convert::FromSpec<V>>::obeys_from_spec() ==>
                        *r == <SmallString as vstd::std_specs::convert::FromSpec<V>>::from_spec(default))
            }),
{
        match self {
            Entry::Occupied(o) => o.into_mut(),
            Entry::Vacant(v) => v.insert(default),
        }
    }
// ---- unit U-qmap.Entry.or_insert_with  <= purl/src/qualifiers.rs:396 ----
pub fn or_insert_with<F, V>(self, default: F) -> (r: &'a mut SmallString)
where F: FnOnce() -> V, SmallString: From<K> + From<V>,
        requires match self { Entry::Occupied(o) => o.wf(), Entry::Vacant(v) => v.wf() }, default.requires(())
        ensures
            self is Occupied ==> ({
                let ix = self->Occupied_0.index as int;
                *r == old(self->Occupied_0.qualifiers)@[ix].1
                && final(self->Occupied_0.qualifiers)@ == old(self->Occupied_0.qualifiers)@.update(ix, (old(self->Occupied_0.qualifiers)@[ix].0, *final(r)))
                && wf_seq(final(self->Occupied_0.qualifiers)@)
            }),
            self is Vacant ==> ({
                let ix = self->Vacant_0.index as int;
                wf_seq(final(self->Vacant_0.qualifiers)@)
                && final(self->Vacant_0.qualifiers)@.len() == old(self->Vacant_0.qualifiers)@.len() + 1
                && final(self->Vacant_0.qualifiers)@[ix].0.0@ == self->Vacant_0.key.canon()
                && final(self->Vacant_0.qualifiers)@ == old(self->Vacant_0.qualifiers)@.insert(ix, (final(self->Vacant_0.qualifiers)@[ix].0, *final(r)))
                // the closure is called exactly here, and what it returns is what is stored
                && exists|dv: V| #[trigger] default.ensures((), dv) && (<SmallString as vstd::std_specs::convert::FromSpec<V>>::obeys_from_spec() ==>
                        *r == <SmallString as vstd::std_specs::convert::FromSpec<V>>::from_spec(dv))
            }),
{
        match self {
            Entry::Occupied(o) => o.into_mut(),
            Entry::Vacant(v) => v.insert(default()),
        }
    }
// ---- unit U-qmap.Entry.and_modify  <= purl/src/qualifiers.rs:408 ----
pub fn and_modify<F>(self, f: F) -> (r: Self)
where F: FnOnce(&mut SmallString),
        requires match self { Entry::Occupied(o) => o.wf(), Entry::Vacant(v) => v.wf() },
            forall|y: &mut SmallString| f.requires((y,))
        ensures
            // absent: nothing happens, the closure is not called
            self is Vacant ==> r == self,
            // present: the closure is applied to exactly the value of that key; keys, order and the other values are untouched
            self is Occupied ==> r is Occupied && r->Occupied_0.index == self->Occupied_0.index,
            self is Occupied ==> r->Occupied_0.wf(),
            self is Occupied ==> final(r->Occupied_0.qualifiers)@ == final(self->Occupied_0.qualifiers)@,
            self is Occupied ==> exists|y: &mut SmallString| #[trigger] f.ensures((y,), ())
                    && *y == self->Occupied_0.qualifiers@[self->Occupied_0.index as int].1
                    && r->Occupied_0.qualifiers@ == self->Occupied_0.qualifiers@.update(self->Occupied_0.index as int,
                            (self->Occupied_0.qualifiers@[self->Occupied_0.index as int].0, *final(y)))
{
    let mut this = self;
        match &mut this {
            Entry::Occupied(ref mut o) => f(o.get_mut()),
            Entry::Vacant(_) => {},
        }
        this
    }
}
impl Qualifiers {
// ---- unit U-qmap.index  <= purl/src/qualifiers.rs:614 ----
pub fn index<K: AsRef<str>>(&self, index: K) -> (r: &SmallString)
        requires self.wf(), valid_key(index.text()) && has_key(self.qualifiers@, lower_ascii_seq(index.text()))
        ensures has_pair(self.qualifiers@, lower_ascii_seq(index.text()), r@)
{
        broadcast use axiom_view_of_str;

        let index = index.as_ref();
        let Some(value) = self.get_index(index).map(|i: usize| -> (s: &SmallString) requires i < self.qualifiers@.len() ensures *s == self.qualifiers@[i as int].1 { &self.qualifiers[i].1 }) else {
            x_panic_absent();
        };
        value
    }
// ---- unit U-qmap.index_mut  <= purl/src/qualifiers.rs:627 ----
pub fn index_mut<K: AsRef<str>>(&mut self, index: K) -> (r: &mut SmallString)
        requires old(self).wf(), valid_key(index.text()) && has_key(old(self).qualifiers@, lower_ascii_seq(index.text()))
        ensures ({
                let p = pos_of(old(self).qualifiers@, lower_ascii_seq(index.text()));
                0 <= p < old(self).qualifiers@.len() && *r == old(self).qualifiers@[p].1
                && final(self).qualifiers@ == old(self).qualifiers@.update(p, (old(self).qualifiers@[p].0, *final(r)))
            }),
            final(self).wf()
{
        broadcast use axiom_view_of_str;
        proof { let v = self.qualifiers@;
            assert forall|ix: int, x: SmallString| 0 <= ix < v.len() implies wf_seq(#[trigger] v.update(ix, (v[ix].0, x))) by { lemma_update_value_keeps_wf(v, ix, x); } }

        let index = index.as_ref();
        let Some(value) = (match self.get_index(index) { Some(i) => Some(&mut self.qualifiers[i].1), None => None }) else {
            x_panic_absent();
        };
        value
    }
}
// ---- unit stub.vec_capacity  <= (contracts):0 ----

// std contracts (assumed): capacity management never touches the content
pub assume_specification<T, A: core::alloc::Allocator>[Vec::<T, A>::reserve_exact](v: &mut Vec<T, A>, additional: usize)
    ensures final(v)@ == old(v)@;
pub assume_specification<T, A: core::alloc::Allocator>[Vec::<T, A>::capacity](v: &Vec<T, A>) -> (r: usize)
    ensures r >= v@.len();
// R9: derive(Default) on Qualifiers (derive semantics, assumed): the empty list
impl Default for Qualifiers {
    fn default() -> (r: Self) ensures r.qualifiers@.len() == 0
    { Qualifiers { qualifiers: Vec::new() } }
}

impl Qualifiers {
// ---- unit U-qmap.reserve  <= purl/src/qualifiers.rs:98 ----
pub fn reserve(&mut self, additional: usize)
        ensures final(self).qualifiers@ == old(self).qualifiers@
{
        self.qualifiers.reserve(additional)
    }
// ---- unit U-qmap.reserve_exact  <= purl/src/qualifiers.rs:107 ----
pub fn reserve_exact(&mut self, additional: usize)
        ensures final(self).qualifiers@ == old(self).qualifiers@
{
        self.qualifiers.reserve_exact(additional)
    }
// ---- unit U-qmap.capacity  <= purl/src/qualifiers.rs:61 ----
pub fn capacity(&self) -> (r: usize)
        ensures r >= self.qualifiers@.len()
{
        self.qualifiers.capacity()
    }
// ---- unit U-qmap.with_capacity  <= purl/src/qualifiers.rs:54 ----
pub fn with_capacity(capacity: usize) -> (r: Self)
        ensures r.qualifiers@.len() == 0, r.wf()
{
        let mut this = Self::default();
        this.reserve_exact(capacity);
        this
    }
}
impl QualifierKey {
// ---- unit U-qkey.as_str  <= purl/src/qualifiers.rs:368 ----
pub fn as_str(&self) -> (r: &str)
        ensures r@ == self.0@
{
        self.0.as_str()
    }
}
impl<'a> Iter<'a> {
// ---- unit U-qmap.Iter.next_back  <= purl/src/qualifiers.rs:507 ----
pub fn next_back(&mut self) -> (r: Option<(&'a QualifierKey, &'a str)>)
        ensures
            old(self).rem().len() == 0 ==> r is None,
            old(self).rem().len() > 0 ==> r is Some
                && r->Some_0.0.0@ == old(self).rem().last().0.0@ && r->Some_0.1@ == old(self).rem().last().1@
                && final(self).rem() == old(self).rem().drop_last(),
{
        let (k, v) = self.0.next_back()?;
        Some((k, v.as_str()))
    }
// ---- unit U-qmap.Iter.size_hint  <= purl/src/qualifiers.rs:499 ----
pub fn size_hint(&self) -> (r: (usize, Option<usize>))
        ensures r.0 == self.rem().len(), r.1 == Some(r.0)
{
        (self.0.len(), Some(self.0.len()))
    }
}
// ---- unit theory.tfi  <= (contracts):0 ----
// ---- Qualifiers::try_from_iter (C11: construction from pairs) ----
// R5 (`for` over a caller-supplied iterator): the sequence the argument yields is named by an uninterpreted function;
// ASSUMED about the caller's iterator: it is finite and lawful (vstd's prophetic iterator laws) -- an endless iterator of
// distinct valid keys makes the function run out of memory, which no contract can exclude.
pub uninterp spec fn yielded<I: IntoIterator>(i: I) -> Seq<I::Item>;
#[verifier::external_body]
pub fn x_into_iter<I: IntoIterator>(i: I) -> (r: I::IntoIter)
    ensures
        vstd::std_specs::iter::IteratorSpec::remaining(&r) == yielded(i),
        vstd::std_specs::iter::IteratorSpec::obeys_prophetic_iter_laws(&r),
        vstd::std_specs::iter::IteratorSpec::decrease(&r) is Some,
{ i.into_iter() }
/// `iter.size_hint().0`: only a capacity hint, any value
#[verifier::external_body]
pub fn x_size_hint_lower<I: Iterator>(i: &I) -> (r: usize)
{ i.size_hint().0 }

pub open spec fn item_key<K: AsRef<str>, V>(all: Seq<(K, V)>, i: int) -> Seq<char> { lower_ascii_seq(all[i].0.text()) }

/// the first n keys are pairwise different once ASCII-lower-cased
pub open spec fn tfi_distinct<K: AsRef<str>, V>(all: Seq<(K, V)>, n: int) -> bool {
    forall|i: int, j: int| 0 <= i < j < n ==> #[trigger] item_key(all, i) != #[trigger] item_key(all, j)
}
/// each of the first n items is in the list under its lower-cased key, with its value
pub open spec fn tfi_present<K: AsRef<str>, V>(all: Seq<(K, V)>, n: int, q: Seq<(QualifierKey, SmallString)>) -> bool
    where SmallString: From<V>
{
    forall|i: int| 0 <= i < n ==> valid_key((#[trigger] all[i]).0.text()) && has_key(q, item_key(all, i))
            && (<SmallString as vstd::std_specs::convert::FromSpec<V>>::obeys_from_spec() ==>
                    has_pair(q, item_key(all, i), <SmallString as vstd::std_specs::convert::FromSpec<V>>::from_spec(all[i].1)@))
}
/// ... and nothing else is in it
pub open spec fn tfi_origin<K: AsRef<str>, V>(all: Seq<(K, V)>, n: int, q: Seq<(QualifierKey, SmallString)>) -> bool {
    forall|p: int| 0 <= p < q.len() ==> exists|i: int| 0 <= i < n && (#[trigger] q[p]).0.0@ == #[trigger] item_key(all, i)
}
/// the list holds exactly the first n items: each under its lower-cased key with its value, and nothing else
pub open spec fn tfi_inv<K: AsRef<str>, V>(all: Seq<(K, V)>, n: int, q: Seq<(QualifierKey, SmallString)>) -> bool
    where SmallString: From<V>
{
    wf_seq(q) && q.len() == n && tfi_present(all, n, q) && tfi_origin(all, n, q)
}

pub proof fn lemma_tfi_step_distinct<K: AsRef<str>, V>(all: Seq<(K, V)>, n: int, q: Seq<(QualifierKey, SmallString)>)
    where SmallString: From<V>
    requires tfi_present(all, n, q), tfi_distinct(all, n), 0 <= n < all.len(), !has_key(q, item_key(all, n))
    ensures tfi_distinct(all, n + 1)
{
    assert forall|i: int, j: int| 0 <= i < j < n + 1 implies #[trigger] item_key(all, i) != #[trigger] item_key(all, j) by {
        if j == n { assert(valid_key(all[i].0.text()) && has_key(q, item_key(all, i))); }
    }
}

pub proof fn lemma_tfi_step_present<K: AsRef<str>, V>(all: Seq<(K, V)>, n: int, q: Seq<(QualifierKey, SmallString)>, ix: int, kv: (QualifierKey, SmallString))
    where SmallString: From<V>
    requires
        tfi_present(all, n, q), 0 <= n < all.len(), 0 <= ix <= q.len(),
        valid_key(all[n].0.text()), kv.0.0@ == item_key(all, n),
        <SmallString as vstd::std_specs::convert::FromSpec<V>>::obeys_from_spec() ==> kv.1 == <SmallString as vstd::std_specs::convert::FromSpec<V>>::from_spec(all[n].1),
    ensures tfi_present(all, n + 1, q.insert(ix, kv))
{
    let w = q.insert(ix, kv);
    assert forall|i: int| 0 <= i < n + 1 implies valid_key((#[trigger] all[i]).0.text()) && has_key(w, item_key(all, i))
            && (<SmallString as vstd::std_specs::convert::FromSpec<V>>::obeys_from_spec() ==>
                    has_pair(w, item_key(all, i), <SmallString as vstd::std_specs::convert::FromSpec<V>>::from_spec(all[i].1)@)) by {
        if i == n {
            assert(w[ix] == kv);
        } else {
            assert(has_key(q, item_key(all, i)));
            let p = choose|p: int| 0 <= p < q.len() && #[trigger] q[p].0.0@ == item_key(all, i);
            if p < ix { assert(w[p] == q[p]); } else { assert(w[p + 1] == q[p]); }
            if <SmallString as vstd::std_specs::convert::FromSpec<V>>::obeys_from_spec() {
                let val = <SmallString as vstd::std_specs::convert::FromSpec<V>>::from_spec(all[i].1)@;
                assert(has_pair(q, item_key(all, i), val));
                let p2 = choose|p2: int| 0 <= p2 < q.len() && #[trigger] q[p2].0.0@ == item_key(all, i) && q[p2].1@ == val;
                if p2 < ix { assert(w[p2] == q[p2]); } else { assert(w[p2 + 1] == q[p2]); }
            }
        }
    }
}

pub proof fn lemma_tfi_step_origin<K: AsRef<str>, V>(all: Seq<(K, V)>, n: int, q: Seq<(QualifierKey, SmallString)>, ix: int, kv: (QualifierKey, SmallString))
    requires tfi_origin(all, n, q), 0 <= n < all.len(), 0 <= ix <= q.len(), kv.0.0@ == item_key(all, n),
    ensures tfi_origin(all, n + 1, q.insert(ix, kv))
{
    let w = q.insert(ix, kv);
    assert forall|p: int| 0 <= p < w.len() implies exists|i: int| 0 <= i < n + 1 && (#[trigger] w[p]).0.0@ == #[trigger] item_key(all, i) by {
        if p == ix { assert(w[p].0.0@ == item_key(all, n)); }
        else if p < ix {
            assert(w[p] == q[p]);
            let i = choose|i: int| 0 <= i < n && q[p].0.0@ == #[trigger] item_key(all, i);
            assert(w[p].0.0@ == item_key(all, i));
        } else {
            assert(w[p] == q[p - 1]);
            let i = choose|i: int| 0 <= i < n && q[p - 1].0.0@ == #[trigger] item_key(all, i);
            assert(w[p].0.0@ == item_key(all, i));
        }
    }
}

pub proof fn lemma_tfi_step<K: AsRef<str>, V>(all: Seq<(K, V)>, n: int, q: Seq<(QualifierKey, SmallString)>, ix: int, kv: (QualifierKey, SmallString))
    where SmallString: From<V>
    requires
        tfi_inv(all, n, q), tfi_distinct(all, n), 0 <= n < all.len(), 0 <= ix <= q.len(),
        valid_key(all[n].0.text()), kv.0.0@ == item_key(all, n), !has_key(q, item_key(all, n)),
        wf_seq(q.insert(ix, kv)),
        <SmallString as vstd::std_specs::convert::FromSpec<V>>::obeys_from_spec() ==> kv.1 == <SmallString as vstd::std_specs::convert::FromSpec<V>>::from_spec(all[n].1),
    ensures
        tfi_inv(all, n + 1, q.insert(ix, kv)), tfi_distinct(all, n + 1),
{
    lemma_tfi_step_distinct(all, n, q);
    lemma_tfi_step_present(all, n, q, ix, kv);
    lemma_tfi_step_origin(all, n, q, ix, kv);
}

impl Qualifiers {
// ---- unit U-qmap.try_from_iter  <= purl/src/qualifiers.rs:33 ----
pub fn try_from_iter<I, K, V>(items: I) -> (r: Result<Self, ParseError>)
where I: IntoIterator<Item = (K, V)>, K: AsRef<str>, V: AsRef<str>, SmallString: From<K> + From<V>,
        ensures match r {
            // accepted: exactly the given pairs, each under its lower-cased key, strictly ascending; the keys were all valid and pairwise different in any letter case
            Ok(q) => q.wf() && tfi_inv(yielded(items), yielded(items).len() as int, q.qualifiers@) && tfi_distinct(yielded(items), yielded(items).len() as int),
            // refused: some key is not a valid key, or two keys are the same up to ASCII case
            Err(e) => e is InvalidQualifier && ((exists|i: int| 0 <= i < yielded(items).len() && !valid_key(#[trigger] yielded(items)[i].0.text()))
                || (exists|i: int, j: int| 0 <= i < j < yielded(items).len() && #[trigger] item_key(yielded(items), i) == #[trigger] item_key(yielded(items), j))),
        }
{
        let ghost all = yielded(items);
        let ghost mut gi: int = 0;

        let items_ = x_into_iter(items);
        let mut this = Qualifiers::with_capacity(x_size_hint_lower(&items_));
        { 
        proof { assert(all.skip(0) =~= all); }
let mut iter_ = items_;
 loop 

            invariant
                0 <= gi <= all.len(), all == yielded(items),
                vstd::std_specs::iter::IteratorSpec::obeys_prophetic_iter_laws(&iter_),
                vstd::std_specs::iter::IteratorSpec::decrease(&iter_) is Some,
                vstd::std_specs::iter::IteratorSpec::remaining(&iter_) == all.skip(gi),
                this.wf(), tfi_inv(all, gi, this.qualifiers@), tfi_distinct(all, gi),
            ensures gi == all.len(),
            decreases vstd::std_specs::iter::IteratorSpec::decrease(&iter_)->Some_0,
{
 match iter_.next() { Some((key, value)) => {
            
            let ghost qv = this.qualifiers@;
match (match this.entry(key) { Ok(v_) => v_, Err(e_) => { proof { assert(!valid_key(all[gi].0.text())); } return Err(e_) } }) {
                Entry::Occupied(_) => 
{ proof {
                        let p = pos_of(qv, item_key(all, gi));
                        let i = choose|i: int| 0 <= i < gi && qv[p].0.0@ == #[trigger] item_key(all, i);
                        assert(item_key(all, i) == item_key(all, gi));
                    } 
return Err(ParseError::InvalidQualifier)
 }
,
                Entry::Vacant(entry) => {
                    
                        let ghost ix = entry.index as int;
entry.insert(value);
                        proof {
                            lemma_tfi_step(all, gi, qv, ix, this.qualifiers@[ix]);
                            assert(all.skip(gi).skip(1) =~= all.skip(gi + 1));
                            gi = gi + 1;
                        }

                },
            }
        }, None => break, }
 } }
        
        proof { assert(gi == all.len()); }
Ok(this)
    }
// ---- unit U-qmap.retain  <= purl/src/qualifiers.rs:281 ----
#[verifier::external_body]
pub fn retain<F>(&mut self, mut f: F) where F: FnMut(&QualifierKey, &str) -> bool,
        requires old(self).wf()
        ensures final(self).wf(), final(self).qualifiers@.len() <= old(self).qualifiers@.len(),
            forall|i: int| 0 <= i < final(self).qualifiers@.len() ==> exists|j: int| 0 <= j < old(self).qualifiers@.len() && old(self).qualifiers@[j] == #[trigger] final(self).qualifiers@[i]
{ unimplemented!() }
// ---- unit U-qmap.retain_mut  <= purl/src/qualifiers.rs:289 ----
#[verifier::external_body]
pub fn retain_mut<F>(&mut self, mut f: F) where F: FnMut(&QualifierKey, &mut SmallString) -> bool,
        requires old(self).wf()
        ensures final(self).wf(), final(self).qualifiers@.len() <= old(self).qualifiers@.len(),
            forall|i: int| 0 <= i < final(self).qualifiers@.len() ==> exists|j: int| 0 <= j < old(self).qualifiers@.len() && old(self).qualifiers@[j].0 == #[trigger] final(self).qualifiers@[i].0
{ unimplemented!() }
}
// ---- unit theory.qualuniq  <= (contracts):0 ----
// ---- C11, last sentence: "Two collections with the same content are equal ... regardless of insertion order and key case" ----
// The representation is canonical: the invariant (lower-case keys, strictly ascending) leaves exactly one sequence per content.
pub open spec fn same_content(a: Seq<(QualifierKey, SmallString)>, b: Seq<(QualifierKey, SmallString)>) -> bool {
    forall|k: Seq<char>, v: Seq<char>| has_pair(a, k, v) <==> has_pair(b, k, v)
}

pub proof fn lemma_wf_content_unique(a: Seq<(QualifierKey, SmallString)>, b: Seq<(QualifierKey, SmallString)>)
    requires keys_sorted(a), keys_sorted(b), same_content(a, b)
    ensures a.len() == b.len(), forall|i: int| 0 <= i < a.len() ==> (#[trigger] a[i]).0.0@ == b[i].0.0@ && a[i].1@ == b[i].1@
    decreases a.len() + b.len()
{
    if a.len() == 0 {
        if b.len() > 0 { assert(has_pair(b, b[0].0.0@, b[0].1@)); let i = choose|i: int| 0 <= i < a.len() && #[trigger] a[i].0.0@ == b[0].0.0@ && a[i].1@ == b[0].1@; }
    } else if b.len() == 0 {
        assert(has_pair(a, a[0].0.0@, a[0].1@)); let i = choose|i: int| 0 <= i < b.len() && #[trigger] b[i].0.0@ == a[0].0.0@ && b[i].1@ == a[0].1@;
    } else {
        let la = a.last(); let lb = b.last();
        let na = a.len() - 1; let nb = b.len() - 1;
        // the last element of each is in the other
        assert(has_pair(a, la.0.0@, la.1@)) by { assert(a[na] == la); }
        assert(has_pair(b, lb.0.0@, lb.1@)) by { assert(b[nb] == lb); }
        let ib = choose|i: int| 0 <= i < b.len() && #[trigger] b[i].0.0@ == la.0.0@ && b[i].1@ == la.1@;
        let ia = choose|i: int| 0 <= i < a.len() && #[trigger] a[i].0.0@ == lb.0.0@ && a[i].1@ == lb.1@;
        // both are the largest key, hence the same element
        if ib < nb { assert(str_lt(b[ib].0.0@, b[nb].0.0@)); if ia < na { assert(str_lt(a[ia].0.0@, a[na].0.0@)); lemma_lt_asym(la.0.0@, lb.0.0@); } else { lemma_lt_irrefl(la.0.0@); } }
        if ia < na { assert(str_lt(a[ia].0.0@, a[na].0.0@)); if ib == nb { lemma_lt_irrefl(lb.0.0@); } }
        assert(ib == nb && ia == na);
        // the rest has the same content
        let wa = a.drop_last(); let wb = b.drop_last();
        assert(keys_sorted(wa)) by { assert forall|i: int, j: int| 0 <= i < j < wa.len() implies str_lt(#[trigger] wa[i].0.0@, #[trigger] wa[j].0.0@) by { assert(wa[i] == a[i] && wa[j] == a[j]); } }
        assert(keys_sorted(wb)) by { assert forall|i: int, j: int| 0 <= i < j < wb.len() implies str_lt(#[trigger] wb[i].0.0@, #[trigger] wb[j].0.0@) by { assert(wb[i] == b[i] && wb[j] == b[j]); } }
        assert(same_content(wa, wb)) by {
            assert forall|k: Seq<char>, v: Seq<char>| has_pair(wa, k, v) <==> has_pair(wb, k, v) by {
                if has_pair(wa, k, v) {
                    let i = choose|i: int| 0 <= i < wa.len() && #[trigger] wa[i].0.0@ == k && wa[i].1@ == v;
                    assert(a[i] == wa[i]); assert(has_pair(a, k, v));
                    let j = choose|j: int| 0 <= j < b.len() && #[trigger] b[j].0.0@ == k && b[j].1@ == v;
                    if j == nb { assert(str_lt(a[i].0.0@, a[na].0.0@)); lemma_lt_irrefl(k); }
                    assert(wb[j] == b[j]);
                }
                if has_pair(wb, k, v) {
                    let j = choose|j: int| 0 <= j < wb.len() && #[trigger] wb[j].0.0@ == k && wb[j].1@ == v;
                    assert(b[j] == wb[j]); assert(has_pair(b, k, v));
                    let i = choose|i: int| 0 <= i < a.len() && #[trigger] a[i].0.0@ == k && a[i].1@ == v;
                    if i == na { assert(str_lt(b[j].0.0@, b[nb].0.0@)); lemma_lt_irrefl(k); }
                    assert(wa[i] == a[i]);
                }
            }
        }
        lemma_wf_content_unique(wa, wb);
        assert forall|i: int| 0 <= i < a.len() implies (#[trigger] a[i]).0.0@ == b[i].0.0@ && a[i].1@ == b[i].1@ by {
            if i < na { assert(wa[i] == a[i] && wb[i] == b[i]); }
        }
    }
}


// ---- consistency canary: must be REJECTED; if it verifies the assumptions are contradictory ----
pub proof fn verif_canary_must_fail()
{
    axiom_string_from(); broadcast use axiom_ascii_to_lower; broadcast use axiom_view_of_str; axiom_from_keeps_text::<&str>();
    assert(false);
}
} // verus!
fn main() {}
