// GENERATED on every run by vlib/extract.py from /repo -- do not edit
#![allow(unused_imports, unused_variables, unused_mut, dead_code, unused_parens, unused_braces, non_snake_case)]
#![feature(allocator_api)]
use vstd::prelude::*;
use core::cmp::Ordering;
verus! {

// ---- theory: base.rs ----
// Shared vocabulary. Strings are Seq<char>. Everything marked `uninterp` or `external_body` below is an
// ASSUMPTION about std / Unicode; each is listed in the trusted base and replayed against the real std by
// the A step (exhaustively per char, bounded per string).

pub type SmallString = String;   // R0: purl's own `#[cfg(not(feature = "smartstring"))] type SmallString = String;`

// ---- Unicode tables (uninterpreted) ----
pub uninterp spec fn u_to_lower(c: char) -> Seq<char>;      // char::to_lowercase, as a sequence

pub open spec fn is_ascii_c(c: char) -> bool { (c as u32) < 128 }
pub open spec fn ascii_upper_c(c: char) -> bool { 'A' <= c && c <= 'Z' }
pub open spec fn ascii_lower_c(c: char) -> bool { 'a' <= c && c <= 'z' }
pub open spec fn ascii_digit_c(c: char) -> bool { '0' <= c && c <= '9' }
pub open spec fn ascii_alnum_c(c: char) -> bool { ascii_upper_c(c) || ascii_lower_c(c) || ascii_digit_c(c) }
pub open spec fn ascii_hex_c(c: char) -> bool { ascii_digit_c(c) || ('a' <= c && c <= 'f') || ('A' <= c && c <= 'F') }
pub open spec fn ascii_lower(c: char) -> char { if ascii_upper_c(c) { ((c as u32 + 32) as char) } else { c } }

/// Unicode lower-casing of a string: each character replaced by its lower-case mapping (C08 wording).
pub open spec fn lower_seq(s: Seq<char>) -> Seq<char> decreases s.len()
{ if s.len() == 0 { seq![] } else { lower_seq(s.drop_last()) + u_to_lower(s.last()) } }

/// ASCII lower-casing (what make_ascii_lowercase / to_ascii_lowercase do).
pub open spec fn lower_ascii_seq(s: Seq<char>) -> Seq<char> { s.map_values(|c: char| ascii_lower(c)) }

pub open spec fn all_ascii_lower(s: Seq<char>) -> bool { forall|i: int| 0 <= i < s.len() ==> ascii_lower_c(#[trigger] s[i]) }

pub open spec fn has_char(s: Seq<char>, c: char) -> bool { exists|i: int| 0 <= i < s.len() && s[i] == c }

// A-validated fact (exhaustive over all 128 ASCII chars): on ASCII, Unicode lower-casing is ASCII lower-casing.
#[verifier::external_body]
pub broadcast proof fn axiom_ascii_to_lower(c: char)
    requires is_ascii_c(c)
    ensures #[trigger] u_to_lower(c) == seq![ascii_lower(c)]
{ }

// ---- char methods (assumed = their documented ASCII definitions; A: exhaustive over all scalar values) ----
pub assume_specification [char::is_ascii] (c: &char) -> (r: bool) ensures r == is_ascii_c(*c);
pub assume_specification [char::is_ascii_alphanumeric] (c: &char) -> (r: bool) ensures r == ascii_alnum_c(*c);
pub assume_specification [char::is_ascii_lowercase] (c: &char) -> (r: bool) ensures r == ascii_lower_c(*c);
pub assume_specification [char::is_ascii_hexdigit] (c: &char) -> (r: bool) ensures r == ascii_hex_c(*c);
pub assume_specification [char::is_ascii_uppercase] (c: &char) -> (r: bool) ensures r == ascii_upper_c(*c);
pub assume_specification [char::is_ascii_digit] (c: &char) -> (r: bool) ensures r == ascii_digit_c(*c);
pub assume_specification [char::is_ascii_alphabetic] (c: &char) -> (r: bool) ensures r == (ascii_upper_c(*c) || ascii_lower_c(*c));
pub assume_specification [char::to_ascii_lowercase] (c: &char) -> (r: char) ensures r == ascii_lower(*c);

/// byte length of the UTF-8 encoding (uninterpreted; only that it is a function of the text is used)
pub uninterp spec fn utf8_len(s: Seq<char>) -> nat;
pub assume_specification [String::len] (s: &String) -> (r: usize) ensures r == utf8_len(s@);

pub assume_specification [std::string::String::with_capacity] (n: usize) -> (r: String) ensures r@ == Seq::<char>::empty();

// ---- string wrappers (R3): body IS the original call; only the contract is assumed ----
#[verifier::external_body]
pub fn x_make_ascii_lowercase(s: &mut str)
    ensures final(s)@ == lower_ascii_seq(old(s)@)
{ s.make_ascii_lowercase() }

// `&mut String -> &mut str` deref coercion: same text, writes go through.
pub assume_specification [ <String as core::ops::DerefMut>::deref_mut ] (s: &mut String) -> (r: &mut str)
    ensures r@ == old(s)@, final(r)@ == final(s)@;

/// `<[char]>::contains`
#[verifier::external_body]
pub fn x_slice_contains(s: &[char], c: &char) -> (r: bool)
    ensures r == s@.contains(*c)
{ s.contains(c) }

#[verifier::external_body]
pub fn x_to_ascii_lowercase(s: &str) -> (r: String)
    ensures r@ == lower_ascii_seq(s@)
{ s.to_ascii_lowercase() }

/// `s.chars().flat_map(|c| c.to_lowercase()).collect()`
#[verifier::external_body]
pub fn x_lower_collect(s: &str) -> (r: String)
    ensures r@ == lower_seq(s@)
{ s.chars().flat_map(|c| c.to_lowercase()).collect() }

/// `c.to_lowercase().ne([c])`
#[verifier::external_body]
pub fn x_lower_changes(c: char) -> (r: bool)
    ensures r == (u_to_lower(c) != seq![c])
{ c.to_lowercase().ne([c]) }

/// `result.extend(c.to_lowercase())`
#[verifier::external_body]
pub fn x_extend_lower(s: &mut String, c: char)
    ensures final(s)@ == old(s)@ + u_to_lower(c)
{ s.extend(c.to_lowercase()) }

// String::from(&str) / String::from(String) / .into(): vstd ties From::from to FromSpec; the two instances used by
// purl (with SmallString = String) are assumed to copy / move the text.
#[verifier::external_body]
pub proof fn axiom_string_from()
    ensures
        <String as vstd::std_specs::convert::FromSpec<&str>>::obeys_from_spec(),
        forall|s: &str| (#[trigger] <String as vstd::std_specs::convert::FromSpec<&str>>::from_spec(s))@ == s@,
        <String as vstd::std_specs::convert::FromSpec<String>>::obeys_from_spec(),
        forall|s: String| (#[trigger] <String as vstd::std_specs::convert::FromSpec<String>>::from_spec(s)) == s,
{ }

// ---- lemmas over the vocabulary (proved) ----
pub proof fn lemma_lower_seq_identity(s: Seq<char>)
    requires forall|i: int| 0 <= i < s.len() ==> u_to_lower(#[trigger] s[i]) == seq![s[i]]
    ensures lower_seq(s) == s
    decreases s.len()
{
    if s.len() > 0 {
        lemma_lower_seq_identity(s.drop_last());
        assert(s.drop_last().push(s.last()) == s);
        assert(lower_seq(s) =~= s);
    }
}

pub proof fn lemma_lower_seq_ascii(s: Seq<char>)
    requires forall|i: int| 0 <= i < s.len() ==> (u_to_lower(#[trigger] s[i]) != seq![s[i]] ==> is_ascii_c(s[i]))
    ensures lower_seq(s) == lower_ascii_seq(s)
    decreases s.len()
{
    broadcast use axiom_ascii_to_lower;
    if s.len() > 0 {
        lemma_lower_seq_ascii(s.drop_last());
        let c = s.last();
        if is_ascii_c(c) {
            assert(u_to_lower(c) == seq![ascii_lower(c)]);
        } else {
            assert(u_to_lower(c) == seq![c]);
            assert(ascii_lower(c) == c);
        }
        assert(lower_ascii_seq(s.drop_last()) =~= lower_ascii_seq(s).drop_last());
        assert(lower_seq(s) =~= lower_ascii_seq(s));
    } else {
        assert(lower_seq(s) =~= lower_ascii_seq(s));
    }
}

pub proof fn lemma_lower_seq_push(s: Seq<char>, c: char)
    ensures lower_seq(s.push(c)) == lower_seq(s) + u_to_lower(c)
{
    assert(s.push(c).drop_last() == s);
}

pub proof fn lemma_lower_seq_take(s: Seq<char>, k: int)
    requires 0 <= k < s.len()
    ensures lower_seq(s.take(k + 1)) == lower_seq(s.take(k)) + u_to_lower(s[k])
{
    assert(s.take(k + 1).drop_last() == s.take(k));
}

// ---- trimming / splitting vocabulary (defined, so lemmas about it are proved) ----
pub open spec fn trim_start_spec(s: Seq<char>, c: char) -> Seq<char> decreases s.len()
{ if s.len() > 0 && s[0] == c { trim_start_spec(s.subrange(1, s.len() as int), c) } else { s } }
pub open spec fn trim_end_spec(s: Seq<char>, c: char) -> Seq<char> decreases s.len()
{ if s.len() > 0 && s.last() == c { trim_end_spec(s.drop_last(), c) } else { s } }
pub open spec fn trim_spec(s: Seq<char>, c: char) -> Seq<char> { trim_end_spec(trim_start_spec(s, c), c) }
pub open spec fn all_char(s: Seq<char>, c: char) -> bool { forall|i: int| 0 <= i < s.len() ==> #[trigger] s[i] == c }

/// `s.trim_matches(c)` for a char pattern
#[verifier::external_body]
pub fn x_trim_matches<'a>(s: &'a str, c: char) -> (r: &'a str)
    ensures r@ == trim_spec(s@, c)
{ s.trim_matches(c) }

/// `s.trim_start_matches(c)` for a char pattern
#[verifier::external_body]
pub fn x_trim_start_matches<'a>(s: &'a str, c: char) -> (r: &'a str)
    ensures r@ == trim_start_spec(s@, c)
{ s.trim_start_matches(c) }

/// `s.contains(set)` for a `&[char]` pattern
#[verifier::external_body]
pub fn x_str_contains_any(s: &str, set: &[char]) -> (r: bool)
    ensures r == exists|i: int| 0 <= i < s@.len() && set@.contains(#[trigger] s@[i])
{ s.contains(set) }

/// `s.contains(c)` for a char pattern
#[verifier::external_body]
pub fn x_str_contains_char(s: &str, c: char) -> (r: bool)
    ensures r == has_char(s@, c)
{ s.contains(c) }

pub proof fn lemma_trim_start_all(s: Seq<char>, c: char)
    ensures
        all_char(s, c) ==> trim_start_spec(s, c).len() == 0,
        !all_char(s, c) ==> trim_start_spec(s, c).len() > 0 && trim_start_spec(s, c)[0] != c && !all_char(trim_start_spec(s, c), c),
    decreases s.len()
{
    if s.len() > 0 && s[0] == c {
        let t = s.subrange(1, s.len() as int);
        lemma_trim_start_all(t, c);
        if all_char(s, c) {
            assert forall|i: int| 0 <= i < t.len() implies #[trigger] t[i] == c by { assert(t[i] == s[i + 1]); }
        } else {
            let j = choose|j: int| 0 <= j < s.len() && s[j] != c;
            assert(t[j - 1] == s[j]);
        }
    } else if s.len() > 0 {
        assert(s[0] != c);
    }
}

pub proof fn lemma_trim_end_all(s: Seq<char>, c: char)
    ensures
        all_char(s, c) ==> trim_end_spec(s, c).len() == 0,
        !all_char(s, c) ==> trim_end_spec(s, c).len() > 0,
    decreases s.len()
{
    if s.len() > 0 && s.last() == c {
        let t = s.drop_last();
        lemma_trim_end_all(t, c);
        if !all_char(s, c) {
            let j = choose|j: int| 0 <= j < s.len() && s[j] != c;
            assert(t[j] == s[j]);
        }
    } else if s.len() > 0 {
        assert(s[s.len() - 1] != c);
    }
}

/// trimming leaves nothing exactly when the string consists of the trimmed character only
pub proof fn lemma_trim_empty_iff_all(s: Seq<char>, c: char)
    ensures (trim_spec(s, c).len() == 0) == all_char(s, c)
{
    lemma_trim_start_all(s, c);
    lemma_trim_end_all(trim_start_spec(s, c), c);
}

pub proof fn lemma_lower_ascii_fixed(s: Seq<char>)
    requires forall|i: int| 0 <= i < s.len() ==> !ascii_upper_c(#[trigger] s[i])
    ensures lower_ascii_seq(s) == s
{
    assert(lower_ascii_seq(s) =~= s);
}

// ---- idempotence of lower-casing (C10, C12) ----
/// A-validated (exhaustive over all scalar values): lower-casing the lower-case mapping of a char changes nothing
#[verifier::external_body]
pub proof fn axiom_lower_idem_char(c: char)
    ensures lower_seq(u_to_lower(c)) == u_to_lower(c)
{ }

pub proof fn lemma_lower_seq_concat(a: Seq<char>, b: Seq<char>)
    ensures lower_seq(a + b) == lower_seq(a) + lower_seq(b)
    decreases b.len()
{
    if b.len() == 0 {
        assert(a + b =~= a);
        assert(lower_seq(a) + lower_seq(b) =~= lower_seq(a));
    } else {
        assert((a + b).drop_last() =~= a + b.drop_last());
        assert((a + b).last() == b.last());
        lemma_lower_seq_concat(a, b.drop_last());
        assert(lower_seq(a + b) =~= lower_seq(a) + lower_seq(b));
    }
}

/// lower-casing is a projection: applying it twice is applying it once
pub proof fn lemma_lower_seq_idem(s: Seq<char>)
    ensures lower_seq(lower_seq(s)) == lower_seq(s)
    decreases s.len()
{
    if s.len() > 0 {
        lemma_lower_seq_idem(s.drop_last());
        axiom_lower_idem_char(s.last());
        lemma_lower_seq_concat(lower_seq(s.drop_last()), u_to_lower(s.last()));
    }
}

// A-validated per char (exhaustive over all scalar values): lower-casing never yields the empty string
#[verifier::external_body]
pub proof fn axiom_lower_nonempty(c: char)
    ensures u_to_lower(c).len() > 0
{ }

// ---- theory: split.rs ----
// ---- splitting vocabulary (defined recursively, so the lemmas below are proved, not assumed) ----
pub open spec fn last_index_of(s: Seq<char>, c: char) -> int decreases s.len()
{ if s.len() == 0 { -1 } else if s.last() == c { s.len() - 1 } else { last_index_of(s.drop_last(), c) } }

pub open spec fn first_index_of(s: Seq<char>, c: char) -> int decreases s.len()
{ if s.len() == 0 { -1 } else if s[0] == c { 0 } else { let r = first_index_of(s.subrange(1, s.len() as int), c); if r < 0 { -1 } else { r + 1 } } }

pub proof fn lemma_last_index(s: Seq<char>, c: char)
    ensures
        has_char(s, c) <==> last_index_of(s, c) >= 0,
        last_index_of(s, c) >= 0 ==> last_index_of(s, c) < s.len() && s[last_index_of(s, c)] == c
            && forall|j: int| last_index_of(s, c) < j < s.len() ==> s[j] != c,
        last_index_of(s, c) >= -1,
    decreases s.len()
{
    if s.len() > 0 {
        let t = s.drop_last();
        lemma_last_index(t, c);
        if s.last() == c { assert(s[s.len() - 1] == c); }
        else {
            if has_char(s, c) { let i = choose|i: int| 0 <= i < s.len() && s[i] == c; assert(t[i] == c); }
            if has_char(t, c) { let i = choose|i: int| 0 <= i < t.len() && t[i] == c; assert(s[i] == c); }
            assert forall|j: int| last_index_of(s, c) < j < s.len() && last_index_of(s, c) >= 0 implies s[j] != c by {
                if j < t.len() { assert(t[j] == s[j]); }
            }
        }
    }
}

pub proof fn lemma_first_index(s: Seq<char>, c: char)
    ensures
        has_char(s, c) <==> first_index_of(s, c) >= 0,
        first_index_of(s, c) >= 0 ==> first_index_of(s, c) < s.len() && s[first_index_of(s, c)] == c
            && forall|j: int| 0 <= j < first_index_of(s, c) ==> s[j] != c,
        first_index_of(s, c) >= -1,
    decreases s.len()
{
    if s.len() > 0 {
        let t = s.subrange(1, s.len() as int);
        lemma_first_index(t, c);
        if s[0] == c { }
        else {
            if has_char(s, c) { let i = choose|i: int| 0 <= i < s.len() && s[i] == c; assert(t[i - 1] == c); }
            if has_char(t, c) { let i = choose|i: int| 0 <= i < t.len() && t[i] == c; assert(s[i + 1] == c); }
            if first_index_of(s, c) >= 0 {
                assert(s[first_index_of(t, c) + 1] == t[first_index_of(t, c)]);
                assert forall|j: int| 0 <= j < first_index_of(s, c) implies s[j] != c by {
                    if j > 0 { assert(t[j - 1] == s[j]); }
                }
            }
        }
    }
}

/// joining `ns`, separator, `name` and splitting at the LAST separator gives the pieces back when `name` has none
pub proof fn lemma_rsplit_join(ns: Seq<char>, name: Seq<char>, c: char)
    requires !has_char(name, c)
    ensures last_index_of(ns + seq![c] + name, c) == ns.len()
    decreases name.len()
{
    let s = ns + seq![c] + name;
    if name.len() == 0 {
        assert(s.last() == c);
    } else {
        assert(s.last() == name.last());
        assert(name[name.len() - 1] != c);
        assert(s.drop_last() =~= ns + seq![c] + name.drop_last());
        assert forall|i: int| 0 <= i < name.drop_last().len() implies name.drop_last()[i] != c by { assert(name[i] != c); }
        lemma_rsplit_join(ns, name.drop_last(), c);
    }
}

/// ... and at the FIRST separator when `ns` has none
pub proof fn lemma_split_join(ns: Seq<char>, name: Seq<char>, c: char)
    requires !has_char(ns, c)
    ensures first_index_of(ns + seq![c] + name, c) == ns.len()
    decreases ns.len()
{
    let s = ns + seq![c] + name;
    if ns.len() == 0 {
        assert(s[0] == c);
    } else {
        assert(s[0] == ns[0]);
        assert(ns[0] != c);
        let ns1 = ns.subrange(1, ns.len() as int);
        assert(s.subrange(1, s.len() as int) =~= ns1 + seq![c] + name);
        assert forall|i: int| 0 <= i < ns1.len() implies ns1[i] != c by { assert(ns[i + 1] != c); }
        lemma_split_join(ns1, name, c);
    }
}

/// `s.rsplit_once(c)` for a char pattern
#[verifier::external_body]
pub fn x_rsplit_once<'a>(s: &'a str, c: char) -> (r: Option<(&'a str, &'a str)>)
    ensures match r {
        None => last_index_of(s@, c) < 0,
        Some((a, b)) => last_index_of(s@, c) >= 0 && a@ == s@.subrange(0, last_index_of(s@, c))
            && b@ == s@.subrange(last_index_of(s@, c) + 1, s@.len() as int),
    }
{ s.rsplit_once(c) }

/// `s.split_once(c)` for a char pattern
#[verifier::external_body]
pub fn x_split_once<'a>(s: &'a str, c: char) -> (r: Option<(&'a str, &'a str)>)
    ensures match r {
        None => first_index_of(s@, c) < 0,
        Some((a, b)) => first_index_of(s@, c) >= 0 && a@ == s@.subrange(0, first_index_of(s@, c))
            && b@ == s@.subrange(first_index_of(s@, c) + 1, s@.len() as int),
    }
{ s.split_once(c) }

/// `Some(s).filter(|v| !v.is_empty())`
#[verifier::external_body]
pub fn x_some_nonempty<'a>(s: &'a str) -> (r: Option<&'a str>)
    ensures s@.len() == 0 ==> r is None, s@.len() > 0 ==> r is Some && r->Some_0@ == s@
{ Some(s).filter(|v| !v.is_empty()) }

/// `format!("{}<sep>{}", a, b)` for a one-character literal separator
#[verifier::external_body]
pub fn x_concat3(a: &str, sep: char, b: &str) -> (r: String)
    ensures r@ == a@ + seq![sep] + b@
{ let mut r = String::from(a); r.push(sep); r.push_str(b); r }

/// pieces between raw occurrences of `c`
pub open spec fn split_spec(s: Seq<char>, c: char) -> Seq<Seq<char>> decreases s.len()
{
    if first_index_of(s, c) < 0 || first_index_of(s, c) >= s.len() { seq![s] }
    else { seq![s.subrange(0, first_index_of(s, c))] + split_spec(s.subrange(first_index_of(s, c) + 1, s.len() as int), c) }
}


/// `s.split(c)` for a char pattern, collected (the loop below iterates over the collected pieces)
#[verifier::external_body]
pub fn x_split<'a>(s: &'a str, c: char) -> (r: Vec<&'a str>)
    ensures r@.len() == split_spec(s@, c).len(), forall|i: int| 0 <= i < r@.len() ==> (#[trigger] r@[i])@ == split_spec(s@, c)[i]
{ s.split(c).collect() }


// ---- generic facts about has_char (used by the inverse and checksum theories) ----
pub proof fn lemma_has_char_concat(a: Seq<char>, b: Seq<char>, c: char)
    ensures has_char(a + b, c) == (has_char(a, c) || has_char(b, c))
{
    if has_char(a, c) { let i = choose|i: int| 0 <= i < a.len() && a[i] == c; assert((a + b)[i] == c); }
    if has_char(b, c) { let i = choose|i: int| 0 <= i < b.len() && b[i] == c; assert((a + b)[a.len() + i] == c); }
    if has_char(a + b, c) {
        let i = choose|i: int| 0 <= i < (a + b).len() && (a + b)[i] == c;
        if i < a.len() { assert(a[i] == c); } else { assert(b[i - a.len()] == c); }
    }
}


pub proof fn lemma_single_excludes(c: char, x: char)
    requires c != x
    ensures !has_char(seq![c], x)
{
    if has_char(seq![c], x) { let i = choose|i: int| 0 <= i < seq![c].len() && seq![c][i] == x; }
}


pub proof fn lemma_split_pieces_no_sep(s: Seq<char>, c: char)
    ensures forall|i: int| 0 <= i < split_spec(s, c).len() ==> !has_char(#[trigger] split_spec(s, c)[i], c)
    decreases s.len()
{
    lemma_first_index(s, c);
    let f = first_index_of(s, c);
    if f < 0 || f >= s.len() {
        assert(split_spec(s, c) =~= seq![s]);
    } else {
        let head = s.subrange(0, f);
        let tail = s.subrange(f + 1, s.len() as int);
        lemma_split_pieces_no_sep(tail, c);
        if has_char(head, c) { let i = choose|i: int| 0 <= i < head.len() && head[i] == c; assert(s[i] == c); }
        let ps = split_spec(s, c);
        assert(ps =~= seq![head] + split_spec(tail, c));
        assert forall|i: int| 0 <= i < ps.len() implies !has_char(#[trigger] ps[i], c) by {
            if i == 0 { assert(ps[0] == head); } else { assert(ps[i] == split_spec(tail, c)[i - 1]); }
        }
    }
}


// ---- unit T.PurlField  <= purl/src/parse.rs:112 ----
#[derive(Debug, Clone, Copy)]
pub enum PurlField {
    PackageType,
    Namespace,
    Name,
    Version,
    Subpath,
}
// ---- unit T.ParseError  <= purl/src/parse.rs:17 ----
#[derive(Debug)]
pub enum ParseError {
    UnsupportedUrlScheme,
    MissingRequiredField(PurlField),
    InvalidPackageType,
    InvalidQualifier,
    InvalidEscape,
}
// ---- unit theory.cow  <= (contracts):0 ----
// ---- R9: stub of std::borrow::Cow for B = str (two variants, same names) ----
pub enum Cow<'a, B: ?Sized> { Borrowed(&'a B), Owned(String) }

impl<'a> View for Cow<'a, str> {
    type V = Seq<char>;
    open spec fn view(&self) -> Seq<char> {
        match self { Cow::Borrowed(b) => b@, Cow::Owned(o) => o@ }
    }
}

impl<'a> core::ops::Deref for Cow<'a, str> {
    type Target = str;
    fn deref(&self) -> (r: &str)
        ensures r@ == self@
    {
        match self { Cow::Borrowed(b) => b, Cow::Owned(o) => o.as_str() }
    }
}

// R9: `String: From<Cow<str>>` for the stub Cow (std: the owned text, or a copy of the borrowed text)
pub uninterp spec fn string_of_cow<'a>(c: Cow<'a, str>) -> String;
#[verifier::external_body]
pub broadcast proof fn axiom_string_of_cow<'a>(c: Cow<'a, str>)
    ensures (#[trigger] string_of_cow(c))@ == c@
{ }
impl<'a> vstd::std_specs::convert::FromSpecImpl<Cow<'a, str>> for String {
    open spec fn obeys_from_spec() -> bool { true }
    open spec fn from_spec(c: Cow<'a, str>) -> String { string_of_cow(c) }
}
impl<'a> From<Cow<'a, str>> for String {
    #[verifier::external_body]
    fn from(c: Cow<'a, str>) -> (r: String)
    { match c { Cow::Borrowed(b) => b.to_string(), Cow::Owned(o) => o } }
}


// ---- unit theory.segs  <= (contracts):0 ----
// ---- percent-decoding (uninterpreted) and the segment folds, written from C02 / C05 / C07 ----
/// percent-decode + strict UTF-8 (the `percent-encoding` crate + `str::from_utf8`); None = refused
pub uninterp spec fn dec(s: Seq<char>) -> Option<Seq<char>>;

pub open spec fn is_dot(p: Seq<char>) -> bool { p == seq!['.'] }
pub open spec fn is_dotdot(p: Seq<char>) -> bool { p == seq!['.', '.'] }
pub open spec fn sub_skipped(p: Seq<char>) -> bool { p.len() == 0 || is_dot(p) || is_dotdot(p) }
pub open spec fn ns_skipped(p: Seq<char>) -> bool { p.len() == 0 }
pub open spec fn sub_bad(p: Seq<char>) -> bool {
    dec(p) is None || has_char(dec(p)->Some_0, '/') || is_dot(dec(p)->Some_0) || is_dotdot(dec(p)->Some_0)
}
pub open spec fn ns_bad(p: Seq<char>) -> bool { dec(p) is None || has_char(dec(p)->Some_0, '/') }
pub open spec fn join_push(acc: Seq<char>, seg: Seq<char>) -> Seq<char> { if acc.len() == 0 { seg } else { acc + seq!['/'] + seg } }

/// subpath: skip raw '', '.', '..'; refuse a piece that does not decode, or decodes to something containing '/' or to '.' / '..'
pub open spec fn sub_fold(pieces: Seq<Seq<char>>) -> Option<Seq<char>> decreases pieces.len() {
    if pieces.len() == 0 { Some(Seq::<char>::empty()) } else {
        match sub_fold(pieces.drop_last()) {
            None => None,
            Some(acc) => if sub_skipped(pieces.last()) { Some(acc) } else if sub_bad(pieces.last()) { None }
                         else { Some(join_push(acc, dec(pieces.last())->Some_0)) },
        }
    }
}
/// namespace: skip raw ''; refuse a piece that does not decode or decodes to something containing '/'
pub open spec fn ns_fold(pieces: Seq<Seq<char>>) -> Option<Seq<char>> decreases pieces.len() {
    if pieces.len() == 0 { Some(Seq::<char>::empty()) } else {
        match ns_fold(pieces.drop_last()) {
            None => None,
            Some(acc) => if ns_skipped(pieces.last()) { Some(acc) } else if ns_bad(pieces.last()) { None }
                         else { Some(join_push(acc, dec(pieces.last())->Some_0)) },
        }
    }
}

pub proof fn lemma_sub_fold_none(ps: Seq<Seq<char>>, k: int)
    requires 0 <= k <= ps.len(), sub_fold(ps.take(k)) is None
    ensures sub_fold(ps) is None
    decreases ps.len() - k
{
    if k < ps.len() {
        assert(ps.take(k + 1).drop_last() == ps.take(k));
        lemma_sub_fold_none(ps, k + 1);
    } else { assert(ps.take(k) == ps); }
}
pub proof fn lemma_ns_fold_none(ps: Seq<Seq<char>>, k: int)
    requires 0 <= k <= ps.len(), ns_fold(ps.take(k)) is None
    ensures ns_fold(ps) is None
    decreases ps.len() - k
{
    if k < ps.len() {
        assert(ps.take(k + 1).drop_last() == ps.take(k));
        lemma_ns_fold_none(ps, k + 1);
    } else { assert(ps.take(k) == ps); }
}

/// `[a, b, c].contains(&s)` on string slices
#[verifier::external_body]
pub fn x_is_one_of3(s: &str, a: &str, b: &str, c: &str) -> (r: bool)
    ensures r == (s@ == a@ || s@ == b@ || s@ == c@)
{ [a, b, c].contains(&s) }
#[verifier::external_body]
pub fn x_is_one_of2(s: &str, a: &str, b: &str) -> (r: bool)
    ensures r == (s@ == a@ || s@ == b@)
{ [a, b].contains(&s) }

/// `write!(w, "{}", d).unwrap()` on a String: appends the text (fmt::Write for String never fails)
#[verifier::external_body]
pub fn x_push_display(w: &mut String, d: &str)
    ensures final(w)@ == old(w)@ + d@
{ use std::fmt::Write; write!(w, "{}", d).unwrap() }

// ---- unit U-dec.decode  <= purl/src/parse.rs:297 ----
#[verifier::external_body]
pub fn decode(input: &str) -> (r: Result<Cow<str>, ParseError>)
    ensures match dec(input@) {
        None => r is Err && r->Err_0 == ParseError::InvalidEscape,
        Some(t) => r is Ok && r->Ok_0@ == t,
    }
{ unimplemented!() }
// ---- unit U-sub.decode_subpath  <= purl/src/parse.rs:234 ----
#[verifier::loop_isolation(false)]
pub fn decode_subpath(subpath: &str) -> (r: Result<SmallString, ParseError>)
    ensures match r {
        Ok(out) => sub_fold(split_spec(trim_spec(subpath@, '/'), '/')) == Some(out@),
        Err(e) => sub_fold(split_spec(trim_spec(subpath@, '/'), '/')) is None && e == ParseError::InvalidEscape,
    }
{
    proof { reveal_strlit(""); reveal_strlit("."); reveal_strlit("..");
        assert(""@ =~= Seq::<char>::empty()); assert("."@ =~= seq!['.']); assert(".."@ =~= seq!['.', '.']); }
    let ghost orig = subpath@;

    let subpath = x_trim_matches(subpath, '/');
    let mut rebuilt = SmallString::new();
    let pieces = x_split(subpath, '/');
    let ghost ps = split_spec(subpath@, '/');
    for segment in it: pieces 

        invariant
            it.seq() == pieces@, pieces@.len() == ps.len(),
            forall|i: int| 0 <= i < pieces@.len() ==> (#[trigger] pieces@[i])@ == ps[i],
            sub_fold(ps.take(it.index@ as int)) == Some(rebuilt@),
{
        
        proof {
            assert(ps.take(it.index@ + 1).drop_last() == ps.take(it.index@ as int));
            assert(segment@ == ps[it.index@ as int]);
            assert(ps.take(it.index@ + 1).last() == segment@);
            if segment@.len() == 0 { assert(segment@ =~= ""@); }
            if sub_fold(ps.take(it.index@ + 1)) is None { lemma_sub_fold_none(ps, it.index@ + 1); }
        }
if !(x_is_one_of3(segment, "", ".", "..")) {
        let decoded = decode(segment)?;
        if x_str_contains_char(&decoded, '/') || x_is_one_of2(&decoded, ".", "..") {
            return Err(ParseError::InvalidEscape);
        }
        if !rebuilt.is_empty() {
            rebuilt.push('/');
        }
        x_push_display(&mut rebuilt, &decoded);
    }
}
    
    proof { assert(ps.take(ps.len() as int) == ps); }
Ok(rebuilt)
}
// ---- unit U-ns.decode_namespace  <= purl/src/parse.rs:276 ----
#[verifier::loop_isolation(false)]
pub fn decode_namespace(namespace: &str) -> (r: Result<SmallString, ParseError>)
    ensures match r {
        Ok(out) => ns_fold(split_spec(trim_spec(namespace@, '/'), '/')) == Some(out@),
        Err(e) => ns_fold(split_spec(trim_spec(namespace@, '/'), '/')) is None && e == ParseError::InvalidEscape,
    }
{
    proof { reveal_strlit(""); reveal_strlit("."); reveal_strlit("..");
        assert(""@ =~= Seq::<char>::empty()); assert("."@ =~= seq!['.']); assert(".."@ =~= seq!['.', '.']); }
    let ghost orig = namespace@;

    let namespace = x_trim_matches(namespace, '/');
    let mut rebuilt = SmallString::new();
    let pieces = x_split(namespace, '/');
    let ghost ps = split_spec(namespace@, '/');
    for segment in it: pieces 

        invariant
            it.seq() == pieces@, pieces@.len() == ps.len(),
            forall|i: int| 0 <= i < pieces@.len() ==> (#[trigger] pieces@[i])@ == ps[i],
            ns_fold(ps.take(it.index@ as int)) == Some(rebuilt@),
{
        
        proof {
            assert(ps.take(it.index@ + 1).drop_last() == ps.take(it.index@ as int));
            assert(segment@ == ps[it.index@ as int]);
            assert(ps.take(it.index@ + 1).last() == segment@);
            if segment@.len() == 0 { assert(segment@ =~= ""@); }
            if ns_fold(ps.take(it.index@ + 1)) is None { lemma_ns_fold_none(ps, it.index@ + 1); }
        }
if !(segment.is_empty()) {
        let decoded = decode(segment)?;
        if x_str_contains_char(&decoded, '/') {
            return Err(ParseError::InvalidEscape);
        }
        if !rebuilt.is_empty() {
            rebuilt.push('/');
        }
        x_push_display(&mut rebuilt, &decoded);
    }
}
    
    proof { assert(ps.take(ps.len() as int) == ps); }
Ok(rebuilt)
}
// ---- property lemmas ----
// ---- C07 (L-seg): what a successful fold looks like ----
/// ASSUMED (A: bounded replay against the real decoder): a non-empty piece never decodes to the empty string
#[verifier::external_body]
pub proof fn axiom_dec_nonempty(p: Seq<char>)
    requires p.len() > 0, dec(p) is Some
    ensures dec(p)->Some_0.len() > 0
{ }

pub open spec fn join_segs(segs: Seq<Seq<char>>) -> Seq<char> decreases segs.len()
{ if segs.len() == 0 { Seq::<char>::empty() } else { join_push(join_segs(segs.drop_last()), segs.last()) } }

/// the decoded, non-skipped pieces of a subpath (meaningful when sub_fold is Some)
pub open spec fn sub_segs(pieces: Seq<Seq<char>>) -> Seq<Seq<char>> decreases pieces.len()
{
    if pieces.len() == 0 { Seq::<Seq<char>>::empty() }
    else if sub_skipped(pieces.last()) { sub_segs(pieces.drop_last()) }
    else { sub_segs(pieces.drop_last()).push(dec(pieces.last())->Some_0) }
}
pub open spec fn ns_segs(pieces: Seq<Seq<char>>) -> Seq<Seq<char>> decreases pieces.len()
{
    if pieces.len() == 0 { Seq::<Seq<char>>::empty() }
    else if ns_skipped(pieces.last()) { ns_segs(pieces.drop_last()) }
    else { ns_segs(pieces.drop_last()).push(dec(pieces.last())->Some_0) }
}

pub open spec fn clean_sub_seg(s: Seq<char>) -> bool { s.len() > 0 && !has_char(s, '/') && !is_dot(s) && !is_dotdot(s) }
pub open spec fn clean_ns_seg(s: Seq<char>) -> bool { s.len() > 0 && !has_char(s, '/') }

/// a successful subpath fold is the '/'-join of the decoded non-skipped pieces, every one of them clean
pub proof fn lemma_sub_fold_shape(ps: Seq<Seq<char>>)
    requires sub_fold(ps) is Some
    ensures
        sub_fold(ps)->Some_0 == join_segs(sub_segs(ps)),
        forall|i: int| 0 <= i < sub_segs(ps).len() ==> clean_sub_seg(#[trigger] sub_segs(ps)[i]),
    decreases ps.len()
{
    if ps.len() > 0 {
        let init = ps.drop_last();
        lemma_sub_fold_shape(init);
        if !sub_skipped(ps.last()) {
            axiom_dec_nonempty(ps.last());
            let d = dec(ps.last())->Some_0;
            let segs = sub_segs(ps);
            assert(segs.drop_last() == sub_segs(init));
            assert forall|i: int| 0 <= i < segs.len() implies clean_sub_seg(#[trigger] segs[i]) by {
                if i < segs.len() - 1 { assert(segs[i] == sub_segs(init)[i]); }
            }
        }
    }
}
pub proof fn lemma_ns_fold_shape(ps: Seq<Seq<char>>)
    requires ns_fold(ps) is Some
    ensures
        ns_fold(ps)->Some_0 == join_segs(ns_segs(ps)),
        forall|i: int| 0 <= i < ns_segs(ps).len() ==> clean_ns_seg(#[trigger] ns_segs(ps)[i]),
    decreases ps.len()
{
    if ps.len() > 0 {
        let init = ps.drop_last();
        lemma_ns_fold_shape(init);
        if !ns_skipped(ps.last()) {
            axiom_dec_nonempty(ps.last());
            let segs = ns_segs(ps);
            assert(segs.drop_last() == ns_segs(init));
            assert forall|i: int| 0 <= i < segs.len() implies clean_ns_seg(#[trigger] segs[i]) by {
                if i < segs.len() - 1 { assert(segs[i] == ns_segs(init)[i]); }
            }
        }
    }
}

pub proof fn lemma_first_index_prefix(a: Seq<char>, b: Seq<char>, c: char)
    requires has_char(a, c)
    ensures first_index_of(a + b, c) == first_index_of(a, c)
    decreases a.len()
{
    lemma_first_index(a, c);
    if a.len() > 0 {
        assert((a + b)[0] == a[0]);
        if a[0] != c {
            let a1 = a.subrange(1, a.len() as int);
            assert((a + b).subrange(1, (a + b).len() as int) =~= a1 + b);
            let i = choose|i: int| 0 <= i < a.len() && a[i] == c;
            assert(a1[i - 1] == c);
            lemma_first_index_prefix(a1, b, c);
        }
    }
}

pub proof fn lemma_split_no_sep(s: Seq<char>, c: char)
    requires !has_char(s, c)
    ensures split_spec(s, c) == seq![s]
{
    lemma_first_index(s, c);
}

/// appending `c` and a `c`-free tail appends one piece
pub proof fn lemma_split_append(a: Seq<char>, b: Seq<char>, c: char)
    requires !has_char(b, c)
    ensures split_spec(a + seq![c] + b, c) == split_spec(a, c).push(b)
    decreases a.len()
{
    let s = a + seq![c] + b;
    lemma_first_index(a, c);
    if !has_char(a, c) {
        lemma_split_join(a, b, c);
        assert(s.subrange(0, a.len() as int) =~= a);
        assert(s.subrange(a.len() as int + 1, s.len() as int) =~= b);
        lemma_split_no_sep(b, c);
        lemma_split_no_sep(a, c);
        assert(split_spec(s, c) =~= seq![a].push(b));
    } else {
        let i = first_index_of(a, c);
        assert(s =~= a + (seq![c] + b));
        lemma_first_index_prefix(a, seq![c] + b, c);
        let rest = a.subrange(i + 1, a.len() as int);
        assert(s.subrange(0, i) =~= a.subrange(0, i));
        assert(s.subrange(i + 1, s.len() as int) =~= rest + seq![c] + b);
        lemma_split_append(rest, b, c);
        assert(split_spec(s, c) =~= split_spec(a, c).push(b));
    }
}

pub proof fn lemma_join_nonempty(segs: Seq<Seq<char>>)
    requires segs.len() > 0, forall|i: int| 0 <= i < segs.len() ==> (#[trigger] segs[i]).len() > 0
    ensures join_segs(segs).len() > 0
{
}

/// C07: splitting the reported namespace / subpath at '/' gives back exactly the clean segments -- no empty
/// segment, hence no leading or trailing '/', and an escape neither split nor joined anything
pub proof fn lemma_split_of_join(segs: Seq<Seq<char>>)
    requires segs.len() > 0, forall|i: int| 0 <= i < segs.len() ==> (#[trigger] segs[i]).len() > 0 && !has_char(segs[i], '/')
    ensures split_spec(join_segs(segs), '/') == segs
    decreases segs.len()
{
    let init = segs.drop_last();
    if init.len() == 0 {
        assert(join_segs(segs) == segs[0]);
        lemma_split_no_sep(segs[0], '/');
        assert(segs =~= seq![segs[0]]);
    } else {
        assert forall|i: int| 0 <= i < init.len() implies (#[trigger] init[i]).len() > 0 && !has_char(init[i], '/') by { assert(init[i] == segs[i]); }
        lemma_split_of_join(init);
        lemma_join_nonempty(init);
        lemma_split_append(join_segs(init), segs.last(), '/');
        assert(init.push(segs.last()) =~= segs);
    }
}

/// C07, as stated: for every accepted subpath text
pub proof fn lemma_c07_subpath(ps: Seq<Seq<char>>)
    requires sub_fold(ps) is Some
    ensures ({
        let out = sub_fold(ps)->Some_0;
        if sub_segs(ps).len() == 0 { out.len() == 0 }      // reported as "no subpath"
        else {
            split_spec(out, '/') == sub_segs(ps)
            && forall|i: int| 0 <= i < sub_segs(ps).len() ==> clean_sub_seg(#[trigger] sub_segs(ps)[i])
        }
    })
{
    lemma_sub_fold_shape(ps);
    if sub_segs(ps).len() > 0 { lemma_split_of_join(sub_segs(ps)); }
}
pub proof fn lemma_c07_namespace(ps: Seq<Seq<char>>)
    requires ns_fold(ps) is Some
    ensures ({
        let out = ns_fold(ps)->Some_0;
        if ns_segs(ps).len() == 0 { out.len() == 0 }
        else {
            split_spec(out, '/') == ns_segs(ps)
            && forall|i: int| 0 <= i < ns_segs(ps).len() ==> clean_ns_seg(#[trigger] ns_segs(ps)[i])
        }
    })
{
    lemma_ns_fold_shape(ps);
    if ns_segs(ps).len() > 0 { lemma_split_of_join(ns_segs(ps)); }
}


// ---- consistency canary: must be REJECTED; if it verifies the assumptions are contradictory ----
pub proof fn verif_canary_must_fail()
{
    axiom_string_from(); broadcast use axiom_ascii_to_lower;
    assert(false);
}
} // verus!
fn main() {}
